(* Proofs about KV.Yaml.Fns (kept out of the model file). *)
From KV Require Import Yaml.Fns.

Section Proofs.
  Variable nonstr : string -> bool.

  (* a continuation that returns its argument unchanged *)
  Definition pure_k {A} (k : node -> res (node * A)) : Prop :=
    forall x x' a, k x = Ok (x', a) -> x' = x.

  Lemma set_first_same name kvs x :
    find_field name kvs = Some x -> set_first name x kvs = kvs.
  Proof.
    induction kvs as [|[k v] t IH]; cbn; intros H; [discriminate|].
    destruct (String.eqb k name) eqn:E.
    - inversion H; subst; reflexivity.
    - rewrite IH; auto.
  Qed.

  Lemma replace_nth_same {A} (l : list A) i x :
    nth_error l i = Some x -> replace_nth i x l = l.
  Proof.
    revert i; induction l as [|h t IH]; intros [|i]; cbn; intros H; try discriminate.
    - inversion H; reflexivity.
    - rewrite IH; auto.
  Qed.

  Ltac inv H := inversion H; subst; clear H.

  (* Lookup without creation never changes the document *)
  Lemma walk_nocreate_pure {A} (k : node -> res (node * A)) ps :
    pure_k k -> forall n n' r, walk None ps k n = Ok (n', r) -> n' = n.
  Proof.
    intros Hk. induction ps as [|p ps IH]; intros n n' r H; cbn in H.
    - destruct (k n) as [[x a]| | |] eqn:E; cbn in H; inv H. cbn. eapply Hk; eauto.
    - destruct p.
      + destruct n as [t s v|kvs|es]; try (destruct (is_null _); inv H; reflexivity).
        destruct (find_field k0 kvs) as [x|] eqn:F.
        * destruct (walk None ps k x) as [[x' r']| | |] eqn:W; cbn in H; inv H.
          apply IH in W; subst. cbn. rewrite set_first_same; auto.
        * inv H; reflexivity.
      + destruct n as [t s v|kvs|es]; try (destruct (is_null _); inv H; reflexivity).
        destruct (nth_error es i) as [e|] eqn:F.
        * destruct (walk None ps k e) as [[x' r']| | |] eqn:W; cbn in H; inv H.
          apply IH in W; subst. cbn. rewrite replace_nth_same; auto.
        * inv H; reflexivity.
      + destruct n as [t s v|kvs|es]; try (destruct (is_null _); inv H; reflexivity).
        destruct es as [|e0 es']; [inv H; reflexivity|].
        destruct (nth_error (e0 :: es') (List.length (e0 :: es') - 1)) as [e|] eqn:F; [|inv H; reflexivity].
        destruct (walk None ps k e) as [[x' r']| | |] eqn:W; cbn in H; inv H.
        apply IH in W; subst. cbn [fst]. rewrite replace_nth_same; auto.
      + destruct n as [t s v0|kvs|es]; try (destruct (is_null _); inv H; reflexivity).
        destruct (find_index (sel_match nm v) es) as [i|] eqn:FI.
        * destruct (nth_error es i) as [e|] eqn:F; [|inv H].
          destruct (walk None ps k e) as [[x' r']| | |] eqn:W; cbn in H; inv H.
          apply IH in W; subst. cbn. rewrite replace_nth_same; auto.
        * inv H; reflexivity.
      + inv H.
      + inv H.
      + inv H.
  Qed.

  Lemma k_get_pure : pure_k k_get.
  Proof. intros x x' a H; inversion H; reflexivity. Qed.
End Proofs.

(* ====================================================================================================
   Lens laws.  Layout: list facts; the one-level lens (child / plug) and its four laws; the
   path-level laws by induction on the path; instances for put / put_scalar / clear_at.
   ==================================================================================================== *)
From KV Require Import Yaml.FnsSpec.

Ltac inv H := inversion H; subst; clear H.

(* ---------- association lists ---------- *)
Lemma find_field_set_first_same name y kvs x :
  find_field name kvs = Some x -> find_field name (set_first name y kvs) = Some y.
Proof.
  induction kvs as [|[k v] t IH]; cbn; intros H; [discriminate|].
  destruct (String.eqb k name) eqn:E; cbn; rewrite E; auto.
Qed.

Lemma find_field_set_first_other a b y kvs :
  a <> b -> find_field b (set_first a y kvs) = find_field b kvs.
Proof.
  intros Hab. induction kvs as [|[k v] t IH]; cbn; [reflexivity|].
  destruct (String.eqb k a) eqn:E; cbn.
  - apply String.eqb_eq in E; subst k.
    destruct (String.eqb a b) eqn:E2; [apply String.eqb_eq in E2; contradiction|reflexivity].
  - destruct (String.eqb k b); auto.
Qed.

Lemma set_first_set_first name y z kvs :
  set_first name z (set_first name y kvs) = set_first name z kvs.
Proof.
  induction kvs as [|[k v] t IH]; cbn; [reflexivity|].
  destruct (String.eqb k name) eqn:E; cbn; rewrite E; [reflexivity|now rewrite IH].
Qed.

Lemma find_field_app_same name y kvs :
  find_field name kvs = None -> find_field name (kvs ++ [(name, y)]) = Some y.
Proof.
  induction kvs as [|[k v] t IH]; cbn; intros H.
  - now rewrite String.eqb_refl.
  - destruct (String.eqb k name); [discriminate|auto].
Qed.

Lemma find_field_app_other a b y kvs :
  a <> b -> find_field b (kvs ++ [(a, y)]) = find_field b kvs.
Proof.
  intros Hab. induction kvs as [|[k v] t IH]; cbn.
  - destruct (String.eqb a b) eqn:E; [apply String.eqb_eq in E; contradiction|reflexivity].
  - destruct (String.eqb k b); auto.
Qed.

Lemma set_first_app_same name y z kvs :
  find_field name kvs = None -> set_first name z (kvs ++ [(name, y)]) = (kvs ++ [(name, z)])%list.
Proof.
  induction kvs as [|[k v] t IH]; cbn; intros H.
  - now rewrite String.eqb_refl.
  - destruct (String.eqb k name); [discriminate|now rewrite IH].
Qed.

Lemma remove_first_absent name kvs :
  find_field name kvs = None -> remove_first name kvs = kvs.
Proof.
  induction kvs as [|[k v] t IH]; cbn; intros H; [reflexivity|].
  destruct (String.eqb k name); [discriminate|now rewrite IH].
Qed.

Lemma find_field_remove_first_other a b kvs :
  a <> b -> find_field b (remove_first a kvs) = find_field b kvs.
Proof.
  intros Hab. induction kvs as [|[k v] t IH]; cbn; [reflexivity|].
  destruct (String.eqb k a) eqn:E; cbn.
  - apply String.eqb_eq in E; subst k.
    destruct (String.eqb a b) eqn:E2; [apply String.eqb_eq in E2; contradiction|reflexivity].
  - destruct (String.eqb k b); auto.
Qed.

(* ---------- positional lists ---------- *)
Lemma length_replace_nth {A} i (y : A) l : List.length (replace_nth i y l) = List.length l.
Proof. revert i; induction l as [|h t IH]; intros [|i]; cbn; auto. Qed.

Lemma nth_error_replace_nth_same {A} (l : list A) i x y :
  nth_error l i = Some x -> nth_error (replace_nth i y l) i = Some y.
Proof. revert i; induction l as [|h t IH]; intros [|i]; cbn; intros H; try discriminate; auto. Qed.

Lemma nth_error_replace_nth_other {A} (l : list A) i j y :
  i <> j -> nth_error (replace_nth i y l) j = nth_error l j.
Proof.
  revert i j; induction l as [|h t IH]; intros [|i] [|j] H; cbn; auto; try congruence.
Qed.

Lemma replace_nth_replace_nth {A} (l : list A) i y z :
  replace_nth i z (replace_nth i y l) = replace_nth i z l.
Proof. revert i; induction l as [|h t IH]; intros [|i]; cbn; auto. now rewrite IH. Qed.

Lemma nth_error_app_last {A} (l : list A) y : nth_error (l ++ [y]) (List.length l) = Some y.
Proof. induction l; cbn; auto. Qed.

Lemma replace_nth_app_last {A} (l : list A) y z : replace_nth (List.length l) z (l ++ [y]) = (l ++ [z])%list.
Proof. induction l; cbn; auto. now rewrite IHl. Qed.

Lemma nth_error_app_old {A} (l : list A) y j x : nth_error l j = Some x -> nth_error (l ++ [y]) j = Some x.
Proof. revert j; induction l as [|h t IH]; intros [|j]; cbn; intros H; try discriminate; auto. Qed.

Lemma find_index_some {A} (f : A -> bool) l i :
  find_index f l = Some i -> exists e, nth_error l i = Some e /\ f e = true.
Proof.
  revert i; induction l as [|h t IH]; cbn; intros i H; [discriminate|].
  destruct (f h) eqn:E.
  - inv H. exists h; auto.
  - destruct (find_index f t) as [j|] eqn:F; cbn in H; inv H.
    destruct (IH j eq_refl) as [e [H1 H2]]. exists e; auto.
Qed.

Lemma find_index_replace_nth_same {A} (f : A -> bool) l i y :
  find_index f l = Some i -> f y = true -> find_index f (replace_nth i y l) = Some i.
Proof.
  revert i; induction l as [|h t IH]; cbn; intros i H Hy; [discriminate|].
  destruct (f h) eqn:E.
  - inv H. cbn. now rewrite Hy.
  - destruct (find_index f t) as [j|] eqn:F; cbn in H; inv H.
    cbn. rewrite E. now rewrite (IH j eq_refl Hy).
Qed.

Lemma find_index_replace_nth_other {A} (g : A -> bool) l i x y :
  nth_error l i = Some x -> g x = false -> g y = false ->
  find_index g (replace_nth i y l) = find_index g l.
Proof.
  revert i; induction l as [|h t IH]; intros [|i]; cbn; intros H Hx Hy; try discriminate.
  - inv H. now rewrite Hx, Hy.
  - destruct (g h); auto. now rewrite (IH i H Hx Hy).
Qed.

Lemma find_index_app_same {A} (f : A -> bool) l y :
  find_index f l = None -> f y = true -> find_index f (l ++ [y]) = Some (List.length l).
Proof.
  induction l as [|h t IH]; cbn; intros H Hy.
  - now rewrite Hy.
  - destruct (f h); [discriminate|].
    destruct (find_index f t) eqn:F; cbn in H; [discriminate|]. now rewrite IH.
Qed.

Lemma find_index_app_other {A} (g : A -> bool) l y :
  g y = false -> find_index g (l ++ [y]) = find_index g l.
Proof.
  intros Hy. induction l as [|h t IH]; cbn.
  - now rewrite Hy.
  - destruct (g h); auto. now rewrite IH.
Qed.

Lemma find_index_lt {A} (f : A -> bool) l i : find_index f l = Some i -> i < List.length l.
Proof.
  intros H. destruct (find_index_some _ _ _ H) as [e [H1 _]].
  apply nth_error_Some. congruence.
Qed.

(* ---------- selectors ---------- *)
Lemma sel_match_excl nm v w e : sel_match nm v e = true -> v <> w -> sel_match nm w e = false.
Proof.
  unfold sel_match. intros H Hvw.
  destruct (String.eqb nm "").
  - apply String.eqb_eq in H. apply String.eqb_neq. congruence.
  - destruct e as [| kvs |]; auto.
    destruct (find_field nm kvs); auto.
    apply String.eqb_eq in H. apply String.eqb_neq. congruence.
Qed.

Lemma sel_match_sel_new nm v : sel_match nm v (sel_new nm v) = true.
Proof.
  unfold sel_match, sel_new. destruct (String.eqb nm "") eqn:E; cbn.
  - apply String.eqb_refl.
  - rewrite String.eqb_refl. apply String.eqb_refl.
Qed.

(* ---------- the one-level lens: child / plug ---------- *)
(* what the value written back must satisfy for the part to select it again *)
Definition keeps (p : part) (y : node) : Prop :=
  match p with PSel nm v => sel_match nm v y = true | _ => True end.

Lemma plug_child p n x : child p n = Some x -> plug p n x = n.
Proof.
  destruct p, n; cbn; intros H; try discriminate.
  - now rewrite set_first_same.
  - now rewrite replace_nth_same.
  - destruct es; [discriminate|]. now rewrite replace_nth_same.
  - destruct (find_index (sel_match nm v) es); [|discriminate]. now rewrite replace_nth_same.
Qed.

Lemma child_plug p n x y : child p n = Some x -> keeps p y -> child p (plug p n y) = Some y.
Proof.
  destruct p, n; cbn; intros H K; try discriminate.
  - eapply find_field_set_first_same; eauto.
  - eapply nth_error_replace_nth_same; eauto.
  - destruct es as [|e es]; [discriminate|].
    rewrite length_replace_nth.
    destruct (replace_nth (List.length (e :: es) - 1) y (e :: es)) eqn:R.
    + apply (f_equal (@List.length node)) in R. rewrite length_replace_nth in R. discriminate.
    + rewrite <- R. eapply nth_error_replace_nth_same; eauto.
  - destruct (find_index (sel_match nm v) es) as [i|] eqn:F; [|discriminate].
    cbn. rewrite (find_index_replace_nth_same _ _ _ _ F K).
    eapply nth_error_replace_nth_same; eauto.
Qed.

Lemma plug_plug p n x y z : child p n = Some x -> keeps p y -> plug p (plug p n y) z = plug p n z.
Proof.
  destruct p, n; cbn; intros H K; try discriminate.
  - now rewrite set_first_set_first.
  - now rewrite replace_nth_replace_nth.
  - now rewrite length_replace_nth, replace_nth_replace_nth.
  - destruct (find_index (sel_match nm v) es) as [i|] eqn:F; [|discriminate].
    cbn. rewrite (find_index_replace_nth_same _ _ _ _ F K).
    now rewrite replace_nth_replace_nth.
Qed.

Lemma child_plug_apart p q n x y :
  apart p q -> child p n = Some x -> keeps p y -> child q (plug p n y) = child q n.
Proof.
  intros Hpq. destruct Hpq as [a b Hab|i j Hij|nm v w Hvw]; destruct n; cbn; intros H K; try discriminate.
  - now apply find_field_set_first_other.
  - now apply nth_error_replace_nth_other.
  - destruct (find_index (sel_match nm v) es) as [i|] eqn:F; [|discriminate].
    cbn.
    destruct (find_index_some _ _ _ F) as [e [He Me]].
    assert (Hx : x = e) by congruence. subst e.
    rewrite (find_index_replace_nth_other (sel_match nm w) es i x y He
               (sel_match_excl _ _ _ _ Me Hvw) (sel_match_excl _ _ _ _ K Hvw)).
    destruct (find_index (sel_match nm w) es) as [j|] eqn:G; [|reflexivity].
    apply nth_error_replace_nth_other.
    intros ->. destruct (find_index_some _ _ _ G) as [e' [He' Me']].
    assert (e' = x) by congruence. subst e'.
    rewrite (sel_match_excl _ _ _ _ Me Hvw) in Me'. discriminate.
Qed.

Lemma child_sel_matches nm v n x : child (PSel nm v) n = Some x -> sel_match nm v x = true.
Proof.
  destruct n; cbn; try discriminate.
  destruct (find_index (sel_match nm v) es) as [i|] eqn:F; [|discriminate].
  intros H. destruct (find_index_some _ _ _ F) as [e [He Me]]. congruence.
Qed.

(* ---------- walk, one step ---------- *)
Lemma walk_found {A} cr p ps (k : node -> res (node * A)) n x :
  child p n = Some x ->
  walk cr (p :: ps) k n = (do r <- walk cr ps k x; Ok (plug p n (fst r), snd r)).
Proof.
  destruct p, n; cbn; intros H; try discriminate.
  - now rewrite H.
  - now rewrite H.
  - destruct es as [|e es]; [discriminate|]. cbn in H |- *. now rewrite H.
  - destruct (find_index (sel_match nm v) es) as [i|]; [|discriminate]. now rewrite H.
Qed.

Lemma lookup_found p qs n x : child p n = Some x -> lookup (p :: qs) n = lookup qs x.
Proof.
  intros H. unfold lookup. rewrite (walk_found _ _ _ _ _ _ H).
  destruct (walk None qs k_get x) as [[d r]| | |]; reflexivity.
Qed.

Lemma no_null_child p ps n x :
  no_null_path (p :: ps) n = true -> child p n = Some x -> no_null_path ps x = true.
Proof. cbn. intros H C. rewrite C in H. apply andb_true_iff in H. tauto. Qed.

Lemma no_null_here ps n : no_null_path ps n = true -> is_null n = false.
Proof. destruct ps; cbn; intros H; apply andb_true_iff in H; destruct H as [H _]; now apply negb_true_iff in H. Qed.

(* A walk along a NON-EMPTY path never changes the constructor class of the node it starts from,
   and leaves a scalar untouched (so [node_value] is preserved at every interior position). *)
Lemma walk_nonempty_shape {A} cr p ps (k : node -> res (node * A)) n n' r :
  walk cr (p :: ps) k n = Ok (n', r) ->
  match n with
  | Scalar _ _ _ => n' = n
  | Map _ => is_map n' = true
  | Seq _ => is_seq n' = true
  end.
Proof.
  intros H. destruct p, n; cbn in H;
    repeat match type of H with
           | Err = Ok _ => discriminate
           | Panic = Ok _ => discriminate
           | Ok _ = Ok _ => inv H; try reflexivity
           | context [bind ?c _] => destruct c as [[? ?]| | |] eqn:?; cbn in H
           | context [match ?c with _ => _ end] => destruct c eqn:?; cbn in H
           | context [if ?c then _ else _] => destruct c eqn:?; cbn in H
           end; try reflexivity; try discriminate.
Qed.

Lemma walk_nonempty_value {A} cr p ps (k : node -> res (node * A)) n n' r :
  walk cr (p :: ps) k n = Ok (n', r) -> node_value n' = node_value n.
Proof.
  intros H. apply walk_nonempty_shape in H. destruct n; subst; auto; destruct n'; try discriminate; auto.
Qed.

Lemma stable_tail {A} p ps (k : node -> res (node * A)) : stable (p :: ps) k -> stable ps k.
Proof. destruct p; cbn; tauto. Qed.

(* (H1) at work: a selector that matched the element before the walk still matches it afterwards *)
Lemma sel_stable {A} cr ps (k : node -> res (node * A)) e e' r nm v :
  walk cr ps k e = Ok (e', r) -> sel_match nm v e = true -> stable_after nm v ps k ->
  sel_match nm v e' = true.
Proof.
  intros W M S. destruct ps as [|p rest].
  - cbn in W. destruct (k e) as [[y a]| | |] eqn:K; cbn in W; inv W. eapply S; eauto.
  - unfold sel_match in *. destruct (String.eqb nm "") eqn:E.
    + now rewrite (walk_nonempty_value _ _ _ _ _ _ _ W).
    + destruct e as [|kvs|]; try discriminate.
      destruct (find_field nm kvs) as [x|] eqn:Fx; [|discriminate].
      destruct p; cbn in W; try discriminate.
      destruct (find_field k0 kvs) as [y|] eqn:Fy.
      * destruct (walk cr rest k y) as [[y' r']| | |] eqn:W'; cbn in W; inv W.
        destruct (String.eqb_spec k0 nm) as [->|Hne].
        -- rewrite (find_field_set_first_same _ _ _ _ Fy).
           assert (y = x) by congruence; subst y.
           destruct rest as [|p2 rest'].
           ++ cbn in W'. destruct (k x) as [[z a]| | |] eqn:K; cbn in W'; inv W'.
              cbn in S. rewrite (S eq_refl (proj1 (String.eqb_neq _ _) E) _ _ _ K). exact M.
           ++ now rewrite (walk_nonempty_value _ _ _ _ _ _ _ W').
        -- rewrite (find_field_set_first_other _ _ _ _ Hne), Fx. exact M.
      * assert (Hne : k0 <> nm) by (intros ->; congruence).
        destruct cr as [leaf|].
        -- destruct (walk (Some leaf) rest k _) as [[y' r']| | |] eqn:W'; cbn in W; inv W.
           rewrite (find_field_app_other _ _ _ _ Hne), Fx. exact M.
        -- inv W. rewrite Fx. exact M.
Qed.

Lemma keeps_after_walk {A} cr p ps (k : node -> res (node * A)) n x x' r :
  child p n = Some x -> walk cr ps k x = Ok (x', r) -> stable (p :: ps) k -> keeps p x'.
Proof.
  intros C W S. destruct p; cbn; auto.
  eapply sel_stable; eauto.
  - eapply child_sel_matches; eauto.
  - cbn in S. tauto.
Qed.

(* freshly created nodes contain no null *)
Lemma no_null_empty_of ps kd : no_null_path ps (empty_of kd) = true.
Proof.
  destruct ps as [|p ps]; destruct kd; try reflexivity; destruct p; try reflexivity;
    cbn; destruct i; reflexivity.
Qed.

Lemma no_null_sel_new ps nm v : no_null_path ps (sel_new nm v) = true.
Proof.
  unfold sel_new. destruct (String.eqb nm "").
  - destruct ps as [|p ps]; [reflexivity|destruct p; reflexivity].
  - destruct ps as [|p ps]; [reflexivity|]. destruct p; try reflexivity.
    cbn. destruct (String.eqb nm k); [|reflexivity].
    destruct ps as [|p ps]; [reflexivity|destruct p; reflexivity].
Qed.

(* inversion of a successful step whose child is absent *)
Lemma walk_missing {A} cr p ps (k : node -> res (node * A)) n n' r :
  child p n = None -> walk cr (p :: ps) k n = Ok (n', r) ->
  (n' = n /\ r = None)
  \/ (exists name kvs leaf y, p = PKey name /\ n = Map kvs /\ cr = Some leaf /\ find_field name kvs = None /\
        walk cr ps k (empty_of (kind_before (hd_error ps) leaf)) = Ok (y, r) /\ n' = Map (kvs ++ [(name, y)]))
  \/ (exists nm v es leaf y, p = PSel nm v /\ n = Seq es /\ cr = Some leaf /\
        find_index (sel_match nm v) es = None /\
        walk cr ps k (sel_new nm v) = Ok (y, r) /\ n' = Seq (es ++ [y]))
  \/ (exists nm v leaf y, p = PSel nm v /\ is_null n = true /\ cr = Some leaf /\
        walk cr ps k (sel_new nm v) = Ok (y, r) /\ n' = n).
Proof.
  intros C H. destruct p; try (cbn in H; discriminate).
  - (* PKey *) destruct n as [t s v|kvs|es]; cbn in H, C.
    + destruct t; inv H; auto.
    + rewrite C in H. destruct cr as [leaf|]; [|inv H; auto].
      destruct (walk (Some leaf) ps k _) as [[y r']| | |] eqn:W; cbn in H; inv H.
      right; left. exists k0, kvs, leaf, y. auto 10.
    + discriminate.
  - (* PIdx *) destruct n as [t s v|kvs|es]; cbn in H, C.
    + destruct t; inv H; auto.
    + discriminate.
    + rewrite C in H. inv H; auto.
  - (* PLast *) destruct n as [t s v|kvs|es]; cbn in H, C.
    + destruct t; inv H; auto.
    + discriminate.
    + destruct es as [|e es]; [inv H; auto|]. cbn in C, H. rewrite C in H. inv H; auto.
  - (* PSel *) destruct n as [t s v0|kvs|es]; cbn in H, C.
    + destruct t; try discriminate.
      destruct cr as [leaf|]; [|inv H; auto].
      destruct (walk (Some leaf) ps k _) as [[y r']| | |] eqn:W; cbn in H; inv H.
      right; right; right. exists nm, v, leaf, y. auto 10.
    + discriminate.
    + destruct (find_index (sel_match nm v) es) as [i|] eqn:F.
      * rewrite C in H. discriminate.
      * destruct cr as [leaf|]; [|inv H; auto].
        destruct (walk (Some leaf) ps k _) as [[y r']| | |] eqn:W; cbn in H; inv H.
        right; right; left. exists nm, v, es, leaf, y. auto 10.
Qed.

Lemma walk_get_found p ps n y z :
  child p n = Some y -> walk None ps k_get y = Ok (y, Some z) ->
  walk None (p :: ps) k_get n = Ok (n, Some z).
Proof. intros C W. rewrite (walk_found _ _ _ _ _ _ C), W. cbn. now rewrite (plug_child _ _ _ C). Qed.

(* ---------- PUT-GET ---------- *)
Lemma walk_put_get {A} cr ps (k : node -> res (node * A)) :
  stable ps k ->
  forall n n' a, no_null_path ps n = true -> walk cr ps k n = Ok (n', Some a) ->
  exists x x', is_null x = false /\ k x = Ok (x', a) /\ walk None ps k_get n' = Ok (n', Some x').
Proof.
  induction ps as [|p ps IH]; intros S n n' a NN H.
  - cbn in H. destruct (k n) as [[x' a']| | |] eqn:K; cbn in H; inv H.
    exists n, n'. apply no_null_here in NN. auto.
  - pose proof (stable_tail _ _ _ S) as S'.
    destruct (child p n) as [x|] eqn:C.
    + rewrite (walk_found _ _ _ _ _ _ C) in H.
      destruct (walk cr ps k x) as [[x' r']| | |] eqn:W; cbn in H; inv H.
      destruct (IH S' _ _ _ (no_null_child _ _ _ _ NN C) W) as [x0 [x0' [N0 [K G]]]].
      exists x0, x0'. split; [exact N0|]. split; [exact K|].
      eapply walk_get_found; [|exact G].
      eapply child_plug; eauto. eapply keeps_after_walk; eauto.
    + destruct (walk_missing _ _ _ _ _ _ _ C H) as
        [[_ Hr]|[(name & kvs & leaf & y & -> & -> & -> & F & W & ->)
                |[(nm & v & es & leaf & y & -> & -> & -> & F & W & ->)
                 |(nm & v & leaf & y & -> & N & _)]]].
      * discriminate.
      * destruct (IH S' _ _ _ (no_null_empty_of _ _) W) as [x0 [x0' [N0 [K G]]]].
        exists x0, x0'. split; [exact N0|]. split; [exact K|].
        eapply walk_get_found; [|exact G]. cbn. now apply find_field_app_same.
      * destruct (IH S' _ _ _ (no_null_sel_new _ _ _) W) as [x0 [x0' [N0 [K G]]]].
        exists x0, x0'. split; [exact N0|]. split; [exact K|].
        eapply walk_get_found; [|exact G]. cbn.
        assert (M : sel_match nm v y = true).
        { eapply sel_stable; [exact W|apply sel_match_sel_new|]. cbn in S; tauto. }
        rewrite (find_index_app_same _ _ _ F M). apply nth_error_app_last.
      * apply no_null_here in NN. congruence.
Qed.

(* ---------- GET-PUT ---------- *)
Lemma lookup_missing_not_found p ps n x : child p n = None -> lookup (p :: ps) n <> Ok (Some x).
Proof.
  intros C H. unfold lookup in H.
  destruct (walk None (p :: ps) k_get n) as [[n' r]| | |] eqn:W; cbn in H; try discriminate.
  destruct (walk_missing _ _ _ _ _ _ _ C W) as
    [[_ ->]|[(? & ? & ? & ? & _ & _ & ? & _)|[(? & ? & ? & ? & ? & _ & _ & ? & _)|(? & ? & ? & ? & _ & _ & ? & _)]]];
    discriminate.
Qed.

Lemma walk_get_put {A} cr ps (k : node -> res (node * A)) :
  forall n x a, lookup ps n = Ok (Some x) -> k x = Ok (x, a) -> walk cr ps k n = Ok (n, Some a).
Proof.
  induction ps as [|p ps IH]; intros n x a L K.
  - cbn in L. inv L. cbn. now rewrite K.
  - destruct (child p n) as [y|] eqn:C.
    + rewrite (lookup_found _ _ _ _ C) in L.
      rewrite (walk_found _ _ _ _ _ _ C), (IH _ _ _ L K). cbn. now rewrite (plug_child _ _ _ C).
    + exfalso. eapply lookup_missing_not_found; eauto.
Qed.

(* ---------- PUT-PUT (fusion) ---------- *)
Lemma walk_fusion {A B} cr ps (k1 : node -> res (node * A)) (k2 : node -> res (node * B)) :
  stable ps k1 ->
  forall n n1 a1, no_null_path ps n = true -> walk cr ps k1 n = Ok (n1, Some a1) ->
  walk cr ps k2 n1 = walk cr ps (kseq k1 k2) n.
Proof.
  induction ps as [|p ps IH]; intros S n n1 a1 NN H.
  - cbn in H. destruct (k1 n) as [[x' a']| | |] eqn:K; cbn in H; inv H.
    cbn. unfold kseq. now rewrite K.
  - pose proof (stable_tail _ _ _ S) as S'.
    destruct (child p n) as [x|] eqn:C.
    + rewrite (walk_found _ _ _ _ _ _ C) in H.
      destruct (walk cr ps k1 x) as [[x1 r1]| | |] eqn:W; cbn in H; inv H.
      assert (Kp : keeps p x1) by (eapply keeps_after_walk; eauto).
      rewrite (walk_found _ _ _ _ _ _ (child_plug _ _ _ _ C Kp)).
      rewrite (walk_found _ _ _ _ _ _ C).
      rewrite (IH S' _ _ _ (no_null_child _ _ _ _ NN C) W).
      destruct (walk cr ps (kseq k1 k2) x) as [[z rz]| | |]; cbn; auto.
      now rewrite (plug_plug _ _ _ _ _ C Kp).
    + destruct (walk_missing _ _ _ _ _ _ _ C H) as
        [[_ Hr]|[(name & kvs & leaf & y & -> & -> & -> & F & W & ->)
                |[(nm & v & es & leaf & y & -> & -> & -> & F & W & ->)
                 |(nm & v & leaf & y & -> & N & _)]]].
      * discriminate.
      * assert (C1 : child (PKey name) (Map (kvs ++ [(name, y)])) = Some y)
          by (cbn; now apply find_field_app_same).
        rewrite (walk_found _ _ _ _ _ _ C1).
        rewrite (IH S' _ _ _ (no_null_empty_of _ _) W).
        cbn. rewrite F.
        destruct (walk (Some leaf) ps (kseq k1 k2) _) as [[z rz]| | |]; cbn; auto.
        now rewrite (set_first_app_same _ _ _ _ F).
      * assert (M : sel_match nm v y = true).
        { eapply sel_stable; [exact W|apply sel_match_sel_new|]. cbn in S; tauto. }
        assert (C1 : child (PSel nm v) (Seq (es ++ [y])) = Some y).
        { cbn. rewrite (find_index_app_same _ _ _ F M). apply nth_error_app_last. }
        rewrite (walk_found _ _ _ _ _ _ C1).
        rewrite (IH S' _ _ _ (no_null_sel_new _ _ _) W).
        cbn. rewrite F.
        destruct (walk (Some leaf) ps (kseq k1 k2) _) as [[z rz]| | |]; cbn; auto.
        rewrite (find_index_app_same _ _ _ F M). now rewrite replace_nth_app_last.
      * apply no_null_here in NN. congruence.
Qed.

(* ---------- FRAME ---------- *)
Definition same_container (n n' : node) : Prop :=
  match n, n' with Map _, Map _ | Seq _, Seq _ => True | _, _ => False end.

Lemma lookup_cons_congr q qs n n' :
  child q n' = child q n -> same_container n n' -> lookup (q :: qs) n' = lookup (q :: qs) n.
Proof.
  intros E SC. destruct (child q n) as [z|] eqn:C.
  - now rewrite (lookup_found _ _ _ _ E), (lookup_found _ _ _ _ C).
  - unfold lookup.
    destruct q; destruct n, n'; cbn in SC; try contradiction; cbn in E, C |- *; try reflexivity.
    + now rewrite E, C.
    + now rewrite E, C.
    + destruct es0 as [|e0 es0]; destruct es as [|e es]; cbn in *;
        try rewrite E; try rewrite C; reflexivity.
    + destruct (find_index (sel_match nm v) es0) as [i|] eqn:F0;
        [destruct (find_index_some _ _ _ F0) as [? [? _]]; congruence|].
      destruct (find_index (sel_match nm v) es) as [j|] eqn:F1;
        [destruct (find_index_some _ _ _ F1) as [? [? _]]; congruence|].
      reflexivity.
Qed.

Lemma no_sel_key_read_tail q qs : no_sel_key_read (q :: qs) -> no_sel_key_read qs.
Proof. destruct q; cbn; tauto. Qed.

(* The frame law, in the general form: q diverges from the write path p at some part, or agrees with all
   of p and continues with a rest on which the continuation k itself has the frame property. *)
Section FrameEnd.
  Context {A : Type}.
  Variable k : node -> res (node * A).
  Variable ok_end : list part -> Prop.
  Hypothesis E1 : forall qs x x' a, ok_end qs -> k x = Ok (x', a) -> lookup qs x' = lookup qs x.
  Hypothesis E2 : forall qs leaf x' a, ok_end qs -> k (empty_of leaf) = Ok (x', a) ->
                                       lookup qs (empty_of leaf) = Ok None.
  Hypothesis E3 : forall qs nm v x' a, ok_end qs -> k (sel_new nm v) = Ok (x', a) ->
                                       match qs with PKey name :: _ => name <> nm | _ => True end ->
                                       lookup qs (sel_new nm v) = Ok None.

  (* a path diverging from the one along which a fresh node was populated finds nothing in the fresh node *)
  Lemma lookup_fresh_none cr ps qs leaf y r :
    diverges_end ok_end ps qs ->
    walk cr ps k (empty_of (kind_before (hd_error ps) leaf)) = Ok (y, r) ->
    lookup qs (empty_of (kind_before (hd_error ps) leaf)) = Ok None.
  Proof.
    intros D W. destruct D as [qs Hq|p q ps qs Hpq|p ps qs D].
    - cbn in *. destruct (k (empty_of leaf)) as [[x' a]| | |] eqn:K; cbn in W; inv W. eapply E2; eauto.
    - destruct Hpq; cbn in *; try reflexivity. destruct j; reflexivity.
    - destruct p; cbn in *; try reflexivity; try discriminate. destruct i; reflexivity.
  Qed.

  Lemma lookup_sel_new_none cr ps qs nm v y r :
    diverges_end ok_end ps qs ->
    walk cr ps k (sel_new nm v) = Ok (y, r) ->
    match qs with PKey name :: _ => name <> nm | _ => True end ->
    lookup qs (sel_new nm v) = Ok None.
  Proof.
    intros D W NK.
    destruct D as [qs Hq|p q ps qs Hpq|p ps qs D].
    { cbn in W. destruct (k (sel_new nm v)) as [[x' a]| | |] eqn:K; cbn in W; inv W. eapply E3; eauto. }
    all: unfold sel_new in *; destruct (String.eqb nm "") eqn:E.
    - destruct p; cbn in W; discriminate.
    - assert (forall b, b <> nm -> String.eqb nm b = false) as Hne
          by (intros b Hb; apply String.eqb_neq; congruence).
      destruct Hpq; cbn in W; try discriminate. unfold lookup; cbn. now rewrite (Hne _ NK).
    - destruct p; cbn in W; discriminate.
    - assert (forall b, b <> nm -> String.eqb nm b = false) as Hne
          by (intros b Hb; apply String.eqb_neq; congruence).
      destruct p; cbn in W; try discriminate. unfold lookup; cbn. now rewrite (Hne _ NK).
  Qed.

  Lemma walk_frame_end cr ps :
    stable ps k ->
    forall qs n n' r, diverges_end ok_end ps qs -> (no_sel_key_read qs \/ lookup qs n <> Ok None) ->
    walk cr ps k n = Ok (n', r) -> lookup qs n' = lookup qs n.
  Proof.
    induction ps as [|p ps IH]; intros S qs n n' r D SC H.
    { inversion D; subst. cbn in H. destruct (k n) as [[x' a]| | |] eqn:K; cbn in H; inv H. eapply E1; eauto. }
    pose proof (stable_tail _ _ _ S) as S'.
    inversion D as [|p0 q ps0 qs' Hpq|p0 ps0 qs' D']; subst; clear D.
    - (* the paths part here *)
      destruct (child p n) as [x|] eqn:C.
      + rewrite (walk_found _ _ _ _ _ _ C) in H.
        destruct (walk cr ps k x) as [[x' r']| | |] eqn:W; cbn in H; inv H.
        apply lookup_cons_congr.
        * eapply child_plug_apart; eauto. eapply keeps_after_walk; eauto.
        * destruct Hpq; destruct n; cbn in C |- *; try discriminate; auto.
          destruct (find_index (sel_match nm v) es); [exact I|discriminate].
      + destruct (walk_missing _ _ _ _ _ _ _ C H) as
          [[-> _]|[(name & kvs & leaf & y & -> & -> & -> & F & W & ->)
                  |[(nm & v & es & leaf & y & -> & -> & -> & F & W & ->)
                   |(nm & v & leaf & y & -> & N & _ & _ & ->)]]]; try reflexivity.
        * inversion Hpq; subst. apply lookup_cons_congr; [|exact I].
          cbn. now apply find_field_app_other.
        * inversion Hpq; subst. apply lookup_cons_congr; [|exact I].
          assert (M : sel_match nm v y = true).
          { eapply sel_stable; [exact W|apply sel_match_sel_new|]. cbn in S; tauto. }
          cbn. rewrite (find_index_app_other _ _ _ (sel_match_excl _ _ _ _ M H3)).
          destruct (find_index (sel_match nm w) es) as [j|] eqn:G; [|reflexivity].
          destruct (find_index_some _ _ _ G) as [e [He _]].
          rewrite He. eapply nth_error_app_old; eauto.
    - (* common first part *)
      destruct (child p n) as [x|] eqn:C.
      + rewrite (walk_found _ _ _ _ _ _ C) in H.
        destruct (walk cr ps k x) as [[x' r']| | |] eqn:W; cbn in H; inv H.
        assert (Kp : keeps p x') by (eapply keeps_after_walk; eauto).
        rewrite (lookup_found _ _ _ _ (child_plug _ _ _ _ C Kp)), (lookup_found _ _ _ _ C).
        eapply IH; eauto.
        destruct SC as [SC|SC]; [left; eapply no_sel_key_read_tail; eauto|right].
        now rewrite (lookup_found _ _ _ _ C) in SC.
      + destruct (walk_missing _ _ _ _ _ _ _ C H) as
          [[-> _]|[(name & kvs & leaf & y & -> & -> & -> & F & W & ->)
                  |[(nm & v & es & leaf & y & -> & -> & -> & F & W & ->)
                   |(nm & v & leaf & y & -> & N & _ & _ & ->)]]]; try reflexivity.
        * assert (L0 : lookup (PKey name :: qs') (Map kvs) = Ok None) by (unfold lookup; cbn; now rewrite F).
          destruct SC as [SC|SC]; [|congruence].
          rewrite L0.
          assert (C1 : child (PKey name) (Map (kvs ++ [(name, y)])) = Some y)
            by (cbn; now apply find_field_app_same).
          rewrite (lookup_found _ _ _ _ C1).
          rewrite (IH S' qs' _ _ _ D' (or_introl (no_sel_key_read_tail _ _ SC)) W).
          eapply lookup_fresh_none; eauto.
        * assert (L0 : lookup (PSel nm v :: qs') (Seq es) = Ok None) by (unfold lookup; cbn; now rewrite F).
          destruct SC as [SC|SC]; [|congruence].
          rewrite L0.
          assert (M : sel_match nm v y = true).
          { eapply sel_stable; [exact W|apply sel_match_sel_new|]. cbn in S; tauto. }
          assert (C1 : child (PSel nm v) (Seq (es ++ [y])) = Some y).
          { cbn. rewrite (find_index_app_same _ _ _ F M). apply nth_error_app_last. }
          rewrite (lookup_found _ _ _ _ C1).
          rewrite (IH S' qs' _ _ _ D' (or_introl (no_sel_key_read_tail _ _ SC)) W).
          eapply lookup_sel_new_none; eauto.
          cbn in SC. destruct qs' as [|[] ?]; tauto.
  Qed.
End FrameEnd.

Lemma diverges_diverges_end ps qs : diverges ps qs -> diverges_end (fun _ => False) ps qs.
Proof. induction 1; [now apply dve_here|now apply dve_later]. Qed.

Lemma walk_frame {A} cr ps (k : node -> res (node * A)) :
  stable ps k ->
  forall qs n n' r, diverges ps qs -> (no_sel_key_read qs \/ lookup qs n <> Ok None) ->
  walk cr ps k n = Ok (n', r) -> lookup qs n' = lookup qs n.
Proof.
  intros S qs n n' r D. apply (walk_frame_end k (fun _ => False)); try tauto.
  now apply diverges_diverges_end.
Qed.

(* ---------- absent children without creation; composition of lookups ---------- *)
Definition miss {A} (p : part) (n : node) : res (node * option A) :=
  match p with
  | PKey _ => match n with Map _ => Ok (n, None) | _ => if is_null n then Ok (n, None) else Err end
  | PIdx _ => match n with Seq _ => Ok (n, None) | _ => if is_null n then Ok (n, None) else Err end
  | PLast => match n with Seq _ => Ok (n, None) | _ => if is_null n then Ok (n, None) else Err end
  | PSel _ _ => match n with Seq _ => Ok (n, None) | _ => if is_null n then Ok (n, None) else Err end
  | _ => Err
  end.

Lemma walk_missing_nocreate {A} p ps (k : node -> res (node * A)) n :
  child p n = None -> walk None (p :: ps) k n = miss p n.
Proof.
  intros C. destruct p; destruct n as [t s v0|kvs|es]; cbn in C |- *; try reflexivity; try discriminate.
  - now rewrite C.
  - now rewrite C.
  - destruct es as [|e es]; [reflexivity|]. cbn in C |- *. now rewrite C.
  - destruct (find_index (sel_match nm v) es) as [i|] eqn:F; [|reflexivity].
    destruct (find_index_some _ _ _ F) as [? [? _]]; congruence.
Qed.

Lemma lookup_app ps qs n :
  lookup (ps ++ qs) n =
  match lookup ps n with
  | Ok (Some x) => lookup qs x
  | Ok None => Ok None
  | Err => Err
  | Panic => Panic
  | Diverge => Diverge
  end.
Proof.
  revert n; induction ps as [|p ps IH]; intros n; [reflexivity|].
  destruct (child p n) as [x|] eqn:C.
  - cbn [app]. now rewrite !(lookup_found _ _ _ _ C).
  - cbn [app]. unfold lookup at 1 2. rewrite !(walk_missing_nocreate _ _ _ _ C).
    destruct p; destruct n as [t s v0|kvs|es]; cbn; try reflexivity; try (destruct t; reflexivity).
Qed.

Lemma lookup_none_walk {A} ps (k : node -> res (node * A)) :
  forall n, lookup ps n = Ok None -> walk None ps k n = Ok (n, None).
Proof.
  induction ps as [|p ps IH]; intros n L; [discriminate|].
  destruct (child p n) as [x|] eqn:C.
  - rewrite (lookup_found _ _ _ _ C) in L.
    rewrite (walk_found _ _ _ _ _ _ C), (IH _ L). cbn. now rewrite (plug_child _ _ _ C).
  - unfold lookup in L. rewrite (walk_missing_nocreate _ _ _ _ C) in L. rewrite (walk_missing_nocreate _ _ _ _ C).
    destruct p; destruct n as [t s v0|kvs|es]; cbn in L |- *; try discriminate; try reflexivity;
      try (destruct t; cbn in L |- *; try discriminate; reflexivity).
Qed.

(* ---------- continuations equal up to a congruence give walks equal up to it ---------- *)
Section WalkRel.
  Variable R : node -> node -> Prop.
  Hypothesis R_refl : forall n, R n n.
  Hypothesis R_plug : forall p n y y', R y y' -> R (plug p n y) (plug p n y').
  Hypothesis R_map_app : forall kvs name y y', R y y' -> R (Map (kvs ++ [(name, y)])) (Map (kvs ++ [(name, y')])).
  Hypothesis R_seq_app : forall es y y', R y y' -> R (Seq (es ++ [y])) (Seq (es ++ [y'])).

  Definition rel_res {B} (a b : res (node * B)) : Prop :=
    match a, b with
    | Ok (d, r), Ok (d', r') => R d d' /\ r = r'
    | Err, Err | Panic, Panic | Diverge, Diverge => True
    | _, _ => False
    end.

  Lemma walk_rel {A} cr ps (k k' : node -> res (node * A)) :
    (forall x, rel_res (k x) (k' x)) ->
    forall n, rel_res (walk cr ps k n) (walk cr ps k' n).
  Proof.
    intros HK. induction ps as [|p ps IH]; intros n.
    - cbn. specialize (HK n). destruct (k n) as [[y a]| | |], (k' n) as [[y' a']| | |]; cbn in *; try tauto.
      destruct HK; subst; auto.
    - destruct (child p n) as [x|] eqn:C.
      + rewrite !(walk_found _ _ _ _ _ _ C). specialize (IH x).
        destruct (walk cr ps k x) as [[y a]| | |], (walk cr ps k' x) as [[y' a']| | |]; cbn in *; try tauto.
        destruct IH; subst; auto.
      + destruct cr as [leaf|]; [|rewrite !(walk_missing_nocreate _ _ _ _ C);
                                  destruct (@miss A p n) as [[d r]| | |]; cbn; auto].
        destruct p; destruct n as [t s v0|kvs|es]; cbn in C |- *; try discriminate; auto;
          try (destruct t; cbn; auto; fail).
        all: try (destruct t; cbn; auto).
        all: try (rewrite C; cbn; auto).
        all: try (destruct es as [|e es]; cbn; auto; cbn in C; rewrite C; cbn; auto; fail).
        all: try (destruct (find_index (sel_match nm v) es) as [i|] eqn:F; [rewrite C; cbn; auto|]).
        all: match goal with
             | |- rel_res (bind (walk _ _ _ ?f) _) _ => specialize (IH f)
             end;
          match goal with
          | |- rel_res (bind ?w1 _) (bind ?w2 _) =>
              destruct w1 as [[y a]| | |], w2 as [[y' a']| | |]
          end; cbn in *; try tauto; destruct IH; subst; auto.
  Qed.
End WalkRel.

Lemma walk_ext {A} cr ps (k k' : node -> res (node * A)) :
  (forall x, k x = k' x) -> forall n, walk cr ps k n = walk cr ps k' n.
Proof.
  intros HK n.
  assert (H : rel_res eq (walk cr ps k n) (walk cr ps k' n)).
  { apply walk_rel; try congruence; auto.
    intros x. rewrite HK. destruct (k' x) as [[y a]| | |]; cbn; auto. }
  destruct (walk cr ps k n) as [[d r]| | |], (walk cr ps k' n) as [[d' r']| | |]; cbn in H; try tauto.
  destruct H; subst; auto.
Qed.

(* ====================================================================================================
   Instances: the operations the property talks about (put / put_scalar / clear_at / lookup)
   ==================================================================================================== *)
Section Instances.
  Variable nonstr : string -> bool.

  Lemma with_style_style_of v : with_style (style_of v) v = v.
  Proof. destruct v; reflexivity. Qed.

  Lemma quote11_with_style v : exists s, quote11 nonstr v = with_style s v.
  Proof.
    destruct v as [t s v| |]; try (exists SPlain; reflexivity).
    destruct s; try (eexists; reflexivity).
    destruct t; cbn; try (exists SPlain; reflexivity);
      destruct (nonstr v); (exists SDouble; reflexivity) || (exists SPlain; reflexivity).
  Qed.

  Lemma with_style_idem s v : with_style (style_of (with_style s v)) v = with_style s v.
  Proof. destruct v; reflexivity. Qed.

  Lemma quote11_idem v : with_style (style_of (quote11 nonstr v)) v = quote11 nonstr v.
  Proof. destruct (quote11_with_style v) as [s ->]. apply with_style_idem. Qed.

  Lemma is_null_with_style s v : is_null (with_style s v) = is_null v.
  Proof. destruct v; reflexivity. Qed.

  Lemma unstyle_with_style s v : unstyle (with_style s v) = unstyle v.
  Proof. destruct v; reflexivity. Qed.

  (* FieldSetter with a non-null value, on a non-null node: the node is a mapping and the field now holds v
     (up to the style kept from the old value / forced by the YAML 1.1 quoting) *)
  Lemma set_field_spec name v x x' :
    is_null v = false -> set_field nonstr name (Some v) false x = Ok x' ->
    (is_null x = true /\ x' = x) \/
    (exists kvs s, x = Map kvs /\
       ((exists old, find_field name kvs = Some old /\ s = style_of old /\
                     x' = Map (set_first name (with_style s v) kvs))
        \/ (find_field name kvs = None /\ with_style s v = quote11 nonstr v /\
            x' = Map (kvs ++ [(name, with_style s v)])))).
  Proof.
    intros Nv H. unfold set_field in H. rewrite Nv in H. cbn in H.
    destruct x as [t s0 v0|kvs|es].
    - destruct (is_null (Scalar t s0 v0)) eqn:N; inv H. auto.
    - right. destruct (find_field name kvs) as [old|] eqn:F; inv H.
      + exists kvs, (style_of old). split; auto. left. exists old. auto.
      + destruct (quote11_with_style v) as [s Hs]. exists kvs, s. split; auto. right.
        rewrite <- Hs. auto.
    - discriminate.
  Qed.

  Lemma set_field_keeps_value name v : k_keeps_value (k_set_field nonstr name v).
  Proof.
    intros x x' a H. unfold k_set_field in H.
    destruct (set_field nonstr name (Some v) false x) as [m| | |] eqn:E; cbn in H; inv H.
    unfold set_field in E.
    destruct (is_null v && negb false).
    - destruct x as [t s0 v0|kvs|es]; cbn in E.
      + destruct t; inv E; reflexivity.
      + inv E; reflexivity.
      + discriminate.
    - destruct x as [t s0 v0|kvs|es]; cbn in E.
      + destruct t; inv E; reflexivity.
      + destruct (find_field name kvs); inv E; reflexivity.
      + discriminate.
  Qed.

  Lemma set_field_keeps_sel name v nm w : nm <> name -> k_keeps_sel (k_set_field nonstr name v) nm w.
  Proof.
    intros Hne x x' a H M.
    pose proof (set_field_keeps_value name v x x' a H) as HV.
    unfold sel_match in *. destruct (String.eqb nm ""); [now rewrite HV|].
    destruct x as [|kvs|]; try discriminate.
    unfold k_set_field in H.
    destruct (set_field nonstr name (Some v) false (Map kvs)) as [m| | |] eqn:E; cbn in H; inv H.
    assert (Hne' : name <> nm) by congruence.
    unfold set_field in E. destruct (is_null v && negb false); cbn in E.
    - inv E. now rewrite (find_field_remove_first_other _ _ _ Hne').
    - destruct (find_field name kvs); inv E.
      + now rewrite (find_field_set_first_other _ _ _ _ Hne').
      + now rewrite (find_field_app_other _ _ _ _ Hne').
  Qed.

  Lemma stable_put_sound ps name v : stable_put ps name = true -> stable ps (k_set_field nonstr name v).
  Proof.
    induction ps as [|p ps IH]; intros H; [exact I|].
    assert (Ht : ps <> [] -> stable_put ps name = true).
    { intros Hps. destruct ps as [|p2 ps]; [congruence|]. destruct p; exact H. }
    destruct p; try (destruct ps; [exact I|apply IH; apply Ht; discriminate]).
    cbn [stable]. destruct ps as [|p2 ps].
    - split; [|exact I]. cbn. apply set_field_keeps_sel.
      cbn in H. apply negb_true_iff in H. now apply String.eqb_neq.
    - split; [|apply IH; apply Ht; discriminate].
      destruct p2; cbn; auto. destruct ps; auto. intros _ _. apply set_field_keeps_value.
  Qed.

  Lemma set_scalar_keeps_sel v nm w : nm <> "" -> k_keeps_sel (k_set_scalar v) nm w.
  Proof.
    intros Hne x x' a H M. unfold sel_match in M.
    apply String.eqb_neq in Hne. rewrite Hne in M.
    destruct x as [|kvs|]; discriminate.
  Qed.

  Lemma stable_put_scalar_sound ps v : stable_put_scalar ps = true -> stable ps (k_set_scalar v).
  Proof.
    induction ps as [|p ps IH]; intros H; [exact I|].
    destruct p; try (destruct ps as [|p2 ps]; [exact I|apply IH; destruct p2; exact H]).
    (* PSel *)
    cbn [stable]. destruct ps as [|p2 ps].
    - split; [|exact I]. cbn. apply set_scalar_keeps_sel.
      cbn in H. apply negb_true_iff in H. now apply String.eqb_neq.
    - destruct p2; try (split; [exact I|apply IH; exact H]).
      + (* PSel ; PKey *)
        destruct ps as [|p3 ps].
        * split; [|exact I]. cbn. intros -> Hn. cbn in H.
          rewrite String.eqb_refl in H. cbn in H. apply String.eqb_eq in H. contradiction.
        * split; [exact I|]. apply IH. exact H.
  Qed.

  (* ---------- PUT-GET ---------- *)
  Lemma walk_get_lookup ps n x : walk None ps k_get n = Ok (n, Some x) -> lookup ps n = Ok (Some x).
  Proof. intros H. unfold lookup. now rewrite H. Qed.

  Lemma put_get ps name v n n' :
    is_null v = false -> stable_put ps name = true -> no_null_path ps n = true ->
    put nonstr ps name v n = Ok (n', Some tt) ->
    exists s, lookup (ps ++ [PKey name]) n' = Ok (Some (with_style s v)).
  Proof.
    intros Nv S NN H. unfold put in H.
    destruct (walk_put_get _ _ _ (stable_put_sound _ _ v S) _ _ _ NN H) as [x [x' [Nx [K G]]]].
    unfold k_set_field in K.
    destruct (set_field nonstr name (Some v) false x) as [m| | |] eqn:E; cbn in K; inv K.
    rewrite lookup_app, (walk_get_lookup _ _ _ G).
    destruct (set_field_spec _ _ _ _ Nv E) as [[N _]|(kvs & s & -> & [(old & F & Hs & ->)|(F & Q & ->)])];
      [congruence| |]; exists s; unfold lookup; cbn.
    - now rewrite (find_field_set_first_same _ _ _ _ F).
    - now rewrite (find_field_app_same _ _ _ F).
  Qed.

  Lemma put_scalar_get ps v n n' :
    is_null v = false -> stable_put_scalar ps = true -> no_null_path ps n = true ->
    put_scalar ps v n = Ok (n', Some tt) ->
    exists s, lookup ps n' = Ok (Some (with_style s v)).
  Proof.
    intros Nv S NN H. unfold put_scalar in H.
    destruct (walk_put_get _ _ _ (stable_put_scalar_sound _ v S) _ _ _ NN H) as [x [x' [Nx [K G]]]].
    rewrite (walk_get_lookup _ _ _ G).
    unfold k_set_scalar, set_scalar in K. destruct x as [t s0 v0| |]; try discriminate.
    rewrite Nx, Nv in K. cbn in K. inv K. eauto.
  Qed.

  (* ---------- GET-PUT ---------- *)
  Lemma get_put cr ps name v n :
    is_null v = false -> lookup (ps ++ [PKey name]) n = Ok (Some v) ->
    walk cr ps (k_set_field nonstr name v) n = Ok (n, Some tt).
  Proof.
    intros Nv L. rewrite lookup_app in L.
    destruct (lookup ps n) as [[m|]| | |] eqn:Lm; try discriminate.
    eapply walk_get_put; [exact Lm|].
    unfold lookup in L. destruct m as [t s0 v0|kvs|es]; cbn in L.
    - destruct t; discriminate.
    - destruct (find_field name kvs) as [old|] eqn:F; [|discriminate]. cbn in L. inv L.
      unfold k_set_field, set_field. rewrite Nv. cbn. rewrite F. cbn.
      now rewrite with_style_style_of, (set_first_same _ _ _ F).
    - discriminate.
  Qed.

  (* ---------- PUT-PUT ---------- *)
  Lemma set_field_idem name v x x' :
    is_null v = false -> k_set_field nonstr name v x = Ok (x', tt) -> k_set_field nonstr name v x' = Ok (x', tt).
  Proof.
    intros Nv K. unfold k_set_field in K.
    destruct (set_field nonstr name (Some v) false x) as [m| | |] eqn:E; cbn in K; inv K.
    destruct (set_field_spec _ _ _ _ Nv E) as [[N ->]|(kvs & s & -> & [(old & F & -> & ->)|(F & Q & ->)])].
    - unfold k_set_field. now rewrite E.
    - unfold k_set_field, set_field. rewrite Nv. cbn.
      rewrite (find_field_set_first_same _ _ _ _ F). cbn.
      now rewrite with_style_idem, set_first_set_first.
    - unfold k_set_field, set_field. rewrite Nv. cbn.
      rewrite (find_field_app_same _ _ _ F). cbn.
      now rewrite with_style_idem, (set_first_app_same _ _ _ _ F).
  Qed.

  Lemma put_idempotent cr ps name v n n1 :
    is_null v = false -> stable_put ps name = true -> no_null_path ps n = true ->
    walk cr ps (k_set_field nonstr name v) n = Ok (n1, Some tt) ->
    walk cr ps (k_set_field nonstr name v) n1 = Ok (n1, Some tt).
  Proof.
    intros Nv S NN H.
    rewrite (walk_fusion _ _ _ (k_set_field nonstr name v) (stable_put_sound _ _ v S) _ _ _ NN H).
    rewrite <- H. apply walk_ext. intros x. unfold kseq.
    destruct (k_set_field nonstr name v x) as [[x1 []]| | |] eqn:K; cbn; auto.
    rewrite (set_field_idem _ _ _ _ Nv K). reflexivity.
  Qed.

  (* last write wins, up to the style the stored scalar inherits from what was there before *)
  Definition unstyle_eq (a b : node) : Prop := unstyle a = unstyle b.

  Lemma unstyle_set_first name y y' kvs :
    unstyle y = unstyle y' ->
    map (fun kv => (fst kv, unstyle (snd kv))) (set_first name y kvs) =
    map (fun kv => (fst kv, unstyle (snd kv))) (set_first name y' kvs).
  Proof.
    intros H. induction kvs as [|[k v] t IH]; cbn; [reflexivity|].
    destruct (String.eqb k name); cbn; [now rewrite H|now rewrite IH].
  Qed.

  Lemma unstyle_replace_nth i y y' es :
    unstyle y = unstyle y' -> map unstyle (replace_nth i y es) = map unstyle (replace_nth i y' es).
  Proof.
    intros H. revert i; induction es as [|e t IH]; intros [|i]; cbn; auto; [now rewrite H|now rewrite IH].
  Qed.

  Lemma unstyle_plug p n y y' : unstyle_eq y y' -> unstyle_eq (plug p n y) (plug p n y').
  Proof.
    unfold unstyle_eq. intros H. destruct p, n; cbn; auto.
    - now rewrite (unstyle_set_first _ _ _ _ H).
    - now rewrite (unstyle_replace_nth _ _ _ _ H).
    - now rewrite (unstyle_replace_nth _ _ _ _ H).
    - destruct (find_index (sel_match nm v) es); auto. cbn. now rewrite (unstyle_replace_nth _ _ _ _ H).
  Qed.

  Definition res_unstyle_eq {B} (a b : res (node * B)) : Prop := rel_res unstyle_eq a b.

  Lemma put_last_wins cr ps name v1 v2 n n1 :
    is_null v1 = false -> is_null v2 = false ->
    stable_put ps name = true -> no_null_path ps n = true ->
    walk cr ps (k_set_field nonstr name v1) n = Ok (n1, Some tt) ->
    res_unstyle_eq (walk cr ps (k_set_field nonstr name v2) n1) (walk cr ps (k_set_field nonstr name v2) n).
  Proof.
    intros N1 N2 S NN H.
    rewrite (walk_fusion _ _ _ (k_set_field nonstr name v2) (stable_put_sound _ _ v1 S) _ _ _ NN H).
    apply walk_rel.
    - intros x; reflexivity.
    - apply unstyle_plug.
    - unfold unstyle_eq. intros kvs nm y y' E. cbn. rewrite !map_app. cbn. now rewrite E.
    - unfold unstyle_eq. intros es y y' E. cbn. rewrite !map_app. cbn. now rewrite E.
    - intros x. unfold kseq.
      destruct (k_set_field nonstr name v1 x) as [[x1 []]| | |] eqn:K1.
      + unfold k_set_field in K1.
        destruct (set_field nonstr name (Some v1) false x) as [m| | |] eqn:E; cbn in K1; inv K1.
        cbn [bind fst].
        destruct (set_field_spec _ _ _ _ N1 E) as [[N ->]|(kvs & s & -> & [(old & F & -> & ->)|(F & Q & ->)])].
        * destruct (k_set_field nonstr name v2 x) as [[? ?]| | |]; cbn; auto. split; reflexivity.
        * unfold k_set_field, set_field. rewrite N2. cbn.
          rewrite (find_field_set_first_same _ _ _ _ F), F. cbn. split; auto.
          unfold unstyle_eq. cbn. rewrite set_first_set_first.
          f_equal. apply unstyle_set_first. now rewrite !unstyle_with_style.
        * unfold k_set_field, set_field. rewrite N2. cbn.
          rewrite (find_field_app_same _ _ _ F), F. cbn. split; auto.
          unfold unstyle_eq. cbn. rewrite (set_first_app_same _ _ _ _ F), !map_app. cbn.
          destruct (quote11_with_style v2) as [s2 ->]. now rewrite !unstyle_with_style.
      + (* first write errs: so does the second (same node class) *)
        unfold k_set_field, set_field in *. rewrite N1 in K1. rewrite N2. cbn in *.
        destruct x as [t s0 v0|kvs|es]; cbn in *.
        * destruct t; cbn in *; try discriminate; auto.
        * destruct (find_field name kvs); discriminate.
        * exact I.
      + unfold k_set_field, set_field in K1. rewrite N1 in K1. cbn in K1.
        destruct x as [t s0 v0|kvs|es]; cbn in K1; try discriminate.
        * destruct t; discriminate.
        * destruct (find_field name kvs); discriminate.
      + unfold k_set_field, set_field in K1. rewrite N1 in K1. cbn in K1.
        destruct x as [t s0 v0|kvs|es]; cbn in K1; try discriminate.
        * destruct t; discriminate.
        * destruct (find_field name kvs); discriminate.
  Qed.

  (* ---------- FRAME for put ---------- *)
  Definition sibling_of (name : string) (qs : list part) : Prop :=
    exists b rest, qs = PKey b :: rest /\ b <> name.

  Lemma diverges_put_end ps name qs :
    diverges (ps ++ [PKey name]) qs -> diverges_end (sibling_of name) ps qs.
  Proof.
    revert qs; induction ps as [|p ps IH]; intros qs D; cbn in D.
    - inversion D as [p0 q ps0 qs' Hpq|p0 ps0 qs' D']; subst.
      + inversion Hpq; subst. apply dve_end. exists b, qs'. split; auto.
      + inversion D'.
    - inversion D as [p0 q ps0 qs' Hpq|p0 ps0 qs' D']; subst.
      + now apply dve_here.
      + apply dve_later. now apply IH.
  Qed.

  Lemma set_field_cases name v x x' a :
    k_set_field nonstr name v x = Ok (x', a) ->
    (is_null x = true /\ x' = x) \/
    (exists kvs kvs', x = Map kvs /\ x' = Map kvs' /\ forall b, b <> name -> find_field b kvs' = find_field b kvs).
  Proof.
    intros H. unfold k_set_field in H.
    destruct (set_field nonstr name (Some v) false x) as [m| | |] eqn:E; cbn in H; inv H.
    unfold set_field in E. destruct (is_null v && negb false); cbn in E.
    - destruct x as [t s0 v0|kvs|es]; cbn in E.
      + destruct t; inv E. left; auto.
      + inv E. right. exists kvs, (remove_first name kvs). repeat split; auto.
        intros b Hb. apply find_field_remove_first_other. congruence.
      + discriminate.
    - destruct x as [t s0 v0|kvs|es]; cbn in E.
      + destruct t; inv E. left; auto.
      + right. destruct (find_field name kvs); inv E; eexists _, _; repeat split; auto; intros b Hb.
        * apply find_field_set_first_other. congruence.
        * apply find_field_app_other. congruence.
      + discriminate.
  Qed.

  Lemma put_frame cr ps name v qs n n' r :
    stable_put ps name = true ->
    diverges (ps ++ [PKey name]) qs ->
    (no_sel_key_read qs \/ lookup qs n <> Ok None) ->
    walk cr ps (k_set_field nonstr name v) n = Ok (n', r) ->
    lookup qs n' = lookup qs n.
  Proof.
    intros S D SC H.
    apply (walk_frame_end (k_set_field nonstr name v) (sibling_of name)) with (cr := cr) (ps := ps) (r := r);
      auto using stable_put_sound, diverges_put_end.
    - intros q x x' a (b & rest & -> & Hb) K.
      destruct (set_field_cases _ _ _ _ _ K) as [[_ ->]|(kvs & kvs' & -> & -> & F)]; [reflexivity|].
      apply lookup_cons_congr; [|exact I]. cbn. now apply F.
    - intros q leaf x' a (b & rest & -> & Hb) K.
      destruct leaf; cbn in K |- *.
      + destruct (set_field_cases _ _ _ _ _ K) as [[N _]|(kvs & kvs' & E & _)]; discriminate.
      + reflexivity.
      + destruct (set_field_cases _ _ _ _ _ K) as [[N _]|(kvs & kvs' & E & _)]; discriminate.
    - intros q nm w x' a (b & rest & -> & Hb) K NK.
      unfold sel_new in *. destruct (String.eqb nm "").
      + destruct (set_field_cases _ _ _ _ _ K) as [[N _]|(kvs & kvs' & E & _)]; discriminate.
      + unfold lookup; cbn. destruct (String.eqb nm b) eqn:E; [|reflexivity].
        apply String.eqb_eq in E. congruence.
  Qed.

  (* ---------- ABSENT PATH: clear is a no-op ---------- *)
  Lemma absent_clear_noop ps name n :
    lookup (ps ++ [PKey name]) n = Ok None -> exists r, clear_at ps name n = Ok (n, r).
  Proof.
    intros L. rewrite lookup_app in L. unfold clear_at.
    destruct (lookup ps n) as [[m|]| | |] eqn:Lm; try discriminate.
    - exists (Some tt). eapply walk_get_put; [exact Lm|].
      unfold lookup in L. destruct m as [t s0 v0|kvs|es]; cbn in L.
      + destruct t; try discriminate. reflexivity.
      + destruct (find_field name kvs) as [old|] eqn:F; [discriminate|].
        unfold k_clear, clear_field. now rewrite (remove_first_absent _ _ F).
      + discriminate.
    - exists None. now apply lookup_none_walk.
  Qed.
End Instances.

(* ====================================================================================================
   No panic: a path walk never panics unless the continuation does.
   (Before the repo fix 5cf7cc6 "-" on an empty or null sequence indexed elems[-1]; ElementIndexer now
   returns "no match" there, and the model's PLast branches return Ok (n, None).)
   ==================================================================================================== *)
Lemma walk_last_on_empty {A} cr ps (k : node -> res (node * A)) :
  walk cr (PLast :: ps) k (Seq []) = Ok (Seq [], None).
Proof. reflexivity. Qed.

Lemma walk_last_on_null {A} cr ps (k : node -> res (node * A)) s v :
  walk cr (PLast :: ps) k (Scalar TNull s v) = Ok (Scalar TNull s v, None).
Proof. reflexivity. Qed.

Lemma walk_no_panic {A} cr ps (k : node -> res (node * A)) :
  (forall x, k x <> Panic) -> forall n, walk cr ps k n <> Panic.
Proof.
  intros HK. induction ps as [|p ps IH]; intros n H.
  - cbn in H. specialize (HK n). destruct (k n) as [[? ?]| | |]; cbn in H; congruence.
  - destruct (child p n) as [x|] eqn:C.
    + rewrite (walk_found _ _ _ _ _ _ C) in H. specialize (IH x).
      destruct (walk cr ps k x) as [[? ?]| | |]; cbn in H; congruence.
    + destruct cr as [leaf|].
      2:{ rewrite (walk_missing_nocreate _ _ _ _ C) in H.
          destruct p; destruct n as [t s v0|kvs|es]; cbn in H; try discriminate;
            try (destruct t; discriminate). }
      destruct p; destruct n as [t s v0|kvs|es]; cbn in C, H; try discriminate;
        try (destruct t; discriminate).
      all: try (rewrite C in H; try discriminate).
      all: try (destruct es as [|e es]; [discriminate|cbn in C, H; rewrite C in H; discriminate]).
      all: try (destruct t; try discriminate).
      all: try (destruct (find_index (sel_match nm v) es) as [i|] eqn:F; [rewrite C in H; discriminate|]).
      all: match type of H with
           | bind (walk _ _ _ ?f) _ = Panic => specialize (IH f);
               destruct (walk (Some leaf) ps k f) as [[? ?]| | |]; cbn in H; congruence
           end.
Qed.

Lemma k_get_no_panic x : k_get x <> Panic.
Proof. discriminate. Qed.

Lemma lookup_no_panic ps n : lookup ps n <> Panic.
Proof.
  unfold lookup. intros H. pose proof (walk_no_panic None ps k_get k_get_no_panic n) as W.
  destruct (walk None ps k_get n) as [[? ?]| | |]; cbn in H; congruence.
Qed.

Lemma lookup_create_no_panic leaf ps n : lookup_create leaf ps n <> Panic.
Proof. apply walk_no_panic, k_get_no_panic. Qed.

Lemma set_field_no_panic nonstr name v keep m : set_field nonstr name v keep m <> Panic.
Proof.
  unfold set_field, clear_field. destruct v as [v0|].
  - destruct (is_null v0 && negb keep); destruct m as [t ? ?| kvs |]; try discriminate;
      try (destruct t; discriminate). destruct (find_field name kvs); discriminate.
  - destruct m as [t ? ?| |]; try discriminate. destruct t; discriminate.
Qed.

Lemma put_no_panic nonstr ps name v n : put nonstr ps name v n <> Panic.
Proof.
  apply walk_no_panic. intros x. unfold k_set_field.
  pose proof (set_field_no_panic nonstr name (Some v) false x) as S.
  destruct (set_field nonstr name (Some v) false x); cbn; congruence.
Qed.

Lemma put_nocreate_no_panic nonstr ps name v n : put_nocreate nonstr ps name v n <> Panic.
Proof.
  apply walk_no_panic. intros x. unfold k_set_field.
  pose proof (set_field_no_panic nonstr name (Some v) false x) as S.
  destruct (set_field nonstr name (Some v) false x); cbn; congruence.
Qed.

Lemma clear_at_no_panic ps name n : clear_at ps name n <> Panic.
Proof.
  apply walk_no_panic. intros x. unfold k_clear, clear_field.
  destruct x as [t ? ?| |]; cbn; try discriminate. destruct t; discriminate.
Qed.

Lemma put_scalar_no_panic ps v n : put_scalar ps v n <> Panic.
Proof.
  apply walk_no_panic. intros x. unfold k_set_scalar, set_scalar.
  destruct x as [t s0 v0| |]; cbn; try discriminate.
  destruct t; cbn; destruct (is_null v); discriminate.
Qed.

(* ====================================================================================================
   Non-vacuity examples, and witnesses showing that the hypotheses H1 / H2 cannot be dropped
   ==================================================================================================== *)
Section Examples.
  Let ns : string -> bool := fun _ => false.
  Let str (s : string) := Scalar TStr SPlain s.
  (* containers: [{name: x, image: i}] ; meta: {} ; a: null ; l: [] *)
  Let doc : node :=
    Map [("containers", Seq [Map [("name", str "x"); ("image", str "i")]; Map [("name", str "y")]]);
         ("meta", Map []); ("a", Scalar TNull SPlain "null"); ("l", Seq [])].
  Let p1 := [PKey "containers"; PSel "name" "x"].

  (* a write through an existing selector, and one that creates the element: hypotheses hold, path found *)
  Example ex_put_hyps :
    stable_put p1 "image" = true /\ no_null_path p1 doc = true /\
    exists n', put ns p1 "image" (str "j") doc = Ok (n', Some tt) /\
               lookup (p1 ++ [PKey "image"]) n' = Ok (Some (str "j")).
  Proof. vm_compute. repeat split; eauto. Qed.

  Example ex_put_creates :
    let p := [PKey "meta"; PKey "labels"] in
    stable_put p "app" = true /\ no_null_path p doc = true /\
    exists n', put ns p "app" (str "z") doc = Ok (n', Some tt) /\
               lookup (p ++ [PKey "app"]) n' = Ok (Some (str "z")).
  Proof. vm_compute. repeat split; eauto. Qed.

  Example ex_put_creates_element :
    let p := [PKey "containers"; PSel "name" "z"] in
    stable_put p "image" = true /\ no_null_path p doc = true /\
    exists n', put ns p "image" (str "k") doc = Ok (n', Some tt) /\
               lookup (p ++ [PKey "image"]) n' = Ok (Some (str "k")).
  Proof. vm_compute. repeat split; eauto. Qed.

  Example ex_diverges :
    diverges (p1 ++ [PKey "image"]) [PKey "containers"; PSel "name" "y"; PKey "name"] /\
    diverges (p1 ++ [PKey "image"]) [PKey "containers"; PSel "name" "x"; PKey "name"] /\
    diverges (p1 ++ [PKey "image"]) [PKey "meta"].
  Proof.
    repeat split.
    - apply div_later, div_here, apart_sel. discriminate.
    - apply div_later, div_later, div_here, apart_key. discriminate.
    - apply div_here, apart_key. discriminate.
  Qed.

  (* H1 cannot be dropped: overwriting the key a selector matches on loses the element for that selector *)
  Lemma put_get_needs_stable :
    exists ps name v n n',
      is_null v = false /\ no_null_path ps n = true /\ put ns ps name v n = Ok (n', Some tt) /\
      lookup (ps ++ [PKey name]) n' = Ok None.
  Proof.
    exists p1, "name", (str "q"), doc. eexists. vm_compute. repeat split.
  Qed.

  (* H2 cannot be dropped: a write through a null node reports success and is lost *)
  Lemma put_get_needs_no_null :
    exists ps name v n n',
      is_null v = false /\ stable_put ps name = true /\ put ns ps name v n = Ok (n', Some tt) /\
      lookup (ps ++ [PKey name]) n' = Ok None /\ n' = n.
  Proof.
    exists [PKey "a"], "b", (str "q"), doc. eexists. vm_compute. repeat split.
  Qed.

  (* a selector element appended to a null "sequence" is lost as well *)
  Lemma put_get_needs_no_null_sel :
    exists ps name v n n',
      is_null v = false /\ stable_put ps name = true /\ put ns ps name v n = Ok (n', Some tt) /\
      lookup (ps ++ [PKey name]) n' = Ok None /\ n' = n.
  Proof.
    exists [PKey "a"; PSel "name" "x"], "b", (str "q"), doc. eexists. vm_compute. repeat split.
  Qed.

  (* the frame side condition cannot be dropped: appending the element [name=z] creates its name field *)
  Lemma frame_needs_side_condition :
    exists ps name v qs n n',
      stable_put ps name = true /\ diverges (ps ++ [PKey name]) qs /\
      put ns ps name v n = Ok (n', Some tt) /\ lookup qs n = Ok None /\ lookup qs n' <> Ok None.
  Proof.
    exists [PKey "containers"; PSel "name" "z"], "image", (str "k"),
           [PKey "containers"; PSel "name" "z"; PKey "name"], doc. eexists.
    split; [reflexivity|]. split.
    - apply div_later, div_later, div_here, apart_key. discriminate.
    - vm_compute. repeat split. discriminate.
  Qed.

  (* "-" on an empty list or a null node finds nothing (it used to panic: elems[len(elems)-1] with len 0) *)
  Lemma last_on_empty_absent :
    lookup [PKey "l"; PLast] doc = Ok None /\ lookup [PKey "a"; PLast] doc = Ok None.
  Proof. split; reflexivity. Qed.
End Examples.
