(* Proofs about KV.Yaml.Fns (kept out of the model file). *)
From KV Require Import Yaml.Fns.

Section Proofs.
  Variable nonstr : string -> bool.

  (* a continuation that returns its argument unchanged *)
  Definition pure_k {A} (k : node -> res (node * A)) : Prop :=
    forall x x' a, k x = Ok (x', a) -> x' = x.

  Lemma set_first_same name kvs x :
    find_field name kvs = Some x -> set_first name x kvs = kvs.
  Proof.
    induction kvs as [|[k v] t IH]; cbn; intros H; [discriminate|].
    destruct (String.eqb k name) eqn:E.
    - inversion H; subst; reflexivity.
    - rewrite IH; auto.
  Qed.

  Lemma replace_nth_same {A} (l : list A) i x :
    nth_error l i = Some x -> replace_nth i x l = l.
  Proof.
    revert i; induction l as [|h t IH]; intros [|i]; cbn; intros H; try discriminate.
    - inversion H; reflexivity.
    - rewrite IH; auto.
  Qed.

  Ltac inv H := inversion H; subst; clear H.

  (* Lookup without creation never changes the document *)
  Lemma walk_nocreate_pure {A} (k : node -> res (node * A)) ps :
    pure_k k -> forall n n' r, walk None ps k n = Ok (n', r) -> n' = n.
  Proof.
    intros Hk. induction ps as [|p ps IH]; intros n n' r H; cbn in H.
    - destruct (k n) as [[x a]| | |] eqn:E; cbn in H; inv H. cbn. eapply Hk; eauto.
    - destruct p.
      + destruct n as [t s v|kvs|es]; try (destruct (is_null _); inv H; reflexivity).
        destruct (find_field k0 kvs) as [x|] eqn:F.
        * destruct (walk None ps k x) as [[x' r']| | |] eqn:W; cbn in H; inv H.
          apply IH in W; subst. cbn. rewrite set_first_same; auto.
        * inv H; reflexivity.
      + destruct n as [t s v|kvs|es]; try (destruct (is_null _); inv H; reflexivity).
        destruct (nth_error es i) as [e|] eqn:F.
        * destruct (walk None ps k e) as [[x' r']| | |] eqn:W; cbn in H; inv H.
          apply IH in W; subst. cbn. rewrite replace_nth_same; auto.
        * inv H; reflexivity.
      + destruct n as [t s v|kvs|es]; try (destruct (is_null _); inv H; reflexivity).
        destruct es as [|e0 es']; [inv H|].
        destruct (nth_error (e0 :: es') (List.length (e0 :: es') - 1)) as [e|] eqn:F; [|inv H].
        destruct (walk None ps k e) as [[x' r']| | |] eqn:W; cbn in H; inv H.
        apply IH in W; subst. cbn [fst]. rewrite replace_nth_same; auto.
      + destruct n as [t s v0|kvs|es]; try (destruct (is_null _); inv H; reflexivity).
        destruct (find_index (sel_match nm v) es) as [i|] eqn:FI.
        * destruct (nth_error es i) as [e|] eqn:F; [|inv H].
          destruct (walk None ps k e) as [[x' r']| | |] eqn:W; cbn in H; inv H.
          apply IH in W; subst. cbn. rewrite replace_nth_same; auto.
        * inv H; reflexivity.
      + inv H.
      + inv H.
      + inv H.
  Qed.

  Lemma k_get_pure : pure_k k_get.
  Proof. intros x x' a H; inversion H; reflexivity. Qed.
End Proofs.
