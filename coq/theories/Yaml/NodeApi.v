(* Model of the read side of kyaml's RNode API (kyaml/yaml/rnode.go):
   visitFieldsWhileTrue / visitMappingNodeFields on the raw Content slice (including Content that is not a
   well-formed mapping: odd length, or a sequence read as a mapping), Field, Fields, VisitFields,
   getMapFieldValue (GetKind / GetApiVersion), Elements, VisitElements, ElementValues,
   GetFieldValue / GetString / GetSlice with convertSliceIndex and utils.SmarterPathSplitter.
   Definitions only; proofs in NodeApiProofs.v. *)
From KV Require Export Yaml.Fns Yaml.Match.

(* ---------- raw Content ---------- *)
(* yaml.Node.Content: key and value nodes alternating for a mapping (of a key only the Value is ever read),
   the elements for a sequence, nothing for a scalar *)
Definition key_node (k : string) : node := Scalar TStr SPlain k.

Fixpoint flatten (kvs : list (string * node)) : list node :=
  match kvs with
  | [] => []
  | (k, v) :: t => key_node k :: v :: flatten t
  end.

Definition content (n : node) : list node :=
  match n with
  | Map kvs => flatten kvs
  | Seq es => es
  | Scalar _ _ _ => []
  end.

(* visitMappingNodeFields(content, fn, name) through visitFieldsWhileTrue:
     for i := 0; i+1 < len(content); i += 2 { fn(content[i], content[i+1], i) ... }
   a trailing entry without a partner is not a field (repo fix 1d1d852; the loop used to run while
   i < len(content) and indexed content[i+1] past the end: a panic, modelled as such until then) *)
Fixpoint raw_find (name : string) (c : list node) : res (option node) :=
  match c with
  | [] => Ok None
  | [_] => Ok None
  | k :: v :: t => if String.eqb (node_value k) name then Ok (Some v) else raw_find name t
  end.

(* visitMappingNodeFields(content, fn) with no names: every pair *)
Fixpoint raw_pairs (c : list node) : res (list (string * node)) :=
  match c with
  | [] => Ok []
  | [_] => Ok []
  | k :: v :: t => do r <- raw_pairs t; Ok ((node_value k, v) :: r)
  end.

(* a node as the harness can build it by hand: its kind and an arbitrary Content slice *)
Inductive rawkind := RKMap | RKSeq.

(* RNode.Field(name): nil unless Kind == MappingNode; no check of the Content length *)
Definition raw_field (k : rawkind) (c : list node) (name : string) : res (option node) :=
  match k with RKMap => raw_find name c | RKSeq => Ok None end.

(* RNode.getMapFieldValue(name) (GetKind, GetApiVersion, ...): no check of the kind at all *)
Definition raw_map_field_value (c : list node) (name : string) : res (option node) := raw_find name c.

(* RNode.Fields(): ErrorIfInvalid(rn, MappingNode) rejects the wrong kind and an odd Content *)
Definition raw_fields (k : rawkind) (c : list node) : res (list string) :=
  match k with
  | RKSeq => Err
  | RKMap => if Nat.even (List.length c) then do r <- raw_pairs c; Ok (map fst r) else Err
  end.

(* ---------- the same on well-formed nodes ---------- *)
Definition field (name : string) (n : node) : option node :=
  match n with Map kvs => find_field name kvs | _ => None end.

Definition fields (n : node) : res (list string) :=
  match n with
  | Map kvs => Ok (keys kvs)
  | _ => if is_null n then Ok [] else Err
  end.

(* VisitFields: Fields(), then fn(rn.Field(name)) for every NAME — a duplicated key is visited twice with
   the value of its first occurrence *)
Definition visit_fields (n : node) : res (list (string * option node)) :=
  do ks <- fields n; Ok (map (fun k => (k, field k n)) ks).

Definition elements (n : node) : res (list node) :=
  match n with
  | Seq es => Ok es
  | _ => if is_null n then Ok [] else Err
  end.

(* GetKind / GetApiVersion / any getMapFieldValue reader: the Value of the node found, "" otherwise *)
Definition map_field_text (name : string) (n : node) : res string :=
  do r <- raw_map_field_value (content n) name;
  Ok (match r with Some v => node_value v | None => "" end).

Definition rn_get_kind := map_field_text "kind".
Definition rn_get_api_version := map_field_text "apiVersion".

(* IsYNodeNilOrEmpty of a present node *)
Definition nil_or_empty (v : node) : bool :=
  is_null v || match v with Map [] => true | Seq [] => true | _ => false end.

(* ElementValues(key) *)
Definition element_values (key : string) (n : node) : res (list string) :=
  do es <- elements n;
  Ok (flat_map (fun e => match field key e with
                         | Some v => if nil_or_empty v then [] else [node_value v]
                         | None => []
                         end) es).

(* ---------- GetFieldValue ---------- *)
Fixpoint take_digits (s : string) : string * string :=     (* leading digits, rest *)
  match s with
  | String c s' => if is_digit c then let r := take_digits s' in (String c (fst r), snd r) else (EmptyString, s)
  | EmptyString => (EmptyString, EmptyString)
  end.

(* the regexp of convertSliceIndex: any prefix without newline, then [digits] at the end: Some (prefix, digits) *)
Definition slice_index (s : string) : option (string * string) :=
  match str_rev s with
  | String c r =>
      if Ascii.eqb c "]"%char then
        let dr := take_digits r in
        match fst dr, snd dr with
        | String _ _, String b pre_rev =>
            if Ascii.eqb b "["%char && negb (contains_char (ascii_of_N 10) pre_rev)
            then Some (str_rev pre_rev, str_rev (fst dr)) else None
        | _, _ => None
        end
      else None
  | EmptyString => None
  end.

Fixpoint convert_slice_index (l : list string) : list string :=
  match l with
  | [] => []
  | s :: t =>
      match (if has_suffix "]" s then slice_index s else None) with
      | Some (pre, ds) => (if String.eqb pre "" then [ds] else [pre; ds]) ++ convert_slice_index t
      | None => s :: convert_slice_index t
      end
  end.

(* the Go value GetFieldValue returns, as far as the model follows it: the kind of a container,
   the converted text of a scalar *)
Inductive gval :=
| GMap | GSlice
| GStr (s : string)
| GInt (neg : bool) (n : N)
| GFloat (s : string)
| GBool (b : bool).

(* strconv.ParseBool *)
Definition parse_bool (s : string) : option bool :=
  if str_in s ["1"; "t"; "T"; "TRUE"; "true"; "True"] then Some true
  else if str_in s ["0"; "f"; "F"; "FALSE"; "false"; "False"] then Some false
  else None.

(* go-yaml rejects a mapping with a repeated key when decoding into Go values *)
Fixpoint dup_free (n : node) : bool :=
  match n with
  | Scalar _ _ _ => true
  | Map kvs =>
      nodup_keys (keys kvs) &&
      (fix go (l : list (string * node)) : bool :=
         match l with [] => true | kv :: t => dup_free (snd kv) && go t end) kvs
  | Seq es =>
      (fix go (l : list node) : bool :=
         match l with [] => true | e :: t => dup_free e && go t end) es
  end.

Section GetFieldValue.
  Variable floatok : string -> bool.    (* strconv.ParseFloat(s, 64) succeeds (external) *)

  Definition gval_of (x : node) : res gval :=
    match x with
    | Map _ => if dup_free x then Ok GMap else Err
    | Seq _ => if dup_free x then Ok GSlice else Err
    | Scalar t _ v =>
        match t with
        | TStr => Ok (GStr v)
        | TInt => match atoi v with Some (neg, n) => Ok (GInt neg n) | None => Err end
        | TFloat => if floatok v then Ok (GFloat v) else Err
        | TBool => match parse_bool v with Some b => Ok (GBool b) | None => Err end
        | _ => Ok (GStr v)
        end
    end.

  Definition get_field_value (path : string) (n : node) : res gval :=
    let flds := convert_slice_index (smarter_path_splitter "."%char path) in
    do r <- lookup (parse_path flds) n;
    match r with
    | None => Err                          (* NoFieldError *)
    | Some x => gval_of x
    end.

  Definition get_string (path : string) (n : node) : res string :=
    do v <- get_field_value path n;
    match v with GStr s => Ok s | _ => Err end.

  Definition get_slice (path : string) (n : node) : res unit :=
    do v <- get_field_value path n;
    match v with GSlice => Ok tt | _ => Err end.
End GetFieldValue.

(* ---------- fieldspec.Filter on any object, including a sequence at the top ----------
   isMatchGVK reads kind and apiVersion through getMapFieldValue, which does not look at the node kind:
   a sequence is read pairwise (a trailing unpaired element is ignored).
   (Yaml/FieldSpec.v models the readers on mappings; [fs_apply_raw] agrees with [fs_apply] there.) *)
From KV Require Export Yaml.FieldSpec.

Definition is_match_gvk_raw (fs : fieldspec) (obj : node) : res bool :=
  do k <- rn_get_kind obj;
  if negb (String.eqb (fs_kind fs) "") && negb (String.eqb (fs_kind fs) k) then Ok false
  else
    do av <- rn_get_api_version obj;
    let (g, v) := parse_group_version av in
    Ok ((String.eqb (fs_group fs) "" || String.eqb (fs_group fs) g) &&
        (String.eqb (fs_version fs) "" || String.eqb (fs_version fs) v)).

Definition fs_apply_raw (ck : option kind) (ct : tag) (set_value : node -> res node)
           (fs : fieldspec) (obj : node) : res node :=
  do m <- is_match_gvk_raw fs obj;
  if m then fs_filter ck ct set_value (fs_create fs) (path_splitter (fs_path fs)) obj else Ok obj.

Fixpoint fsslice_apply_raw (ck : option kind) (ct : tag) (set_value : node -> res node)
         (l : list fieldspec) (obj : node) : res node :=
  match l with
  | [] => Ok obj
  | fs :: t => do obj' <- fs_apply_raw ck ct set_value fs obj; fsslice_apply_raw ck ct set_value t obj'
  end.
