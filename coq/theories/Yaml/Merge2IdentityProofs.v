(* C04 identity preservation: after Resource.ApplySmPatch the kind / name / namespace read back from the
   resource are the target's, unless the patch carries the corresponding allow annotation (namespace:
   always) -- for every patch, whatever identity fields it carries. *)
From KV Require Import Yaml.Walk Yaml.WalkProofs Yaml.WalkFields Yaml.Merge2 Yaml.Merge2Identity.
Local Open Scope string_scope.
Local Open Scope list_scope.

(* the merged node is a mapping whose metadata, if present, is a mapping with pairwise different keys *)
Definition wf_root (x : node) : Prop :=
  exists kvs, x = Map kvs /\
    match find_field "metadata" kvs with
    | None => True
    | Some (Map mk) => nodupk mk
    | Some _ => False
    end.

Section Proofs.
  Variable nonstr : string -> bool.

  Definition sc (s : string) : node := Scalar TNone SPlain s.

  (* FieldSetter of a fresh scalar on a mapping *)
  Lemma set_scalar_field key s kvs :
    exists kvs' st,
      set_field nonstr key (Some (sc s)) false (Map kvs) = Ok (Map kvs') /\
      find_field key kvs' = Some (Scalar TNone st s) /\
      (forall k, k <> key -> find_field k kvs' = find_field k kvs) /\
      (nodupk kvs -> nodupk kvs') /\ kvs' <> [].
  Proof.
    unfold set_field, sc. cbn [is_null andb].
    destruct (find_field key kvs) as [old|] eqn:F.
    - exists (set_first key (with_style (style_of old) (Scalar TNone SPlain s)) kvs), (style_of old).
      split; [reflexivity|]. split; [|split; [|split]].
      + apply find_field_set_first_same.
        destruct (in_dec string_dec key (keys kvs)); auto.
        apply find_field_none_iff in n. congruence.
      + intros; apply find_field_set_first_other; auto.
      + unfold nodupk. rewrite keys_set_first. auto.
      + destruct kvs as [|[k0 v0] t]; [discriminate|]. cbn. destruct (String.eqb k0 key); discriminate.
    - exists (kvs ++ [(key, quote11 nonstr (Scalar TNone SPlain s))]),
             (if nonstr s then SDouble else SPlain).
      split; [reflexivity|]. split; [|split; [|split]].
      + rewrite find_field_app, F. cbn. rewrite String.eqb_refl. destruct (nonstr s); reflexivity.
      + intros k Hk. rewrite find_field_app. destruct (find_field k kvs); auto. cbn.
        destruct (String.eqb key k) eqn:E; auto. apply String.eqb_eq in E; congruence.
      + intros Hn. apply nodupk_app_new; auto. apply find_field_none_iff; auto.
      + destruct kvs; discriminate.
  Qed.

  (* ---- SetKind ---- *)
  Lemma set_kind_map k kvs :
    exists kvs' st, set_kind nonstr k (Map kvs) = Map kvs' /\
      find_field "kind" kvs' = Some (Scalar TNone st k) /\
      (forall f, f <> "kind" -> find_field f kvs' = find_field f kvs).
  Proof.
    destruct (set_scalar_field "kind" k kvs) as [kvs' [st [H1 [H2 [H3 _]]]]].
    exists kvs', st. split; auto.
    unfold set_kind, put. cbn [Fns.walk]. unfold k_set_field. fold (sc k). rewrite H1. reflexivity.
  Qed.

  (* ---- writing metadata.<f> ---- *)
  Definition set_meta (f v : string) (n : node) : node :=
    drop_err n (put nonstr [PKey "metadata"] f (Scalar TNone SPlain v) n).

  Lemma set_meta_map f v kvs :
    match find_field "metadata" kvs with None => True | Some (Map _) => True | Some _ => False end ->
    exists kvs' mk' st,
      set_meta f v (Map kvs) = Map kvs' /\
      find_field "metadata" kvs' = Some (Map mk') /\ mk' <> [] /\
      find_field f mk' = Some (Scalar TNone st v) /\
      (forall g, g <> f ->
         find_field g mk' = match find_field "metadata" kvs with Some (Map mk) => find_field g mk | _ => None end) /\
      (forall g, g <> "metadata" -> find_field g kvs' = find_field g kvs) /\
      (match find_field "metadata" kvs with Some (Map mk) => nodupk mk | _ => True end -> nodupk mk').
  Proof.
    intros Hm. unfold set_meta, put. cbn [Fns.walk].
    destruct (find_field "metadata" kvs) as [[| mk |]|] eqn:F; try contradiction.
    - destruct (set_scalar_field f v mk) as [mk' [st [H1 [H2 [H3 [H4 H5]]]]]].
      unfold k_set_field. fold (sc v). rewrite H1. cbn.
      exists (set_first "metadata" (Map mk') kvs), mk', st.
      split; [reflexivity|]. split.
      { apply find_field_set_first_same. destruct (in_dec string_dec "metadata" (keys kvs)); auto.
        apply find_field_none_iff in n. congruence. }
      repeat split; auto. intros; apply find_field_set_first_other; auto.
    - cbn [hd_error kind_before empty_of].
      destruct (set_scalar_field f v []) as [mk' [st [H1 [H2 [H3 [H4 H5]]]]]].
      unfold k_set_field. fold (sc v). rewrite H1. cbn.
      exists (kvs ++ [("metadata", Map mk')]), mk', st.
      split; [reflexivity|]. split.
      { rewrite find_field_app, F. cbn [find_field]. rewrite String.eqb_refl. reflexivity. }
      repeat split; auto.
      + intros g Hg. rewrite find_field_app. destruct (find_field g kvs); auto. cbn [find_field].
        destruct (String.eqb "metadata" g) eqn:E; auto. apply String.eqb_eq in E; congruence.
      + intros _. apply H4. constructor.
  Qed.

  (* ---- SetNamespace("") ---- *)
  Lemma clear_ns_map kvs :
    match find_field "metadata" kvs with None => True | Some (Map mk) => nodupk mk | Some _ => False end ->
    exists kvs',
      set_namespace nonstr "" (Map kvs) = Map kvs' /\
      (forall g, g <> "metadata" -> find_field g kvs' = find_field g kvs) /\
      match find_field "metadata" kvs' with
      | None => find_field "metadata" kvs = None
      | Some (Map mk') =>
          find_field "namespace" mk' = None /\
          (forall g, g <> "namespace" ->
             find_field g mk' = match find_field "metadata" kvs with Some (Map mk) => find_field g mk | _ => None end)
      | Some _ => False
      end.
  Proof.
    intros Hm. unfold set_namespace. cbn [String.eqb Ascii.eqb]. unfold clear_at. cbn [Fns.walk].
    destruct (find_field "metadata" kvs) as [[| mk |]|] eqn:F; try contradiction.
    - unfold k_clear. cbn.
      exists (set_first "metadata" (Map (remove_first "namespace" mk)) kvs).
      split; [reflexivity|]. split; [intros; apply find_field_set_first_other; auto|].
      rewrite find_field_set_first_same.
      + split; [apply find_field_remove_first_same; auto|]. intros; apply find_field_remove_first_other; auto.
      + destruct (in_dec string_dec "metadata" (keys kvs)); auto. apply find_field_none_iff in n. congruence.
    - cbn. exists kvs. split; [reflexivity|]. split; auto. rewrite F. reflexivity.
  Qed.

  (* ---- reading back ---- *)
  Lemma meta_str_read f kvs mk v st :
    find_field "metadata" kvs = Some (Map mk) -> mk <> [] ->
    find_field f mk = Some (Scalar TNone st v) ->
    meta_str f (Map kvs) = v.
  Proof.
    intros H1 H2 H3. unfold meta_str, meta_of. cbn [dfield]. rewrite H1.
    destruct mk; [congruence|]. cbn [nil_or_empty dfield]. rewrite H3. reflexivity.
  Qed.

  Lemma meta_str_same f kvs kvs' :
    (match find_field "metadata" kvs, find_field "metadata" kvs' with
     | Some (Map mk), Some (Map mk') => mk <> [] /\ mk' <> [] /\ find_field f mk' = find_field f mk
     | _, _ => False
     end) ->
    meta_str f (Map kvs') = meta_str f (Map kvs).
  Proof.
    unfold meta_str, meta_of. cbn [dfield].
    destruct (find_field "metadata" kvs) as [[| mk |]|]; try tauto.
    destruct (find_field "metadata" kvs') as [[| mk' |]|]; try tauto.
    intros [H1 [H2 H3]]. destruct mk; [congruence|]. destruct mk'; [congruence|].
    cbn [nil_or_empty dfield]. rewrite H3. reflexivity.
  Qed.

  Lemma meta_str_ext f kvs kvs' :
    find_field "metadata" kvs' = find_field "metadata" kvs -> meta_str f (Map kvs') = meta_str f (Map kvs).
  Proof. intros H. unfold meta_str, meta_of. cbn [dfield]. rewrite H. reflexivity. Qed.

  Definition meta_wf (kvs : list (string * node)) : Prop :=
    match find_field "metadata" kvs with None => True | Some (Map mk) => nodupk mk | Some _ => False end.

  Lemma meta_wf_weak kvs : meta_wf kvs ->
    match find_field "metadata" kvs with None => True | Some (Map _) => True | Some _ => False end.
  Proof. unfold meta_wf. destruct (find_field "metadata" kvs) as [[| |]|]; auto. Qed.

  (* the three steps of restore_identity, on a well-formed merged mapping *)
  Lemma step_kind k kvs : meta_wf kvs ->
    exists kvs', set_kind nonstr k (Map kvs) = Map kvs' /\ meta_wf kvs' /\
                 get_kind (Map kvs') = k /\
                 find_field "metadata" kvs' = find_field "metadata" kvs.
  Proof.
    intros Hw. destruct (set_kind_map k kvs) as [kvs' [st [H1 [H2 H3]]]].
    assert (Hm : find_field "metadata" kvs' = find_field "metadata" kvs) by (apply H3; discriminate).
    exists kvs'. split; auto. split; [unfold meta_wf; rewrite Hm; auto|]. split; auto.
    unfold get_kind. cbn [dfield]. rewrite H2. reflexivity.
  Qed.

  Lemma step_meta f v kvs : meta_wf kvs ->
    exists kvs', set_meta f v (Map kvs) = Map kvs' /\ meta_wf kvs' /\
                 meta_str f (Map kvs') = v /\
                 get_kind (Map kvs') = get_kind (Map kvs) /\
                 (forall g mk', g <> f -> find_field "metadata" kvs' = Some (Map mk') ->
                    find_field g mk' = match find_field "metadata" kvs with Some (Map mk) => find_field g mk | _ => None end) /\
                 (exists mk' st, find_field "metadata" kvs' = Some (Map mk') /\ mk' <> [] /\
                                 find_field f mk' = Some (Scalar TNone st v)).
  Proof.
    intros Hw. destruct (set_meta_map f v kvs (meta_wf_weak _ Hw)) as [kvs' [mk' [st [H1 [H2 [H3 [H4 [H5 [H6 H7]]]]]]]]].
    exists kvs'. split; auto. split.
    { unfold meta_wf. rewrite H2. apply H7. unfold meta_wf in Hw.
      destruct (find_field "metadata" kvs) as [[| |]|]; auto. }
    split; [eapply meta_str_read; eauto|]. split.
    { unfold get_kind. cbn [dfield]. rewrite H6 by discriminate. reflexivity. }
    split; [|eauto].
    intros g mk2 Hg Hmk. rewrite H2 in Hmk. inv Hmk. apply H5; auto.
  Qed.

  Theorem restore_identity_ok patch target kvs :
    meta_wf kvs ->
    let r := restore_identity nonstr patch target (Map kvs) in
    (kind_change_allowed patch = false -> get_kind r = get_kind target) /\
    (name_change_allowed patch = false -> get_name r = get_name target) /\
    get_namespace r = get_namespace target.
  Proof.
    intros Hw. unfold restore_identity.
    set (k := get_kind target). set (n := get_name target). set (ns := get_namespace target).
    (* step 1: kind *)
    assert (H1 : exists kvs1, (if kind_change_allowed patch then Map kvs else set_kind nonstr k (Map kvs)) = Map kvs1 /\
                   meta_wf kvs1 /\ (kind_change_allowed patch = false -> get_kind (Map kvs1) = k)).
    { destruct (kind_change_allowed patch).
      - exists kvs. repeat split; auto. discriminate.
      - destruct (step_kind k kvs Hw) as [kvs1 [E [W [G _]]]]. exists kvs1. repeat split; auto. }
    destruct H1 as [kvs1 [E1 [W1 K1]]]. rewrite E1. clear E1.
    (* step 2: name *)
    assert (H2 : exists kvs2, (if name_change_allowed patch then Map kvs1 else set_name nonstr n (Map kvs1)) = Map kvs2 /\
                   meta_wf kvs2 /\ get_kind (Map kvs2) = get_kind (Map kvs1) /\
                   (name_change_allowed patch = false -> get_name (Map kvs2) = n /\
                      exists mk2 st, find_field "metadata" kvs2 = Some (Map mk2) /\ mk2 <> [] /\
                                     find_field "name" mk2 = Some (Scalar TNone st n))).
    { destruct (name_change_allowed patch).
      - exists kvs1. repeat split; auto; discriminate.
      - destruct (step_meta "name" n kvs1 W1) as [kvs2 [E [W [G [Kd [_ Hne]]]]]].
        exists kvs2. split; [exact E|]. repeat split; auto. }
    destruct H2 as [kvs2 [E2 [W2 [K2 N2]]]]. rewrite E2. clear E2.
    (* step 3: namespace *)
    unfold set_namespace. destruct (String.eqb ns "") eqn:Ens.
    - apply String.eqb_eq in Ens.
      destruct (clear_ns_map kvs2 W2) as [kvs3 [E3 [H3a H3b]]].
      unfold set_namespace in E3. cbn [String.eqb] in E3. rewrite E3.
      split; [|split].
      + intros Hk. unfold get_kind. cbn [dfield]. rewrite H3a by discriminate.
        rewrite <- (K1 Hk). unfold get_kind in K2. cbn [dfield] in K2. exact K2.
      + intros Hn. destruct (N2 Hn) as [Hname [mk2 [st2 [Hm2 [Hne2 Hf2]]]]].
        rewrite Hm2 in H3b.
        destruct (find_field "metadata" kvs3) as [[| mk3 |]|] eqn:F3; try contradiction; try discriminate.
        destruct H3b as [_ H3c].
        assert (Hnm : find_field "name" mk3 = Some (Scalar TNone st2 n)).
        { rewrite H3c by discriminate. exact Hf2. }
        unfold get_name. eapply meta_str_read; eauto.
        intros ->. cbn in Hnm. discriminate.
      + rewrite Ens. unfold get_namespace, meta_str, meta_of. cbn [dfield].
        destruct (find_field "metadata" kvs3) as [[tt0 ss0 vv0| mk3 |es0]|]; try contradiction; auto.
        destruct H3b as [H3n _]. destruct mk3; auto. cbn [nil_or_empty dfield]. rewrite H3n. reflexivity.
    - destruct (step_meta "namespace" ns kvs2 W2) as [kvs3 [E3 [W3 [G3 [Kd3 [Ho3 [mk3 [st3 [Hm3 [Hne3 _]]]]]]]]]].
      unfold set_meta in E3. rewrite E3.
      split; [|split].
      + intros Hk. rewrite Kd3, K2. auto.
      + intros Hn. destruct (N2 Hn) as [Hname [mk2 [st2 [Hm2 [Hne2 _]]]]].
        unfold get_name in *. rewrite <- Hname.
        apply meta_str_same. rewrite Hm2, Hm3. split; auto. split; auto.
        rewrite (Ho3 "name" mk3) by (auto; discriminate). rewrite Hm2. reflexivity.
      + exact G3.
  Qed.
End Proofs.

From KV Require Import Yaml.SortUniq Yaml.Merge2Frame.

Section Top.
  Context {Sc : Type}.
  Variable sch : schema Sc.
  Variable assoc_keys : list string.
  Variable nonstr : string -> bool.

  Lemma wf_root_meta x : wf_root x -> exists kvs, x = Map kvs /\ meta_wf kvs.
  Proof. intros [kvs [-> H]]. exists kvs. split; auto. Qed.

  (* Resource.ApplySmPatch: whenever the merged node is a mapping with well-formed metadata, the identity read
     back from the result is the target's (kind / name unless allowed, namespace always) *)
  Theorem apply_sm_patch_identity patch target r :
    apply_sm_patch sch assoc_keys nonstr patch target = Ok (Some r) ->
    nil_or_empty r = false ->
    (forall x, merge2 sch (mkOpts false true assoc_keys) nonstr (Some patch) (Some target) = Ok (Some x) -> wf_root x) ->
    (kind_change_allowed patch = false -> get_kind r = get_kind target) /\
    (name_change_allowed patch = false -> get_name r = get_name target) /\
    get_namespace r = get_namespace target.
  Proof.
    intros H Hne Hwf. unfold apply_sm_patch in H.
    destruct (merge2 sch (mkOpts false true assoc_keys) nonstr (Some patch) (Some target)) as [[x|]| | |] eqn:E;
      cbn in H; try discriminate.
    destruct (wf_root_meta x (Hwf x eq_refl)) as [kvs [-> Hm]].
    destruct (nil_or_empty (Map kvs)) eqn:Ee.
    - inv H. congruence.
    - inv H. apply restore_identity_ok. exact Hm.
  Qed.

  (* the side condition holds for the patches kustomize users write: target and patch are mappings, the target's
     keys (and its metadata's) are pairwise different, the patch carries no "$patch" at the root or on metadata *)
  Lemma merge_wf_root pk tk mk x :
    nodupk tk -> find_field "metadata" tk = Some (Map mk) -> nodupk mk ->
    find_field smp_key pk = None ->
    plain_patch (find_field "metadata" pk) ->
    merge2 sch (mkOpts false true assoc_keys) nonstr (Some (Map pk)) (Some (Map tk)) = Ok (Some x) ->
    wf_root x.
  Proof.
    intros Hnt Hmt Hnm Hp Hpm H. unfold merge2, walk_top in H.
    destruct (walk sch (mkOpts false true assoc_keys) nonstr merger (fuel_of [Some (Map tk); Some (Map pk)]) None None
                [Some (Map tk); Some (Map pk)]) as [[w|]| | |] eqn:E; cbn in H; inv H.
    unfold fuel_of in E.
    destruct (map_level sch _ nonstr _ _ _ (Some (Map pk)) _ Hp E) as [d [Hx Hw]]. inv Hx. cbn [w_node].
    destruct (walk_fields_map sch nonstr _ _ _ _ _ (nodup_sort_uniq _) _ _ Hnt Hw) as [kvs' [-> [Hnd' [_ Hin]]]].
    destruct (Hin "metadata" (in_field_names_dest _ _ _ _ Hmt)) as [rk [Hrk Hfk]].
    rewrite Hmt in Hrk, Hfk.
    unfold fvs, set_nth in Hrk. cbn [map replace_nth field_of] in Hrk.
    exists kvs'. split; auto. rewrite Hfk.
    match type of Hrk with
    | walk _ _ _ _ ?f _ _ _ = _ => destruct f as [|f'] eqn:Ef; [discriminate|]
    end.
    destruct (map_level sch _ nonstr _ _ _ _ _ Hpm Hrk) as [d' [Hx' Hw']]. subst rk.
    destruct (walk_fields_map sch nonstr _ _ _ _ _ (nodup_sort_uniq _) _ _ Hnm Hw') as [kvs2 [-> [Hnd2 _]]].
    cbn. exact Hnd2.
  Qed.
End Top.

(* for plain patches on well-formed targets the side condition is discharged *)
Theorem apply_sm_patch_identity_plain {Sc : Type} (sch : schema Sc) (assoc_keys : list string) (nonstr : string -> bool)
        pk tk mk r :
  nodupk tk -> find_field "metadata" tk = Some (Map mk) -> nodupk mk ->
  find_field smp_key pk = None -> plain_patch (find_field "metadata" pk) ->
  apply_sm_patch sch assoc_keys nonstr (Map pk) (Map tk) = Ok (Some r) ->
  nil_or_empty r = false ->
  (kind_change_allowed (Map pk) = false -> get_kind r = get_kind (Map tk)) /\
  (name_change_allowed (Map pk) = false -> get_name r = get_name (Map tk)) /\
  get_namespace r = get_namespace (Map tk).
Proof.
  intros. eapply apply_sm_patch_identity; eauto.
  intros x Hx. eapply (merge_wf_root sch assoc_keys nonstr pk tk mk); eauto.
Qed.

(* non-vacuity: a target WITHOUT namespace, a patch that carries another kind, name and a namespace *)
Definition id_target : node :=
  Map [("apiVersion", Scalar TStr SPlain "v1"); ("kind", Scalar TStr SPlain "ConfigMap");
       ("metadata", Map [("name", Scalar TStr SPlain "cm")]); ("data", Map [("a", Scalar TStr SPlain "1")])].
Definition id_patch : node :=
  Map [("apiVersion", Scalar TStr SPlain "v1"); ("kind", Scalar TStr SPlain "Secret");
       ("metadata", Map [("name", Scalar TStr SPlain "other"); ("namespace", Scalar TStr SPlain "default")]);
       ("data", Map [("b", Scalar TStr SPlain "2")])].
Example identity_example :
  exists r, apply_sm_patch schemaless ["name"] (fun _ => false) id_patch id_target = Ok (Some r) /\
            get_kind r = "ConfigMap" /\ get_name r = "cm" /\ get_namespace r = "" /\
            dfield "namespace" (match dfield "metadata" r with Some m => m | None => r end) = None /\
            getp ["data"; "b"] r = Some (Scalar TStr SPlain "2").
Proof. eexists. split; [vm_compute; reflexivity|]. repeat split. Qed.
