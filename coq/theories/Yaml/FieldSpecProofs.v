(* Proofs about the field-spec traversal (KV.Yaml.FieldSpec: fs_filter / fs_apply / fsslice_apply).
   Reusable results:
     fs_filter_frame / fs_apply_frame / fsslice_apply_frame
        any position that leaves the field-spec path at some key keeps its value — whatever SetValue does,
        with or without creation, "[]" hints and null promotion (used by C02 / C08 / C09);
     fs_filter_denotes
        without creation and for plain segments, the filter succeeds with result d' exactly when the
        reference interpretation [denotes] is defined and applying SetValue at the denoted positions, in
        document order, gives d'  (so SetValue is invoked on exactly the denoted nodes). *)
From KV Require Import Yaml.Fns Yaml.FnsSpec Yaml.FnsProofs Yaml.FieldSpec Yaml.FieldSpecSpec.

Ltac inv H := inversion H; subst; clear H.

Section FS.
  Variable create_kind : option kind.
  Variable create_tag : tag.
  Variable set_value : node -> res node.

  Notation fsf := (fs_filter create_kind create_tag set_value).

  (* the map branch of handleMap, as a function of the mapping *)
  Definition fs_map_step (create : bool) (p : string) (rest : list string) (obj : node) : res node :=
    let (field_name, is_seq) := is_sequence_field p in
    if String.eqb field_name "" then Err else
    let nocreate := negb create || match create_kind with None => true | Some _ => false end || is_seq in
    let cr : option kind :=
      if nocreate then None
      else match rest with
           | [] => create_kind
           | _ => Some KMap
           end in
    let pk : option (kind * tag) :=
      if nocreate then (if is_seq then Some (KSeq, TNone) else None)
      else match rest with
           | [] => match create_kind with Some k => Some (k, create_tag) | None => None end
           | _ => Some (KMap, TOther)
           end in
    do r <- walk cr (parse_path [field_name])
              (fun field =>
                 let field' := match pk with
                               | Some (k, t) => promote k t field
                               | None => field
                               end in
                 do f' <- fsf create rest field'; Ok (f', tt)) obj;
    Ok (fst r).

  Lemma fs_filter_cons create p rest obj :
    fsf create (p :: rest) obj =
    if is_null obj then Ok obj else
    match obj with
    | Seq es => do es' <- mapM (fsf create (p :: rest)) es; Ok (Seq es')
    | Map _ => fs_map_step create p rest obj
    | Scalar _ _ _ => Err
    end.
  Proof.
    destruct obj as [t s v|kvs|es].
    - destruct t; reflexivity.
    - reflexivity.
    - cbn [fs_filter is_null].
      match goal with |- bind ?a _ = bind ?b _ => assert (E : a = b) end; [|now rewrite E].
      induction es as [|e es IH]; [reflexivity|].
      cbn [mapM]. rewrite <- IH. reflexivity.
  Qed.

  (* ---------- small facts ---------- *)
  Lemma seg_ok_parse p :
    seg_ok p = true -> parse_path [seg_name p] = [PKey (seg_name p)] /\ seg_name p <> "".
  Proof.
    unfold seg_ok. remember (seg_name p) as nm. intros H. split.
    - destruct (parse_path [nm]) as [|[k| | | | | |] [|? ?]]; try discriminate.
      apply String.eqb_eq in H. now subst k.
    - intros ->. cbn in H. discriminate.
  Qed.

  Lemma mapM_nth {A B} (f : A -> res B) l l' :
    mapM f l = Ok l' ->
    forall i, match nth_error l i with
              | Some e => exists e', f e = Ok e' /\ nth_error l' i = Some e'
              | None => nth_error l' i = None
              end.
  Proof.
    revert l'; induction l as [|h t IH]; intros l' H i.
    - cbn in H. inv H. destruct i; reflexivity.
    - cbn in H. destruct (f h) as [y| | |] eqn:F; cbn in H; try discriminate.
      destruct (mapM f t) as [ys| | |] eqn:M; cbn in H; inv H.
      destruct i; cbn; [eauto|]. apply IH. reflexivity.
  Qed.

  Lemma get_at_promote k t x q : q <> [] -> get_at q (promote k t x) = get_at q x.
  Proof.
    intros Hq. destruct q as [|st q]; [congruence|].
    destruct x as [tg s v| |]; try reflexivity.
    destruct tg; try reflexivity.
    destruct k; destruct st as [key|i]; cbn; try reflexivity. destruct i; reflexivity.
  Qed.

  Lemma fs_diverges_nil q : fs_diverges [] q = false.
  Proof. induction q as [|[k|i] q IH]; cbn; auto. Qed.

  Lemma fs_diverges_nonempty path q : fs_diverges path q = true -> q <> [].
  Proof. destruct q; [discriminate|congruence]. Qed.

  Lemma get_at_empty_of k q : q <> [] -> get_at q (empty_of k) = None.
  Proof.
    intros Hq. destruct q as [|[key|i] q]; [congruence| |]; destruct k; cbn; try reflexivity.
    destruct i; reflexivity.
  Qed.

  Lemma promote_not_null k t x : is_null x = false -> promote k t x = x.
  Proof. destruct x as [tg ? ?| |]; try reflexivity. destruct tg; try reflexivity. discriminate. Qed.

  (* PathGetter with a single plain key on a mapping *)
  Lemma walk_key_inv {A} cr nm (K : node -> res (node * A)) kvs d r :
    walk cr [PKey nm] K (Map kvs) = Ok (d, r) ->
    (exists x x' a, find_field nm kvs = Some x /\ K x = Ok (x', a) /\ d = Map (set_first nm x' kvs))
    \/ (find_field nm kvs = None /\ d = Map kvs)
    \/ (exists leaf x' a, find_field nm kvs = None /\ cr = Some leaf /\
                          K (empty_of leaf) = Ok (x', a) /\ d = Map (kvs ++ [(nm, x')])).
  Proof.
    intros W. cbn in W. destruct (find_field nm kvs) as [x|] eqn:F.
    - destruct (K x) as [[x' a]| | |] eqn:E; cbn in W; inv W. left. eauto 10.
    - destruct cr as [leaf|]; [|inv W; auto].
      destruct (K (empty_of leaf)) as [[x' a]| | |] eqn:E; cbn in W; inv W. right; right. eauto 10.
  Qed.

  (* ---------- FRAME: a position that leaves the field-spec path at some key keeps its value ----------
     whatever SetValue does, whether or not fields are created, with or without "[]" hints. *)
  Lemma fs_filter_frame create path :
    forallb seg_ok path = true ->
    forall obj obj' q,
      fsf create path obj = Ok obj' -> fs_diverges path q = true -> get_at q obj' = get_at q obj.
  Proof.
    induction path as [|p rest IHp]; intros Hok.
    - intros obj obj' q _ D. rewrite fs_diverges_nil in D. discriminate.
    - cbn in Hok. apply andb_true_iff in Hok. destruct Hok as [Hp Hrest].
      specialize (IHp Hrest).
      destruct (seg_ok_parse _ Hp) as [PP NE].
      intros obj. induction obj as [t s v|kvs _|es IHes] using node_ind'; intros obj' q H D;
        rewrite fs_filter_cons in H.
      + destruct t; cbn in H; try discriminate. now inv H.
      + cbn [is_null] in H. unfold fs_map_step in H.
        unfold seg_name in PP, NE.
        destruct (is_sequence_field p) as [nm hint] eqn:ES. cbn [fst] in PP, NE.
        apply String.eqb_neq in NE. rewrite NE in H. rewrite PP in H.
        match type of H with
        | bind (walk ?cr _ ?K _) _ = _ =>
            set (cr0 := cr) in H; set (K0 := K) in H;
            destruct (walk cr0 [PKey nm] K0 (Map kvs)) as [[d r]| | |] eqn:W; cbn [bind fst] in H; inv H
        end.
        destruct q as [|[k|i] q']; cbn [fs_diverges] in D; try discriminate.
        2:{ destruct (walk_key_inv _ _ _ _ _ _ W) as
              [(x & x' & a & _ & _ & ->)|[(_ & ->)|(leaf & x' & a & _ & _ & _ & ->)]]; reflexivity. }
        unfold seg_name in D. rewrite ES in D. cbn [fst] in D.
        cbn [get_at].
        destruct (walk_key_inv _ _ _ _ _ _ W) as
            [(x & x' & a & F & E & ->)|[(F & ->)|(leaf & x' & a & F & Hcr & E & ->)]].
        * destruct (String.eqb_spec k nm) as [->|Hne].
          -- rewrite (find_field_set_first_same _ _ _ _ F), F.
             subst K0. cbn beta in E.
             match type of E with
             | bind (fsf create rest ?fld) _ = _ =>
                 destruct (fsf create rest fld) as [y| | |] eqn:R; cbn in E; inv E;
                 rewrite (IHp _ _ _ R D)
             end.
             pose proof (fs_diverges_nonempty _ _ D) as Hq.
             repeat match goal with
                    | |- context [match ?c with _ => _ end] => destruct c
                    end; try reflexivity; now apply get_at_promote.
          -- rewrite find_field_set_first_other; auto.
        * reflexivity.
        * destruct (String.eqb_spec k nm) as [->|Hne].
          -- rewrite (find_field_app_same _ _ _ F), F.
             subst K0. cbn beta in E.
             match type of E with
             | bind (fsf create rest ?fld) _ = _ =>
                 destruct (fsf create rest fld) as [y| | |] eqn:R; cbn in E; inv E;
                 rewrite (IHp _ _ _ R D)
             end.
             pose proof (fs_diverges_nonempty _ _ D) as Hq.
             assert (Hn : forall k0 t0, promote k0 t0 (empty_of leaf) = empty_of leaf)
               by (intros; apply promote_not_null; destruct leaf; reflexivity).
             repeat match goal with
                    | |- context [match ?c with _ => _ end] => destruct c
                    end; rewrite ?Hn; now apply get_at_empty_of.
          -- rewrite find_field_app_other; auto.
      + cbn [is_null] in H.
        destruct (mapM (fsf create (p :: rest)) es) as [es'| | |] eqn:M; cbn in H; inv H.
        destruct q as [|[k|i] q']; cbn [fs_diverges] in D; try discriminate; [reflexivity|].
        cbn [get_at]. pose proof (mapM_nth _ _ _ M i) as N.
        destruct (nth_error es i) as [e|] eqn:Ne.
        * destruct N as [e' [Fe Ne']]. rewrite Ne'.
          rewrite Forall_forall in IHes. eapply IHes; eauto. eapply nth_error_In; eauto.
        * now rewrite N.
  Qed.

  (* ---------- the frame lemma for whole field specs and slices of them ---------- *)
  Definition fs_segments (fs : fieldspec) : list string := path_splitter (fs_path fs).

  Lemma fs_apply_frame fs obj obj' q :
    forallb seg_ok (fs_segments fs) = true ->
    fs_apply create_kind create_tag set_value fs obj = Ok obj' ->
    fs_diverges (fs_segments fs) q = true ->
    get_at q obj' = get_at q obj.
  Proof.
    unfold fs_apply, fs_segments. intros Hok H D.
    destruct (is_match_gvk fs obj); [|now inv H].
    eapply fs_filter_frame; eauto.
  Qed.

  Lemma fsslice_apply_frame l : forall obj obj' q,
    Forall (fun fs => forallb seg_ok (fs_segments fs) = true /\ fs_diverges (fs_segments fs) q = true) l ->
    fsslice_apply create_kind create_tag set_value l obj = Ok obj' ->
    get_at q obj' = get_at q obj.
  Proof.
    induction l as [|fs t IH]; intros obj obj' q HF H; cbn in H.
    - now inv H.
    - inversion HF as [|? ? [Hok D] HF']; subst.
      destruct (fs_apply create_kind create_tag set_value fs obj) as [o1| | |] eqn:E; cbn in H; try discriminate.
      rewrite (IH _ _ _ HF' H). eapply fs_apply_frame; eauto.
  Qed.

  (* ---------- DENOTES: without creation, SetValue is applied at exactly the denoted positions ---------- *)
  Lemma den_seq_fix (go : node -> res (list jpath)) es i :
    (fix goes (i : nat) (l : list node) : res (list jpath) :=
       match l with
       | [] => Ok []
       | e :: t => do a <- go e; do b <- goes (S i) t; Ok (map (cons (JIdx i)) a ++ b)%list
       end) i es = den_seq go i es.
  Proof. revert i; induction es as [|e es IH]; intros i; cbn; [reflexivity|]. now rewrite IH. Qed.

  Lemma denotes_cons p rest obj :
    denotes (p :: rest) obj =
    if is_null obj then Ok [] else
    match obj with
    | Seq es => den_seq (denotes (p :: rest)) 0 es
    | Map kvs =>
        match find_field p kvs with
        | Some x => do a <- denotes rest x; Ok (map (cons (JKey p)) a)
        | None => Ok []
        end
    | Scalar _ _ _ => Err
    end.
  Proof.
    destruct obj as [t s v|kvs|es].
    - destruct t; reflexivity.
    - reflexivity.
    - cbn [denotes is_null]. apply den_seq_fix.
  Qed.

  Lemma plain_seg_name p : plain_seg p = true -> is_sequence_field p = (p, false) /\ seg_ok p = true.
  Proof.
    unfold plain_seg, seg_hint. intros H. apply andb_true_iff in H. destruct H as [H1 H2].
    split; [|exact H1].
    unfold is_sequence_field in *. cbn [snd] in H2.
    apply negb_true_iff in H2. apply negb_false_iff in H2. apply String.eqb_eq in H2.
    rewrite H2. f_equal. now rewrite String.eqb_refl.
  Qed.

  Lemma fs_map_step_plain p rest kvs :
    plain_seg p = true ->
    fs_map_step false p rest (Map kvs) =
    match find_field p kvs with
    | Some x => do x' <- fsf false rest x; Ok (Map (set_first p x' kvs))
    | None => Ok (Map kvs)
    end.
  Proof.
    intros Hp. destruct (plain_seg_name _ Hp) as [ES Hok].
    destruct (seg_ok_parse _ Hok) as [PP NE].
    unfold seg_name in PP, NE. rewrite ES in PP, NE. cbn [fst] in PP, NE.
    unfold fs_map_step. rewrite ES.
    apply String.eqb_neq in NE. rewrite NE, PP. cbn.
    destruct (find_field p kvs) as [x|]; [|reflexivity].
    destruct (fsf false rest x) as [x'| | |]; reflexivity.
  Qed.

  Lemma apply_at_app f a b n :
    apply_at f (a ++ b) n = (do n' <- apply_at f a n; apply_at f b n').
  Proof.
    revert n; induction a as [|q a IH]; intros n; [reflexivity|].
    cbn. destruct (upd_at q f n) as [n1| | |]; cbn; auto.
  Qed.

  Lemma apply_at_key f p a : forall kvs x,
    find_field p kvs = Some x ->
    apply_at f (map (cons (JKey p)) a) (Map kvs) =
    (do x' <- apply_at f a x; Ok (Map (set_first p x' kvs))).
  Proof.
    induction a as [|q a IH]; intros kvs x F.
    - cbn. now rewrite (set_first_same _ _ _ F).
    - cbn [map apply_at upd_at]. rewrite F.
      destruct (upd_at q f x) as [x1| | |]; cbn; auto.
      rewrite (IH _ x1 (find_field_set_first_same _ _ _ _ F)).
      destruct (apply_at f a x1) as [x2| | |]; cbn; auto.
      now rewrite set_first_set_first.
  Qed.

  Lemma apply_at_idx f i a : forall es e,
    nth_error es i = Some e ->
    apply_at f (map (cons (JIdx i)) a) (Seq es) =
    (do e' <- apply_at f a e; Ok (Seq (replace_nth i e' es))).
  Proof.
    induction a as [|q a IH]; intros es e N.
    - cbn. now rewrite (replace_nth_same _ _ _ N).
    - cbn [map apply_at upd_at]. rewrite N.
      destruct (upd_at q f e) as [e1| | |]; cbn; auto.
      rewrite (IH _ e1 (nth_error_replace_nth_same _ _ _ _ N)).
      destruct (apply_at f a e1) as [e2| | |]; cbn; auto.
      now rewrite replace_nth_replace_nth.
  Qed.

  Lemma nth_error_app_mid {A} (pre : list A) e t : nth_error (pre ++ e :: t) (List.length pre) = Some e.
  Proof. induction pre; cbn; auto. Qed.

  Lemma replace_nth_app_mid {A} (pre : list A) e e' t :
    replace_nth (List.length pre) e' (pre ++ e :: t) = ((pre ++ [e']) ++ t)%list.
  Proof. induction pre; cbn; auto. now rewrite IHpre. Qed.

  Lemma seq_denotes (F : node -> res node) (g : node -> res (list jpath)) l :
    Forall (fun e => forall e', F e = Ok e' <-> exists a, g e = Ok a /\ apply_at set_value a e = Ok e') l ->
    forall pre obj',
      (exists l', mapM F l = Ok l' /\ obj' = Seq (pre ++ l')) <->
      (exists qs, den_seq g (List.length pre) l = Ok qs /\ apply_at set_value qs (Seq (pre ++ l)) = Ok obj').
  Proof.
    induction l as [|e t IH]; intros HF pre obj'.
    - cbn. split.
      + intros (l' & M & ->). inv M. exists []. auto.
      + intros (qs & D & A). inv D. cbn in A. inv A. exists []. auto.
    - inversion HF as [|? ? He HF']; subst. specialize (IH HF').
      cbn [mapM den_seq]. split.
      + intros (l' & M & ->).
        destruct (F e) as [e'| | |] eqn:Fe; cbn in M; try discriminate.
        destruct (mapM F t) as [t'| | |] eqn:Mt; cbn in M; inv M.
        destruct (proj1 (He e') eq_refl) as (a & Ga & Aa).
        destruct (proj1 (IH (pre ++ [e'])%list (Seq ((pre ++ [e']) ++ t')%list))) as (b & Db & Ab).
        { exists t'. auto. }
        rewrite app_length in Db. cbn in Db. rewrite Nat.add_1_r in Db.
        exists (map (cons (JIdx (List.length pre))) a ++ b)%list. rewrite Ga, Db. split; [reflexivity|].
        rewrite apply_at_app, (apply_at_idx _ _ _ _ _ (nth_error_app_mid pre e t)), Aa. cbn.
        rewrite replace_nth_app_mid, Ab. now rewrite <- app_assoc.
      + intros (qs & D & A).
        destruct (g e) as [a| | |] eqn:Ga; cbn in D; try discriminate.
        destruct (den_seq g (S (List.length pre)) t) as [b| | |] eqn:Db; cbn in D; inv D.
        rewrite apply_at_app, (apply_at_idx _ _ _ _ _ (nth_error_app_mid pre e t)) in A.
        destruct (apply_at set_value a e) as [e'| | |] eqn:Aa; cbn in A; try discriminate.
        rewrite replace_nth_app_mid in A.
        destruct (proj2 (IH (pre ++ [e'])%list obj')) as (t' & Mt & ->).
        { exists b. rewrite app_length. cbn. rewrite Nat.add_1_r. auto. }
        rewrite (proj2 (He e')) by eauto. rewrite Mt. cbn.
        exists (e' :: t'). split; [reflexivity|]. now rewrite <- app_assoc.
  Qed.

  Lemma fs_filter_denotes path :
    forallb plain_seg path = true ->
    forall obj obj',
      fsf false path obj = Ok obj' <->
      exists qs, denotes path obj = Ok qs /\ apply_at set_value qs obj = Ok obj'.
  Proof.
    induction path as [|p rest IHp]; intros Hok.
    - intros obj obj'. cbn. split.
      + intros H. exists [[]]. split; [reflexivity|]. cbn. now rewrite H.
      + intros (qs & D & A). inv D. cbn in A. destruct (set_value obj); cbn in A; congruence.
    - cbn in Hok. apply andb_true_iff in Hok. destruct Hok as [Hp Hrest]. specialize (IHp Hrest).
      intros obj. induction obj as [t s v|kvs _|es IHes] using node_ind'; intros obj';
        rewrite fs_filter_cons, denotes_cons.
      + destruct t; cbn; try (split; [discriminate|intros (qs & D & _); discriminate]).
        split.
        * intros H. inv H. exists []. auto.
        * intros (qs & D & A). inv D. cbn in A. now inv A.
      + cbn [is_null]. rewrite (fs_map_step_plain _ _ _ Hp).
        destruct (find_field p kvs) as [x|] eqn:F.
        * split.
          -- intros H. destruct (fsf false rest x) as [x'| | |] eqn:R; cbn in H; inv H.
             destruct (proj1 (IHp x x') R) as (a & Da & Aa).
             exists (map (cons (JKey p)) a). rewrite Da. split; [reflexivity|].
             now rewrite (apply_at_key _ _ _ _ _ F), Aa.
          -- intros (qs & D & A).
             destruct (denotes rest x) as [a| | |] eqn:Da; cbn in D; inv D.
             rewrite (apply_at_key _ _ _ _ _ F) in A.
             destruct (apply_at set_value a x) as [x'| | |] eqn:Aa; cbn in A; inv A.
             rewrite (proj2 (IHp x x')) by eauto. reflexivity.
        * split.
          -- intros H. inv H. exists []. auto.
          -- intros (qs & D & A). inv D. cbn in A. now inv A.
      + cbn [is_null].
        pose proof (seq_denotes (fsf false (p :: rest)) (denotes (p :: rest)) es IHes [] obj') as S.
        cbn [app List.length] in S. split.
        * intros H. apply S.
          destruct (mapM (fsf false (p :: rest)) es) as [es'| | |]; cbn in H; inv H. eauto.
        * intros H. apply S in H. destruct H as (l' & M & ->). now rewrite M.
  Qed.
End FS.

(* ---------- non-vacuity ---------- *)
Section Examples.
  Let str (s : string) := Scalar TStr SPlain s.
  Let mark : node -> res node := fun _ => Ok (str "MARK").
  Let pod : node :=
    Map [("kind", str "Pod");
         ("spec", Map [("containers", Seq [Map [("name", str "a"); ("image", str "i1")];
                                           Map [("name", str "b"); ("image", str "i2")];
                                           Map [("name", str "c")]]);
                       ("volumes", Scalar TNull SPlain "null")])].

  Example ex_denotes :
    denotes ["spec"; "containers"; "image"] pod
    = Ok [[JKey "spec"; JKey "containers"; JIdx 0; JKey "image"];
          [JKey "spec"; JKey "containers"; JIdx 1; JKey "image"]].
  Proof. reflexivity. Qed.

  Example ex_denotes_hyps : forallb plain_seg ["spec"; "containers"; "image"] = true.
  Proof. reflexivity. Qed.

  Example ex_filter_marks :
    exists d', fs_filter None TNone mark false ["spec"; "containers"; "image"] pod = Ok d' /\
               get_at [JKey "spec"; JKey "containers"; JIdx 1; JKey "image"] d' = Some (str "MARK") /\
               get_at [JKey "spec"; JKey "containers"; JIdx 1; JKey "name"] d' = Some (str "b").
  Proof. eexists. vm_compute. repeat split. Qed.

  Example ex_frame_hyps :
    forallb seg_ok (path_splitter "spec/containers[]/image") = true /\
    fs_diverges (path_splitter "spec/containers[]/image") [JKey "spec"; JKey "containers"; JIdx 0; JKey "name"] = true /\
    fs_diverges (path_splitter "spec/containers[]/image") [JKey "spec"; JKey "volumes"] = true /\
    fs_diverges (path_splitter "spec/containers[]/image") [JKey "spec"; JKey "containers"] = false.
  Proof. vm_compute. repeat split. Qed.

  (* a scalar on the path: the reference interpretation is undefined and the filter fails *)
  Example ex_denotes_err :
    denotes ["kind"; "x"] pod = Err /\ fs_filter None TNone mark false ["kind"; "x"] pod = Err.
  Proof. split; reflexivity. Qed.
End Examples.
