(* Model of kyaml/yaml/merge3: the three-way merge visitor (VisitMap / VisitScalar / visitAList /
   visitNAList / getStrValues) on the generic walker with sources [dest (local); original; updated].

   getStrValues renders each node in flow style with single quotes and compares the texts. For scalars
   the rendering is the quoted Value, so two scalars compare equal exactly when their Values do (the tag
   is not rendered: "1" and 1 are the same text); for lists the rendering of the whole list is compared,
   modelled as structural equality [node_eqb] of the two sequences (validated by the correspondence).
   VisitKeysAsScalars only transfers comments, which the node model does not carry. *)
From KV Require Export Yaml.Walk Yaml.Merge2.

Definition updated_of (srcs : list (option node)) : option node :=
  match srcs with _ :: _ :: u :: _ => u | _ => None end.

Definition is_none {A} (o : option A) : bool := match o with None => true | Some _ => false end.

(* Visitor.VisitMap *)
Definition m3_visit_map (srcs : list (option node)) : res (list (option node) * vres) :=
  let d := dest_of srcs in
  let u := updated_of srcs in
  if tagged_null u || tagged_null d then Ok (srcs, VNil)
  else if is_none d && is_none u then Ok (srcs, VNil)
  else if is_none d then Ok (srcs, VNew (Map []) false)
  else Ok (srcs, VDest).

(* Visitor.VisitScalar *)
Definition m3_visit_scalar (srcs : list (option node)) : res vres :=
  let d := dest_of srcs in
  let o := origin_of srcs in
  let u := updated_of srcs in
  if tagged_null u || tagged_null d then Ok VNil
  else if negb (Bool.eqb (o_null u) (o_null o)) then Ok (VSrc 2)
  else if o_null u && o_null o then Ok VDest
  else
    match u, o with
    | Some un, Some on =>
        if negb (String.eqb (node_value un) (node_value on)) then Ok (VSrc 2) else Ok VDest
    | _, _ => Ok VDest   (* unreachable: both are non-null here *)
    end.

(* Visitor.VisitList *)
Definition m3_visit_list (assoc : bool) (srcs : list (option node)) : res (list (option node) * vres) :=
  let d := dest_of srcs in
  let o := origin_of srcs in
  let u := updated_of srcs in
  if assoc then
    (* visitAList *)
    if o_null u && negb (o_null o) then Ok (srcs, VNil)
    else if o_null d then Ok (srcs, VNew (Seq []) false)
    else Ok (srcs, VDest)
  else
    (* visitNAList *)
    if tagged_null u || tagged_null d then Ok (srcs, VNil)
    else if negb (Bool.eqb (o_null u) (o_null o)) then Ok (srcs, VSrc 2)
    else if o_null u && o_null o then Ok (srcs, VDest)
    else
      match u, o with
      | Some un, Some on => if node_eqb un on then Ok (srcs, VDest) else Ok (srcs, VSrc 2)
      | _, _ => Ok (srcs, VDest)
      end.

Definition merger3 : visitor := mkVisitor m3_visit_map m3_visit_scalar m3_visit_list.

Section Merge3.
  Context {Sc : Type}.
  Variable sch : schema Sc.
  Variable opts : wopts.
  Variable nonstr : string -> bool.

  (* merge3.Merge(dest, original, update) *)
  Definition merge3 (local original updated : option node) : res (option node) :=
    walk_top sch opts nonstr merger3 [local; original; updated].
End Merge3.
