(* Proofs about KV.Yaml.NodeApi: the raw-Content readers agree with the readers on well-formed nodes,
   panic exactly on a dangling last Content node (odd length), visit in document order. *)
From KV Require Import Yaml.Fns Yaml.FnsSpec Yaml.FnsProofs Yaml.NodeApi.
From Coq Require Import Lia.

Ltac inv H := inversion H; subst; clear H.

(* ---------- a well-formed mapping never panics, and the raw readers are the ordinary ones ---------- *)
Lemma raw_find_flatten name kvs : raw_find name (flatten kvs) = Ok (find_field name kvs).
Proof.
  induction kvs as [|[k v] t IH]; [reflexivity|]. cbn [flatten raw_find key_node node_value find_field].
  destruct (String.eqb k name); [reflexivity|]. destruct (flatten t) eqn:E; exact IH.
Qed.

Lemma raw_pairs_flatten kvs : raw_pairs (flatten kvs) = Ok kvs.
Proof.
  induction kvs as [|[k v] t IH]; [reflexivity|]. cbn [flatten raw_pairs key_node node_value].
  rewrite IH. reflexivity.
Qed.

Lemma length_flatten kvs : List.length (flatten kvs) = 2 * List.length kvs.
Proof. induction kvs as [|[k v] t IH]; cbn [flatten List.length]; lia. Qed.

Lemma even_flatten kvs : Nat.even (List.length (flatten kvs)) = true.
Proof. rewrite length_flatten. induction (List.length kvs); [reflexivity|]. replace (2 * S n) with (S (S (2 * n))) by lia. exact IHn. Qed.

Lemma raw_field_map name kvs : raw_field RKMap (content (Map kvs)) name = Ok (field name (Map kvs)).
Proof. apply raw_find_flatten. Qed.

Lemma raw_fields_map kvs : raw_fields RKMap (content (Map kvs)) = fields (Map kvs).
Proof. cbn [raw_fields content fields]. now rewrite even_flatten, raw_pairs_flatten. Qed.

Lemma map_field_text_map name kvs :
  map_field_text name (Map kvs) = Ok (match find_field name kvs with Some v => node_value v | None => "" end).
Proof. unfold map_field_text, raw_map_field_value. cbn [content]. now rewrite raw_find_flatten. Qed.

(* ---------- no reader panics; a trailing entry without a partner is ignored ---------- *)
Lemma raw_find_no_panic name c : raw_find name c <> Panic.
Proof.
  revert c. fix IH 1. intros [|k [|v t]]; try discriminate.
  cbn [raw_find]. destruct (String.eqb (node_value k) name); [discriminate|]. apply IH.
Qed.

Lemma raw_pairs_no_panic c : raw_pairs c <> Panic.
Proof.
  revert c. fix IH 1. intros [|a [|b t]]; try discriminate.
  cbn [raw_pairs]. specialize (IH t). destruct (raw_pairs t); cbn; congruence.
Qed.

(* the reader sees exactly the complete pairs *)
Lemma raw_find_unpaired name kvs x : raw_find name (flatten kvs ++ [x]) = Ok (find_field name kvs).
Proof.
  induction kvs as [|[k v] t IH]; [reflexivity|]. cbn [flatten app raw_find key_node node_value find_field].
  destruct (String.eqb k name); [reflexivity|]. exact IH.
Qed.

Lemma map_field_text_no_panic name n : map_field_text name n <> Panic.
Proof.
  unfold map_field_text, raw_map_field_value. pose proof (raw_find_no_panic name (content n)) as H.
  destruct (raw_find name (content n)) as [[?|]| | |]; cbn; congruence.
Qed.

Lemma raw_fields_never_panics k c : raw_fields k c <> Panic.
Proof.
  destruct k; cbn; [|discriminate]. destruct (Nat.even (List.length c)); [|discriminate].
  pose proof (raw_pairs_no_panic c) as H. destruct (raw_pairs c); cbn; congruence.
Qed.

(* regression inputs of the former finding C14/panic-visitFieldsWhileTrue-index-oob (= C12 visitFieldsWhileTrue:index-oob):
   GetKind on a sequence with an odd number of elements, Field on a mapping node with an odd Content *)
Example regression_odd_content :
  rn_get_kind (Seq [Scalar TStr SPlain "a"]) = Ok "" /\
  rn_get_kind (Seq [Scalar TStr SPlain "kind"; Scalar TStr SPlain "K"; Scalar TStr SPlain "x"]) = Ok "K" /\
  raw_field RKMap [Scalar TStr SPlain "a"; Scalar TInt SPlain "1"; Scalar TStr SPlain "b"] "b" = Ok None /\
  raw_fields RKMap [Scalar TStr SPlain "a"; Scalar TInt SPlain "1"; Scalar TStr SPlain "b"] = Err.
Proof. repeat split. Qed.

(* ---------- document order ---------- *)
Lemma elements_order es : elements (Seq es) = Ok es.
Proof. reflexivity. Qed.

Lemma fields_order kvs : fields (Map kvs) = Ok (map fst kvs).
Proof. reflexivity. Qed.

Lemma find_field_nodup k (t : list (string * node)) :
  negb (str_in k (keys t)) = true -> forall k', In k' (keys t) -> String.eqb k k' = false.
Proof.
  intros H k' Hin. apply negb_true_iff in H. destruct (String.eqb k k') eqn:E; [|reflexivity].
  apply String.eqb_eq in E. subst k'. exfalso.
  induction t as [|[a b] t IH]; cbn in *; [contradiction|].
  apply orb_false_iff in H. destruct H as [H1 H2]. destruct Hin as [->|Hin]; [now rewrite String.eqb_refl in H1|auto].
Qed.

(* VisitFields: every field once, in document order, with its own value — when no key is repeated *)
Lemma visit_fields_nodup kvs :
  nodup_keys (keys kvs) = true ->
  visit_fields (Map kvs) = Ok (map (fun kv => (fst kv, Some (snd kv))) kvs).
Proof.
  intros H. unfold visit_fields. cbn [fields bind field]. f_equal.
  unfold keys. rewrite map_map.
  (* find_field (fst kv) kvs = Some (snd kv) for every kv of kvs *)
  assert (G : forall pre, nodup_keys (keys (pre ++ kvs)) = true ->
              (forall k, In k (keys pre) -> forall k', In k' (keys kvs) -> String.eqb k k' = false) ->
              map (fun kv => (fst kv, find_field (fst kv) (pre ++ kvs))) kvs
              = map (fun kv => (fst kv, Some (snd kv))) kvs).
  { clear H. induction kvs as [|[k v] t IH]; intros pre Hn Hd; [reflexivity|].
    cbn [map fst snd]. f_equal.
    - f_equal. induction pre as [|[a b] pre IHp]; cbn.
      + now rewrite String.eqb_refl.
      + rewrite (Hd a (or_introl eq_refl) k (or_introl eq_refl)).
        apply IHp.
        * cbn in Hn. apply andb_true_iff in Hn. tauto.
        * intros k0 Hk0. apply Hd. now right.
    - specialize (IH (pre ++ [(k, v)])%list). rewrite <- app_assoc in IH. cbn [app] in IH. apply IH; [exact Hn|].
      intros k0 Hk0 k' Hk'. unfold keys in Hk0. rewrite map_app in Hk0. apply in_app_or in Hk0.
      destruct Hk0 as [Hk0|[<-|[]]].
      + apply Hd; [exact Hk0|now right].
      + cbn [fst].
        (* k is not repeated in t: from nodup of pre ++ (k,v) :: t *)
        clear IH Hd. induction pre as [|[a b] pre IHp]; cbn in Hn.
        * apply andb_true_iff in Hn. destruct Hn as [Hn _]. eapply find_field_nodup; eauto.
        * apply andb_true_iff in Hn. apply IHp. tauto. }
  apply (G []); [exact H|]. intros k [].
Qed.

(* with a repeated key VisitFields visits the first value twice and the second never *)
Lemma visit_fields_duplicate_key :
  exists kvs, visit_fields (Map kvs) <> Ok (map (fun kv => (fst kv, Some (snd kv))) kvs).
Proof.
  exists [("a", Scalar TInt SPlain "1"); ("a", Scalar TInt SPlain "2")]. cbn. discriminate.
Qed.

(* ---------- GetFieldValue ---------- *)
Example ex_convert_slice_index :
  convert_slice_index ["spec"; "ports[0]"; "[2]"; "a[x]"; "b]"; "c[12]"] = ["spec"; "ports"; "0"; "2"; "a[x]"; "b]"; "c"; "12"].
Proof. reflexivity. Qed.

Example ex_get_field_value :
  let d := Map [("spec", Map [("ports", Seq [Map [("port", Scalar TInt SPlain "80")]]);
                              ("name", Scalar TStr SPlain "web")])] in
  get_field_value (fun _ => false) "spec.ports[0].port" d = Ok (GInt false 80) /\
  get_string (fun _ => false) "spec.name" d = Ok "web" /\
  get_slice (fun _ => false) "spec.ports" d = Ok tt /\
  get_string (fun _ => false) "spec.ports" d = Err /\
  get_field_value (fun _ => false) "spec.missing" d = Err.
Proof. vm_compute. repeat split. Qed.

(* ---------- fieldspec.Filter on any top-level object ---------- *)
Lemma is_match_gvk_raw_agrees fs obj :
  is_seq obj = false -> is_match_gvk_raw fs obj = Ok (is_match_gvk fs obj).
Proof.
  intros Hs. unfold is_match_gvk_raw, is_match_gvk, rn_get_kind, rn_get_api_version, obj_kind, obj_api_version, map_field_value.
  destruct obj as [t s v|kvs|es]; try discriminate.
  - cbn. destruct (parse_group_version ""); cbn.
    destruct (String.eqb (fs_kind fs) ""); reflexivity.
  - rewrite !map_field_text_map. cbn [bind].
    destruct (parse_group_version _) as [g v].
    destruct (String.eqb (fs_kind fs) ""); cbn; [reflexivity|].
    destruct (String.eqb (fs_kind fs) _); reflexivity.
Qed.

Lemma fs_apply_raw_agrees ck ct sv fs obj :
  is_seq obj = false -> fs_apply_raw ck ct sv fs obj = fs_apply ck ct sv fs obj.
Proof. intros Hs. unfold fs_apply_raw, fs_apply. now rewrite (is_match_gvk_raw_agrees _ _ Hs). Qed.

(* on a sequence object the GVK test reads the elements pairwise; it no longer panics on an odd number of them *)
Example fs_apply_raw_seq_regression :
  fs_apply_raw None TNone (fun x => Ok x) (mkFs "" "" "" "a" false) (Seq [Map []]) = Ok (Seq [Map []]).
Proof. reflexivity. Qed.

(* one step of a slice agrees as well; a whole slice agrees as long as no intermediate object is a sequence
   (a field spec whose path is blank hands the object itself to SetValue, which may return anything) *)
Lemma fsslice_apply_raw_cons ck ct sv fs t obj :
  is_seq obj = false ->
  fsslice_apply_raw ck ct sv (fs :: t) obj = (do o <- fs_apply ck ct sv fs obj; fsslice_apply_raw ck ct sv t o).
Proof. intros H. cbn [fsslice_apply_raw]. now rewrite fs_apply_raw_agrees. Qed.
