(* kyaml/yaml/rnode.go: RNode.DeAnchor (deAnchorRec, removeMergeTags, findMergeValues, mergeAll) over documents
   WITH anchors, aliases and merge keys.  [anode] is local to this file (Yaml/Node.v has no aliases); a
   de-anchored document embeds into Yaml/Node.v's [node] by [to_node].  Definitions only; proofs are in
   Yaml/AnchorProofs.v.

   Go works on pointers: an alias points to the node carrying the anchor, as bound by the decoder (the most
   recent anchor of that name before the alias, in document order).  Every mapping is rebuilt from COPIES of
   its entries (mergeAll runs for every MappingNode), so the node an alias points to is, in general, still
   unprocessed when the alias is reached, and is expanded at that moment.  Expansion is a pure function of
   the document, so the model expands every anchored node once, when it is met, and keeps in an environment
   (a) its expansion and (b), for a mapping, its *raw view*: its own entries — the "<<" entry included —
   with expanded values.  (b) is what a merge `<<: *n` copies from: findMergeValues returns the target node
   itself and mergeAll copies ITS entries, so a merge key of the target is copied as an ordinary entry.
   An anchor is "open" while the content of its node is being processed; an alias to an open anchor (a node
   that contains itself) is an error (fix 46c2be4).
   Domain: [flat_merges] — no mapping that can be the source of a merge has a merge key itself; the merge key
   is the plain key "<<" (which the decoder tags !!merge).  A merge key naming an open anchor is an error like
   an alias to one in value position (fix 2965816: checkAliasCycles; before it DeAnchor did not return).
   Outside [flat_merges] the Go result depends on the HISTORY of the pointed-to nodes: an alias in value
   position processes its target in place, so a later `<<: *n` copies the processed node (no "<<" left) where
   without that alias it copies the raw one; a left-over "<<" entry (it keeps its !!merge tag) is merged when
   the node is visited again; an inline merge value with a merge key of its own is expanded differently when
   it is a merge source and when it is copied as an entry.  The model follows the raw-view reading only: it is
   exact for the witnesses of the findings (fixed documents of the correspondence, [chained_merge]) and on
   [flat_merges]; generated documents outside are not compared (design.d/C13.md). *)
From KV Require Export Yaml.Node.

Inductive anode : Type :=
| AScalar (anchor : string) (t : tag) (s : style) (v : string)
| AMap (anchor : string) (es : list (string * anode))
| ASeq (anchor : string) (es : list anode)
| AAlias (name : string).

Definition aview := list (string * anode).

(* what the environment knows of an anchor *)
Inductive abind :=
| BOpen                                              (* the node is being processed *)
| BDone (expanded : anode) (self : option aview).    (* its expansion; for a mapping, its raw view *)

Definition aenv := list (string * abind).

Fixpoint env_lookup (a : string) (env : aenv) : option abind :=
  match env with
  | [] => None
  | (k, b) :: t => if String.eqb k a then Some b else env_lookup a t
  end.

Definition env_open (a : string) (env : aenv) : aenv :=
  if String.eqb a "" then env else (a, BOpen) :: env.

(* close the innermost open binding of that name *)
Fixpoint env_close (a : string) (b : abind) (env : aenv) : aenv :=
  match env with
  | [] => []
  | (k, BOpen) :: t => if String.eqb k a then (k, b) :: t else (k, BOpen) :: env_close a b t
  | e :: t => e :: env_close a b t
  end.

Definition env_bind (a : string) (b : abind) (env : aenv) : aenv :=
  if String.eqb a "" then env else (a, b) :: env.

Definition merge_key : string := "<<".

(* MapEntrySetter: replace the first entry with that key, else append *)
Fixpoint set_entry (k : string) (v : anode) (es : aview) : aview :=
  match es with
  | [] => [(k, v)]
  | (k', x) :: t => if String.eqb k' k then (k, v) :: t else (k', x) :: set_entry k v t
  end.

Fixpoint find_entry (k : string) (es : list (string * anode)) : option anode :=
  match es with
  | [] => None
  | (k', x) :: t => if String.eqb k' k then Some x else find_entry k t
  end.

(* RNode.VisitFields: the field NAMES in order, and for each name rn.Field(name), which is the FIRST entry of
   that name: of duplicated keys of the source only the first value is ever copied *)
Definition first_value (src : aview) (kv : string * anode) : anode :=
  match find_entry (fst kv) src with Some v => v | None => snd kv end.

Definition set_entries (src acc : aview) : aview :=
  fold_left (fun a kv => set_entry (fst kv) (first_value src kv) a) src acc.

(* FieldClearer{Name: "<<"}: the first entry of that name goes *)
Fixpoint remove_first_key (k : string) (es : aview) : aview :=
  match es with
  | [] => []
  | (k', x) :: t => if String.eqb k' k then t else (k', x) :: remove_first_key k t
  end.

Fixpoint count_key (k : string) (es : list (string * anode)) : nat :=
  match es with
  | [] => O
  | (k', _) :: t => if String.eqb k' k then S (count_key k t) else count_key k t
  end.

(* mergeAll: a copy of the mapping (merge key removed), then every source in order, then the mapping's own
   entries again (own values win; new keys are appended in the order they arrive) *)
Definition merge_all (own : aview) (srcs : list aview) : aview :=
  set_entries own (fold_left (fun a s => set_entries s a) srcs own).

(* result of processing one node: expansion, raw view when it is a mapping, raw views of the items when it
   is a sequence (what findMergeValues needs of a merge value) *)
Record dres := mkDres { d_exp : anode; d_self : option aview; d_items : list (option aview) }.

Fixpoint all_some {A} (l : list (option A)) : option (list A) :=
  match l with
  | [] => Some []
  | Some x :: t => match all_some t with Some r => Some (x :: r) | None => None end
  | None :: _ => None
  end.

(* findMergeValues on the raw merge value, given what processing it returned *)
Definition merge_sources (raw : anode) (r : dres) : res (list aview) :=
  match raw with
  | AScalar _ _ _ _ => Err                                 (* map merge requires map or sequence of maps *)
  | ASeq _ _ =>
      match all_some (d_items r) with
      | Some vs => Ok (rev vs)                              (* append(newMergeValues, mergeValues...) *)
      | None => Err                                         (* nested sequence / scalar / alias to a non-map *)
      end
  | _ => match d_self r with Some v => Ok [v] | None => Err end
  end.

(* [lax]: the node is a merge value (or an item of a merge list): findMergeValues only looks at its entries, the
   node itself never goes through removeMergeTags — its own merge key, valid or not, is an ordinary entry *)
Fixpoint de_anchor (lax : bool) (env : aenv) (n : anode) {struct n} : res (dres * aenv) :=
  match n with
  | AScalar a t s v =>
      let e := AScalar "" t s v in
      Ok (mkDres e None [], env_bind a (BDone e None) env)
  | AAlias x =>
      match env_lookup x env with
      | Some (BDone e sv) => Ok (mkDres e sv [], env)
      | Some BOpen => Err                                   (* alias refers to a node that contains it *)
      | None => Err                                         (* unknown anchor: rejected by the decoder already *)
      end
  | ASeq a es =>
      let env0 := env_open a env in
      do r <- (fix go (l : list anode) (env : aenv) : res (list anode * list (option aview) * aenv) :=
                 match l with
                 | [] => Ok ([], [], env)
                 | x :: t =>
                     do rx <- de_anchor lax env x;
                     do rt <- go t (snd rx);
                     Ok (d_exp (fst rx) :: fst (fst rt), d_self (fst rx) :: snd (fst rt), snd rt)
                 end) es env0;
      let e := ASeq "" (fst (fst r)) in
      Ok (mkDres e None (snd (fst r)), if String.eqb a "" then snd r else env_close a (BDone e None) (snd r))
  | AMap a es =>
      if negb lax && Nat.ltb 1 (count_key merge_key es) then Err        (* duplicate merge key *)
      else
        let env0 := env_open a env in
        (* every raw entry with its value expanded, in order; the merge value does not contribute anchors *)
        do r <- (fix go (l : list (string * anode)) (env : aenv) : res (aview * option (anode * dres) * aenv) :=
                   match l with
                   | [] => Ok ([], None, env)
                   | (k, x) :: t =>
                       let is_m := String.eqb k merge_key in
                       do rx <- de_anchor (negb lax && is_m) env x;
                       do rt <- go t (if is_m then env else snd rx);
                       Ok ((k, d_exp (fst rx)) :: fst (fst rt),
                           (if is_m then Some (x, fst rx) else snd (fst rt)),
                           snd rt)
                   end) es env0;
        let view := fst (fst r) in
        do srcs <- match snd (fst r) with
                   | None => Ok []
                   | Some (raw, rm) => if lax then Ok [] else merge_sources raw rm
                   end;
        let own := if lax then view else remove_first_key merge_key view in
        let e := AMap "" (merge_all own srcs) in
        Ok (mkDres e (Some view) [],
            if String.eqb a "" then snd r else env_close a (BDone e (Some view)) (snd r))
  end.

(* RNode.DeAnchor on a document *)
Definition deanchor_doc (n : anode) : res anode :=
  match de_anchor false [] n with
  | Ok (r, _) => Ok (d_exp r)
  | Err => Err
  | Panic => Panic
  | Diverge => Diverge
  end.

(* ---- vocabulary of the theorems ---- *)

(* no anchor, no alias *)
Fixpoint alias_free (n : anode) : bool :=
  match n with
  | AScalar a _ _ _ => String.eqb a ""
  | AAlias _ => false
  | ASeq a es => String.eqb a "" && (fix go (l : list anode) : bool :=
                                      match l with [] => true | x :: t => alias_free x && go t end) es
  | AMap a es => String.eqb a "" && (fix go (l : list (string * anode)) : bool :=
                                      match l with [] => true | (_, x) :: t => alias_free x && go t end) es
  end.

(* … and no merge key *)
Fixpoint merge_free (n : anode) : bool :=
  match n with
  | AScalar _ _ _ _ => true
  | AAlias _ => true
  | ASeq _ es => (fix go (l : list anode) : bool :=
                    match l with [] => true | x :: t => merge_free x && go t end) es
  | AMap _ es => (fix go (l : list (string * anode)) : bool :=
                    match l with
                    | [] => true
                    | (k, x) :: t => negb (String.eqb k merge_key) && merge_free x && go t
                    end) es
  end.

(* Domain of the merge-key law (AnchorProofs.deanchor_merge_free_flat): no mapping that can be the SOURCE of a
   merge has a merge key itself — no anchored mapping, and no mapping written in place as a merge value or
   as an item of a merge list.  [lax] follows de_anchor's flag.  The usual "base: &b {...} /
   derived: {<<: *b, ...}" documents are inside; chained merges (AnchorProofs.chained_merge) are outside. *)
Fixpoint flat_merges (lax : bool) (n : anode) : bool :=
  match n with
  | AScalar _ _ _ _ => true
  | AAlias _ => true
  | ASeq _ es => (fix go (l : list anode) : bool :=
                    match l with [] => true | x :: t => flat_merges lax x && go t end) es
  | AMap a es =>
      (if lax || negb (String.eqb a "") then Nat.eqb (count_key merge_key es) 0 else true) &&
      (fix go (l : list (string * anode)) : bool :=
         match l with
         | [] => true
         | (k, x) :: t => flat_merges (negb lax && String.eqb k merge_key) x && go t
         end) es
  end.

(* ---- the expansion: the reference reading of anchors and aliases (YAML 1.2, 3.2.2.2 / 7.1) ----
   every alias stands for the node that most recently carried that anchor, anchors are dropped; an alias to a
   node that contains it has no finite expansion.  No merge-key processing: the law "DeAnchor's output equals
   the expansion" is stated for documents without merge keys (AnchorProofs.deanchor_equals_expansion). *)
Definition xenv := list (string * option anode).          (* None: the node is still open *)

Fixpoint xlookup (a : string) (env : xenv) : option (option anode) :=
  match env with
  | [] => None
  | (k, b) :: t => if String.eqb k a then Some b else xlookup a t
  end.

Fixpoint xclose (a : string) (e : anode) (env : xenv) : xenv :=
  match env with
  | [] => []
  | (k, None) :: t => if String.eqb k a then (k, Some e) :: t else (k, None) :: xclose a e t
  | b :: t => b :: xclose a e t
  end.

Fixpoint expand (env : xenv) (n : anode) {struct n} : option (anode * xenv) :=
  match n with
  | AScalar a t s v =>
      let e := AScalar "" t s v in
      Some (e, if String.eqb a "" then env else (a, Some e) :: env)
  | AAlias x =>
      match xlookup x env with
      | Some (Some e) => Some (e, env)
      | _ => None
      end
  | ASeq a es =>
      match (fix go (l : list anode) (env : xenv) : option (list anode * xenv) :=
               match l with
               | [] => Some ([], env)
               | x :: t =>
                   match expand env x with
                   | Some (e, env1) =>
                       match go t env1 with Some (r, env2) => Some (e :: r, env2) | None => None end
                   | None => None
                   end
               end) es (if String.eqb a "" then env else (a, None) :: env) with
      | Some (xs, env1) =>
          let e := ASeq "" xs in Some (e, if String.eqb a "" then env1 else xclose a e env1)
      | None => None
      end
  | AMap a es =>
      match (fix go (l : list (string * anode)) (env : xenv) : option (list (string * anode) * xenv) :=
               match l with
               | [] => Some ([], env)
               | (k, x) :: t =>
                   match expand env x with
                   | Some (e, env1) =>
                       match go t env1 with Some (r, env2) => Some ((k, e) :: r, env2) | None => None end
                   | None => None
                   end
               end) es (if String.eqb a "" then env else (a, None) :: env) with
      | Some (view, env1) =>
          let e := AMap "" view in Some (e, if String.eqb a "" then env1 else xclose a e env1)
      | None => None
      end
  end.

Definition expand_doc (n : anode) : option anode := option_map fst (expand [] n).

(* an alias-free document as a Yaml/Node.v node *)
Fixpoint to_node (n : anode) : option node :=
  match n with
  | AScalar _ t s v => Some (Scalar t s v)
  | AAlias _ => None
  | ASeq _ es =>
      option_map Seq ((fix go (l : list anode) : option (list node) :=
                         match l with
                         | [] => Some []
                         | x :: t => match to_node x, go t with Some y, Some r => Some (y :: r) | _, _ => None end
                         end) es)
  | AMap _ es =>
      option_map Map ((fix go (l : list (string * anode)) : option (list (string * node)) :=
                         match l with
                         | [] => Some []
                         | (k, x) :: t => match to_node x, go t with Some y, Some r => Some ((k, y) :: r) | _, _ => None end
                         end) es)
  end.

(* DeAnchor into the alias-free node type: what other models (C14 lens laws, …) consume *)
Definition deanchor (n : anode) : res node :=
  match deanchor_doc n with
  | Ok e => match to_node e with Some x => Ok x | None => Err end
  | Err => Err
  | Panic => Panic
  | Diverge => Diverge
  end.

Fixpoint anode_eqb (a b : anode) {struct a} : bool :=
  match a, b with
  | AScalar x t s v, AScalar x' t' s' v' => String.eqb x x' && tag_eqb t t' && style_eqb s s' && String.eqb v v'
  | AAlias x, AAlias x' => String.eqb x x'
  | ASeq x es, ASeq x' es' =>
      String.eqb x x' &&
      (fix go (l l' : list anode) : bool :=
         match l, l' with
         | [], [] => true
         | p :: t, p' :: t' => anode_eqb p p' && go t t'
         | _, _ => false
         end) es es'
  | AMap x es, AMap x' es' =>
      String.eqb x x' &&
      (fix go (l l' : list (string * anode)) : bool :=
         match l, l' with
         | [], [] => true
         | (k, p) :: t, (k', p') :: t' => String.eqb k k' && anode_eqb p p' && go t t'
         | _, _ => false
         end) es es'
  | _, _ => false
  end.
