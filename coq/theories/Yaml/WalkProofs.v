(* Proofs about the generic walker (Yaml/Walk.v): fuel monotonicity and fuel sufficiency.
   Property theorems are stated at the canonical fuel [fuel_of srcs]; [Diverge] is excluded by
   [walk_no_diverge], not by hypothesis. *)
From KV Require Import Yaml.Walk.
Local Open Scope list_scope.

Ltac inv H := inversion H; subst; try clear H.

(* ---------- folds in the res monad ---------- *)
Lemma fold_res_diverge {A B} (F : A -> B -> res A) l :
  fold_left (fun (acc : res A) b => do a <- acc; F a b) l Diverge = Diverge.
Proof. induction l; cbn; auto. Qed.

Lemma fold_res_mono {A B} (F1 F2 : A -> B -> res A) :
  (forall a b y, F1 a b = y -> y <> Diverge -> F2 a b = y) ->
  forall l (acc : res A) x,
    fold_left (fun (acc : res A) b => do a <- acc; F1 a b) l acc = x -> x <> Diverge ->
    fold_left (fun (acc : res A) b => do a <- acc; F2 a b) l acc = x.
Proof.
  intros HF. induction l as [|b l IH]; intros acc x H Hx; cbn in *; auto.
  destruct acc as [a| | |]; cbn in *; auto.
  - destruct (F1 a b) as [a'| | |] eqn:E.
    + rewrite (HF _ _ _ E) by discriminate. auto.
    + rewrite (HF _ _ _ E) by discriminate. auto.
    + rewrite (HF _ _ _ E) by discriminate. auto.
    + rewrite fold_res_diverge in H. subst. contradiction.
Qed.

Section Mono.
  Context {Sc : Type}.
  Variable sch : schema Sc.
  Variable opts : wopts.
  Variable nonstr : string -> bool.
  Variable vis : visitor.

  Notation rec_t := (@rec_t Sc).

  (* r2 answers like r1 wherever r1 does not run out of fuel *)
  Definition rec_le (r1 r2 : rec_t) : Prop :=
    forall sc a s x, r1 sc a s = x -> x <> Diverge -> r2 sc a s = x.

  Lemma walk_fields_mono r1 r2 sc alias srcs :
    rec_le r1 r2 ->
    forall names d x,
      walk_fields sch nonstr r1 sc alias srcs names d = x -> x <> Diverge ->
      walk_fields sch nonstr r2 sc alias srcs names d = x.
  Proof.
    intros Hle. induction names as [|key rest IH]; intros d x H Hx; cbn in *; auto.
    destruct (r1 (child_schema sch sc key) alias (map (field_of key) (cur_srcs alias d srcs))) as [r| | |] eqn:E1.
    - rewrite (Hle _ _ _ _ E1) by discriminate. cbn in *.
      destruct (set_field_w nonstr key r d) as [d'| | |]; cbn in *; auto.
    - rewrite (Hle _ _ _ _ E1) by discriminate. exact H.
    - rewrite (Hle _ _ _ _ E1) by discriminate. exact H.
    - cbn in H. subst. contradiction.
  Qed.

  Lemma walk_map_mono r1 r2 sc alias srcs x :
    rec_le r1 r2 ->
    walk_map sch nonstr vis r1 sc alias srcs = x -> x <> Diverge ->
    walk_map sch nonstr vis r2 sc alias srcs = x.
  Proof.
    intros Hle H Hx. unfold walk_map in *.
    destruct (v_map vis srcs) as [vr| | |]; cbn in *; auto.
    destruct (resolve alias (sync_from_alias alias (fst vr)) (snd vr)) as [[[[d0 keep] inpl] alias']|]; auto.
    destruct (walk_fields sch nonstr r1 sc alias' (sync_from_alias alias (fst vr))
                (field_names (cur_srcs alias' d0 (sync_from_alias alias (fst vr)))) d0) as [d| | |] eqn:E.
    - rewrite (walk_fields_mono _ _ _ _ _ Hle _ _ _ E) by discriminate. exact H.
    - rewrite (walk_fields_mono _ _ _ _ _ Hle _ _ _ E) by discriminate. exact H.
    - rewrite (walk_fields_mono _ _ _ _ _ Hle _ _ _ E) by discriminate. exact H.
    - cbn in H; subst; contradiction.
  Qed.

  Lemma assoc_step_mono r1 r2 esc alias srcs vl ks st values y :
    rec_le r1 r2 ->
    assoc_step nonstr r1 esc alias srcs vl ks st values = y -> y <> Diverge ->
    assoc_step nonstr r2 esc alias srcs vl ks st values = y.
  Proof.
    intros Hle H Hy. unfold assoc_step in *.
    destruct st as [[des items] vk_last].
    destruct values as [|v0 vs]; auto.
    destruct (validate_keys vl (v0 :: vs) ks) as [vk vv].
    destruct (validate_keys [vv] vv vk) as [ek ev].
    match goal with
    | H : bind (r1 ?a ?b ?c) _ = _ |- _ => destruct (r1 a b c) as [r| | |] eqn:E
    end.
    - rewrite (Hle _ _ _ _ E) by discriminate. exact H.
    - rewrite (Hle _ _ _ _ E) by discriminate. exact H.
    - rewrite (Hle _ _ _ _ E) by discriminate. exact H.
    - cbn in H; subst; contradiction.
  Qed.

  Lemma assoc_loop_mono r1 r2 esc alias srcs vl ks todo st x :
    rec_le r1 r2 ->
    assoc_loop nonstr r1 esc alias srcs vl ks todo st = x -> x <> Diverge ->
    assoc_loop nonstr r2 esc alias srcs vl ks todo st = x.
  Proof.
    intros Hle. unfold assoc_loop.
    apply (fold_res_mono (fun st values => assoc_step nonstr r1 esc alias srcs vl ks st values)
                         (fun st values => assoc_step nonstr r2 esc alias srcs vl ks st values)).
    intros a b y. apply assoc_step_mono; auto.
  Qed.

  Lemma set_assoc_mono r1 r2 sc alias srcs vl ks d inpl keep x :
    rec_le r1 r2 ->
    set_assoc sch opts nonstr r1 sc alias srcs vl ks d inpl keep = x -> x <> Diverge ->
    set_assoc sch opts nonstr r2 sc alias srcs vl ks d inpl keep = x.
  Proof.
    intros Hle H Hx. unfold set_assoc in *.
    destruct d as [t s v|kvs|des0]; auto.
    match goal with
    | H : bind (assoc_loop nonstr r1 ?a ?b ?c ?d ?e ?f ?g) _ = _ |- _ =>
        destruct (assoc_loop nonstr r1 a b c d e f g) as [st| | |] eqn:E
    end.
    - rewrite (assoc_loop_mono _ _ _ _ _ _ _ _ _ _ Hle E) by discriminate. exact H.
    - rewrite (assoc_loop_mono _ _ _ _ _ _ _ _ _ _ Hle E) by discriminate. exact H.
    - rewrite (assoc_loop_mono _ _ _ _ _ _ _ _ _ _ Hle E) by discriminate. exact H.
    - cbn in H; subst; contradiction.
  Qed.

  Lemma walk_aseq_mono r1 r2 sc alias srcs x :
    rec_le r1 r2 ->
    walk_aseq sch opts nonstr vis r1 sc alias srcs = x -> x <> Diverge ->
    walk_aseq sch opts nonstr vis r2 sc alias srcs = x.
  Proof.
    intros Hle H Hx. unfold walk_aseq in *.
    destruct (v_list vis true srcs) as [vr| | |]; cbn in *; auto.
    destruct (resolve alias (sync_from_alias alias (fst vr)) (snd vr)) as [[[[d0 keep] inpl] alias']|]; auto.
    match goal with
    | H : bind ?k _ = _ |- _ => destruct k as [ks| | |]; cbn in *; auto
    end.
    destruct (element_values opts ks _) eqn:EV; destruct ks;
      eapply set_assoc_mono; eauto.
  Qed.

  (* ---- fuel monotonicity ---- *)
  Lemma walk_mono_step f :
    rec_le (walk sch opts nonstr vis f) (walk sch opts nonstr vis (S f)).
  Proof.
    induction f as [|f IH]; intros sc a s x H Hx.
    - cbn in H. subst. contradiction.
    - cbn [walk] in H |- *.
      destruct (first_kind s) as [[| |]|].
      + exact H.
      + destruct (all_valid KMap s); auto. eapply walk_map_mono; eauto.
      + destruct (all_valid KSeq s); auto.
        destruct (is_associative sch opts (get_schema sch sc s) s); auto.
        eapply walk_aseq_mono; eauto.
      + eapply walk_map_mono; eauto.
  Qed.

  Lemma walk_mono f k sc a s x :
    walk sch opts nonstr vis f sc a s = x -> x <> Diverge ->
    walk sch opts nonstr vis (k + f) sc a s = x.
  Proof.
    induction k as [|k IH]; intros H Hx; cbn [Nat.add]; auto.
    apply walk_mono_step; auto.
  Qed.
End Mono.

(* ---------- depth bookkeeping ---------- *)
Definition kvs_le (m : nat) (kvs : list (string * node)) : Prop :=
  Forall (fun kv => depth (snd kv) <= m) kvs.
Definition es_le (m : nat) (es : list node) : Prop := Forall (fun e => depth e <= m) es.

Lemma depth_pos n : 1 <= depth n.
Proof. destruct n; cbn; lia. Qed.

Lemma map_depth_le kvs m : depth (Map kvs) <= S m <-> kvs_le m kvs.
Proof.
  cbn. split.
  - intros H. apply le_S_n in H. induction kvs as [|[k v] t IH]; constructor; cbn in *.
    + lia.
    + apply IH. lia.
  - intros H. apply le_n_S. induction H as [|[k v] t Hv Ht IH]; cbn in *; lia.
Qed.

Lemma seq_depth_le es m : depth (Seq es) <= S m <-> es_le m es.
Proof.
  cbn. split.
  - intros H. apply le_S_n in H. induction es as [|e t IH]; constructor; cbn in *.
    + lia.
    + apply IH. lia.
  - intros H. apply le_n_S. induction H as [|e t Hv Ht IH]; cbn in *; lia.
Qed.

Lemma depth_le_0 n : ~ depth n <= 0.
Proof. pose proof (depth_pos n). lia. Qed.

Lemma find_field_le m k kvs v : kvs_le m kvs -> find_field k kvs = Some v -> depth v <= m.
Proof.
  induction 1 as [|[k' v'] t Hv Ht IH]; cbn; intros H; [discriminate|].
  destruct (String.eqb k' k); [inv H; auto|auto].
Qed.

Lemma set_first_le m k v kvs : kvs_le m kvs -> depth v <= m -> kvs_le m (set_first k v kvs).
Proof.
  induction 1 as [|[k' v'] t Hv Ht IH]; cbn; intros H; [constructor|].
  destruct (String.eqb k' k); constructor; cbn; auto. apply IH; auto.
Qed.

Lemma remove_first_le m k kvs : kvs_le m kvs -> kvs_le m (remove_first k kvs).
Proof.
  induction 1 as [|[k' v'] t Hv Ht IH]; cbn; [constructor|].
  destruct (String.eqb k' k); auto. constructor; auto.
Qed.

Lemma nth_error_le m es i e : es_le m es -> nth_error es i = Some e -> depth e <= m.
Proof.
  intros H. revert i. induction H as [|x t Hx Ht IH]; intros [|i]; cbn; intros E; try discriminate.
  - inv E; auto.
  - eauto.
Qed.

Lemma replace_nth_le m es i e : es_le m es -> depth e <= m -> es_le m (replace_nth i e es).
Proof.
  intros H He. revert i. induction H as [|x t Hx Ht IH]; intros [|i]; cbn; try constructor; auto.
  apply IH.
Qed.

Lemma quote11_depth nonstr v : depth (quote11 nonstr v) = depth v.
Proof.
  destruct v as [t s x| |]; cbn; auto. destruct s; auto. destruct t; auto; destruct (nonstr x); auto.
Qed.

Lemma with_style_depth s v : depth (with_style s v) = depth v.
Proof. destruct v; auto. Qed.

Lemma clear_field_le m k d d' : depth d <= m -> clear_field k d = Ok d' -> depth d' <= m.
Proof.
  destruct d as [t s v|kvs|es]; cbn; intros Hd H.
  - destruct t; inv H; auto.
  - inv H. destruct m; [exfalso; eapply (depth_le_0 (Map kvs)); eauto|].
    apply map_depth_le. apply remove_first_le. apply map_depth_le; auto.
  - inv H.
Qed.

Lemma set_field_le nonstr m k v keep d d' :
  depth d <= S m -> depth v <= m -> set_field nonstr k (Some v) keep d = Ok d' -> depth d' <= S m.
Proof.
  intros Hd Hv H. unfold set_field in H.
  destruct (is_null v && negb keep).
  - eapply clear_field_le; eauto.
  - destruct d as [t s x|kvs|es].
    + destruct (is_null (Scalar t s x)); inv H; auto.
    + apply map_depth_le in Hd.
      destruct (find_field k kvs) as [old|]; inv H; apply map_depth_le.
      * apply set_first_le; auto. rewrite with_style_depth; auto.
      * apply Forall_app; split; auto. constructor; [|constructor]. cbn. rewrite quote11_depth; auto.
    + cbn in H. inv H.
Qed.

Lemma set_field_w_le nonstr m k (r : option wres) d d' :
  depth d <= S m -> (forall w, r = Some w -> depth (w_node w) <= m) ->
  set_field_w nonstr k r d = Ok d' -> depth d' <= S m.
Proof.
  intros Hd Hr H. unfold set_field_w in H.
  destruct r as [w|]; [|eapply clear_field_le; eauto].
  specialize (Hr w eq_refl).
  destruct (w_inplace w && negb (is_null (w_node w) && negb (w_keep w))).
  - destruct d as [t s x|kvs|es]; try (eapply set_field_le; eauto; fail).
    destruct (find_field k kvs) as [old|] eqn:F; [|eapply set_field_le; eauto].
    inv H. apply map_depth_le. apply set_first_le; [apply map_depth_le; auto|].
    rewrite quote11_depth; auto.
  - eapply set_field_le; eauto.
Qed.

Lemma set_scalar_depth v d d' : depth v <= 1 -> depth d <= 1 -> set_scalar (Some v) d = Ok d' -> depth d' <= 1.
Proof.
  intros Hv Hd H. destruct d as [t s x| |]; try discriminate. unfold set_scalar in H.
  destruct (is_null (Scalar t s x)); destruct (is_null v); inv H; auto; rewrite with_style_depth; auto.
Qed.

(* ---------- ElementSetter / appendListNode keep the element bound ---------- *)
Lemma element_set_le m elem ks vs es es' :
  es_le m es -> (forall x, elem = Some x -> depth x <= m) ->
  element_set elem ks vs es = Ok es' -> es_le m es'.
Proof.
  intros Hes Hel H. unfold element_set in H. unfold es_le in *.
  set (ks' := match ks with [] => [""%string] | _ :: _ => ks end) in *.
  set (ms := match ks' with
             | [] => false
             | k :: _ => match vs with [] => false | v :: _ => negb (k =? "")%string && negb (v =? "")%string end
             end) in *.
  match goal with
  | H : bind (?F es) _ = _ |- _ => set (go := F) in *
  end.
  assert (Hgo : forall l r, Forall (fun e => depth e <= m) l -> go l = Ok r -> Forall (fun e => depth e <= m) (fst r)).
  { induction l as [|e t IH]; intros r Hl Hr; cbn in Hr.
    - inv Hr. constructor.
    - inv Hl.
      destruct (is_null e || is_empty_map e); [eauto|].
      destruct (negb (is_map e) && ms).
      + destruct (go t) as [r0| | |] eqn:Et; cbn in Hr; inv Hr. cbn. constructor; eauto.
      + destruct (es_match ks' vs false e) as [b| | |]; cbn in Hr; try discriminate.
        destruct (go t) as [r0| | |] eqn:Et; cbn in Hr; try discriminate.
        destruct b.
        * destruct elem as [x|]; inv Hr; cbn; [constructor|]; eauto.
        * destruct vs; inv Hr; cbn; [|constructor]; eauto. }
  destruct (go es) as [r| | |] eqn:E; cbn in H; try discriminate.
  pose proof (Hgo _ _ Hes E) as Hr.
  destruct elem as [x|]; [|inv H; auto].
  destruct (is_null x); [inv H; auto|].
  destruct (snd r); inv H; auto.
  apply Forall_app; split; auto.
Qed.

Lemma fold_res_inv {A B} (P : A -> Prop) (F : A -> B -> res A) :
  (forall a b a', P a -> F a b = Ok a' -> P a') ->
  forall l acc a',
    (forall a, acc = Ok a -> P a) ->
    fold_left (fun (acc : res A) b => do a <- acc; F a b) l acc = Ok a' -> P a'.
Proof.
  intros HF. induction l as [|b l IH]; intros acc a' Hacc H; cbn in H.
  - auto.
  - eapply IH; [|exact H]. intros a E.
    destruct acc as [a0| | |]; cbn in E; try discriminate. eapply HF; eauto.
Qed.

Lemma fold_res_not_diverge {A B} (F : A -> B -> res A) :
  (forall a b, F a b <> Diverge) ->
  forall l acc, acc <> Diverge ->
    fold_left (fun (acc : res A) b => do a <- acc; F a b) l acc <> Diverge.
Proof.
  intros HF. induction l as [|b l IH]; intros acc Hacc; cbn; auto.
  apply IH. destruct acc; cbn; auto; discriminate.
Qed.

Lemma delete_elem_le m vk vv des des' :
  es_le m des -> delete_elem vk vv des = Ok des' -> es_le m des'.
Proof.
  intros Hd H. unfold delete_elem in H.
  eapply (fold_res_inv (es_le m) (fun l (_ : string) => element_set None vk vv l)); [| |exact H].
  - intros a b a' Ha E. eapply element_set_le; eauto. intros x Hx; discriminate.
  - intros a E; inv E; auto.
Qed.

Lemma append_list_node_le m dst src ks out :
  es_le m dst -> es_le m src -> append_list_node dst src ks = Ok out -> es_le m out.
Proof.
  intros Hd Hs H. unfold append_list_node in H.
  revert dst Hd H. induction Hs as [|e src He Hs IH]; intros dst Hd H; cbn in H.
  - inv H; auto.
  - match type of H with
    | fold_left ?F src ?acc = _ => destruct acc as [dst1| | |] eqn:E
    end.
    + eapply (IH dst1); [|exact H].
      destruct ks as [|k0 kt]; [discriminate|].
      unfold bind at 1 in E; cbv beta iota in E.
      destruct (String.eqb k0 "").
      * eapply element_set_le; [exact Hd| |exact E]. intros x Hx; inv Hx; auto.
      * match type of E with
        | match ?X with Ok _ => _ | Err => _ | Panic => _ | Diverge => _ end = _ =>
            destruct X as [st| | |] eqn:Est; try discriminate
        end.
        assert (Hst : es_le m (fst st)).
        { eapply (fold_res_inv (fun st : list node * list string => es_le m (fst st))
                    (fun st key => do vn <- get_field_rnode key e;
                                   match vn with
                                   | None => Ok (fst st ++ [e], snd st)
                                   | Some x => Ok (fst st, snd st ++ [node_value x])
                                   end)); [| |exact Est].
          - intros a b a' Ha Ea. destruct (get_field_rnode b e) as [[x|]| | |]; cbn in Ea; inv Ea; cbn; auto.
            apply Forall_app; split; auto.
          - intros a Ea; inv Ea; auto. }
        match type of E with
        | bind (if ?c then _ else _) _ = _ => destruct c
        end.
        -- destruct (element_set None (k0 :: kt) (snd st) (fst st)) as [d1| | |] eqn:E1; cbn in E; try discriminate.
           eapply element_set_le; [|  |exact E].
           ++ eapply element_set_le; [exact Hst| |exact E1]. intros x Hx; discriminate.
           ++ intros x Hx; inv Hx; auto.
        -- cbn in E. eapply element_set_le; [exact Hst| |exact E]. intros x Hx; inv Hx; auto.
    + exfalso. clear -H. induction src; cbn in H; [discriminate|auto].
    + exfalso. clear -H. induction src; cbn in H; [discriminate|auto].
    + exfalso. clear -H. induction src; cbn in H; [discriminate|auto].
Qed.

(* ---------- fuel sufficiency ---------- *)
Definition bounded (n : nat) (srcs : list (option node)) : Prop :=
  Forall (fun s => depth_o s <= n) srcs.

(* what the walker needs from a visitor: it never diverges, its rewritten sources and the nodes it
   makes are no deeper than the sources it was given *)
Record vis_ok (vis : visitor) : Prop := mkVisOk {
  vm_ok : forall n srcs vr, bounded n srcs -> v_map vis srcs = Ok vr ->
          bounded n (fst vr) /\ (forall x k, snd vr = VNew x k -> depth x <= n);
  (* VisitList is only called when some source is a non-null sequence, hence on sources of depth >= 1 *)
  vl_ok : forall b m srcs vr, bounded (S m) srcs -> v_list vis b srcs = Ok vr ->
          bounded (S m) (fst vr) /\ (forall x k, snd vr = VNew x k -> depth x <= S m);
  vs_ok : forall n srcs r, bounded n srcs -> v_scalar vis srcs = Ok r ->
          forall x k, r = VNew x k -> depth x <= n;
  vm_nd : forall srcs, v_map vis srcs <> Diverge;
  vl_nd : forall b srcs, v_list vis b srcs <> Diverge;
  vs_nd : forall srcs, v_scalar vis srcs <> Diverge
}.

Lemma bounded_nth n srcs i x : bounded n srcs -> nth_error srcs i = Some (Some x) -> depth x <= n.
Proof.
  intros H. revert i. induction H as [|s t Hs Ht IH]; intros [|i] E; cbn in E; try discriminate.
  - inv E. exact Hs.
  - eauto.
Qed.

Lemma bounded_set_nth n srcs i s : bounded n srcs -> depth_o s <= n -> bounded n (set_nth i s srcs).
Proof.
  intros H Hs. revert i. unfold set_nth. induction H as [|x t Hx Ht IH]; intros [|i]; cbn; try constructor; auto.
  apply IH.
Qed.

Lemma bounded_sync n alias srcs : bounded n srcs -> bounded n (sync_from_alias alias srcs).
Proof.
  intros H. unfold sync_from_alias. destruct alias as [j|]; auto.
  destruct (nth_error srcs j) as [s|] eqn:E; auto.
  apply bounded_set_nth; auto.
  destruct s as [x|]; cbn; [|lia]. eapply bounded_nth; eauto.
Qed.

Lemma bounded_cur n alias d srcs : bounded n srcs -> depth d <= n -> bounded n (cur_srcs alias d srcs).
Proof.
  intros H Hd. unfold cur_srcs. destruct alias; repeat apply bounded_set_nth; auto.
Qed.

Lemma resolve_le n alias srcs r d keep inpl alias' :
  bounded n srcs -> (forall x k, r = VNew x k -> depth x <= n) ->
  resolve alias srcs r = Some (d, keep, inpl, alias') -> depth d <= n.
Proof.
  intros Hb Hn H. destruct r as [| |i|x k]; unfold resolve in H; try discriminate.
  - destruct (nth_error srcs 0) as [[x|]|] eqn:E; inv H. eapply bounded_nth; eauto.
  - destruct (nth_error srcs i) as [[x|]|] eqn:E; inv H. eapply bounded_nth; eauto.
  - inv H. eauto.
Qed.

Lemma finish_le n alias srcs r w :
  bounded n srcs -> (forall x k, r = VNew x k -> depth x <= n) ->
  finish alias srcs r = Some w -> depth (w_node w) <= n.
Proof.
  intros Hb Hn H. unfold finish in H.
  destruct (resolve alias srcs r) as [[[[d k] ip] a]|] eqn:E; inv H. cbn. eapply resolve_le; eauto.
Qed.

Lemma field_of_bounded m key srcs : bounded (S m) srcs -> bounded m (map (field_of key) srcs).
Proof.
  induction 1 as [|s t Hs Ht IH]; cbn; constructor; auto.
  destruct s as [[| kvs |]|]; cbn; try lia.
  destruct (find_field key kvs) as [v|] eqn:F; cbn; [|lia].
  eapply find_field_le; eauto. apply map_depth_le. exact Hs.
Qed.

Lemma elem_at_le m s i : depth_o s <= S m -> depth_o (elem_at s i) <= m.
Proof.
  intros H. destruct s as [[| |es]|]; destruct i as [i|]; cbn; try lia.
  destruct (nth_error es i) as [e|] eqn:E; cbn; [|lia].
  eapply nth_error_le; eauto. apply seq_depth_le. exact H.
Qed.

Lemma ensure_keys_le nonstr m vk vv val val' :
  depth val <= m -> negb (is_empty_map val) = true ->
  ensure_keys nonstr vk vv val = Ok val' -> depth val' <= m /\ negb (is_empty_map val') = true.
Proof.
  intros Hd Hne H. unfold ensure_keys in H.
  eapply (fold_res_inv (fun v => depth v <= m /\ negb (is_empty_map v) = true)
            (fun val (kv : string * string) =>
               if negb (has_field (fst kv) val) && negb (String.eqb (snd kv) "") then
                 if String.eqb (fst kv) "" then set_scalar (Some (Scalar TNone SPlain (snd kv))) val
                 else set_field nonstr (fst kv) (Some (Scalar TNone SPlain (snd kv))) false val
               else Ok val)); [| |exact H].
  - intros a [k v] a' [Ha Hna] E. cbn [fst snd] in E.
    destruct (negb (has_field k a) && negb (String.eqb v "")); [|inv E; auto].
    destruct (String.eqb k "").
    + destruct a as [t s x| |]; cbn in E; try discriminate.
      destruct t; inv E; cbn; auto.
    + destruct a as [t s x|kvs|es].
      * cbn in E. destruct t; inv E; auto.
      * destruct kvs as [|kv0 kvt]; [discriminate|].
        assert (Hm : exists m', m = S (S m')).
        { cbn in Ha. pose proof (depth_pos (snd kv0)).
          destruct m as [|[|m']]; try lia. eauto. }
        destruct Hm as [m' ->].
        split.
        -- eapply set_field_le; [exact Ha| |exact E]. cbn. lia.
        -- unfold set_field in E. cbn [is_null andb] in E.
           destruct (find_field k (kv0 :: kvt)) as [old|]; inv E.
           ++ destruct kv0 as [k0 x0]. cbn. destruct (String.eqb k0 k); reflexivity.
           ++ destruct kv0; reflexivity.
      * cbn in E. discriminate.
  - intros a E; inv E; auto.
Qed.

(* ---------- the helpers never run out of fuel (they have none) ---------- *)
Lemma bind_nd {A B} (r : res A) (f : A -> res B) :
  r <> Diverge -> (forall a, f a <> Diverge) -> bind r f <> Diverge.
Proof. destruct r; cbn; auto; discriminate. Qed.

Lemma clear_field_nd k d : clear_field k d <> Diverge.
Proof. destruct d as [t s v| |]; cbn; try discriminate. destruct t; discriminate. Qed.

Lemma set_field_nd nonstr k v keep d : set_field nonstr k v keep d <> Diverge.
Proof.
  unfold set_field. destruct v as [v0|]; [|apply clear_field_nd].
  destruct (is_null v0 && negb keep); [apply clear_field_nd|].
  destruct d as [t s x|kvs|es]; try discriminate.
  - destruct (is_null (Scalar t s x)); discriminate.
  - destruct (find_field k kvs); discriminate.
Qed.

Lemma set_field_w_nd nonstr k r d : set_field_w nonstr k r d <> Diverge.
Proof.
  unfold set_field_w. destruct r as [w|]; [|apply clear_field_nd].
  destruct (w_inplace w && _); [|apply set_field_nd].
  destruct d as [t s x|kvs|es]; try apply set_field_nd.
  destruct (find_field k kvs); [discriminate|apply set_field_nd].
Qed.

Lemma set_scalar_nd v d : set_scalar v d <> Diverge.
Proof.
  destruct d as [t s x| |]; cbn; try discriminate.
  destruct t; destruct v as [v0|]; try discriminate; destruct (is_null v0); discriminate.
Qed.

Lemma field_match_nd k v e : field_match k v e <> Diverge.
Proof.
  unfold field_match. destruct (is_null e); [discriminate|].
  destruct (String.eqb k ""); destruct e as [t s x|kvs|es]; try discriminate.
  destruct (find_field k kvs); discriminate.
Qed.

Lemma es_match_nd ks : forall vs b e, es_match ks vs b e <> Diverge.
Proof.
  induction ks as [|k ks IH]; intros vs b e; cbn; [discriminate|].
  destruct vs as [|v vs].
  - destruct b; [apply IH|discriminate].
  - apply bind_nd; [apply field_match_nd|]. intros [|]; [apply IH|discriminate].
Qed.

Lemma element_set_nd elem ks vs es : element_set elem ks vs es <> Diverge.
Proof.
  unfold element_set.
  apply bind_nd.
  - induction es as [|e t IH]; [discriminate|].
    cbn. destruct (is_null e || is_empty_map e); [exact IH|].
    match goal with |- (if ?c then _ else _) <> _ => destruct c end.
    + apply bind_nd; [exact IH|discriminate].
    + apply bind_nd; [apply es_match_nd|]. intros b.
      apply bind_nd; [exact IH|]. intros r.
      destruct b; [destruct elem; discriminate|destruct vs; discriminate].
  - intros r. destruct elem as [x|]; [|discriminate].
    destruct (is_null x); [discriminate|]. destruct (snd r); discriminate.
Qed.

Lemma fold_res_nd {A B} (F : A -> B -> res A) :
  (forall a b, F a b <> Diverge) ->
  forall l acc, acc <> Diverge ->
    fold_left (fun (acc : res A) b => do a <- acc; F a b) l acc <> Diverge.
Proof.
  intros HF. induction l as [|b l IH]; intros acc Hacc; cbn; auto.
  apply IH. apply bind_nd; auto.
Qed.

Lemma delete_elem_nd vk vv des : delete_elem vk vv des <> Diverge.
Proof.
  unfold delete_elem.
  apply (fold_res_nd (fun l (_ : string) => element_set None vk vv l)); [|discriminate].
  intros; apply element_set_nd.
Qed.

Lemma ensure_keys_nd nonstr vk vv val : ensure_keys nonstr vk vv val <> Diverge.
Proof.
  unfold ensure_keys.
  apply (fold_res_nd (fun val (kv : string * string) =>
               if negb (has_field (fst kv) val) && negb (String.eqb (snd kv) "") then
                 if String.eqb (fst kv) "" then set_scalar (Some (Scalar TNone SPlain (snd kv))) val
                 else set_field nonstr (fst kv) (Some (Scalar TNone SPlain (snd kv))) false val
               else Ok val)); [|discriminate].
  intros a b. destruct (negb _ && _); [|discriminate].
  destruct (String.eqb (fst b) ""); [apply set_scalar_nd|apply set_field_nd].
Qed.

Lemma get_field_rnode_nd k e : get_field_rnode k e <> Diverge.
Proof. unfold get_field_rnode. destruct (is_null e); [discriminate|]. destruct e; discriminate. Qed.

Lemma append_list_node_nd dst src ks : append_list_node dst src ks <> Diverge.
Proof.
  unfold append_list_node.
  match goal with
  | |- fold_left ?F src (Ok dst) <> _ =>
      change (fold_left (fun (acc : res (list node)) e => do d <- acc;
                (fun (dst : list node) (e : node) =>
                   match ks with
                   | [] => Panic
                   | k0 :: _ =>
                       if String.eqb k0 "" then element_set (Some e) [""%string] [node_value e] dst
                       else
                         do st <- fold_left
                                    (fun (acc : res (list node * list string)) (key : string) =>
                                       do st <- acc;
                                       do vn <- get_field_rnode key e;
                                       match vn with
                                       | None => Ok (fst st ++ [e], snd st)
                                       | Some x => Ok (fst st, snd st ++ [node_value x])
                                       end) ks (Ok (dst, []));
                         do dst1 <- (if Nat.ltb 1 (List.length ks) then element_set None ks (snd st) (fst st)
                                     else Ok (fst st));
                         element_set (Some e) ks (snd st) dst1
                   end) d e) src (Ok dst) <> Diverge)
  end.
  apply fold_res_nd; [|discriminate].
  intros a e. destruct ks as [|k0 kt]; [discriminate|].
  destruct (String.eqb k0 ""); [apply element_set_nd|].
  apply bind_nd.
  - apply (fold_res_nd (fun (st : list node * list string) key =>
                          do vn <- get_field_rnode key e;
                          match vn with
                          | None => Ok (fst st ++ [e], snd st)
                          | Some x => Ok (fst st, snd st ++ [node_value x])
                          end)); [|discriminate].
    intros st key. apply bind_nd; [apply get_field_rnode_nd|]. intros [x|]; discriminate.
  - intros st. apply bind_nd.
    + destruct (Nat.ltb 1 _); [apply element_set_nd|discriminate].
    + intros; apply element_set_nd.
Qed.

Lemma fold_res_inv_nd {A B} (P : A -> Prop) (F : A -> B -> res A) :
  (forall a b, P a -> F a b <> Diverge /\ (forall a', F a b = Ok a' -> P a')) ->
  forall l acc, acc <> Diverge -> (forall a, acc = Ok a -> P a) ->
    fold_left (fun (acc : res A) b => do a <- acc; F a b) l acc <> Diverge /\
    (forall a', fold_left (fun (acc : res A) b => do a <- acc; F a b) l acc = Ok a' -> P a').
Proof.
  intros HF. induction l as [|b l IH]; intros acc Hnd Hacc; cbn.
  - split; auto.
  - apply IH.
    + destruct acc as [a| | |]; cbn; try discriminate; [|contradiction].
      apply HF. auto.
    + intros a' E. destruct acc as [a| | |]; cbn in E; try discriminate.
      eapply HF; eauto.
Qed.

Section Enough.
  Context {Sc : Type}.
  Variable sch : schema Sc.
  Variable opts : wopts.
  Variable nonstr : string -> bool.
  Variable vis : visitor.
  Hypothesis Hvis : vis_ok vis.

  Notation rec_t := (@rec_t Sc).

  (* a recursive call that is fine on sources of depth <= m *)
  Definition rec_ok (m : nat) (rec : rec_t) : Prop :=
    forall sc a s, bounded m s ->
      rec sc a s <> Diverge /\ (forall w, rec sc a s = Ok (Some w) -> depth (w_node w) <= m).

  Lemma walk_fields_ok m rec sc alias srcs :
    rec_ok m rec -> bounded (S m) srcs ->
    forall names d, depth d <= S m ->
      walk_fields sch nonstr rec sc alias srcs names d <> Diverge /\
      (forall d', walk_fields sch nonstr rec sc alias srcs names d = Ok d' -> depth d' <= S m).
  Proof.
    intros Hrec Hb. induction names as [|key rest IH]; intros d Hd; cbn.
    - split; [discriminate|]. intros d' E; inv E; auto.
    - assert (Hfv : bounded m (map (field_of key) (cur_srcs alias d srcs))).
      { apply field_of_bounded. apply bounded_cur; auto. }
      destruct (Hrec (child_schema sch sc key) alias _ Hfv) as [Hnd Hdep].
      destruct (rec (child_schema sch sc key) alias (map (field_of key) (cur_srcs alias d srcs))) as [r| | |] eqn:E;
        cbn; try (split; [discriminate|intros; discriminate]); [|contradiction].
      destruct (set_field_w nonstr key r d) as [d1| | |] eqn:E2; cbn;
        try (split; [discriminate|intros; discriminate]).
      + apply IH. eapply set_field_w_le; [exact Hd| |exact E2].
        intros w Hw; subst. apply Hdep; auto.
      + exfalso. eapply set_field_w_nd; eauto.
  Qed.

  Lemma walk_map_ok m rec sc alias srcs :
    rec_ok m rec -> bounded (S m) srcs ->
    walk_map sch nonstr vis rec sc alias srcs <> Diverge /\
    (forall w, walk_map sch nonstr vis rec sc alias srcs = Ok (Some w) -> depth (w_node w) <= S m).
  Proof.
    intros Hrec Hb. unfold walk_map.
    destruct (v_map vis srcs) as [vr| | |] eqn:Ev; cbn; try (split; [discriminate|intros; discriminate]).
    2:{ exfalso; eapply vm_nd; eauto. }
    destruct (vm_ok _ Hvis _ _ _ Hb Ev) as [Hb1 Hnew].
    pose proof (bounded_sync _ alias _ Hb1) as Hb2.
    destruct (resolve alias (sync_from_alias alias (fst vr)) (snd vr)) as [[[[d0 keep] inpl] alias']|] eqn:Er.
    2:{ split; [discriminate|intros; discriminate]. }
    pose proof (resolve_le _ _ _ _ _ _ _ _ Hb2 Hnew Er) as Hd0.
    destruct (walk_fields_ok m rec sc alias' _ Hrec Hb2
                (field_names (cur_srcs alias' d0 (sync_from_alias alias (fst vr)))) d0 Hd0) as [Hnd Hdep].
    destruct (walk_fields sch nonstr rec sc alias' (sync_from_alias alias (fst vr))
                (field_names (cur_srcs alias' d0 (sync_from_alias alias (fst vr)))) d0) as [d| | |] eqn:Ew;
      cbn; try (split; [discriminate|intros; discriminate]); [|contradiction].
    split; [discriminate|]. intros w E; inv E. cbn. auto.
  Qed.

  Lemma assoc_step_ok m rec esc alias srcs vl ks st values :
    rec_ok m rec -> bounded (S m) srcs ->
    es_le m (fst (fst st)) -> es_le m (snd (fst st)) ->
    assoc_step nonstr rec esc alias srcs vl ks st values <> Diverge /\
    (forall st', assoc_step nonstr rec esc alias srcs vl ks st values = Ok st' ->
                 es_le m (fst (fst st')) /\ es_le m (snd (fst st'))).
  Proof.
    intros Hrec Hb Hdes Hit. unfold assoc_step.
    destruct st as [[des items] vk_last]. cbn [fst snd] in *.
    destruct values as [|v0 vs].
    { split; [discriminate|]. intros st' E; inv E; auto. }
    destruct (validate_keys vl (v0 :: vs) ks) as [vk vv].
    destruct (validate_keys [vv] vv vk) as [ek ev].
    set (cur := cur_srcs alias (Seq des) srcs).
    set (idxs := map (elem_index ek ev) cur).
    set (fv := map (fun si => elem_at (fst si) (snd si)) (combine cur idxs)).
    assert (Hcur : bounded (S m) cur).
    { apply bounded_cur; auto. apply seq_depth_le; auto. }
    assert (Hfv : bounded m fv).
    { subst fv. clear -Hcur. generalize idxs as l. induction Hcur as [|s t Hs Ht IH]; intros [|i l]; cbn; constructor.
      - apply elem_at_le; auto.
      - apply IH. }
    destruct (Hrec esc alias fv Hfv) as [Hnd Hdep].
    destruct (rec esc alias fv) as [r| | |] eqn:E; cbn; try (split; [discriminate|intros; discriminate]);
      [|contradiction].
    destruct (is_dead r) eqn:Edead.
    - destruct (delete_elem ek ev des) as [des'| | |] eqn:Ed; cbn;
        try (split; [discriminate|intros; discriminate]).
      + split; [discriminate|]. intros st' Es; inv Es. cbn.
        split; [eapply delete_elem_le; [exact Hdes|exact Ed]|exact Hit].
      + exfalso. eapply delete_elem_nd; eauto.
    - destruct r as [w|]; [|discriminate].
      assert (Hw : depth (w_node w) <= m) by (apply Hdep; auto).
      assert (Hne : negb (is_empty_map (w_node w)) = true).
      { unfold is_dead in Edead. apply Bool.orb_false_elim in Edead. destruct Edead as [_ ->]. reflexivity. }
      destruct (ensure_keys nonstr vk vv (w_node w)) as [val| | |] eqn:Ek; cbn;
        try (split; [discriminate|intros; discriminate]).
      + destruct (ensure_keys_le _ _ _ _ _ _ Hw Hne Ek) as [Hval _].
        destruct (element_set (Some val) vk vv items) as [items'| | |] eqn:Ei; cbn;
          try (split; [discriminate|intros; discriminate]).
        * split; [discriminate|]. intros st' Es; inv Es. cbn. split.
          -- destruct (w_inplace w); auto. destruct (hd None idxs); auto. apply replace_nth_le; auto.
          -- eapply element_set_le; [exact Hit| |exact Ei]. intros x Hx; inv Hx; auto.
        * exfalso. eapply element_set_nd; eauto.
      + exfalso. eapply ensure_keys_nd; eauto.
  Qed.

  Lemma assoc_loop_ok m rec esc alias srcs vl ks :
    rec_ok m rec -> bounded (S m) srcs ->
    forall todo st, es_le m (fst (fst st)) -> es_le m (snd (fst st)) ->
      assoc_loop nonstr rec esc alias srcs vl ks todo st <> Diverge /\
      (forall st', assoc_loop nonstr rec esc alias srcs vl ks todo st = Ok st' ->
                   es_le m (fst (fst st')) /\ es_le m (snd (fst st'))).
  Proof.
    intros Hrec Hb todo st H1 H2. unfold assoc_loop.
    apply (fold_res_inv_nd (fun st : astate => es_le m (fst (fst st)) /\ es_le m (snd (fst st)))
             (fun st values => assoc_step nonstr rec esc alias srcs vl ks st values)).
    - intros a b [Ha1 Ha2]. apply assoc_step_ok; auto.
    - discriminate.
    - intros a Ea; inv Ea; auto.
  Qed.

  Lemma set_assoc_ok m rec sc alias srcs vl ks d inpl keep :
    rec_ok m rec -> bounded (S m) srcs -> depth d <= S m ->
    set_assoc sch opts nonstr rec sc alias srcs vl ks d inpl keep <> Diverge /\
    (forall w, set_assoc sch opts nonstr rec sc alias srcs vl ks d inpl keep = Ok (Some w) ->
               depth (w_node w) <= S m).
  Proof.
    intros Hrec Hb Hd. unfold set_assoc.
    destruct d as [t s v|kvs|des0].
    - destruct (is_null (Scalar t s v)); split; try discriminate; intros; discriminate.
    - cbn. split; [discriminate|intros; discriminate].
    - apply seq_depth_le in Hd.
      match goal with
      | |- bind (assoc_loop nonstr rec ?a ?b ?c ?vl' ?e ?f ?g) _ <> _ /\ _ =>
          destruct (assoc_loop_ok m rec a b c vl' e Hrec Hb f g) as [Hnd Hinv];
          [exact Hd|constructor|];
          destruct (assoc_loop nonstr rec a b c vl' e f g) as [[[des items] vk_last]| | |] eqn:El
      end; cbn; try (split; [discriminate|intros; discriminate]); [|contradiction].
      destruct (Hinv _ eq_refl) as [Hdes Hitems]. cbn in Hdes, Hitems.
      match goal with
      | |- bind ?X _ <> _ /\ _ => assert (HX : X <> Diverge /\ forall o, X = Ok o -> es_le m (fst o))
      end.
      { match goal with
        | |- context [match ?L with [] => Ok (des, inpl) | _ :: _ => _ end] => destruct L
        end.
        - split; [discriminate|]. intros o Eo; inv Eo; auto.
        - destruct (o_prepend opts).
          + split.
            * apply bind_nd; [apply append_list_node_nd|discriminate].
            * intros o Eo. destruct (append_list_node items des vk_last) as [lres| | |] eqn:Ea; cbn in Eo; inv Eo.
              cbn. eapply append_list_node_le; [exact Hitems|exact Hdes|exact Ea].
          + split.
            * apply bind_nd; [apply append_list_node_nd|discriminate].
            * intros o Eo. destruct (append_list_node des items vk_last) as [lres| | |] eqn:Ea; cbn in Eo; inv Eo.
              cbn. eapply append_list_node_le; [exact Hdes|exact Hitems|exact Ea]. }
      destruct HX as [HXnd HXle].
      match goal with
      | |- bind ?X _ <> _ /\ _ => destruct X as [o| | |] eqn:Eo
      end; cbn; try (split; [discriminate|intros; discriminate]); [|contradiction].
      split; [discriminate|]. intros w Ew; inv Ew. cbn. apply seq_depth_le. apply HXle; auto.
  Qed.

  Lemma element_key_nd srcs : element_key opts srcs <> Diverge.
  Proof.
    unfold element_key. apply bind_nd.
    - apply (fold_res_nd (fun key (s : option node) =>
                            match s with
                            | Some n =>
                                match elems_of n with
                                | [] => Ok key
                                | es =>
                                    let nk := assoc_key_of (o_assoc_keys opts) es in
                                    if negb (String.eqb key "") && negb (String.eqb key nk) then Err else Ok nk
                                end
                            | None => Ok key
                            end)); [|discriminate].
      intros a [n|]; [|discriminate]. destruct (elems_of n); [discriminate|].
      cbn. destruct (negb _ && _); discriminate.
    - intros k. destruct (String.eqb k ""); discriminate.
  Qed.

  Lemma walk_aseq_ok m rec sc alias srcs :
    rec_ok m rec -> bounded (S m) srcs ->
    walk_aseq sch opts nonstr vis rec sc alias srcs <> Diverge /\
    (forall w, walk_aseq sch opts nonstr vis rec sc alias srcs = Ok (Some w) -> depth (w_node w) <= S m).
  Proof.
    intros Hrec Hb. unfold walk_aseq.
    destruct (v_list vis true srcs) as [vr| | |] eqn:Ev; cbn; try (split; [discriminate|intros; discriminate]).
    2:{ exfalso; eapply vl_nd; eauto. }
    destruct (vl_ok _ Hvis _ _ _ _ Hb Ev) as [Hb1 Hnew].
    pose proof (bounded_sync _ alias _ Hb1) as Hb2.
    destruct (resolve alias (sync_from_alias alias (fst vr)) (snd vr)) as [[[[d0 keep] inpl] alias']|] eqn:Er.
    2:{ split; [discriminate|intros; discriminate]. }
    pose proof (resolve_le _ _ _ _ _ _ _ _ Hb2 Hnew Er) as Hd0.
    pose proof (bounded_cur _ alias' _ _ Hb2 Hd0) as Hcur.
    match goal with
    | |- bind ?K _ <> _ /\ _ => assert (HK : K <> Diverge)
    end.
    { destruct (String.eqb _ "" && _); [|discriminate].
      apply bind_nd; [apply element_key_nd|discriminate]. }
    match goal with
    | |- bind ?K _ <> _ /\ _ => destruct K as [ks| | |]
    end; cbn; try (split; [discriminate|intros; discriminate]); [|contradiction].
    destruct (element_values opts ks _); destruct ks; apply set_assoc_ok; auto.
  Qed.

  (* ---- the walker never runs out of fuel above the depth of its sources ---- *)
  Lemma walk_enough n :
    forall sc alias srcs, bounded n srcs ->
      walk sch opts nonstr vis (S n) sc alias srcs <> Diverge /\
      (forall w, walk sch opts nonstr vis (S n) sc alias srcs = Ok (Some w) -> depth (w_node w) <= n).
  Proof.
    induction n as [|m IH]; intros sc alias srcs Hb.
    - (* all sources are nil *)
      assert (Hnone : forall i, nth_error srcs i = None \/ nth_error srcs i = Some None).
      { intros i. destruct (nth_error srcs i) as [[x|]|] eqn:E; auto.
        exfalso. eapply (depth_le_0 x). eapply bounded_nth; eauto. }
      assert (Hk : first_kind srcs = None).
      { clear -Hb. induction Hb as [|s t Hs Ht IHt]; cbn; auto.
        destruct s as [x|]; cbn in *; [exfalso; eapply depth_le_0; eauto|auto]. }
      cbn [walk]. rewrite Hk. unfold walk_map.
      destruct (v_map vis srcs) as [vr| | |] eqn:Ev; cbn; try (split; [discriminate|intros; discriminate]).
      2:{ exfalso; eapply vm_nd; eauto. }
      destruct (vm_ok _ Hvis _ _ _ Hb Ev) as [Hb1 Hnew].
      pose proof (bounded_sync _ alias _ Hb1) as Hb2.
      destruct (resolve alias (sync_from_alias alias (fst vr)) (snd vr)) as [[[[d0 keep] inpl] alias']|] eqn:Er.
      + exfalso. eapply (depth_le_0 d0). eapply resolve_le; eauto.
      + split; [discriminate|intros; discriminate].
    - assert (Hrec : rec_ok m (walk sch opts nonstr vis (S m))) by (intros sc' a s Hs; apply IH; auto).
      cbn [walk].
      destruct (first_kind srcs) as [[| |]|].
      + destruct (all_valid KScalar srcs); [|split; [discriminate|intros; discriminate]].
        destruct (v_scalar vis srcs) as [r| | |] eqn:Ev; cbn; try (split; [discriminate|intros; discriminate]).
        * split; [discriminate|]. intros w Ew; inv Ew.
          eapply finish_le; [exact Hb| |eauto]. eapply vs_ok; eauto.
        * exfalso; eapply vs_nd; eauto.
      + destruct (all_valid KMap srcs); [|split; [discriminate|intros; discriminate]].
        apply walk_map_ok; auto.
      + destruct (all_valid KSeq srcs); [|split; [discriminate|intros; discriminate]].
        destruct (is_associative sch opts (get_schema sch sc srcs) srcs).
        * apply walk_aseq_ok; auto.
        * destruct (v_list vis false srcs) as [vr| | |] eqn:Ev; cbn; try (split; [discriminate|intros; discriminate]).
          -- destruct (vl_ok _ Hvis _ _ _ _ Hb Ev) as [Hb1 Hnew].
             split; [discriminate|]. intros w Ew; inv Ew.
             eapply finish_le; [apply bounded_sync; exact Hb1|exact Hnew|eauto].
          -- exfalso; eapply vl_nd; eauto.
      + apply walk_map_ok; auto.
  Qed.

  Lemma bounded_fuel srcs : bounded (pred (fuel_of srcs)) srcs.
  Proof.
    unfold fuel_of. cbn [pred].
    induction srcs as [|s t IH]; constructor; cbn.
    - lia.
    - eapply Forall_impl; [|exact IH]. cbn. intros; lia.
  Qed.

  (* Walker.Walk at the canonical fuel never reports Diverge *)
  Theorem walk_top_no_diverge srcs : walk_top sch opts nonstr vis srcs <> Diverge.
  Proof.
    unfold walk_top. apply bind_nd; [|discriminate].
    unfold fuel_of. apply walk_enough. apply (bounded_fuel srcs).
  Qed.

  (* any larger fuel gives the same answer *)
  Theorem walk_fuel_irrelevant srcs k :
    walk sch opts nonstr vis (k + fuel_of srcs) None None srcs = walk sch opts nonstr vis (fuel_of srcs) None None srcs.
  Proof.
    apply walk_mono; auto. unfold fuel_of. apply walk_enough. apply (bounded_fuel srcs).
  Qed.
End Enough.
