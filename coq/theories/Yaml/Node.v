(* kyaml yaml.Node without positions, anchors and comments.
   A mapping is an association list in document order (duplicate keys representable,
   exactly as in go-yaml's Node.Content); keys are compared by their Value only, as kyaml does. *)
From KV Require Export Base.Prelude.

(* Node.Tag as written on the node. TNone = empty tag (node built in code, resolved at emit time). *)
Inductive tag := TNone | TStr | TInt | TBool | TFloat | TNull | TOther.
(* Node.Style for scalars *)
Inductive style := SPlain | SDouble | SSingle | SLiteral | SFolded.

Inductive node : Type :=
| Scalar (t : tag) (s : style) (v : string)
| Map (kvs : list (string * node))
| Seq (es : list node).

Definition tag_eqb (a b : tag) : bool :=
  match a, b with
  | TNone, TNone | TStr, TStr | TInt, TInt | TBool, TBool
  | TFloat, TFloat | TNull, TNull | TOther, TOther => true
  | _, _ => false
  end.
Definition style_eqb (a b : style) : bool :=
  match a, b with
  | SPlain, SPlain | SDouble, SDouble | SSingle, SSingle
  | SLiteral, SLiteral | SFolded, SFolded => true
  | _, _ => false
  end.

Fixpoint node_eqb (a b : node) {struct a} : bool :=
  match a, b with
  | Scalar t s v, Scalar t' s' v' => tag_eqb t t' && style_eqb s s' && String.eqb v v'
  | Map kvs, Map kvs' =>
      (fix go (l l' : list (string * node)) : bool :=
         match l, l' with
         | [], [] => true
         | (k, x) :: t, (k', x') :: t' => String.eqb k k' && node_eqb x x' && go t t'
         | _, _ => false
         end) kvs kvs'
  | Seq es, Seq es' =>
      (fix go (l l' : list node) : bool :=
         match l, l' with
         | [], [] => true
         | x :: t, x' :: t' => node_eqb x x' && go t t'
         | _, _ => false
         end) es es'
  | _, _ => false
  end.

(* yaml.Node.Value: scalar text; "" for mappings and sequences *)
Definition node_value (n : node) : string :=
  match n with Scalar _ _ v => v | _ => "" end.

(* IsMissingOrNull on a present node: Tag == "!!null" *)
Definition is_null (n : node) : bool :=
  match n with Scalar TNull _ _ => true | _ => false end.

Definition is_map (n : node) : bool := match n with Map _ => true | _ => false end.
Definition is_seq (n : node) : bool := match n with Seq _ => true | _ => false end.
Definition is_scalar (n : node) : bool := match n with Scalar _ _ _ => true | _ => false end.

(* first field with the given key (visitMappingNodeFields with one name) *)
Fixpoint find_field (name : string) (kvs : list (string * node)) : option node :=
  match kvs with
  | [] => None
  | (k, v) :: t => if String.eqb k name then Some v else find_field name t
  end.

(* replace the value of the first field named [name] *)
Fixpoint set_first (name : string) (v : node) (kvs : list (string * node)) : list (string * node) :=
  match kvs with
  | [] => []
  | (k, x) :: t => if String.eqb k name then (k, v) :: t else (k, x) :: set_first name v t
  end.

(* remove the first field named [name] *)
Fixpoint remove_first (name : string) (kvs : list (string * node)) : list (string * node) :=
  match kvs with
  | [] => []
  | (k, x) :: t => if String.eqb k name then t else (k, x) :: remove_first name t
  end.

Definition keys (kvs : list (string * node)) : list string := map fst kvs.

Fixpoint nodup_keys (l : list string) : bool :=
  match l with
  | [] => true
  | x :: t => negb (str_in x t) && nodup_keys t
  end.

(* ---------- size / depth (used as fuel and as measures) ---------- *)
Fixpoint depth (n : node) : nat :=
  match n with
  | Scalar _ _ _ => 1
  | Map kvs => S (fold_right (fun kv acc => Nat.max (depth (snd kv)) acc) 0 kvs)
  | Seq es => S (fold_right (fun e acc => Nat.max (depth e) acc) 0 es)
  end.

Fixpoint size (n : node) : nat :=
  match n with
  | Scalar _ _ _ => 1
  | Map kvs => S (fold_right (fun kv acc => size (snd kv) + acc) 0 kvs)
  | Seq es => S (fold_right (fun e acc => size e + acc) 0 es)
  end.

(* ---------- induction principle for the nested inductive ---------- *)
Section NodeInd.
  Variable P : node -> Prop.
  Hypothesis Hs : forall t s v, P (Scalar t s v).
  Hypothesis Hm : forall kvs, Forall (fun kv => P (snd kv)) kvs -> P (Map kvs).
  Hypothesis Hq : forall es, Forall P es -> P (Seq es).

  Fixpoint node_ind' (n : node) : P n :=
    match n with
    | Scalar t s v => Hs t s v
    | Map kvs =>
        Hm kvs ((fix go (l : list (string * node)) : Forall (fun kv => P (snd kv)) l :=
                   match l with
                   | [] => Forall_nil _
                   | kv :: t => Forall_cons kv (node_ind' (snd kv)) (go t)
                   end) kvs)
    | Seq es =>
        Hq es ((fix go (l : list node) : Forall P l :=
                  match l with
                  | [] => Forall_nil _
                  | e :: t => Forall_cons e (node_ind' e) (go t)
                  end) es)
    end.
End NodeInd.

(* ---------- typed JSON view ----------
   The "typed JSON value" of the properties: a scalar is its (tag, style-class, text);
   styles only matter through quoted / not quoted when the tag is empty. *)
Inductive json :=
| JAtom (t : tag) (quoted : bool) (v : string)
| JObj (kvs : list (string * json))
| JArr (es : list json).

Definition quoted_style (s : style) : bool :=
  match s with SPlain => false | _ => true end.

Fixpoint to_json (n : node) : json :=
  match n with
  | Scalar t s v => JAtom t (match t with TNone => quoted_style s | _ => false end) v
  | Map kvs => JObj (map (fun kv => (fst kv, to_json (snd kv))) kvs)
  | Seq es => JArr (map to_json es)
  end.
