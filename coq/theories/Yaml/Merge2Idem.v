(* C04 idempotence of merge2 on the fragment without associative lists and without "$patch" directives:
   applying the same patch to the result gives the result again (exact node equality). *)
From KV Require Import Yaml.Walk Yaml.WalkProofs Yaml.WalkFields Yaml.WalkShape Yaml.SortUniq
     Yaml.Merge2 Yaml.Merge2Proofs Yaml.Merge2Frame.
Local Open Scope string_scope.
Local Open Scope list_scope.

(* ---------- the fragment, as boolean predicates ---------- *)
(* every mapping reached through mappings has pairwise different keys *)
Fixpoint wfk (n : node) : bool :=
  match n with
  | Map kvs => nodup_keys (keys kvs) &&
               (fix go (l : list (string * node)) : bool :=
                  match l with [] => true | kv :: t => wfk (snd kv) && go t end) kvs
  | _ => true
  end.
(* is this mapping a "$patch: delete" directive *)
Definition is_delete (kvs : list (string * node)) : bool :=
  match find_field smp_key kvs with
  | Some x => String.eqb (node_value x) "delete"
  | None => false
  end.
(* the mappings reached through mappings carry no "$patch" key -- except "$patch: delete", below which nothing is
   looked at *)
Fixpoint nodir (n : node) : bool :=
  match n with
  | Map kvs => is_delete kvs ||
               (negb (str_in smp_key (keys kvs)) &&
                (fix go (l : list (string * node)) : bool :=
                   match l with [] => true | kv :: t => nodir (snd kv) && go t end) kvs)
  | _ => true
  end.
Definition ofrag (f : node -> bool) (o : option node) : bool :=
  match o with Some n => f n | None => true end.

(* the wider fragment of the idempotence law: a mapping may also carry "$patch: replace" or "$patch: merge" *)
Definition dirv (kvs : list (string * node)) : bool :=
  match find_field smp_key kvs with
  | None => true
  | Some x => String.eqb (node_value x) "replace" || String.eqb (node_value x) "merge"
  end.
Fixpoint dirok (n : node) : bool :=
  match n with
  | Map kvs => is_delete kvs ||
               (dirv kvs &&
                (fix go (l : list (string * node)) : bool :=
                   match l with [] => true | kv :: t => dirok (snd kv) && go t end) kvs)
  | _ => true
  end.

Lemma nodup_keys_NoDup l : nodup_keys l = true -> NoDup l.
Proof.
  induction l as [|x t IH]; cbn; [constructor|].
  intros H. apply Bool.andb_true_iff in H. destruct H as [H1 H2]. constructor; auto.
  apply Bool.negb_true_iff in H1. apply str_in_false in H1. exact H1.
Qed.

Lemma wfk_map kvs : wfk (Map kvs) = true ->
  nodupk kvs /\ forall k v, find_field k kvs = Some v -> wfk v = true.
Proof.
  cbn [wfk]. intros H. apply Bool.andb_true_iff in H. destruct H as [H1 H2].
  split; [apply nodup_keys_NoDup; auto|].
  clear H1. induction kvs as [|[k0 v0] t IH]; cbn; intros k v F; [discriminate|].
  apply Bool.andb_true_iff in H2. destruct H2 as [Ha Hb].
  destruct (String.eqb k0 k); [inv F; auto|eauto].
Qed.

Lemma nodir_map kvs : nodir (Map kvs) = true -> is_delete kvs = false ->
  find_field smp_key kvs = None /\ forall k v, find_field k kvs = Some v -> nodir v = true.
Proof.
  cbn [nodir]. intros H Hd. rewrite Hd in H. cbn [orb] in H.
  apply Bool.andb_true_iff in H. destruct H as [H1 H2].
  split.
  - apply Bool.negb_true_iff in H1. rewrite find_in_keys in H1. destruct (find_field smp_key kvs); congruence.
  - clear H1 Hd. induction kvs as [|[k0 v0] t IH]; cbn; intros k v F; [discriminate|].
    apply Bool.andb_true_iff in H2. destruct H2 as [Ha Hb].
    destruct (String.eqb k0 k); [inv F; auto|eauto].
Qed.

Lemma ofrag_field (f : node -> bool) k kvs :
  (forall k v, find_field k kvs = Some v -> f v = true) -> ofrag f (find_field k kvs) = true.
Proof. intros H. destruct (find_field k kvs) eqn:F; cbn; eauto. Qed.

(* ---- "$patch: replace" / "$patch: merge": the mapping after elision ---- *)
Lemma find_field_In k (kvs : list (string * node)) v : find_field k kvs = Some v -> In (k, v) kvs.
Proof.
  induction kvs as [|[k0 v0] t IH]; cbn; [discriminate|].
  destruct (String.eqb k0 k) eqn:E; intros H.
  - inv H. apply String.eqb_eq in E. subst. left; reflexivity.
  - right; auto.
Qed.

Lemma in_remove_first e k (kvs : list (string * node)) : In e (remove_first k kvs) -> In e kvs.
Proof.
  induction kvs as [|[k0 v0] t IH]; cbn; auto.
  destruct (String.eqb k0 k); cbn; intros H; auto. destruct H; auto.
Qed.

Lemma nodup_remove_first k (kvs : list (string * node)) : NoDup (keys kvs) -> NoDup (keys (remove_first k kvs)).
Proof.
  induction kvs as [|[k0 v0] t IH]; cbn; auto. intros H. inversion H as [|? ? Hn Hd]; subst.
  destruct (String.eqb k0 k); auto. cbn. constructor; auto.
  intros Hi. apply Hn. unfold keys in *. apply in_map_iff in Hi. destruct Hi as [e [E Hi]].
  apply in_map_iff. exists e. split; auto. eapply in_remove_first; eauto.
Qed.

Lemma find_remove_first_nodup k (kvs : list (string * node)) :
  NoDup (keys kvs) -> find_field k (remove_first k kvs) = None.
Proof.
  induction kvs as [|[k0 v0] t IH]; cbn; auto. intros H. inversion H as [|? ? Hn Hd]; subst.
  destruct (String.eqb k0 k) eqn:E.
  - apply String.eqb_eq in E. subst. apply find_field_none_iff. exact Hn.
  - cbn. rewrite E. auto.
Qed.

Lemma wfk_in kvs : wfk (Map kvs) = true ->
  nodupk kvs /\ forall k v, In (k, v) kvs -> wfk v = true.
Proof.
  cbn [wfk]. intros H. apply Bool.andb_true_iff in H. destruct H as [H1 H2].
  split; [apply nodup_keys_NoDup; auto|].
  clear H1. induction kvs as [|[k0 v0] t IH]; cbn; intros k v F; [contradiction|].
  apply Bool.andb_true_iff in H2. destruct H2 as [Ha Hb].
  destruct F as [F|F]; [inv F; auto|eauto].
Qed.

Lemma dirok_in kvs : dirok (Map kvs) = true -> is_delete kvs = false ->
  dirv kvs = true /\ forall k v, In (k, v) kvs -> dirok v = true.
Proof.
  cbn [dirok]. intros H Hd. rewrite Hd in H. cbn [orb] in H.
  apply Bool.andb_true_iff in H. destruct H as [H1 H2]. split; auto.
  clear H1 Hd. induction kvs as [|[k0 v0] t IH]; cbn; intros k v F; [contradiction|].
  apply Bool.andb_true_iff in H2. destruct H2 as [Ha Hb].
  destruct F as [F|F]; [inv F; auto|eauto].
Qed.

(* a mapping of the fragment that is not "$patch: delete": its directive and its elided form *)
Lemma dir_cases pk :
  wfk (Map pk) = true -> dirok (Map pk) = true -> is_delete pk = false ->
  exists ps pk',
    determine_smp (Some (Map pk)) = Ok (ps, Some (Map pk')) /\ (ps = SmpMerge \/ ps = SmpReplace) /\
    find_field smp_key pk' = None /\ nodupk pk' /\
    (forall k, ofrag wfk (find_field k pk') = true /\ ofrag dirok (find_field k pk') = true).
Proof.
  intros Hw Hd Hdel. destruct (wfk_in _ Hw) as [Hnd Hwc]. destruct (dirok_in _ Hd Hdel) as [Hv Hdc].
  unfold dirv in Hv. unfold is_delete in Hdel. cbn [determine_smp].
  destruct (find_field smp_key pk) as [x|] eqn:F.
  - exists (if String.eqb (node_value x) "replace" then SmpReplace else SmpMerge), (remove_first smp_key pk).
    split; [|split; [|split; [|split]]].
    + unfold smp_of_value. rewrite Hdel.
      destruct (String.eqb (node_value x) "replace") eqn:E1; [reflexivity|].
      cbn [orb] in Hv. rewrite Hv. reflexivity.
    + destruct (String.eqb (node_value x) "replace"); auto.
    + apply find_remove_first_nodup; auto.
    + apply nodup_remove_first; auto.
    + intros k. destruct (find_field k (remove_first smp_key pk)) eqn:Fk; cbn [ofrag]; auto.
      apply find_field_In in Fk. apply in_remove_first in Fk. split; eauto.
  - exists SmpMerge, pk. split; [reflexivity|]. split; auto. split; auto. split; auto.
    intros k. destruct (find_field k pk) eqn:Fk; cbn [ofrag]; auto.
    apply find_field_In in Fk. split; eauto.
Qed.

Lemma nodir_dirok n : nodir n = true -> dirok n = true.
Proof.
  induction n as [t s x|kvs IH|es] using node_ind'; auto.
  cbn [nodir dirok]. destruct (is_delete kvs); cbn [orb]; auto.
  intros H. apply Bool.andb_true_iff in H. destruct H as [H1 H2]. apply Bool.andb_true_iff. split.
  - unfold dirv. apply Bool.negb_true_iff in H1. rewrite find_in_keys in H1.
    destruct (find_field smp_key kvs); [discriminate|reflexivity].
  - clear H1. induction kvs as [|[k0 v0] t IHt]; cbn; auto.
    apply Bool.andb_true_iff in H2. destruct H2 as [Ha Hb]. inversion IH; subst.
    apply Bool.andb_true_iff. split; auto.
Qed.

Lemma quote11_idem nonstr v : quote11 nonstr (quote11 nonstr v) = quote11 nonstr v.
Proof.
  destruct v as [t s x| |]; cbn; auto. destruct s; cbn; auto.
  destruct t; cbn; auto; destruct (nonstr x) eqn:E; cbn; rewrite ?E; auto.
Qed.

Section Idem.
  Context {Sc : Type}.
  Variable sch : schema Sc.
  Variable opts : wopts.
  Variable nonstr : string -> bool.
  Hypothesis Hatomic : atomic_lists sch opts.

  Notation W := (walk sch opts nonstr merger).

  (* ---- one mapping level, as equations ---- *)
  (* dest a mapping, patch absent or a plain mapping, not aliased *)
  Lemma level_merge f sc tk p :
    plain_patch p ->
    W (S f) sc None [Some (Map tk); p] =
    do d <- walk_fields sch nonstr (W f) (get_schema sch sc [Some (Map tk); p]) None [Some (Map tk); p]
                        (field_names [Some (Map tk); p]) (Map tk);
    Ok (Some (mkW d false true)).
  Proof.
    intros Hp. cbn [walk].
    destruct p as [[| pk |]|]; try contradiction.
    - cbn [first_kind o_null is_null kind_of all_valid forallb kind_eqb orb andb].
      unfold walk_map. cbn [v_map merger m2_visit_map dest_of origin_of o_null is_null tagged_null].
      cbn [determine_smp]. cbn in Hp. rewrite Hp.
      cbn [bind fst snd set_origin sync_from_alias resolve nth_error]. reflexivity.
    - cbn [first_kind o_null is_null kind_of all_valid forallb kind_eqb orb andb].
      unfold walk_map. cbn [v_map merger m2_visit_map dest_of origin_of o_null is_null tagged_null].
      cbn [determine_smp bind fst snd set_origin sync_from_alias resolve nth_error]. reflexivity.
  Qed.

  (* dest missing or null, patch a plain mapping: the patch mapping becomes dest (aliased from then on) *)
  Lemma level_add f sc tv pk :
    o_null tv = true -> find_field smp_key pk = None ->
    W (S f) sc None [tv; Some (Map pk)] =
    do d <- walk_fields sch nonstr (W f) (get_schema sch sc [tv; Some (Map pk)]) (Some 1) [tv; Some (Map pk)]
                        (field_names [Some (Map pk); Some (Map pk)]) (Map pk);
    Ok (Some (mkW d false false)).
  Proof.
    intros Hn Hp. cbn [walk].
    assert (Hk : first_kind [tv; Some (Map pk)] = Some KMap).
    { cbn [first_kind]. rewrite Hn. reflexivity. }
    rewrite Hk.
    assert (Hv : all_valid KMap [tv; Some (Map pk)] = true).
    { cbn. destruct tv as [t|]; cbn in *; auto. rewrite Hn. reflexivity. }
    rewrite Hv. unfold walk_map. cbn [v_map merger]. unfold m2_visit_map. cbn [dest_of origin_of]. rewrite Hn.
    cbn [determine_smp]. rewrite Hp.
    destruct tv as [[t s v| |]|]; cbn in Hn; try discriminate; cbn; reflexivity.
  Qed.

  (* dest and patch are the same plain mapping (aliased) *)
  Lemma level_dup f sc pk :
    find_field smp_key pk = None ->
    W (S f) sc (Some 1) [Some (Map pk); Some (Map pk)] =
    do d <- walk_fields sch nonstr (W f) (get_schema sch sc [Some (Map pk); Some (Map pk)]) (Some 1)
                        [Some (Map pk); Some (Map pk)]
                        (field_names [Some (Map pk); Some (Map pk)]) (Map pk);
    Ok (Some (mkW d false true)).
  Proof.
    intros Hp. cbn [walk].
    cbn [first_kind o_null is_null kind_of all_valid forallb kind_eqb orb andb].
    unfold walk_map. cbn [v_map merger]. unfold m2_visit_map.
    cbn [dest_of origin_of o_null is_null tagged_null determine_smp]. rewrite Hp. cbn. reflexivity.
  Qed.

  (* ---- the schema plays no part on this fragment ---- *)
  Lemma walk_fields_sc (rec : @rec_t Sc) sc1 sc2 alias srcs :
    (forall s1 s2 a ss, rec s1 a ss = rec s2 a ss) ->
    forall names d, walk_fields sch nonstr rec sc1 alias srcs names d = walk_fields sch nonstr rec sc2 alias srcs names d.
  Proof.
    intros Hr. induction names as [|key rest IH]; intros d; cbn [walk_fields]; auto.
    rewrite (Hr (child_schema sch sc1 key) (child_schema sch sc2 key)).
    destruct (rec _ _ _) as [r| | |]; cbn [bind]; auto.
    destruct (set_field_w nonstr key r d) as [d'| | |]; cbn [bind]; auto.
  Qed.

  Lemma walk_sc f : forall sc1 sc2 alias srcs, W f sc1 alias srcs = W f sc2 alias srcs.
  Proof.
    induction f as [|f IH]; intros sc1 sc2 alias srcs; [reflexivity|].
    cbn [walk].
    assert (Hm : forall s1 s2, walk_map sch nonstr merger (W f) s1 alias srcs = walk_map sch nonstr merger (W f) s2 alias srcs).
    { intros s1 s2. unfold walk_map. destruct (v_map merger srcs) as [vr| | |]; cbn [bind]; auto.
      destruct (resolve alias (sync_from_alias alias (fst vr)) (snd vr)) as [[[[d0 keep] inpl] alias']|]; auto.
      rewrite (walk_fields_sc (W f) s1 s2) by (intros; apply IH). reflexivity. }
    destruct (first_kind srcs) as [[| |]|]; auto.
    - destruct (all_valid KMap srcs); auto.
    - destruct (all_valid KSeq srcs); auto. rewrite !(not_assoc sch opts Hatomic). reflexivity.
  Qed.

  (* ---- one mapping level with a directive: [pk'] is the patch mapping after elision ---- *)
  Lemma dlevel_merge f sc tk pk pk' :
    determine_smp (Some (Map pk)) = Ok (SmpMerge, Some (Map pk')) ->
    W (S f) sc None [Some (Map tk); Some (Map pk)] =
    do d <- walk_fields sch nonstr (W f) (get_schema sch sc [Some (Map tk); Some (Map pk)]) None
                        [Some (Map tk); Some (Map pk')]
                        (field_names [Some (Map tk); Some (Map pk')]) (Map tk);
    Ok (Some (mkW d false true)).
  Proof.
    intros Hdet. cbn [walk first_kind o_null is_null kind_of all_valid forallb kind_eqb orb andb].
    unfold walk_map. cbn [v_map merger]. unfold m2_visit_map.
    cbn [dest_of origin_of o_null is_null tagged_null]. rewrite Hdet.
    cbn [bind fst snd set_origin sync_from_alias resolve nth_error]. reflexivity.
  Qed.

  Lemma dlevel_repl f sc tk pk pk' :
    determine_smp (Some (Map pk)) = Ok (SmpReplace, Some (Map pk')) ->
    W (S f) sc None [Some (Map tk); Some (Map pk)] =
    do d <- walk_fields sch nonstr (W f) (get_schema sch sc [Some (Map tk); Some (Map pk)]) (Some 1)
                        [Some (Map tk); Some (Map pk')]
                        (field_names [Some (Map pk'); Some (Map pk')]) (Map pk');
    Ok (Some (mkW d false false)).
  Proof.
    intros Hdet. cbn [walk first_kind o_null is_null kind_of all_valid forallb kind_eqb orb andb].
    unfold walk_map. cbn [v_map merger]. unfold m2_visit_map.
    cbn [dest_of origin_of o_null is_null tagged_null]. rewrite Hdet.
    cbn [bind fst snd set_origin sync_from_alias resolve nth_error]. reflexivity.
  Qed.

  Lemma dlevel_add f sc tv pk ps pk' :
    o_null tv = true ->
    determine_smp (Some (Map pk)) = Ok (ps, Some (Map pk')) -> ps = SmpMerge \/ ps = SmpReplace ->
    W (S f) sc None [tv; Some (Map pk)] =
    do d <- walk_fields sch nonstr (W f) (get_schema sch sc [tv; Some (Map pk)]) (Some 1) [tv; Some (Map pk')]
                        (field_names [Some (Map pk'); Some (Map pk')]) (Map pk');
    Ok (Some (mkW d false false)).
  Proof.
    intros Hn Hdet Hps. cbn [walk].
    assert (Hk : first_kind [tv; Some (Map pk)] = Some KMap).
    { cbn [first_kind]. rewrite Hn. reflexivity. }
    rewrite Hk.
    assert (Hv : all_valid KMap [tv; Some (Map pk)] = true).
    { cbn. destruct tv as [t|]; cbn in *; auto. rewrite Hn. reflexivity. }
    rewrite Hv. unfold walk_map. cbn [v_map merger]. unfold m2_visit_map. cbn [dest_of origin_of]. rewrite Hn.
    rewrite Hdet.
    destruct tv as [[t s v| |]|]; cbn in Hn; try discriminate; destruct Hps as [-> | ->]; cbn; reflexivity.
  Qed.

  Lemma dlevel_dup f sc pk ps pk' :
    determine_smp (Some (Map pk)) = Ok (ps, Some (Map pk')) -> ps = SmpMerge \/ ps = SmpReplace ->
    W (S f) sc (Some 1) [Some (Map pk); Some (Map pk)] =
    do d <- walk_fields sch nonstr (W f) (get_schema sch sc [Some (Map pk); Some (Map pk)]) (Some 1)
                        [Some (Map pk'); Some (Map pk')]
                        (field_names [Some (Map pk'); Some (Map pk')]) (Map pk');
    Ok (Some (mkW d false true)).
  Proof.
    intros Hdet Hps. cbn [walk first_kind o_null is_null kind_of all_valid forallb kind_eqb orb andb].
    unfold walk_map. cbn [v_map merger]. unfold m2_visit_map.
    cbn [dest_of origin_of o_null is_null tagged_null]. rewrite Hdet.
    destruct Hps as [-> | ->]; cbn; reflexivity.
  Qed.

  (* ---- what a second application has to show ---- *)
  Definition second_ok (tv' pv : option node) : Prop :=
    exists g r', (forall sc' g', g <= g' -> W g' sc' None [tv'; pv] = Ok r') /\ fval nonstr r' tv' = tv'.

  Definition aliasing (alias : option nat) (tv pv : option node) : Prop :=
    alias = None \/ (alias = Some 1 /\ tv = pv).

  Ltac kinds H :=
    cbn [walk first_kind o_null is_null kind_of all_valid forallb kind_eqb orb andb] in H.

  (* a null in the patch clears, whatever the target holds *)
  Lemma null_patch_clears f sc alias tv ps px r :
    alias = None \/ alias = Some 1 ->
    W (S f) sc alias [tv; Some (Scalar TNull ps px)] = Ok r -> fval nonstr r tv = None.
  Proof.
    intros Ha H. destruct tv as [[tt ts tx|tk|tes]|].
    - destruct Ha as [-> | ->]; destruct tt; cbn in H; try (unfold walk_map in H; cbn in H); inv H; reflexivity.
    - destruct Ha as [-> | ->]; cbn in H; unfold walk_map in H; cbn in H; inv H; reflexivity.
    - kinds H. rewrite (not_assoc sch opts Hatomic) in H.
      destruct Ha as [-> | ->]; cbn in H; inv H; reflexivity.
    - destruct Ha as [-> | ->]; cbn in H; unfold walk_map in H; cbn in H; inv H; reflexivity.
  Qed.

  Lemma second_null_patch ps px : second_ok None (Some (Scalar TNull ps px)).
  Proof.
    exists 1. eexists. split.
    - intros sc' g' Hg. destruct g' as [|g']; [lia|]. cbn. unfold walk_map. cbn. reflexivity.
    - reflexivity.
  Qed.

  (* a non-null scalar in the patch: the target ends up with that scalar (tag and text), in some style *)
  Lemma scalar_patch f sc alias tv pt ps px r :
    alias = None \/ alias = Some 1 ->
    is_null (Scalar pt ps px) = false ->
    W (S f) sc alias [tv; Some (Scalar pt ps px)] = Ok r ->
    exists sX, fval nonstr r tv = Some (Scalar pt sX px).
  Proof.
    intros Ha Hn H. destruct tv as [[tt ts tx|tk|tes]|].
    - destruct Ha as [-> | ->]; destruct tt; destruct pt; try discriminate; cbn in H; inv H; cbn;
        try (eexists; reflexivity);
        destruct ps; cbn; try (eexists; reflexivity); destruct (nonstr px); eexists; reflexivity.
    - exfalso. destruct pt; try discriminate; cbn in H; discriminate.
    - exfalso. destruct pt; try discriminate; cbn in H; discriminate.
    - destruct Ha as [-> | ->]; destruct pt; try discriminate; cbn in H; inv H; cbn;
        destruct ps; cbn; try (eexists; reflexivity); destruct (nonstr px); eexists; reflexivity.
  Qed.

  Lemma second_scalar_patch pt ps px sX :
    is_null (Scalar pt ps px) = false ->
    second_ok (Some (Scalar pt sX px)) (Some (Scalar pt ps px)).
  Proof.
    intros Hn. exists 1. eexists. split.
    - intros sc' g' Hg. destruct g' as [|g']; [lia|].
      destruct pt; try discriminate; cbn; reflexivity.
    - destruct pt; try discriminate; reflexivity.
  Qed.

  (* a list in the patch replaces *)
  Lemma seq_patch f sc alias tv pes r :
    alias = None \/ alias = Some 1 ->
    W (S f) sc alias [tv; Some (Seq pes)] = Ok r ->
    fval nonstr r tv = Some (Seq pes).
  Proof.
    intros Ha H. destruct tv as [[tt ts tx|tk|tes]|].
    - destruct tt; try (cbn in H; discriminate).
      kinds H. rewrite (not_assoc sch opts Hatomic) in H.
      destruct Ha as [-> | ->]; cbn in H; inv H; reflexivity.
    - cbn in H. discriminate.
    - kinds H. rewrite (not_assoc sch opts Hatomic) in H.
      destruct Ha as [-> | ->]; cbn in H; inv H; reflexivity.
    - kinds H. rewrite (not_assoc sch opts Hatomic) in H.
      destruct Ha as [-> | ->]; cbn in H; inv H; reflexivity.
  Qed.

  Lemma second_seq_patch pes : second_ok (Some (Seq pes)) (Some (Seq pes)).
  Proof.
    exists 1. eexists. split.
    - intros sc' g' Hg. destruct g' as [|g']; [lia|].
      cbn [walk first_kind o_null is_null kind_of all_valid forallb kind_eqb orb andb].
      rewrite (not_assoc sch opts Hatomic). cbn. reflexivity.
    - reflexivity.
  Qed.

  Lemma walk_scalar_unmentioned g sc t s x :
    is_null (Scalar t s x) = false ->
    W (S g) sc None [Some (Scalar t s x); None] = Ok (Some (mkW (Scalar t s x) false true)).
  Proof. intros Hn. destruct t; try discriminate; reflexivity. Qed.

  Lemma quote11_scalar t s x : exists s', quote11 nonstr (Scalar t s x) = Scalar t s' x.
  Proof. cbn. destruct s; try (eexists; reflexivity). destruct t; try (eexists; reflexivity); destruct (nonstr x); eexists; reflexivity. Qed.

  (* nothing in the patch, a non-mapping in the target *)
  Lemma unmentioned_leaf f sc tv r :
    (match tv with Some (Map _) => False | _ => True end) ->
    W (S f) sc None [tv; None] = Ok r ->
    second_ok (fval nonstr r tv) None.
  Proof.
    intros Hm H. destruct tv as [[tt ts tx|tk|tes]|]; try contradiction.
    - destruct (is_null (Scalar tt ts tx)) eqn:En.
      2:{ rewrite (walk_scalar_unmentioned f sc tt ts tx En) in H. inv H.
          cbn [fval w_node w_keep w_inplace]. rewrite En. cbn [andb].
          destruct (quote11_scalar tt ts tx) as [s' Eq]. rewrite Eq.
          assert (En' : is_null (Scalar tt s' tx) = false) by (destruct tt; try discriminate; reflexivity).
          exists 1. eexists. split.
          - intros sc' g' Hg. destruct g' as [|g']; [lia|]. apply walk_scalar_unmentioned; auto.
          - cbn [fval w_node w_keep w_inplace]. rewrite En'. cbn [andb]. rewrite <- Eq, quote11_idem. reflexivity. }
      destruct tt; try discriminate.
      (* null: explicit nulls stay, implicit nulls go *)
      cbn in H. unfold walk_map in H. cbn in H.
      destruct (String.eqb tx "") eqn:E; cbn in H; inv H.
      + exists 1. eexists. split; [intros sc' g' Hg; destruct g' as [|g']; [lia|]; cbn; unfold walk_map; cbn; reflexivity|reflexivity].
      + exists 1. eexists. split.
        * intros sc' g' Hg. destruct g' as [|g']; [lia|]. cbn. destruct ts; cbn; unfold walk_map; cbn; rewrite E; cbn; reflexivity.
        * cbn. destruct ts; reflexivity.
    - kinds H. rewrite (not_assoc sch opts Hatomic) in H. cbn in H. inv H.
      exists 1. eexists. split.
      + intros sc' g' Hg. destruct g' as [|g']; [lia|].
        cbn [fval w_node w_keep w_inplace is_null andb quote11 walk first_kind o_null kind_of all_valid forallb kind_eqb orb].
        rewrite (not_assoc sch opts Hatomic). cbn. reflexivity.
      + reflexivity.
    - cbn in H. unfold walk_map in H. cbn in H. inv H.
      exists 1. eexists. split; [intros sc' g' Hg; destruct g' as [|g']; [lia|]; cbn; unfold walk_map; cbn; reflexivity|reflexivity].
  Qed.

  (* "$patch: delete" on a mapping clears, whatever the target holds; applied to nothing it gives nothing *)
  Lemma delete_patch_clears f sc alias tv pk r :
    alias = None \/ alias = Some 1 -> is_delete pk = true ->
    W (S f) sc alias [tv; Some (Map pk)] = Ok r -> fval nonstr r tv = None.
  Proof.
    intros Ha Hd H. unfold is_delete in Hd.
    destruct (find_field smp_key pk) as [x|] eqn:F; [|discriminate]. apply String.eqb_eq in Hd.
    assert (Hdet : determine_smp (Some (Map pk)) = Ok (SmpDelete, Some (Map (remove_first smp_key pk)))).
    { cbn [determine_smp]. rewrite F, Hd. reflexivity. }
    destruct tv as [[tt ts tx|tk|tes]|].
    - destruct (is_null (Scalar tt ts tx)) eqn:En.
      + destruct tt; try discriminate.
        destruct Ha as [-> | ->]; cbn [walk first_kind o_null is_null kind_of all_valid forallb kind_eqb orb andb] in H;
          unfold walk_map in H; cbn [v_map merger] in H; unfold m2_visit_map in H;
          cbn [dest_of origin_of o_null is_null] in H; rewrite Hdet in H; cbn in H; inv H; reflexivity.
      + exfalso. destruct tt; try discriminate; destruct Ha as [-> | ->]; cbn in H; discriminate.
    - destruct Ha as [-> | ->]; cbn [walk first_kind o_null is_null kind_of all_valid forallb kind_eqb orb andb] in H;
        unfold walk_map in H; cbn [v_map merger] in H; unfold m2_visit_map in H;
        cbn [dest_of origin_of o_null is_null tagged_null] in H; rewrite Hdet in H; cbn in H; inv H; reflexivity.
    - exfalso. destruct Ha as [-> | ->]; cbn in H; discriminate.
    - destruct Ha as [-> | ->]; cbn [walk first_kind o_null is_null kind_of all_valid forallb kind_eqb orb andb] in H;
        unfold walk_map in H; cbn [v_map merger] in H; unfold m2_visit_map in H;
        cbn [dest_of origin_of o_null is_null] in H; rewrite Hdet in H; cbn in H; inv H; reflexivity.
  Qed.

  Lemma second_delete_patch pk : is_delete pk = true -> second_ok None (Some (Map pk)).
  Proof.
    intros Hd. unfold is_delete in Hd.
    destruct (find_field smp_key pk) as [x|] eqn:F; [|discriminate]. apply String.eqb_eq in Hd.
    assert (Hdet : determine_smp (Some (Map pk)) = Ok (SmpDelete, Some (Map (remove_first smp_key pk)))).
    { cbn [determine_smp]. rewrite F, Hd. reflexivity. }
    exists 1. exists None. split; [|reflexivity].
    intros sc' g' Hg. destruct g' as [|g']; [lia|].
    cbn [walk first_kind o_null is_null kind_of all_valid forallb kind_eqb orb andb].
    unfold walk_map. cbn [v_map merger]. unfold m2_visit_map. cbn [dest_of origin_of o_null].
    rewrite Hdet. cbn. reflexivity.
  Qed.

  (* ---- finitely many second runs share one fuel ---- *)
  Lemma uniform_fuel (Q : string -> nat -> option wres -> Prop) l :
    (forall k g g' r, Q k g r -> g <= g' -> Q k g' r) ->
    (forall k, In k l -> exists g r, Q k g r) ->
    exists G R, forall k, In k l -> Q k G (R k).
  Proof.
    intros Hmono. induction l as [|x t IH]; intros H.
    - exists 0, (fun _ => None). intros k [].
    - destruct (H x (or_introl eq_refl)) as [gx [rx Hx]].
      destruct IH as [G [R HR]]; [intros k Hk; apply H; right; auto|].
      exists (Nat.max gx G), (fun k => if string_dec k x then rx else R k).
      intros k [->|Hk].
      + destruct (string_dec k k); [|congruence]. eapply Hmono; eauto. lia.
      + destruct (string_dec k x) as [->|].
        * eapply Hmono; eauto. lia.
        * eapply Hmono; [apply HR; auto|lia].
  Qed.

  Lemma fvs_none tv pv k dv : fvs None [tv; pv] k dv = [dv; field_of k pv].
  Proof. reflexivity. Qed.
  Lemma fvs_alias1 tv pv k dv : fvs (Some 1) [tv; pv] k dv = [dv; dv].
  Proof. reflexivity. Qed.

  Lemma in_field_names k srcs :
    In k (field_names srcs) <-> exists kvs, In (Some (Map kvs)) srcs /\ In k (keys kvs).
  Proof.
    unfold field_names. rewrite in_sort_uniq, in_flat_map. split.
    - intros [s [Hs Hk]]. destruct s as [[| kvs |]|]; try contradiction. eauto.
    - intros [kvs [Hs Hk]]. exists (Some (Map kvs)). split; auto.
  Qed.

  Lemma field_of_in k pv v : field_of k pv = Some v -> exists pk, pv = Some (Map pk) /\ In k (keys pk).
  Proof.
    destruct pv as [[| pk |]|]; cbn; try discriminate. intros F. exists pk. split; auto.
    destruct (in_dec string_dec k (keys pk)) as [|Hn]; auto. apply find_field_none_iff in Hn. congruence.
  Qed.

  (* ---- the structural case: one mapping level, given the induction hypothesis for the fields ---- *)
  Lemma struct_core f sc0 alias' srcs d0 names pv d :
    (forall sc alias tv pv r,
        W f sc alias [tv; pv] = Ok r -> aliasing alias tv pv ->
        ofrag wfk tv = true -> ofrag wfk pv = true -> ofrag dirok pv = true ->
        second_ok (fval nonstr r tv) pv) ->
    NoDup names -> nodupk d0 -> (forall k, ofrag wfk (find_field k d0) = true) ->
    plain_patch pv ->
    (forall k, ofrag wfk (field_of k pv) = true /\ ofrag dirok (field_of k pv) = true) ->
    (forall k, fvs alias' srcs k (find_field k d0) = [find_field k d0; field_of k pv] /\
               aliasing alias' (find_field k d0) (field_of k pv)) ->
    (forall k, In k (keys d0) \/ field_of k pv <> None -> In k names) ->
    walk_fields sch nonstr (W f) sc0 alias' srcs names (Map d0) = Ok d ->
    exists kvs', d = Map kvs' /\ second_ok (Some (Map kvs')) pv.
  Proof.
    intros IH Hnd Hnk Hsub Hplain Hpsub Hfv Hnames Hw.
    destruct (walk_fields_map sch nonstr _ _ _ _ names Hnd _ _ Hnk Hw) as [kvs' [-> [Hnk' [Hout Hin]]]].
    exists kvs'. split; auto.
    (* every walked key: the second walk of that key is a fixpoint *)
    assert (Hkeys : forall k, In k names ->
              exists g r', (forall sc' g', g <= g' -> W g' sc' None [find_field k kvs'; field_of k pv] = Ok r') /\
                           fval nonstr r' (find_field k kvs') = find_field k kvs').
    { intros k Hk. destruct (Hin k Hk) as [r [Hr Hf]].
      destruct (Hfv k) as [Efv Hal]. rewrite Efv in Hr.
      destruct (Hpsub k) as [Hp1 Hp2].
      pose proof (Hsub k) as Ht.
      destruct (IH _ _ _ _ _ Hr Hal Ht Hp1 Hp2) as [g [r' [H1 H2]]].
      rewrite <- Hf in H1, H2. exists g, r'. split; auto. }
    (* names of the second run are among the first run's *)
    set (names2 := field_names [Some (Map kvs'); pv]).
    assert (Hsub2 : forall k, In k names2 -> In k names).
    { intros k Hk. apply in_field_names in Hk. destruct Hk as [kvs [Hs Hkk]].
      destruct Hs as [E|[E|[]]].
      - inv E. destruct (in_dec string_dec k names) as [|Hn]; auto.
        apply Hnames. left.
        destruct (in_dec string_dec k (keys d0)) as [|Hn0]; auto. exfalso.
        apply find_field_none_iff in Hn0. rewrite <- (Hout k Hn) in Hn0.
        apply find_field_none_iff in Hn0. contradiction.
      - subst pv. apply Hnames. right. cbn [field_of].
        destruct (find_field k kvs) eqn:F; [discriminate|]. apply find_field_none_iff in F. contradiction. }
    destruct (uniform_fuel
                (fun k g r' => (forall sc' g', g <= g' -> W g' sc' None [find_field k kvs'; field_of k pv] = Ok r') /\
                               fval nonstr r' (find_field k kvs') = find_field k kvs') names2) as [G [R2 HR2]].
    { intros k g g' r [H1 H2] Hg. split; auto. intros sc' g2 Hg2. apply H1. lia. }
    { intros k Hk. apply Hkeys. apply Hsub2; auto. }
    exists (S G), (Some (mkW (Map kvs') false true)). split; [|reflexivity].
    intros sc' g' Hg. destruct g' as [|g2]; [lia|].
    rewrite level_merge by auto.
    rewrite (walk_fields_shape sch nonstr (W g2) _ None _ names2 R2 (nodup_sort_uniq _) kvs' Hnk').
    - rewrite shape_fix; auto. intros k Hk. apply (HR2 k Hk).
    - intros k Hk. rewrite fvs_none. apply (HR2 k Hk). lia.
  Qed.

  Lemma in_names_cover tk pv k :
    In k (keys tk) \/ field_of k pv <> None -> In k (field_names [Some (Map tk); pv]).
  Proof.
    intros [H|H]; apply in_field_names.
    - exists tk. split; [left; auto|auto].
    - destruct (field_of k pv) eqn:F; [|congruence].
      destruct (field_of_in _ _ _ F) as [pk [-> Hk]]. exists pk. split; [right; left; auto|auto].
  Qed.

  (* ---- from the elided mapping back to the mapping with its directive ---- *)
  Lemma second_merge_dir kvs' pk pk' :
    determine_smp (Some (Map pk)) = Ok (SmpMerge, Some (Map pk')) -> find_field smp_key pk' = None ->
    second_ok (Some (Map kvs')) (Some (Map pk')) -> second_ok (Some (Map kvs')) (Some (Map pk)).
  Proof.
    intros Hdet Hpp [g [r' [H1 H2]]]. exists (S g), r'. split; auto.
    intros sc' g' Hg. destruct g' as [|g2]; [lia|].
    rewrite (dlevel_merge g2 sc' kvs' pk pk' Hdet).
    assert (Hg2 : g <= S g2) by lia. specialize (H1 sc' (S g2) Hg2).
    rewrite level_merge in H1 by exact Hpp.
    rewrite (walk_fields_sc (W g2) _ (get_schema sch sc' [Some (Map kvs'); Some (Map pk')]))
      by (intros; apply walk_sc).
    exact H1.
  Qed.

  Lemma wf_alias1 (rec : @rec_t Sc) sc a b a' b' :
    forall names d, walk_fields sch nonstr rec sc (Some 1) [a; b] names d =
                    walk_fields sch nonstr rec sc (Some 1) [a'; b'] names d.
  Proof.
    induction names as [|key rest IH]; intros d; cbn [walk_fields]; auto.
    change (cur_srcs (Some 1) d [a; b]) with [Some d; Some d].
    change (cur_srcs (Some 1) d [a'; b']) with [Some d; Some d].
    destruct (rec _ _ _) as [r| | |]; cbn [bind]; auto.
    destruct (set_field_w nonstr key r d) as [d'| | |]; cbn [bind]; auto.
  Qed.

  Lemma walk_le f g : f <= g -> rec_le (W f) (W g).
  Proof.
    intros Hfg sc a ss x H Hx. replace g with ((g - f) + f) by lia. apply walk_mono; auto.
  Qed.

  (* "$patch: replace" gives the walked patch mapping, whatever the target holds *)
  Lemma second_replace f sc0 a b pk pk' kvs' :
    determine_smp (Some (Map pk)) = Ok (SmpReplace, Some (Map pk')) ->
    walk_fields sch nonstr (W f) sc0 (Some 1) [a; b] (field_names [Some (Map pk'); Some (Map pk')]) (Map pk')
    = Ok (Map kvs') ->
    second_ok (Some (Map kvs')) (Some (Map pk)).
  Proof.
    intros Hdet Hw. exists (S f), (Some (mkW (Map kvs') false false)). split; [|reflexivity].
    intros sc' g' Hg. destruct g' as [|g2]; [lia|].
    rewrite (dlevel_repl g2 sc' kvs' pk pk' Hdet).
    rewrite (walk_fields_sc (W g2) _ sc0) by (intros; apply walk_sc).
    rewrite (wf_alias1 (W g2) sc0 _ _ a b).
    rewrite (walk_fields_mono sch nonstr (W f) (W g2) sc0 (Some 1) [a; b] (walk_le f g2 ltac:(lia)) _ _ _ Hw)
      by discriminate.
    reflexivity.
  Qed.

  (* ---- the induction ---- *)
  Lemma idem_walk f : forall sc alias tv pv r,
      W f sc alias [tv; pv] = Ok r -> aliasing alias tv pv ->
      ofrag wfk tv = true -> ofrag wfk pv = true -> ofrag dirok pv = true ->
      second_ok (fval nonstr r tv) pv.
  Proof.
    induction f as [|f IH]; intros sc alias tv pv r H Hal Hwt Hwp Hnp; [discriminate|].
    assert (Ha : alias = None \/ alias = Some 1) by (destruct Hal as [|[? _]]; auto).
    destruct pv as [[pt ps px| pk |pes]|].
    - (* scalar in the patch *)
      destruct (is_null (Scalar pt ps px)) eqn:En.
      + destruct pt; try discriminate.
        rewrite (null_patch_clears _ _ _ _ _ _ _ Ha H). apply second_null_patch.
      + destruct (scalar_patch _ _ _ _ _ _ _ _ Ha En H) as [sX ->]. apply second_scalar_patch; auto.
    - (* mapping in the patch *)
      cbn [ofrag] in Hwp, Hnp.
      destruct (is_delete pk) eqn:Ed.
      { (* "$patch: delete": the target's value goes, and stays gone *)
        rewrite (delete_patch_clears _ _ _ _ _ _ Ha Ed H). apply second_delete_patch; auto. }
      destruct (dir_cases pk Hwp Hnp Ed) as [dps [pk' [Hdet [Hps [Hpp [Hnk' Hch]]]]]].
      assert (Hplain : plain_patch (Some (Map pk'))) by exact Hpp.
      (* the three ways the patch mapping itself becomes the walked destination *)
      assert (Hself : forall sc0 a b d,
                 walk_fields sch nonstr (W f) sc0 (Some 1) [a; b]
                             (field_names [Some (Map pk'); Some (Map pk')]) (Map pk') = Ok d ->
                 exists kvs', d = Map kvs' /\ second_ok (Some (Map kvs')) (Some (Map pk))).
      { intros sc0 a b d Ew. pose proof Ew as Ew0.
        eapply (struct_core f _ (Some 1) _ pk' _ (Some (Map pk')) d IH) in Ew;
          [ | apply nodup_sort_uniq | exact Hnk' | intros k; apply Hch | exact Hplain | intros k; apply Hch
            | intros k; rewrite fvs_alias1; split; [reflexivity|]; right; split; reflexivity
            | intros k Hk; apply in_names_cover; destruct Hk; auto ].
        destruct Ew as [kvs' [-> Hs]]. exists kvs'. split; auto.
        destruct Hps as [-> | ->].
        - eapply second_merge_dir; eauto.
        - eapply second_replace; eauto. }
      destruct tv as [[tt ts tx| tk |tes]|].
      + (* scalar target: null -> the patch mapping is added; otherwise a kind error *)
        destruct (is_null (Scalar tt ts tx)) eqn:En.
        2:{ exfalso. destruct tt; try discriminate; destruct Ha as [-> | ->]; cbn in H; discriminate. }
        assert (alias = None) as -> by (destruct Hal as [|[_ E]]; auto; discriminate).
        rewrite (dlevel_add f sc _ pk dps pk') in H by auto.
        match type of H with bind ?X _ = _ => destruct X as [d| | |] eqn:Ew; cbn in H; try discriminate end.
        inv H. destruct (Hself _ _ _ _ Ew) as [kvs' [-> Hs]].
        cbn [fval w_node w_keep w_inplace is_null andb with_style]. destruct tt; try discriminate. exact Hs.
      + (* mapping target *)
        destruct Hal as [-> | [-> E]].
        * destruct Hps as [-> | ->].
          -- rewrite (dlevel_merge f sc tk pk pk' Hdet) in H.
             match type of H with bind ?X _ = _ => destruct X as [d| | |] eqn:Ew; cbn in H; try discriminate end.
             inv H. destruct (wfk_map _ Hwt) as [Hnkt Hsubt].
             eapply (struct_core f _ None _ tk _ (Some (Map pk')) d IH) in Ew;
               [ | apply nodup_sort_uniq | exact Hnkt | intros k; apply ofrag_field; auto | exact Hplain
                 | intros k; apply Hch
                 | intros k; rewrite fvs_none; split; [reflexivity|left; reflexivity]
                 | intros k Hk; apply in_names_cover; auto ].
             destruct Ew as [kvs' [-> Hs]]. eapply second_merge_dir; eauto.
          -- rewrite (dlevel_repl f sc tk pk pk' Hdet) in H.
             match type of H with bind ?X _ = _ => destruct X as [d| | |] eqn:Ew; cbn in H; try discriminate end.
             inv H. destruct (Hself _ _ _ _ Ew) as [kvs' [-> Hs]]. exact Hs.
        * inv E. rewrite (dlevel_dup f sc pk dps pk') in H by auto.
          match type of H with bind ?X _ = _ => destruct X as [d| | |] eqn:Ew; cbn in H; try discriminate end.
          inv H. destruct (Hself _ _ _ _ Ew) as [kvs' [-> Hs]]. exact Hs.
      + exfalso. destruct Ha as [-> | ->]; cbn in H; discriminate.
      + (* nothing in the target: the patch mapping is added *)
        assert (alias = None) as -> by (destruct Hal as [|[_ E]]; auto; discriminate).
        rewrite (dlevel_add f sc _ pk dps pk') in H by auto.
        match type of H with bind ?X _ = _ => destruct X as [d| | |] eqn:Ew; cbn in H; try discriminate end.
        inv H. destruct (Hself _ _ _ _ Ew) as [kvs' [-> Hs]]. exact Hs.
    - (* list in the patch *)
      rewrite (seq_patch _ _ _ _ _ _ Ha H). apply second_seq_patch.
    - (* nothing in the patch *)
      destruct tv as [[tt ts tx| tk |tes]|].
      + assert (alias = None) as -> by (destruct Hal as [|[_ E]]; auto; discriminate).
        eapply unmentioned_leaf; eauto; exact I.
      + assert (alias = None) as -> by (destruct Hal as [|[_ E]]; auto; discriminate).
        rewrite level_merge in H by exact I.
        match type of H with bind ?X _ = _ => destruct X as [d| | |] eqn:Ew; cbn in H; try discriminate end.
        inv H.
        destruct (wfk_map _ Hwt) as [Hnkt Hsubt].
        eapply (struct_core f _ None _ tk _ None d IH) in Ew;
          [ | apply nodup_sort_uniq | exact Hnkt | intros k; apply ofrag_field; auto | exact I
            | intros k; split; reflexivity
            | intros k; rewrite fvs_none; split; [reflexivity|left; reflexivity]
            | intros k Hk; apply in_names_cover; auto ].
        destruct Ew as [kvs' [-> Hs]]. exact Hs.
      + assert (alias = None) as -> by (destruct Hal as [|[_ E]]; auto; discriminate).
        eapply unmentioned_leaf; eauto; exact I.
      + destruct Ha as [-> | ->].
        * eapply unmentioned_leaf; eauto; exact I.
        * cbn in H. unfold walk_map in H. cbn in H. inv H.
          exists 1. eexists. split; [intros sc' g' Hg; destruct g' as [|g']; [lia|]; cbn; unfold walk_map; cbn; reflexivity|reflexivity].
  Qed.
End Idem.

(* ---------- at the level of merge2.Merge ---------- *)
(* the fragment without "$patch: replace" / "$patch: merge" (the one the reference semantics is stated on) *)
Definition idem_fragment (p t : node) : bool :=
  is_map p && is_map t && wfk t && wfk p && nodir p &&
  negb (match p with Map pk => is_delete pk | _ => false end).
(* the fragment of the idempotence law *)
Definition idem_fragment_dir (p t : node) : bool :=
  is_map p && is_map t && wfk t && wfk p && dirok p &&
  negb (match p with Map pk => is_delete pk | _ => false end).

Lemma idem_fragment_dir_of p t : idem_fragment p t = true -> idem_fragment_dir p t = true.
Proof.
  unfold idem_fragment, idem_fragment_dir. intros H.
  repeat rewrite Bool.andb_true_iff in H. destruct H as [[[[[Hmp Hmt] Hwt] Hwp] Hnp] Hdel].
  rewrite Hmp, Hmt, Hwt, Hwp, Hdel, (nodir_dirok _ Hnp). reflexivity.
Qed.

Section IdemTop.
  Context {Sc : Type}.
  Variable sch : schema Sc.
  Variable opts : wopts.
  Variable nonstr : string -> bool.
  Hypothesis Hatomic : atomic_lists sch opts.

  Lemma fval_map r' o k : fval nonstr r' (Some o) = Some (Map k) -> option_map w_node r' = Some (Map k).
  Proof.
    unfold fval. destruct r' as [w|]; [|discriminate].
    destruct (is_null (w_node w) && negb (w_keep w)); [discriminate|].
    cbn [option_map]. destruct (w_node w) as [t s x|kvs|es].
    - intros H. exfalso. destruct (w_inplace w); inv H.
      destruct s; try discriminate; destruct t; try discriminate; destruct (nonstr x); discriminate.
    - destruct (w_inplace w); intros H; inv H; reflexivity.
    - destruct (w_inplace w); intros H; inv H.
  Qed.

  Theorem merge2_idempotent_dir p t r :
    idem_fragment_dir p t = true ->
    merge2 sch opts nonstr (Some p) (Some t) = Ok (Some r) ->
    merge2 sch opts nonstr (Some p) (Some r) = Ok (Some r).
  Proof.
    unfold idem_fragment_dir. intros Hf H.
    repeat rewrite Bool.andb_true_iff in Hf. destruct Hf as [[[[[Hmp Hmt] Hwt] Hwp] Hnp] Hdel].
    destruct p as [| pk |]; try discriminate. destruct t as [| tk |]; try discriminate.
    unfold merge2, walk_top in H.
    destruct (walk sch opts nonstr merger (fuel_of [Some (Map tk); Some (Map pk)]) None None
                [Some (Map tk); Some (Map pk)]) as [ro| | |] eqn:E; cbn in H; try discriminate.
    apply Bool.negb_true_iff in Hdel.
    destruct (dir_cases pk Hwp Hnp Hdel) as [dps [pk' [Hdet [Hps [Hpp [Hnk' Hch]]]]]].
    destruct (wfk_map _ Hwt) as [Hnk _].
    (* the first result is a mapping *)
    assert (Hr : exists kvs', r = Map kvs' /\ fval nonstr ro (Some (Map tk)) = Some (Map kvs')).
    { unfold fuel_of in E.
      set (n0 := fold_right (fun (s : option node) (a : nat) => depth_o s + a) 0 [Some (Map tk); Some (Map pk)]) in E.
      destruct Hps as [-> | ->].
      - rewrite (dlevel_merge sch opts nonstr n0 None tk pk pk' Hdet) in E.
        match type of E with bind ?X _ = _ => destruct X as [d| | |] eqn:Ew; cbn [bind] in E; try discriminate end.
        inv E. cbn in H. inv H.
        destruct (walk_fields_map sch nonstr _ _ _ _ _ (nodup_sort_uniq _) _ _ Hnk Ew) as [kvs' [-> _]].
        exists kvs'. split; reflexivity.
      - rewrite (dlevel_repl sch opts nonstr n0 None tk pk pk' Hdet) in E.
        match type of E with bind ?X _ = _ => destruct X as [d| | |] eqn:Ew; cbn [bind] in E; try discriminate end.
        inv E. cbn in H. inv H.
        destruct (walk_fields_map sch nonstr _ _ _ _ _ (nodup_sort_uniq _) _ _ Hnk' Ew) as [kvs' [-> _]].
        exists kvs'. split; reflexivity. }
    destruct Hr as [kvs' [-> Hfv]].
    (* idempotence of the walk *)
    assert (Hs : second_ok sch opts nonstr (Some (Map kvs')) (Some (Map pk))).
    { rewrite <- Hfv. eapply (idem_walk sch opts nonstr Hatomic); eauto. left; reflexivity. }
    destruct Hs as [g [r' [Hst Hfx]]].
    (* bring it to the canonical fuel *)
    unfold merge2, walk_top.
    set (c := fuel_of [Some (Map kvs'); Some (Map pk)]).
    assert (Hc : walk sch opts nonstr merger c None None [Some (Map kvs'); Some (Map pk)] = Ok r').
    { assert (Hnd : walk sch opts nonstr merger c None None [Some (Map kvs'); Some (Map pk)] <> Diverge).
      { unfold c, fuel_of. apply walk_enough; [apply merger_ok|]. apply (bounded_fuel [Some (Map kvs'); Some (Map pk)]). }
      pose proof (walk_mono sch opts nonstr merger c g None None _ _ eq_refl Hnd) as Hm.
      rewrite Hst in Hm by lia. auto. }
    rewrite Hc. cbn [bind]. rewrite (fval_map _ _ _ Hfx). reflexivity.
  Qed.

  Theorem merge2_idempotent p t r :
    idem_fragment p t = true ->
    merge2 sch opts nonstr (Some p) (Some t) = Ok (Some r) ->
    merge2 sch opts nonstr (Some p) (Some r) = Ok (Some r).
  Proof. intros Hf. apply merge2_idempotent_dir. apply idem_fragment_dir_of; auto. Qed.
End IdemTop.

(* non-vacuity: a nested patch with a null, an added mapping (with a null inside), a replaced list and a
   "$patch: delete", on a target with unmentioned branches and a YAML-1.1-ambiguous string *)
Definition idem_t : node :=
  Map [("kind", Scalar TStr SPlain "Foo");
       ("spec", Map [("a", Scalar TInt SPlain "1"); ("b", Scalar TStr SPlain "no");
                     ("m", Map [("x", Scalar TInt SPlain "1"); ("y", Scalar TInt SPlain "2")]);
                     ("l", Seq [Scalar TStr SPlain "p"]);
                     ("d", Map [("keep", Scalar TInt SPlain "1")])])].
Definition idem_p : node :=
  Map [("spec", Map [("a", Scalar TNull SPlain "null"); ("m", Map [("x", Scalar TStr SDouble "7")]);
                     ("l", Seq [Scalar TStr SPlain "q"; Scalar TStr SPlain "r"]);
                     ("n", Map [("k", Scalar TBool SPlain "true"); ("gone", Scalar TNull SPlain "null")]);
                     ("d", Map [("$patch", Scalar TStr SPlain "delete")])])].
Example idem_example :
  idem_fragment idem_p idem_t = true /\
  exists r, merge2 schemaless kustomize_opts (fun s => String.eqb s "no") (Some idem_p) (Some idem_t) = Ok (Some r) /\
            node_eqb r idem_t = false /\
            merge2 schemaless kustomize_opts (fun s => String.eqb s "no") (Some idem_p) (Some r) = Ok (Some r).
Proof. split; [reflexivity|]. eexists. split; [vm_compute; reflexivity|]. split; vm_compute; reflexivity. Qed.

(* non-vacuity for the directives: "$patch: replace" on a present and on an absent mapping (with a nested null and a
   nested "$patch: delete"), "$patch: merge" on a present mapping, at the root as well *)
Definition idem_dir_t : node :=
  Map [("kind", Scalar TStr SPlain "Foo");
       ("spec", Map [("m", Map [("x", Scalar TInt SPlain "1"); ("y", Scalar TInt SPlain "2")]);
                     ("g", Map [("u", Scalar TInt SPlain "1"); ("v", Scalar TStr SPlain "no")])])].
Definition idem_dir_p : node :=
  Map [("$patch", Scalar TStr SPlain "merge");
       ("spec", Map [("m", Map [("$patch", Scalar TStr SPlain "replace"); ("x", Scalar TStr SDouble "7");
                                ("z", Scalar TNull SPlain "null");
                                ("w", Map [("$patch", Scalar TStr SPlain "delete")])]);
                     ("n", Map [("$patch", Scalar TStr SPlain "replace"); ("k", Scalar TBool SPlain "true")]);
                     ("g", Map [("$patch", Scalar TStr SPlain "merge"); ("u", Scalar TInt SPlain "5")])])].
Example idem_dir_example :
  idem_fragment_dir idem_dir_p idem_dir_t = true /\ idem_fragment idem_dir_p idem_dir_t = false /\
  exists r, merge2 schemaless kustomize_opts (fun s => String.eqb s "no") (Some idem_dir_p) (Some idem_dir_t) = Ok (Some r) /\
            node_eqb r idem_dir_t = false /\
            merge2 schemaless kustomize_opts (fun s => String.eqb s "no") (Some idem_dir_p) (Some r) = Ok (Some r).
Proof. split; [reflexivity|]. split; [reflexivity|]. eexists. split; [vm_compute; reflexivity|]. split; vm_compute; reflexivity. Qed.
