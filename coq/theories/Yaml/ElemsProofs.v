(* Proofs about KV.Yaml.Elems: ElementMatcher is the path selector [k=v]; lens laws of ElementSetter and
   ElementAppender on keyed lists; FieldMatcher / FieldClearer / Tee; SetLabel / SetAnnotation agree with put. *)
From KV Require Import Yaml.Fns Yaml.FnsSpec Yaml.FnsProofs Yaml.Elems Yaml.Annot.
From KV Require Import Base.RegexProofs.

Ltac inv H := inversion H; subst; clear H.

(* the first element satisfying f *)
Fixpoint first_sat {A} (f : A -> bool) (l : list A) : option A :=
  match l with [] => None | x :: t => if f x then Some x else first_sat f t end.

Lemma first_sat_find_index {A} (f : A -> bool) l :
  first_sat f l = match find_index f l with Some i => nth_error l i | None => None end.
Proof.
  induction l as [|h t IH]; cbn; [reflexivity|].
  destruct (f h); [reflexivity|]. rewrite IH. destruct (find_index f t); reflexivity.
Qed.

Lemma child_sel_first_sat nm v es : child (PSel nm v) (Seq es) = first_sat (sel_match nm v) es.
Proof. cbn. now rewrite first_sat_find_index. Qed.

Section Proofs.
  Variable nonstr : string -> bool.

  (* ---------- FieldMatcher ---------- *)
  Lemma fm_match_field_map nm v kvs :
    nm <> "" ->
    fm_match_field nonstr nm v (Map kvs) =
    Ok (Map kvs, match find_field nm kvs with
                 | Some f => if String.eqb (node_value f) v then Some f else None
                 | None => None
                 end).
  Proof.
    intros Hn. unfold fm_match_field, field_matcher. cbn [is_null].
    apply String.eqb_neq in Hn. rewrite Hn.
    destruct (find_field nm kvs) as [f|]; [|reflexivity].
    destruct (String.eqb (node_value f) v); reflexivity.
  Qed.

  (* Get(name) is Lookup(name) *)
  Lemma fm_get_is_lookup name x :
    name <> "" ->
    (do r <- fm_get nonstr name x; Ok (snd r)) = lookup [PKey name] x.
  Proof.
    intros Hn. unfold fm_get, field_matcher, lookup. apply String.eqb_neq in Hn.
    destruct x as [t s v|kvs|es]; cbn.
    - destruct t; cbn; try rewrite Hn; reflexivity.
    - rewrite Hn. destruct (find_field name kvs) as [f|] eqn:F; cbn; [|reflexivity].
      reflexivity.
    - rewrite Hn. reflexivity.
  Qed.

  (* FieldMatcher{Name, Create}: an absent field is created with the value (put-get), a present one is returned
     and nothing changes (get-put) *)
  Lemma field_matcher_create_absent name c kvs :
    name <> "" -> is_null c = false -> find_field name kvs = None ->
    field_matcher nonstr name None (Some c) (Map kvs) =
      Ok (Map (kvs ++ [(name, quote11 nonstr c)]), Some (quote11 nonstr c)) /\
    fm_get nonstr name (Map (kvs ++ [(name, quote11 nonstr c)])) =
      Ok (Map (kvs ++ [(name, quote11 nonstr c)]), Some (quote11 nonstr c)).
  Proof.
    intros Hn Hc F. apply String.eqb_neq in Hn. split.
    - unfold field_matcher. cbn [is_null]. rewrite Hn, F. unfold set_field_r, set_field.
      rewrite Hc. cbn. rewrite F. cbn. now rewrite (find_field_app_same _ _ _ F).
    - unfold fm_get, field_matcher. cbn [is_null]. rewrite Hn. now rewrite (find_field_app_same _ _ _ F).
  Qed.

  Lemma field_matcher_create_present name c kvs f :
    name <> "" -> find_field name kvs = Some f ->
    field_matcher nonstr name None (Some c) (Map kvs) = Ok (Map kvs, Some f).
  Proof.
    intros Hn F. apply String.eqb_neq in Hn. unfold field_matcher. cbn [is_null]. now rewrite Hn, F.
  Qed.

  (* FieldMatcher{StringRegexValue}: with the anchored literal ^(v)$ it is Match(v); an unanchored literal also finds
     the text inside longer values; with a Name the expression plays no role *)
  Lemma field_matcher_regex_anchored_literal v x :
    field_matcher_regex nonstr "" (Some (anchor (lit v))) x = fm_match nonstr v x.
  Proof.
    unfold field_matcher_regex, fm_match, field_matcher. cbn [String.eqb].
    destruct (is_null x); [reflexivity|]. destruct x as [t st s| |]; try reflexivity.
    assert (E : matches (anchor (lit v)) s = String.eqb s v).
    { destruct (matches (anchor (lit v)) s) eqn:M.
      - apply anchor_exact in M. apply M_lit in M. subst. now rewrite String.eqb_refl.
      - destruct (String.eqb_spec s v) as [->|Hne]; [|reflexivity].
        assert (H : matches (anchor (lit v)) v = true) by (apply anchor_exact; apply M_lit; reflexivity).
        congruence. }
    rewrite E. reflexivity.
  Qed.

  Lemma field_matcher_regex_named name r x :
    name <> "" -> field_matcher_regex nonstr name r x = fm_get nonstr name x.
  Proof. intros Hn. unfold field_matcher_regex. apply String.eqb_neq in Hn. now rewrite Hn. Qed.

  Example field_matcher_regex_searches :
    field_matcher_regex nonstr "" (Some (lit "x")) (Scalar TStr SPlain "axb") =
      Ok (Scalar TStr SPlain "axb", Some (Scalar TStr SPlain "axb")) /\
    fm_match nonstr "x" (Scalar TStr SPlain "axb") = Ok (Scalar TStr SPlain "axb", None).
  Proof. split; reflexivity. Qed.

  (* ---------- ElementMatcher with one key is the path part [nm=v] ---------- *)
  Lemma em_elem_single nm v e :
    nm <> "" -> (is_map e || is_null e) = true ->
    em_elem nonstr false [nm] [v] e = if sel_match nm v e then Some false else None.
  Proof.
    intros Hn Hm. cbn [em_elem hd tl]. unfold sel_match.
    pose proof Hn as Hn'. apply String.eqb_neq in Hn'. rewrite Hn'.
    destruct e as [t s w|kvs|es]; cbn in Hm; try discriminate.
    - destruct t; try discriminate. reflexivity.
    - rewrite (fm_match_field_map _ _ _ Hn).
      destruct (find_field nm kvs) as [f|]; [|reflexivity].
      destruct (String.eqb (node_value f) v); reflexivity.
  Qed.

  Lemma em_scan_single nm v es :
    nm <> "" -> em_scan nonstr false [nm] [v] es = Ok (first_sat (sel_match nm v) es).
  Proof.
    intros Hn. induction es as [|e t IH]; [reflexivity|].
    cbn [em_scan first_sat]. destruct (is_map e || is_null e) eqn:Hm; cbn [negb].
    - cbn [List.length Nat.eqb negb andb]. rewrite (em_elem_single _ _ _ Hn Hm).
      destruct (sel_match nm v e); [reflexivity|exact IH].
    - rewrite IH. assert (sel_match nm v e = false) as ->; [|reflexivity].
      unfold sel_match. apply String.eqb_neq in Hn. rewrite Hn.
      destruct e as [tg ? ?| |]; cbn in Hm; try discriminate; reflexivity.
  Qed.

  Lemma first_by_value_first_sat v es : first_by_value v es = first_sat (sel_match "" v) es.
  Proof. induction es as [|e t IH]; [reflexivity|]. cbn. unfold sel_match at 1. cbn. now rewrite IH. Qed.

  Lemma elem_matcher_seq nm v create es :
    elem_matcher nonstr [nm] [v] false create (Seq es) =
    match child (PSel nm v) (Seq es) with
    | Some e => Ok (Seq es, Some e)
    | None => match create with
              | Some c => Ok (Seq (es ++ [c]), Some c)
              | None => Ok (Seq es, None)
              end
    end.
  Proof.
    rewrite child_sel_first_sat. unfold elem_matcher. cbn [default_one hd andb].
    destruct (String.eqb nm "") eqn:E.
    - apply String.eqb_eq in E. subst nm. cbn [bind]. rewrite first_by_value_first_sat.
      destruct (first_sat (sel_match "" v) es); [reflexivity|]. destruct create; reflexivity.
    - apply String.eqb_neq in E. rewrite (em_scan_single _ _ _ E). cbn [bind].
      destruct (first_sat (sel_match nm v) es); [reflexivity|]. destruct create; reflexivity.
  Qed.

  (* MatchElement(nm, v) = Lookup("[nm=v]"), on every node *)
  Lemma match_element_is_selector nm v n :
    (do r <- match_element nonstr nm v n; Ok (snd r)) = lookup [PSel nm v] n.
  Proof.
    unfold match_element. destruct n as [t s w|kvs|es].
    - unfold elem_matcher, lookup. destruct t; cbn; try reflexivity.
      destruct (String.eqb nm ""); reflexivity.
    - reflexivity.
    - rewrite elem_matcher_seq. destruct (child (PSel nm v) (Seq es)) as [e|] eqn:C.
      + rewrite (lookup_found _ _ _ _ C). reflexivity.
      + unfold lookup. rewrite (walk_missing_nocreate _ _ _ _ C). reflexivity.
  Qed.

  (* ElementMatcher with Create = the element PathGetter appends, is LookupCreate("[nm=v]") *)
  Lemma match_element_create_is_lookup_create leaf nm v n :
    elem_matcher nonstr [nm] [v] false (Some (sel_new nm v)) n = lookup_create leaf [PSel nm v] n.
  Proof.
    unfold lookup_create. destruct n as [t s w|kvs|es].
    - unfold elem_matcher. destruct t; cbn; try reflexivity.
      destruct (String.eqb nm ""); reflexivity.
    - reflexivity.
    - rewrite elem_matcher_seq. destruct (child (PSel nm v) (Seq es)) as [e|] eqn:C.
      + rewrite (walk_found _ _ _ _ _ _ C). cbn [walk bind k_get fst snd]. now rewrite (plug_child _ _ _ C).
      + cbn in C |- *. destruct (find_index (sel_match nm v) es) as [i|] eqn:F; [|reflexivity].
        destruct (find_index_some _ _ _ F) as [? [? _]]. congruence.
  Qed.

  (* GetElementByKey(k): the first mapping element that has the field k *)
  Definition has_field (k : string) (e : node) : bool :=
    match e with Map kvs => match find_field k kvs with Some _ => true | None => false end | _ => false end.

  Lemma get_element_by_key_spec k es :
    k <> "" -> get_element_by_key nonstr k (Seq es) = Ok (Seq es, first_sat (has_field k) es).
  Proof.
    intros Hk. unfold get_element_by_key, elem_matcher. cbn [default_one hd andb negb].
    rewrite String.eqb_refl. cbn [negb andb].
    pose proof Hk as Hk'. apply String.eqb_neq in Hk'. rewrite Hk'.
    assert (E : em_scan nonstr true [k] [""] es = Ok (first_sat (has_field k) es)).
    { induction es as [|e t IH]; [reflexivity|].
      cbn [em_scan first_sat]. destruct e as [tg s w|kvs|es']; cbn [is_map is_null orb negb has_field].
      - destruct tg; cbn; try exact IH.
      - cbn [andb em_elem]. unfold fm_get, field_matcher. cbn [is_null]. rewrite Hk'.
        destruct (find_field k kvs); [reflexivity|exact IH].
      - exact IH. }
    rewrite E. cbn [bind]. destruct (first_sat (has_field k) es); reflexivity.
  Qed.

  (* ---------- ElementAppender ---------- *)
  Lemma elem_append_get e es :
    elem_append [e] (Seq es) = Ok (Seq (es ++ [e]), Some e) /\
    lookup [PLast] (Seq (es ++ [e])) = Ok (Some e).
  Proof.
    split; [reflexivity|].
    assert (C : child PLast (Seq (es ++ [e])) = Some e).
    { cbn. destruct (es ++ [e])%list eqn:E; [destruct es; discriminate|]. rewrite <- E.
      rewrite app_length. cbn. rewrite Nat.add_1_r. cbn. rewrite Nat.sub_0_r. apply nth_error_app_last. }
    rewrite (lookup_found _ _ _ _ C). reflexivity.
  Qed.

  Lemma elem_append_frame els es i x :
    nth_error es i = Some x ->
    exists r, elem_append els (Seq es) = Ok (Seq (es ++ els), r) /\ nth_error (es ++ els) i = Some x.
  Proof.
    intros H. eexists. split; [reflexivity|]. rewrite nth_error_app1; auto. apply nth_error_Some. congruence.
  Qed.

  (* ---------- ElementSetter on a keyed list ---------- *)
  (* no null and no empty-mapping element: ElementSetter silently drops those ("empty elements are not valid") *)
  Definition clean (es : list node) : bool := forallb (fun e => negb (is_null e || is_empty_map e)) es.

  Definition es_result (k v : string) (x : node) (es : list node) : list node :=
    (map (fun e => if sel_match k v e then x else e) es ++
     (if existsb (sel_match k v) es then [] else [x]))%list.

  Lemma es_match_single k v e :
    k <> "" -> v <> "" -> is_map e = true -> es_match nonstr [k] [v] false e = Ok (sel_match k v e).
  Proof.
    intros Hk Hv Hm. destruct e as [| kvs |]; try discriminate.
    cbn [es_match]. unfold fm_string_value.
    pose proof Hv as Hv'. apply String.eqb_neq in Hv'. rewrite Hv'.
    change (field_matcher nonstr k (Some v) None (Map kvs)) with (fm_match_field nonstr k v (Map kvs)).
    rewrite (fm_match_field_map _ _ _ Hk). cbn [bind snd]. unfold sel_match.
    apply String.eqb_neq in Hk. rewrite Hk.
    destruct (find_field k kvs) as [f|]; [|reflexivity].
    destruct (String.eqb (node_value f) v); reflexivity.
  Qed.

  Lemma sel_match_not_map k v e : k <> "" -> is_map e = false -> sel_match k v e = false.
  Proof.
    intros Hk Hm. unfold sel_match. apply String.eqb_neq in Hk. rewrite Hk.
    destruct e; try reflexivity. discriminate.
  Qed.

  Lemma es_scan_spec k v x es :
    k <> "" -> v <> "" -> clean es = true ->
    es_scan nonstr [k] [v] true (Some x) es =
    Ok (map (fun e => if sel_match k v e then x else e) es, existsb (sel_match k v) es).
  Proof.
    intros Hk Hv. induction es as [|e t IH]; intros Hc; [reflexivity|].
    cbn in Hc. apply andb_true_iff in Hc. destruct Hc as [He Ht]. apply negb_true_iff in He.
    cbn [es_scan]. rewrite He. cbn [map existsb].
    destruct (is_map e) eqn:Hm; cbn [negb andb].
    - rewrite (es_match_single _ _ _ Hk Hv Hm). cbn [bind]. rewrite (IH Ht). cbn [bind fst snd].
      destruct (sel_match k v e); reflexivity.
    - rewrite (IH Ht). cbn [bind fst snd]. now rewrite (sel_match_not_map _ _ _ Hk Hm).
  Qed.

  Lemma elem_setter_spec k v x es :
    k <> "" -> v <> "" -> is_null x = false -> clean es = true ->
    elem_setter nonstr [k] [v] (Some x) (Seq es) = Ok (Seq (es_result k v x es), Some x).
  Proof.
    intros Hk Hv Hx Hc. unfold elem_setter. cbn [default_one hd].
    pose proof Hk as Hk'. apply String.eqb_neq in Hk'. rewrite Hk'.
    pose proof Hv as Hv'. apply String.eqb_neq in Hv'. rewrite Hv'. cbn [negb andb].
    rewrite (es_scan_spec _ _ _ _ Hk Hv Hc). cbn [bind fst snd]. rewrite Hx. cbn [bind fst snd].
    unfold es_result. destruct (existsb (sel_match k v) es); [now rewrite app_nil_r|reflexivity].
  Qed.

  Lemma es_scan_delete k v es :
    k <> "" -> v <> "" -> clean es = true ->
    es_scan nonstr [k] [v] true None es =
    Ok (filter (fun e => negb (sel_match k v e)) es, existsb (sel_match k v) es).
  Proof.
    intros Hk Hv. induction es as [|e t IH]; intros Hc; [reflexivity|].
    cbn in Hc. apply andb_true_iff in Hc. destruct Hc as [He Ht]. apply negb_true_iff in He.
    cbn [es_scan]. rewrite He. cbn [filter existsb].
    destruct (is_map e) eqn:Hm; cbn [negb andb].
    - rewrite (es_match_single _ _ _ Hk Hv Hm). cbn [bind]. rewrite (IH Ht). cbn [bind fst snd].
      destruct (sel_match k v e); reflexivity.
    - rewrite (IH Ht). cbn [bind fst snd]. now rewrite (sel_match_not_map _ _ _ Hk Hm).
  Qed.

  Lemma elem_setter_delete k v es :
    k <> "" -> v <> "" -> clean es = true ->
    elem_setter nonstr [k] [v] None (Seq es) = Ok (Seq (filter (fun e => negb (sel_match k v e)) es), None).
  Proof.
    intros Hk Hv Hc. unfold elem_setter. cbn [default_one hd].
    pose proof Hk as Hk'. apply String.eqb_neq in Hk'. rewrite Hk'.
    pose proof Hv as Hv'. apply String.eqb_neq in Hv'. rewrite Hv'. cbn [negb andb].
    rewrite (es_scan_delete _ _ _ Hk Hv Hc). reflexivity.
  Qed.

  (* --- the laws, on es_result --- *)
  Lemma first_sat_es_result k v x es :
    sel_match k v x = true -> first_sat (sel_match k v) (es_result k v x es) = Some x.
  Proof.
    intros Hx. unfold es_result. induction es as [|e t IH]; cbn.
    - now rewrite Hx.
    - destruct (sel_match k v e) eqn:M; cbn.
      + now rewrite Hx.
      + rewrite M. exact IH.
  Qed.

  (* PUT-GET *)
  Lemma elem_setter_put_get k v x es :
    sel_match k v x = true -> child (PSel k v) (Seq (es_result k v x es)) = Some x.
  Proof. intros Hx. rewrite child_sel_first_sat. now apply first_sat_es_result. Qed.

  (* GET-PUT: the element found is the only one answering to the key *)
  Fixpoint count_sat {A} (f : A -> bool) (l : list A) : nat :=
    match l with [] => 0 | x :: t => (if f x then 1 else 0) + count_sat f t end.

  Lemma count_sat_zero {A} (f : A -> bool) l : count_sat f l = 0 -> existsb f l = false /\ map (fun e => e) l = l.
  Proof. intros H. split; [|apply map_id]. induction l as [|h t IH]; cbn in *; auto. destruct (f h); [discriminate|auto]. Qed.

  Lemma elem_setter_get_put k v x es :
    child (PSel k v) (Seq es) = Some x -> count_sat (sel_match k v) es = 1 -> es_result k v x es = es.
  Proof.
    rewrite child_sel_first_sat. unfold es_result. induction es as [|e t IH]; cbn; intros F C; [discriminate|].
    destruct (sel_match k v e) eqn:M.
    - inv F. cbn. inv C. rewrite app_nil_r. f_equal.
      clear IH. induction t as [|h t IH]; cbn in *; auto.
      destruct (sel_match k v h); [discriminate|]. now rewrite IH.
    - cbn. cbn in C. now rewrite (IH F C).
  Qed.

  (* PUT-PUT *)
  Lemma existsb_es_result k v x es : sel_match k v x = true -> existsb (sel_match k v) (es_result k v x es) = true.
  Proof.
    intros Hx. unfold es_result. rewrite existsb_app. induction es as [|e t IH]; cbn.
    - now rewrite Hx.
    - destruct (sel_match k v e) eqn:M; cbn; [now rewrite Hx|]. rewrite M. exact IH.
  Qed.

  Lemma elem_setter_put_put k v x y es :
    sel_match k v x = true -> es_result k v y (es_result k v x es) = es_result k v y es.
  Proof.
    intros Hx. unfold es_result at 1. rewrite (existsb_es_result _ _ _ _ Hx), app_nil_r.
    unfold es_result. rewrite map_app. induction es as [|e t IH]; cbn.
    - now rewrite Hx.
    - destruct (sel_match k v e) eqn:M; cbn.
      + rewrite Hx. f_equal.
        (* the tail: nothing is appended on either side *)
        clear IH. rewrite !app_nil_r. induction t as [|h t IH]; cbn.
        * reflexivity.
        * destruct (sel_match k v h) eqn:Mh; [rewrite Hx|rewrite Mh]; now rewrite IH.
      + rewrite M. f_equal. exact IH.
  Qed.

  (* FRAME: elements answering to another value of the key are untouched *)
  Lemma elem_setter_frame k v w x es :
    v <> w -> sel_match k v x = true ->
    child (PSel k w) (Seq (es_result k v x es)) = child (PSel k w) (Seq es).
  Proof.
    intros Hvw Hx. rewrite !child_sel_first_sat. unfold es_result.
    pose proof (sel_match_excl _ _ _ _ Hx Hvw) as Hxw.
    induction es as [|e t IH]; cbn.
    - now rewrite Hxw.
    - destruct (sel_match k v e) eqn:M; cbn.
      + rewrite Hxw, (sel_match_excl _ _ _ _ M Hvw).
        clear IH. rewrite app_nil_r. induction t as [|h t IH]; cbn; [reflexivity|].
        destruct (sel_match k v h) eqn:Mh.
        * now rewrite Hxw, (sel_match_excl _ _ _ _ Mh Hvw).
        * destruct (sel_match k w h); auto.
      + destruct (sel_match k w e); auto.
  Qed.

  (* DELETE: nothing answers to the key afterwards, the rest keeps its order *)
  Lemma elem_setter_delete_get k v es :
    child (PSel k v) (Seq (filter (fun e => negb (sel_match k v e)) es)) = None.
  Proof.
    rewrite child_sel_first_sat. induction es as [|e t IH]; cbn; [reflexivity|].
    destruct (sel_match k v e) eqn:M; cbn; [exact IH|]. now rewrite M.
  Qed.

  (* --- the same laws stated on the filter itself --- *)
  Lemma lookup_sel_child k v es : lookup [PSel k v] (Seq es) = Ok (child (PSel k v) (Seq es)).
  Proof.
    destruct (child (PSel k v) (Seq es)) as [e|] eqn:C.
    - now rewrite (lookup_found _ _ _ _ C).
    - unfold lookup. now rewrite (walk_missing_nocreate _ _ _ _ C).
  Qed.

  Lemma sel_match_clean k v x : k <> "" -> sel_match k v x = true -> is_null x = false /\ is_empty_map x = false.
  Proof.
    intros Hk M. unfold sel_match in M. apply String.eqb_neq in Hk. rewrite Hk in M.
    destruct x as [| [|kv kvs] |]; try discriminate. auto.
  Qed.

  Lemma clean_es_result k v x es :
    k <> "" -> sel_match k v x = true -> clean es = true -> clean (es_result k v x es) = true.
  Proof.
    intros Hk M Hc. destruct (sel_match_clean _ _ _ Hk M) as [N E].
    unfold clean, es_result in *. rewrite forallb_app. apply andb_true_iff. split.
    - induction es as [|e t IH]; cbn in *; [reflexivity|]. apply andb_true_iff in Hc. destruct Hc as [He Ht].
      rewrite (IH Ht), andb_true_r. destruct (sel_match k v e); [now rewrite N, E|exact He].
    - destruct (existsb (sel_match k v) es); cbn; [reflexivity|]. now rewrite N, E.
  Qed.

  Lemma elem_setter_put_get_thm k v x es :
    k <> "" -> v <> "" -> clean es = true -> sel_match k v x = true ->
    exists es', elem_setter nonstr [k] [v] (Some x) (Seq es) = Ok (Seq es', Some x) /\
                lookup [PSel k v] (Seq es') = Ok (Some x).
  Proof.
    intros Hk Hv Hc M. destruct (sel_match_clean _ _ _ Hk M) as [N _].
    exists (es_result k v x es). split; [now apply elem_setter_spec|].
    now rewrite lookup_sel_child, (elem_setter_put_get _ _ _ _ M).
  Qed.

  Lemma elem_setter_get_put_thm k v x es :
    k <> "" -> v <> "" -> clean es = true ->
    lookup [PSel k v] (Seq es) = Ok (Some x) -> count_sat (sel_match k v) es = 1 ->
    elem_setter nonstr [k] [v] (Some x) (Seq es) = Ok (Seq es, Some x).
  Proof.
    intros Hk Hv Hc L C1. rewrite lookup_sel_child in L.
    assert (H0 : child (PSel k v) (Seq es) = Some x) by congruence. clear L.
    pose proof (child_sel_matches _ _ _ _ H0) as M.
    destruct (sel_match_clean _ _ _ Hk M) as [N _].
    rewrite (elem_setter_spec _ _ _ _ Hk Hv N Hc). now rewrite (elem_setter_get_put _ _ _ _ H0 C1).
  Qed.

  Lemma elem_setter_put_put_thm k v x y es es1 r :
    k <> "" -> v <> "" -> clean es = true -> sel_match k v x = true -> is_null y = false ->
    elem_setter nonstr [k] [v] (Some x) (Seq es) = Ok (Seq es1, r) ->
    elem_setter nonstr [k] [v] (Some y) (Seq es1) = elem_setter nonstr [k] [v] (Some y) (Seq es).
  Proof.
    intros Hk Hv Hc M Ny H. destruct (sel_match_clean _ _ _ Hk M) as [N _].
    rewrite (elem_setter_spec _ _ _ _ Hk Hv N Hc) in H. inv H.
    rewrite (elem_setter_spec _ _ _ _ Hk Hv Ny (clean_es_result _ _ _ _ Hk M Hc)).
    rewrite (elem_setter_spec _ _ _ _ Hk Hv Ny Hc). now rewrite (elem_setter_put_put _ _ _ _ _ M).
  Qed.

  Lemma elem_setter_frame_thm k v w x es es1 r :
    k <> "" -> v <> "" -> v <> w -> clean es = true -> sel_match k v x = true ->
    elem_setter nonstr [k] [v] (Some x) (Seq es) = Ok (Seq es1, r) ->
    lookup [PSel k w] (Seq es1) = lookup [PSel k w] (Seq es).
  Proof.
    intros Hk Hv Hvw Hc M H. destruct (sel_match_clean _ _ _ Hk M) as [N _].
    rewrite (elem_setter_spec _ _ _ _ Hk Hv N Hc) in H. inv H.
    now rewrite !lookup_sel_child, (elem_setter_frame _ _ _ _ _ Hvw M).
  Qed.

  Lemma elem_setter_delete_thm k v es :
    k <> "" -> v <> "" -> clean es = true ->
    exists es', elem_setter nonstr [k] [v] None (Seq es) = Ok (Seq es', None) /\
                lookup [PSel k v] (Seq es') = Ok None /\
                es' = filter (fun e => negb (sel_match k v e)) es.
  Proof.
    intros Hk Hv Hc. eexists. split; [now apply elem_setter_delete|]. split; [|reflexivity].
    now rewrite lookup_sel_child, elem_setter_delete_get.
  Qed.

  (* ---------- FieldClearer ---------- *)
  Lemma remove_first_if_plain name kvs :
    fst (remove_first_if name false kvs) = remove_first name kvs /\
    snd (remove_first_if name false kvs) = find_field name kvs.
  Proof.
    induction kvs as [|[k v] t [IH1 IH2]]; cbn; [auto|].
    destruct (String.eqb k name); cbn; [auto|]. now rewrite IH1, IH2.
  Qed.

  (* FieldClearer{Name} is Clear(name); FieldClearer{Name, IfEmpty} is the clearer of Yaml/Annot.v *)
  Lemma field_clearer_is_clear_field name n :
    (do r <- field_clearer name false n; Ok (fst r)) = clear_field name n.
  Proof.
    destruct n as [t ? ?|kvs|]; cbn; try reflexivity.
    - destruct t; reflexivity.
    - now rewrite (proj1 (remove_first_if_plain name kvs)).
  Qed.

  Lemma remove_first_if_empty name kvs :
    fst (remove_first_if name true kvs) = remove_first_empty name kvs.
  Proof.
    induction kvs as [|[k v] t IH]; cbn; [reflexivity|].
    assert (E : Elems.content_empty v = Annot.content_empty v) by (destruct v as [| [|] | [|]]; reflexivity).
    rewrite E. destruct (String.eqb k name && Annot.content_empty v); cbn; [reflexivity|now rewrite IH].
  Qed.

  Lemma field_clearer_if_empty_agrees name n :
    (do r <- field_clearer name true n; Ok (fst r)) = clear_field_if_empty name n.
  Proof.
    destruct n as [t ? ?|kvs|]; cbn; try reflexivity.
    - destruct t; reflexivity.
    - now rewrite remove_first_if_empty.
  Qed.

  (* clear-get and frame for FieldClearer on a mapping without duplicate keys *)
  Lemma find_field_remove_first_same name kvs :
    nodup_keys (keys kvs) = true -> find_field name (remove_first name kvs) = None.
  Proof.
    induction kvs as [|[k v] t IH]; cbn; intros H; [reflexivity|].
    apply andb_true_iff in H. destruct H as [H1 H2].
    destruct (String.eqb k name) eqn:E.
    - apply String.eqb_eq in E. subst k. apply negb_true_iff in H1.
      clear IH H2. induction t as [|[k' v'] t IH]; cbn in *; [reflexivity|].
      rewrite String.eqb_sym. destruct (String.eqb name k'); [discriminate|auto].
    - cbn. rewrite E. auto.
  Qed.

  (* ---------- mapping the answer of a continuation; Tee ---------- *)
  Definition kmap {A B} (f : A -> B) (k : node -> res (node * A)) : node -> res (node * B) :=
    fun x => do r <- k x; Ok (fst r, f (snd r)).

  Lemma walk_kmap {A B} (f : A -> B) cr ps (k : node -> res (node * A)) :
    forall n, walk cr ps (kmap f k) n = (do r <- walk cr ps k n; Ok (fst r, option_map f (snd r))).
  Proof.
    induction ps as [|p ps IH]; intros n.
    - cbn. unfold kmap. destruct (k n) as [[y a]| | |]; reflexivity.
    - destruct (child p n) as [x|] eqn:C.
      + rewrite !(walk_found _ _ _ _ _ _ C), IH.
        destruct (walk cr ps k x) as [[y a]| | |]; reflexivity.
      + destruct cr as [leaf|].
        2:{ rewrite !(walk_missing_nocreate _ _ _ _ C).
            destruct p; destruct n as [t s v0|kvs|es]; cbn; try reflexivity; destruct t; reflexivity. }
        destruct p; destruct n as [t s v0|kvs|es]; cbn in C |- *; try discriminate; try reflexivity;
          try (destruct t; reflexivity).
        all: try (rewrite C; try reflexivity).
        all: try (destruct es as [|e es]; [reflexivity|cbn in C |- *; rewrite C; reflexivity]).
        all: try (destruct t; try reflexivity).
        all: try (destruct (find_index (sel_match nm v) es) as [i|] eqn:F; [rewrite C; reflexivity|]).
        all: rewrite IH;
          match goal with |- context [walk ?c ?p ?kk ?f] => destruct (walk c p kk f) as [[y a]| | |] end;
          reflexivity.
  Qed.

  (* Tee changes the document exactly as the filter it wraps, and returns the node the filter was applied to *)
  Lemma walk_tee {A} cr ps (k : node -> res (node * A)) n :
    (do r <- walk cr ps (k_tee k) n; Ok (fst r)) = (do r <- walk cr ps k n; Ok (fst r)).
  Proof.
    pose (k2 := fun x => do r <- k x; Ok (fst r, (fst r, snd r))).
    assert (E1 : forall x, k_tee k x = kmap fst k2 x).
    { intros x. unfold k_tee, kmap, k2. destruct (k x) as [[y a]| | |]; reflexivity. }
    assert (E2 : forall x, k x = kmap snd k2 x).
    { intros x. unfold kmap, k2. destruct (k x) as [[y a]| | |]; reflexivity. }
    rewrite (walk_ext _ _ _ _ E1), (walk_ext _ _ _ _ E2), !walk_kmap.
    destruct (walk cr ps k2 n) as [[y a]| | |]; reflexivity.
  Qed.

  (* ---------- kfns.go: the metadata setters are put ---------- *)
  Lemma k_set_field_kmap name v x : k_set_field nonstr name v x = kmap (fun _ => tt) (set_field_r nonstr name v) x.
  Proof.
    unfold k_set_field, kmap, set_field_r.
    destruct (set_field nonstr name (Some v) false x) as [m| | |]; reflexivity.
  Qed.

  (* SetLabel(k, v) changes the document as put metadata.labels k 'v' *)
  Lemma set_label_is_put k v n :
    (do r <- set_label nonstr k v n; Ok (fst r)) =
    (do r <- put nonstr [PKey "metadata"; PKey "labels"] k (quoted_value v) n; Ok (fst r)).
  Proof.
    unfold set_label, put.
    rewrite (walk_ext _ _ _ _ (k_set_field_kmap k (quoted_value v))), walk_kmap.
    destruct (walk (Some KMap) [PKey "metadata"; PKey "labels"] (set_field_r nonstr k (quoted_value v)) n)
      as [[y a]| | |]; reflexivity.
  Qed.

  (* SetAnnotation(k, v) = ClearEmptyAnnotations, then put metadata.annotations k 'v' *)
  Lemma set_annotation_is_put k v n :
    set_annotation nonstr k v n =
    (do n1 <- clear_empty_annotations n;
     do r <- put nonstr [PKey "metadata"; PKey "annotations"] k (quoted_value v) n1; Ok (fst r)).
  Proof. reflexivity. Qed.

  (* hence put-get for labels and annotations (C14_put_get) *)
  Lemma set_label_get k v n n' r :
    no_null_path [PKey "metadata"; PKey "labels"] n = true ->
    set_label nonstr k v n = Ok (n', r) ->
    exists s, lookup [PKey "metadata"; PKey "labels"; PKey k] n' = Ok (Some (with_style s (quoted_value v))).
  Proof.
    intros NN H.
    pose proof (set_label_is_put k v n) as E. rewrite H in E. cbn [bind fst] in E.
    destruct (put nonstr [PKey "metadata"; PKey "labels"] k (quoted_value v) n) as [[d o]| | |] eqn:P;
      cbn in E; inv E.
    (* the path has no list part: the put either went through (Some tt) or stopped at a null (excluded) *)
    destruct o as [[]|].
    - eapply (put_get nonstr [PKey "metadata"; PKey "labels"] k (quoted_value v) n d); auto.
    - exfalso. unfold put in P.
      (* with creation a key path always ends in the continuation unless a null stops it *)
      cbn in NN.
      destruct n as [t s w|kvs|es]; cbn in P, NN; try discriminate.
      + destruct t; discriminate.
      + destruct (find_field "metadata" kvs) as [m|] eqn:Fm; cbn in P.
        * destruct m as [t s w|mk|es]; cbn in P, NN; try discriminate.
          -- destruct t; cbn in P, NN; try discriminate.
          -- destruct (find_field "labels" mk) as [l|] eqn:Fl; cbn in P.
             ++ destruct (k_set_field nonstr k (quoted_value v) l) as [[? []]| | |]; cbn in P; discriminate.
             ++ destruct (k_set_field nonstr k (quoted_value v) (Map [])) as [[? []]| | |]; cbn in P; discriminate.
        * destruct (k_set_field nonstr k (quoted_value v) (Map [])) as [[? []]| | |]; cbn in P; discriminate.
  Qed.
End Proofs.

(* ---------- witnesses ---------- *)
Section Examples.
  Let ns : string -> bool := fun _ => false.
  Let str (s : string) := Scalar TStr SPlain s.
  Let el (n i : string) := Map [("name", str n); ("image", str i)].
  Let lst := [el "a" "i1"; el "b" "i2"].

  Example ex_elem_setter_replace :
    elem_setter ns ["name"] ["b"] (Some (el "b" "NEW")) (Seq lst) = Ok (Seq [el "a" "i1"; el "b" "NEW"], Some (el "b" "NEW")).
  Proof. reflexivity. Qed.

  Example ex_elem_setter_append :
    elem_setter ns ["name"] ["c"] (Some (el "c" "i3")) (Seq lst) = Ok (Seq (lst ++ [el "c" "i3"]), Some (el "c" "i3")).
  Proof. reflexivity. Qed.

  Example ex_clean : clean lst = true /\ sel_match "name" "b" (el "b" "NEW") = true.
  Proof. split; reflexivity. Qed.

  (* the hypothesis [clean] cannot be dropped: unrelated empty / null elements disappear *)
  Lemma elem_setter_drops_empty_elements :
    exists es x, sel_match "name" "b" x = true /\
      elem_setter ns ["name"] ["b"] (Some x) (Seq es) = Ok (Seq [x], Some x) /\ List.length es = 3.
  Proof.
    exists [Map []; Scalar TNull SPlain "null"; el "b" "i"], (el "b" "NEW"). repeat split.
  Qed.

  (* ... and neither can uniqueness in get-put: every element answering to the key is replaced *)
  Lemma elem_setter_replaces_all_matches :
    exists es x, child (PSel "name" "b") (Seq es) = Some x /\ clean es = true /\
      elem_setter ns ["name"] ["b"] (Some x) (Seq es) <> Ok (Seq es, Some x).
  Proof.
    exists [el "b" "i1"; el "b" "i2"], (el "b" "i1"). repeat split. cbn. discriminate.
  Qed.
End Examples.
