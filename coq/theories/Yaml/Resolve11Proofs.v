(* Facts about KV.Yaml.Resolve11 — the shared, validated instance of the oracle parameters
   [nonstr] (yaml.IsValueNonString) and [hastype] (compatibility.go valueHasType).

   Any model that takes `nonstr : string -> bool` as a parameter can be instantiated with
   [nonstr_m o]: on the fragment [in_fragment] the answer is computed ([nonstr_of_resolve11]) and does
   not depend on the residual oracle [o]; outside the fragment it is [o].  The agreement of the computed
   part with go-yaml v2 is a correspondence obligation of ./check C20 (KScalars pool + every scalar of every
   generated stream). *)
From KV Require Import Base.Prelude Yaml.Resolve11.
Open Scope string_scope.

Lemma safe_char_not_newline c : safe_char c = true -> negb (code c =? 10)%N = true.
Proof.
  destruct c as [b0 b1 b2 b3 b4 b5 b6 b7].
  destruct b0, b1, b2, b3, b4, b5, b6, b7; vm_compute; auto.
Qed.

Lemma in_fragment_plain v : in_fragment v = true -> (String.eqb v "" || has_newline v) = false.
Proof.
  unfold in_fragment. rewrite !andb_true_iff. intros [[[[[F A] _] _] _] _].
  destruct v as [|c r]; [discriminate|]. cbn [String.eqb orb].
  unfold has_newline. replace (all_chars (fun c0 => negb (code c0 =? 10)%N) (String c r)) with true; auto.
  symmetry. clear F. induction (String c r) as [|d t IH]; cbn in *; auto.
  apply andb_true_iff in A. destruct A as [A1 A2]. rewrite (safe_char_not_newline _ A1), IH; auto.
Qed.

Lemma resolve11_fragment v r : resolve11 v = Some r -> in_fragment v = true.
Proof. unfold resolve11. destruct (in_fragment v); cbn; auto; discriminate. Qed.

Lemma nonstr_m_resolved o v r : resolve11 v = Some r -> nonstr_m o v = negb (rtag_eqb r RStr).
Proof.
  intros H. unfold nonstr_m. rewrite (in_fragment_plain _ (resolve11_fragment _ _ H)), H. reflexivity.
Qed.

Lemma hastype_m_resolved o v r t : resolve11 v = Some r -> hastype_m o v t = rtag_has_type r t.
Proof. intros H. unfold hastype_m. rewrite H. reflexivity. Qed.


(* ---------- the oracle-free part ---------- *)

(* the answer of yaml.IsValueNonString as far as the model computes it (false where it does not) *)
Definition nonstr_of_resolve11 (s : string) : bool :=
  match resolve11 s with Some r => negb (rtag_eqb r RStr) | None => false end.

(* the model has an answer for this text *)
Definition resolved (s : string) : bool :=
  match resolve11 s with Some _ => true | None => false end.

(* characterisation: non-string  <=>  the text resolves to a boolean, an integer, a float or null *)
Theorem nonstr_of_resolve11_spec s :
  nonstr_of_resolve11 s = true <->
  exists r, resolve11 s = Some r /\ (r = RBool \/ r = RInt \/ r = RFloat \/ r = RNull).
Proof.
  unfold nonstr_of_resolve11. destruct (resolve11 s) as [r|]; split.
  - intros H. exists r. split; auto. destruct r; cbn in H; auto; discriminate.
  - intros [r' [E H]]. inversion E; subst r'. destruct H as [->|[->|[->| ->]]]; reflexivity.
  - discriminate.
  - intros [r' [E _]]. discriminate.
Qed.

(* where the model has an answer, the shared instance does not consult the residual oracle *)
Theorem nonstr_m_resolved_any o s : resolved s = true -> nonstr_m o s = nonstr_of_resolve11 s.
Proof.
  unfold resolved, nonstr_of_resolve11. destruct (resolve11 s) as [r|] eqn:E; [|discriminate].
  intros _. apply nonstr_m_resolved. exact E.
Qed.

Theorem hastype_m_resolved_any o s t r : resolve11 s = Some r -> hastype_m o s t = rtag_has_type r t.
Proof. apply hastype_m_resolved. Qed.

(* the shared instance in full: the two early exits of IsValueNonString, the computed part, the oracle *)
Theorem nonstr_m_spec o s :
  nonstr_m o s = true <->
  s <> "" /\ has_newline s = false /\
  (nonstr_of_resolve11 s = true \/ (resolve11 s = None /\ o s = true)).
Proof.
  unfold nonstr_m, nonstr_of_resolve11.
  destruct (String.eqb s "") eqn:E0.
  - apply String.eqb_eq in E0. subst s. cbn. split; [discriminate|]. intros [H _]. congruence.
  - apply String.eqb_neq in E0. cbn [orb].
    destruct (has_newline s) eqn:EN.
    + split; [discriminate|]. intros [_ [H _]]. discriminate.
    + destruct (resolve11 s) as [r|].
      * split.
        -- intros H. repeat split; auto.
        -- intros [_ [_ [H|[H _]]]]; [exact H|discriminate].
      * split.
        -- intros H. repeat split; auto.
        -- intros [_ [_ [H|[_ H]]]]; [discriminate|exact H].
Qed.

(* two residual oracles that agree outside the model's fragment give the same instance: a property
   proved for every [nonstr] holds for the real IsValueNonString as soon as the computed part agrees
   with it (the correspondence obligation of ./check C20) *)
Theorem nonstr_m_ext o o' :
  (forall s, resolve11 s = None -> o s = o' s) -> forall s, nonstr_m o s = nonstr_m o' s.
Proof.
  intros H s. unfold nonstr_m. destruct (String.eqb s "" || has_newline s); auto.
  destruct (resolve11 s) eqn:E; auto.
Qed.

(* non-vacuity *)
Example nonstr_instance_examples : forall o,
  map (nonstr_m o) ["yes"; "010"; "1e3"; "~"; "nginx:1.0.0"; "web"; "a,b"; ""; "50%"] =
  [true; true; true; true; false; false; false; false; false] /\
  map resolved ["2001-01-01"; "a b"; "a: b"; "x #y"; "a:"; "1e100"] = [false; false; false; false; false; false].
Proof. intros o. split; vm_compute; reflexivity. Qed.
