(* Proofs about KV.Yaml.Match (PathMatcher model). *)
From KV Require Import Base.Regex Base.RegexProofs Yaml.Match.

Ltac inv H := inversion H; subst; clear H.

(* ---------- obligations over the generated source facts ---------- *)
Lemma gen_match_patterns_shape :
  gen_match_visitElem_pattern = [PVar "p.matchRegex"] /\
  gen_match_visitPrimitiveElem_pattern = [PVar "p.matchRegex"] /\
  gen_match_doseq_retries = true.
Proof. repeat split. Qed.

(* the create-and-retry of doSeq is guarded: a second search that finds nothing is an error *)
Lemma gen_match_doseq_is_guarded : gen_match_doseq_guarded = true.
Proof. reflexivity. Qed.

Lemma elem_regex_text parse v :
  elem_regex parse v = match parse v with Some r => Ok r | None => Err end.
Proof.
  unfold elem_regex. destruct gen_match_patterns_shape as (-> & _). cbn.
  rewrite app_empty_r. reflexivity.
Qed.

(* ---------- visit_elems ---------- *)
Lemma visit_elems_nohit f : forall es i,
  (forall e, In e es -> f e = Ok (e, [])) -> visit_elems f i es = Ok (es, []).
Proof.
  induction es as [|e t IH]; intros i H; cbn; auto.
  rewrite (H e (or_introl eq_refl)). cbn. rewrite IH; auto. intros x Hx; apply H; right; auto.
Qed.

(* ---------- doSeq with Create: an appended entry that is not matched is an error (it used to hang) ---------- *)
Lemma retry_unmatched_is_error visit new_elem :
  visit new_elem = Ok (new_elem, []) ->
  forall f es, (forall e, In e es -> visit e = Ok (e, [])) ->
  retry_loop visit new_elem true false (S (S f)) es = Err.
Proof.
  intros Hn f es H. cbn [retry_loop].
  rewrite visit_elems_nohit; auto. cbn.
  rewrite visit_elems_nohit.
  - cbn; try rewrite gen_match_doseq_is_guarded; reflexivity.
  - intros e He. apply in_app_or in He. destruct He as [He|[<-|[]]]; auto.
Qed.

(* the retry never runs out of fuel: two searches at most *)
Lemma retry_total visit new_elem cr app f es :
  (forall e, visit e <> Diverge) ->
  retry_loop visit new_elem cr app (S (S f)) es <> Diverge.
Proof.
  intros Hv. cbn [retry_loop].
  assert (T : forall l i, visit_elems visit i l <> Diverge).
  { induction l as [|e t IHl]; intros i; cbn; [discriminate|].
    specialize (Hv e). destruct (visit e) as [[e1 h1]| | |]; cbn; try discriminate; [|congruence].
    specialize (IHl (S i)). destruct (visit_elems visit (S i) t) as [[t1 h2]| | |]; cbn; try discriminate. congruence. }
  pose proof (T es 0) as T1.
  destruct (visit_elems visit 0 es) as [[es1 h1]| | |]; cbn; try discriminate; [|congruence].
  destruct h1; [|discriminate]. destruct cr; [|discriminate].
  try rewrite gen_match_doseq_is_guarded. destruct app; cbn; [discriminate|].
  pose proof (T (es1 ++ [new_elem])%list 0) as T2.
  destruct (visit_elems visit 0 (es1 ++ [new_elem])%list) as [[es2 h2]| | |]; cbn; try discriminate; [|congruence].
  destruct h2; discriminate.
Qed.

(* regression witness of the repaired hang (DESIGN F6): target path spec.containers.[name=^zz$].image, Create, on a pod *)
Definition zz_parse : string -> option re := parse_of [("^zz$", Some (cat_of_list [Bol; lit "zz"; Eol]))].
Definition zz_path : list string := ["spec"; "containers"; "[name=^zz$]"; "image"].
Definition zz_doc : node :=
  Map [("spec", Map [("containers", Seq [Map [("name", Scalar TStr SPlain "x");
                                              ("image", Scalar TStr SPlain "i")]])])].

Lemma match_unmatched_create_is_error :
  forall fuel, pm zz_parse node_value (fun _ => false) (Some KScalar) (S (S fuel)) zz_path zz_doc = Err.
Proof.
  intros fuel. unfold zz_path, zz_doc.
  cbn -[retry_loop zz_parse].
  rewrite retry_unmatched_is_error; auto.
  intros e [<-|[]]. vm_compute. reflexivity.
Qed.

(* the same path terminates at once when the selector value matches itself *)
Example match_selfmatching_example :
  exists d, pm (parse_of [("zz", Some (lit "zz"))]) node_value (fun _ => false) (Some KScalar) 2
               ["spec"; "containers"; "[name=zz]"; "image"] zz_doc = Ok (d, [HAt [0; 0; 1; 1]]).
Proof. eexists. vm_compute. reflexivity. Qed.

(* ---------- without Create the matcher always returns, and never modifies the document ---------- *)
Section NoCreate.
  Variable parse : string -> option re.
  Variable enc : node -> string.
  Variable nonstr : string -> bool.

  Notation pm0 := (pm parse enc nonstr None).

  Lemma set_first_same name kvs x :
    find_field name kvs = Some x -> set_first name x kvs = kvs.
  Proof.
    induction kvs as [|[k v] t IH]; cbn; intros H; [discriminate|].
    destruct (String.eqb k name) eqn:E.
    - inv H; reflexivity.
    - rewrite IH; auto.
  Qed.

  Lemma replace_nth_same {A} (l : list A) i x :
    nth_error l i = Some x -> replace_nth i x l = l.
  Proof.
    revert i; induction l as [|h t IH]; intros [|i]; cbn; intros H; try discriminate.
    - inv H; reflexivity.
    - rewrite IH; auto.
  Qed.

  Lemma visit_elems_pure (f : node -> res (node * list hit)) : forall es i es' hs,
    (forall e e' h, In e es -> f e = Ok (e', h) -> e' = e) ->
    visit_elems f i es = Ok (es', hs) -> es' = es.
  Proof.
    induction es as [|e t IH]; intros i es' hs Hf H; cbn in H.
    - inv H; auto.
    - destruct (f e) as [[e1 h1]| | |] eqn:E; cbn in H; try discriminate.
      destruct (visit_elems f (S i) t) as [[t1 h2]| | |] eqn:V; cbn in H; inv H.
      f_equal.
      + eapply Hf; eauto. left; auto.
      + eapply IH; eauto. intros; eapply Hf; eauto. right; auto.
  Qed.

  Lemma visit_elems_total (f : node -> res (node * list hit)) : forall es i,
    (forall e, In e es -> f e <> Diverge) -> visit_elems f i es <> Diverge.
  Proof.
    induction es as [|e t IH]; intros i Hf; cbn; [discriminate|].
    destruct (f e) as [[e1 h1]| | |] eqn:E; cbn; try discriminate.
    - specialize (IH (S i)). destruct (visit_elems f (S i) t) as [[t1 h2]| | |]; cbn; try discriminate.
      apply IH. intros; apply Hf; right; auto.
    - exfalso. apply (Hf e); [left; auto|auto].
  Qed.

  (* PathMatcher without Create is a pure lookup *)
  Lemma pm_nocreate_pure : forall fuel path n n' hits,
    pm0 fuel path n = Ok (n', hits) -> n' = n.
  Proof.
    intros fuel. induction path as [|p rest IH]; intros n n' hits H; cbn -[elem_regex] in H.
    - inv H; auto.
    - destruct (classify_pm p) as [i|raw| |name].
      + destruct n as [t s v|kvs|es].
        { destruct (is_null _); [|discriminate]. destruct (Nat.eqb i 0); cbn in H; discriminate. }
        { cbn in H; discriminate. }
        cbn in H. rewrite andb_false_r in H.
        destruct (nth_error es i) as [e|] eqn:F; try discriminate.
        destruct (pm0 fuel rest e) as [[e1 h1]| | |] eqn:P; cbn in H; inv H.
        apply IH in P; subst. rewrite replace_nth_same; auto.
      + destruct (split_index_name_value raw) as [[fld v]|]; try discriminate.
        destruct n as [t s v0|kvs|es].
        * destruct (is_null _); [|discriminate].
          destruct fuel; cbn in H; [discriminate|]. inv H; auto.
        * cbn in H; discriminate.
        * destruct fuel; cbn -[elem_regex] in H; [discriminate|].
          match type of H with context [visit_elems ?f 0 es] =>
            destruct (visit_elems f 0 es) as [[es1 h1]| | |] eqn:V; cbn in H; try discriminate;
            assert (es1 = es)
          end.
          { eapply visit_elems_pure; [|exact V].
            intros e e' h _ He. cbn -[elem_regex] in He.
            destruct (elem_regex parse v) as [r| | |]; cbn -[elem_regex] in He; try discriminate.
            destruct (String.eqb fld "").
            - destruct (matches r (enc e)); inv He; auto.
            - destruct e as [t s v0|kvs|es0]; try (inv He; auto; fail).
              destruct (find_field fld kvs) as [x|]; [|inv He; auto].
              destruct (matches r (enc x)); [|inv He; auto].
              eapply IH; eauto. }
          subst es1. destruct h1; inv H; auto.
      + destruct n as [t s v|kvs|es].
        * destruct (is_null _); inv H; auto.
        * cbn in H; discriminate.
        * destruct (visit_elems (pm0 fuel rest) 0 es) as [[es1 h1]| | |] eqn:V; cbn in H; inv H.
          f_equal. eapply visit_elems_pure; [|exact V]. intros; eapply IH; eauto.
      + destruct (String.eqb name "") eqn:En.
        * destruct n as [t s v|kvs|es]; try discriminate.
          destruct (negb (is_null (Scalar t s v)) && String.eqb v "").
          -- eapply IH; eauto.
          -- cbn in H. inv H; auto.
        * destruct n as [t s v|kvs|es].
          -- destruct (is_null _); cbn in H; inv H; auto.
          -- destruct (find_field name kvs) as [x|] eqn:F.
             ++ destruct (pm0 fuel rest x) as [[x1 h1]| | |] eqn:P; cbn in H; inv H.
                apply IH in P; subst. rewrite set_first_same; auto.
             ++ cbn in H. inv H; auto.
          -- cbn in H. discriminate.
  Qed.

  (* ... and it always returns (one unit of fuel suffices: the retry is never taken) *)
  Lemma pm_nocreate_total : forall fuel path n, pm0 (S fuel) path n <> Diverge.
  Proof.
    intros fuel. induction path as [|p rest IH]; intros n; cbn -[elem_regex]; [discriminate|].
    destruct (classify_pm p) as [i|raw| |name].
    - destruct n as [t s v|kvs|es].
      { destruct (is_null _); [|discriminate]. destruct (Nat.eqb i 0); cbn; discriminate. }
      { cbn; discriminate. }
      cbn. rewrite andb_false_r.
      destruct (nth_error es i) as [e|]; [|discriminate].
      specialize (IH e). destruct (pm0 (S fuel) rest e) as [[e1 h1]| | |]; cbn; try discriminate. auto.
    - destruct (split_index_name_value raw) as [[fld v]|]; [|discriminate].
      destruct n as [t s v0|kvs|es]; try (destruct (is_null _); cbn; discriminate); try (cbn; discriminate).
      cbn -[elem_regex].
      match goal with |- context [visit_elems ?f 0 es] =>
        assert (V : visit_elems f 0 es <> Diverge);
        [|destruct (visit_elems f 0 es) as [[es1 h1]| | |]; cbn; try discriminate; auto;
          destruct h1; cbn; discriminate]
      end.
      apply visit_elems_total. intros e _. cbn -[elem_regex].
      destruct (elem_regex parse v) as [r| | |] eqn:R; cbn -[elem_regex]; try discriminate.
      + destruct (String.eqb fld ""); [destruct (matches r (enc e)); discriminate|].
        destruct e as [t s v0|kvs|es0]; try discriminate.
        destruct (find_field fld kvs) as [x|]; [|discriminate].
        destruct (matches r (enc x)); [apply IH|discriminate].
      + unfold elem_regex in R. destruct (render _ v); [destruct (parse s)|]; discriminate.
    - destruct n as [t s v|kvs|es]; try (destruct (is_null _); discriminate); try discriminate.
      assert (V : visit_elems (pm0 (S fuel) rest) 0 es <> Diverge)
        by (apply visit_elems_total; intros; apply IH).
      destruct (visit_elems (pm0 (S fuel) rest) 0 es) as [[es1 h1]| | |]; cbn; try discriminate; auto.
    - destruct (String.eqb name "").
      + destruct n as [t s v|kvs|es]; try discriminate.
        destruct (negb (is_null (Scalar t s v)) && String.eqb v ""); [apply IH|cbn; discriminate].
      + destruct n as [t s v|kvs|es]; try (destruct (is_null _); cbn; discriminate); try (cbn; discriminate).
        destruct (find_field name kvs) as [x|]; [|cbn; discriminate].
        specialize (IH x). destruct (pm0 (S fuel) rest x) as [[x1 h1]| | |]; cbn; try discriminate; auto.
  Qed.
End NoCreate.

(* ---------- a list selector does NOT select by equality: [name=x] also returns the entry ax ---------- *)
Definition near_doc : node :=
  Seq [Map [("name", Scalar TStr SPlain "x")]; Map [("name", Scalar TStr SPlain "ax")];
       Map [("name", Scalar TStr SPlain "x-1")]; Map [("name", Scalar TStr SPlain "web")]].

Lemma match_elem_not_exact_lemma :
  pm (parse_of [("x", Some (lit "x"))]) node_value (fun _ => false) None 1 ["[name=x]"] near_doc
  = Ok (near_doc, [HAt [0]; HAt [1]; HAt [2]]).
Proof. vm_compute. reflexivity. Qed.

(* what does hold: an entry is returned exactly when the regular expression FINDS A MATCH INSIDE the text of its key *)
Section ElemSpec.
  Variable parse : string -> option re.
  Variable enc : node -> string.
  Variable nonstr : string -> bool.

  Lemma visit_elems_hits (f : node -> res (node * list hit)) (sel : node -> bool) : forall es i es' hs,
    (forall e, In e es -> f e = Ok (e, if sel e then [HAt []] else [])) ->
    visit_elems f i es = Ok (es', hs) ->
    forall j, In (HAt [j]) hs <-> exists e, nth_error es (j - i) = Some e /\ i <= j /\ sel e = true.
  Proof.
    induction es as [|e t IH]; intros i es' hs Hf H j; cbn in H.
    - inv H. split; [intros []|]. intros (e & He & _). destruct (j - i); discriminate.
    - rewrite (Hf e (or_introl eq_refl)) in H. cbn in H.
      destruct (visit_elems f (S i) t) as [[t1 h2]| | |] eqn:V; cbn in H; inv H.
      specialize (IH (S i) t1 h2 (fun x Hx => Hf x (or_intror Hx)) V j).
      rewrite in_app_iff, IH. split.
      + intros [Hin|(x & Hx & Hle & Hs)].
        * destruct (sel e) eqn:S; cbn in Hin; [|tauto]. destruct Hin as [Hin|[]]. inv Hin.
          exists e. rewrite Nat.sub_diag. auto.
        * exists x. replace (j - i) with (S (j - S i)) by lia. cbn. split; auto. split; auto; lia.
      + intros (x & Hx & Hle & Hs).
        destruct (Nat.eq_dec i j) as [->|Hne].
        * rewrite Nat.sub_diag in Hx. cbn in Hx. inv Hx. left. rewrite Hs. left; auto.
        * right. exists x. replace (j - i) with (S (j - S i)) in Hx by lia. cbn in Hx.
          split; auto. split; auto; lia.
  Qed.

  (* final selector part [k=v] (k non-empty, v compiles to r), no Create, on a sequence:
     entry j is returned iff it is a mapping whose field k has a text in which r finds a match *)
  Lemma pm_last_selector_spec k v r es es' hs :
    k <> "" -> parse v = Some r ->
    split_index_name_value ("[" ++ k ++ "=" ++ v ++ "]") = Some (k, v) ->
    classify_pm ("[" ++ k ++ "=" ++ v ++ "]") = PPSel ("[" ++ k ++ "=" ++ v ++ "]") ->
    pm parse enc nonstr None 1 ["[" ++ k ++ "=" ++ v ++ "]"] (Seq es) = Ok (Seq es', hs) ->
    forall j, In (HAt [j]) hs <->
      exists kvs x, nth_error es j = Some (Map kvs) /\ find_field k kvs = Some x /\ matches r (enc x) = true.
  Proof.
    intros Hk Hp Hs Hc H j. cbn [pm] in H. rewrite Hc, Hs in H. cbn -[elem_regex] in H.
    match type of H with context [visit_elems ?f 0 es] =>
      destruct (visit_elems f 0 es) as [[es1 h1]| | |] eqn:V; cbn in H; try discriminate
    end.
    assert (hs = h1) by (destruct h1; inv H; auto). subst h1.
    set (sel := fun e => match e with
                         | Map kvs => match find_field k kvs with
                                      | Some x => matches r (enc x) | None => false end
                         | _ => false end).
    pose proof (fun Hf => visit_elems_hits _ sel es 0 es1 hs Hf V j) as HH.
    rewrite HH; clear HH.
    - rewrite Nat.sub_0_r. split.
      + intros (e & He & _ & Hsel). destruct e as [| kvs |]; cbn in Hsel; try discriminate.
        destruct (find_field k kvs) as [x|] eqn:F; [|discriminate]. eauto.
      + intros (kvs & x & He & F & Hm). exists (Map kvs). split; auto. split; [lia|]. cbn. rewrite F; auto.
    - intros e _. rewrite elem_regex_text, Hp. cbn.
      apply String.eqb_neq in Hk. rewrite Hk.
      destruct e as [t s v0|kvs|es0]; cbn; auto.
      destruct (find_field k kvs) as [x|]; auto.
      destruct (matches r (enc x)); auto.
  Qed.
End ElemSpec.

(* non-vacuity of the side conditions of pm_last_selector_spec *)
Example last_selector_conditions :
  split_index_name_value ("[" ++ "name" ++ "=" ++ "x" ++ "]") = Some ("name", "x") /\
  classify_pm ("[" ++ "name" ++ "=" ++ "x" ++ "]") = PPSel ("[" ++ "name" ++ "=" ++ "x" ++ "]").
Proof. split; reflexivity. Qed.
