(* Model of kyaml/yaml/merge2: the Merger visitor (VisitMap / VisitScalar / VisitList) and the
   strategic-merge-patch directive detection + elision of smpdirective.go.
   SetStyle / SetComments only touch comments and the style of empty maps / sequences, which the
   node model does not carry. *)
From KV Require Export Yaml.Walk.

Inductive smp := SmpUnknown | SmpReplace | SmpDelete | SmpMerge.

Definition smp_key : string := "$patch".

(* the directive spelled by a "$patch" value; None = unknown patch strategy (error) *)
Definition smp_of_value (v : string) : option smp :=
  if String.eqb v "delete" then Some SmpDelete
  else if String.eqb v "replace" then Some SmpReplace
  else if String.eqb v "merge" then Some SmpMerge
  else None.

(* determineSmpDirective: the directive and the patch after elision *)
Definition determine_smp (patch : option node) : res (smp * option node) :=
  match patch with
  | None => Ok (SmpMerge, None)
  | Some (Map kvs) =>
      match find_field smp_key kvs with
      | None => Ok (SmpMerge, patch)
      | Some x =>
          match smp_of_value (node_value x) with
          | Some d => Ok (d, Some (Map (remove_first smp_key kvs)))     (* Clear("$patch") *)
          | None => Err
          end
      end
  | Some (Seq es) =>
      match element_by_key smp_key es with
      | None => Ok (SmpMerge, patch)
      | Some (Map kvs) =>
          if Nat.ltb 1 (List.length kvs) then Ok (SmpMerge, patch)       (* len(Content) > 2 *)
          else
            match find_field smp_key kvs with
            | None => Ok (SmpMerge, patch)
            | Some x =>
                let v := node_value x in
                match smp_of_value v with
                | Some d =>
                    (* ElementSetter{Element: nil, Keys: ["$patch"], Values: [v]} *)
                    do es' <- element_set None [smp_key] [v] es;
                    Ok (d, Some (Seq es'))
                | None => Err
                end
            end
      | Some _ => Ok (SmpMerge, patch)
      end
  | Some (Scalar _ _ _) => Err
  end.

Definition dest_of (srcs : list (option node)) : option node :=
  match srcs with d :: _ => d | [] => None end.
Definition origin_of (srcs : list (option node)) : option node :=
  match srcs with _ :: o :: _ => o | _ => None end.
Definition set_origin (o : option node) (srcs : list (option node)) : list (option node) :=
  match srcs with d :: _ :: t => d :: o :: t | _ => srcs end.

Definition tagged_null (s : option node) : bool :=        (* RNode.IsTaggedNull *)
  match s with Some n => is_null n | None => false end.

(* Merger.VisitMap *)
Definition m2_visit_map (srcs : list (option node)) : res (list (option node) * vres) :=
  let dest := dest_of srcs in
  let origin := origin_of srcs in
  if o_null dest then
    (* "ps, _ := determineSmpDirective(origin)": the error is dropped (ps = unknown, nothing elided) *)
    let '(ps, origin') := match determine_smp origin with
                          | Ok r => r
                          | _ => (SmpUnknown, origin)
                          end in
    let srcs' := set_origin origin' srcs in
    match ps with
    | SmpDelete => Ok (srcs', VNil)
    | _ =>
        match origin, dest with
        | None, Some (Scalar _ _ v) =>
            if negb (String.eqb v "") then Ok (srcs', VNew (Scalar TNull SPlain v) true)   (* MakePersistentNullNode *)
            else Ok (srcs', VSrc 1)
        | _, _ => Ok (srcs', VSrc 1)
        end
    end
  else if tagged_null origin then Ok (srcs, VNil)
  else
    do r <- determine_smp origin;
    let srcs' := set_origin (snd r) srcs in
    match fst r with
    | SmpDelete => Ok (srcs', VNil)
    | SmpReplace => Ok (srcs', VSrc 1)
    | _ => Ok (srcs', VDest)
    end.

(* Merger.VisitScalar *)
Definition m2_visit_scalar (srcs : list (option node)) : res vres :=
  match origin_of srcs with
  | Some _ => Ok (VSrc 1)
  | None => Ok VDest
  end.

(* Merger.VisitList *)
Definition m2_visit_list (assoc : bool) (srcs : list (option node)) : res (list (option node) * vres) :=
  let dest := dest_of srcs in
  let origin := origin_of srcs in
  if negb assoc then
    match origin with
    | Some _ => Ok (srcs, VSrc 1)
    | None => Ok (srcs, VDest)
    end
  else if o_null dest then
    (* a list-level directive element addresses the destination's list: with no such list, "delete" adds
       nothing and "replace" / "merge" are elided (error of determineSmpDirective dropped, as in VisitMap) *)
    if o_null origin then Ok (srcs, VSrc 1)
    else
      let '(ps, origin') := match determine_smp origin with
                            | Ok r => r
                            | _ => (SmpUnknown, origin)
                            end in
      match ps with
      | SmpDelete => Ok (set_origin origin' srcs, VNil)
      | _ => Ok (set_origin origin' srcs, VSrc 1)
      end
  else if tagged_null origin then Ok (srcs, VNil)
  else
    do r <- determine_smp origin;
    let srcs' := set_origin (snd r) srcs in
    match fst r with
    | SmpDelete => Ok (srcs', VNil)
    | SmpReplace => Ok (srcs', VSrc 1)
    | _ => Ok (srcs', VDest)
    end.

Definition merger : visitor := mkVisitor m2_visit_map m2_visit_scalar m2_visit_list.

Section Merge2.
  Context {Sc : Type}.
  Variable sch : schema Sc.
  Variable opts : wopts.
  Variable nonstr : string -> bool.

  (* merge2.Merge(patch, target, opts) : Walker{Sources: [target, patch], Visitor: Merger{}}.Walk() *)
  Definition merge2 (patch target : option node) : res (option node) :=
    walk_top sch opts nonstr merger [target; patch].
End Merge2.
