(* Reference model of path get / put on plain typed JSON values ([json] of Yaml/Node.v).
   Deliberately small and free of everything that makes the kyaml code intricate: no outcome classes,
   no styles, no "found" flag, no continuation.  [jget] reads, [jupd] applies a function at a path
   (creating missing objects / list elements on the way when asked to), [jput] stores a value.
   KV.Yaml.JsonRefProofs shows that the model of kyaml's PathGetter refines these. *)
From KV Require Export Yaml.Fns.

Definition jvalue (j : json) : string := match j with JAtom _ _ v => v | _ => "" end.

Fixpoint jfind (k : string) (kvs : list (string * json)) : option json :=
  match kvs with
  | [] => None
  | (k', v) :: t => if String.eqb k' k then Some v else jfind k t
  end.

Fixpoint jset (k : string) (v : json) (kvs : list (string * json)) : list (string * json) :=
  match kvs with
  | [] => []
  | (k', x) :: t => if String.eqb k' k then (k', v) :: t else (k', x) :: jset k v t
  end.

(* does list element e answer to the selector [nm=v] ? *)
Definition jsel (nm v : string) (e : json) : bool :=
  if String.eqb nm "" then String.eqb (jvalue e) v
  else match e with
       | JObj kvs => match jfind nm kvs with Some x => String.eqb (jvalue x) v | None => false end
       | _ => false
       end.

(* one step down *)
Definition jchild (p : part) (j : json) : option json :=
  match p, j with
  | PKey k, JObj kvs => jfind k kvs
  | PIdx i, JArr es => nth_error es i
  | PLast, JArr es => match es with [] => None | _ => nth_error es (List.length es - 1) end
  | PSel nm v, JArr es => match find_index (jsel nm v) es with Some i => nth_error es i | None => None end
  | _, _ => None
  end.

(* ... and back up *)
Definition jplug (p : part) (j y : json) : json :=
  match p, j with
  | PKey k, JObj kvs => JObj (jset k y kvs)
  | PIdx i, JArr es => JArr (replace_nth i y es)
  | PLast, JArr es => JArr (replace_nth (List.length es - 1) y es)
  | PSel nm v, JArr es => match find_index (jsel nm v) es with Some i => JArr (replace_nth i y es) | None => j end
  | _, _ => j
  end.

Fixpoint jget (ps : list part) (j : json) : option json :=
  match ps with
  | [] => Some j
  | p :: ps' => match jchild p j with Some x => jget ps' x | None => None end
  end.

Definition jempty (k : kind) : json :=
  match k with KScalar => JAtom TNone false "" | KMap => JObj [] | KSeq => JArr [] end.

Definition jsel_new (nm v : string) : json :=
  if String.eqb nm "" then JAtom TNone false v else JObj [(nm, JAtom TNone false v)].

(* apply f at the path; with [cr = Some leaf] a missing object key is added (an object, or a list when the
   next part indexes a list, or [leaf] at the end of the path) and a missing [nm=v] element is appended *)
Fixpoint jupd (cr : option kind) (ps : list part) (f : json -> option json) (j : json) : option json :=
  match ps with
  | [] => f j
  | p :: ps' =>
      match jchild p j with
      | Some x => option_map (jplug p j) (jupd cr ps' f x)
      | None =>
          match cr, p, j with
          | Some leaf, PKey k, JObj kvs =>
              option_map (fun y => JObj (kvs ++ [(k, y)]))
                         (jupd cr ps' f (jempty (kind_before (hd_error ps') leaf)))
          | Some _, PSel nm v, JArr es =>
              option_map (fun y => JArr (es ++ [y])) (jupd cr ps' f (jsel_new nm v))
          | _, _, _ => None
          end
      end
  end.

(* store v at the path, creating what is missing *)
Definition jput (ps : list part) (v : json) (j : json) : option json :=
  jupd (Some KMap) ps (fun _ => Some v) j.

(* set one field of an object (the JSON face of FieldSetter with a non-null value) *)
Definition jset_field (name : string) (v : json) (j : json) : option json :=
  match j with
  | JObj kvs => match jfind name kvs with
                | Some _ => Some (JObj (jset name v kvs))
                | None => Some (JObj (kvs ++ [(name, v)]))
                end
  | _ => None
  end.

(* remove the first field of that name *)
Fixpoint jremove (k : string) (kvs : list (string * json)) : list (string * json) :=
  match kvs with
  | [] => []
  | (k', x) :: t => if String.eqb k' k then t else (k', x) :: jremove k t
  end.

(* clear one field of an object (FieldClearer) *)
Definition jclear_field (name : string) (j : json) : option json :=
  match j with JObj kvs => Some (JObj (jremove name kvs)) | _ => None end.

(* remove the field at path ++ [name]; nothing is created *)
Definition jclear (ps : list part) (name : string) (j : json) : option json :=
  jupd None ps (jclear_field name) j.

(* overwrite the atom at the path, creating what is missing (LookupCreate(ScalarNode) + FieldSetter{Value}) *)
Definition jput_scalar (ps : list part) (v : json) (j : json) : option json :=
  jupd (Some KScalar) ps (fun x => match x with JAtom _ _ _ => Some v | _ => None end) j.
