(* Small facts about the field-spec filter used by C02 (the large frame lemmas live in Yaml/FieldSpecProofs.v). *)
From KV Require Import Yaml.FieldSpec.

Lemma fs_apply_gvk_mismatch ck ct sv fs obj :
  is_match_gvk fs obj = false -> fs_apply ck ct sv fs obj = Ok obj.
Proof. intros H; unfold fs_apply; rewrite H; reflexivity. Qed.

(* a field-spec list none of whose entries matches the object's GVK leaves the object alone *)
Lemma fsslice_apply_no_match ck ct sv l obj :
  forallb (fun fs => negb (is_match_gvk fs obj)) l = true -> fsslice_apply ck ct sv l obj = Ok obj.
Proof.
  induction l as [|fs t IH]; cbn; intros H; [reflexivity|].
  apply andb_prop in H; destruct H as [H1 H2].
  rewrite fs_apply_gvk_mismatch by (destruct (is_match_gvk fs obj); [discriminate|reflexivity]).
  cbn. apply IH; exact H2.
Qed.

(* FieldSetter's YAML-1.1 guard: a new string-ish scalar that a YAML 1.1 parser would re-type is stored double-quoted;
   its text and tag are unchanged. [nonstr] is yaml.IsValueNonString (go-yaml v2), an oracle parameter. *)
Lemma set_field_quotes_new_nonstring nonstr name s kvs t :
  (t = TStr \/ t = TNone) -> nonstr s = true -> find_field name kvs = None ->
  set_field nonstr name (Some (Scalar t SPlain s)) false (Map kvs) = Ok (Map (kvs ++ [(name, Scalar t SDouble s)])).
Proof.
  intros Ht Hn Hf. unfold set_field. destruct Ht; subst; cbn; rewrite Hf; cbn; rewrite Hn; reflexivity.
Qed.

Lemma set_field_keeps_text nonstr name v kvs :
  is_null v = false -> find_field name kvs = None ->
  exists v', set_field nonstr name (Some v) false (Map kvs) = Ok (Map (kvs ++ [(name, v')])) /\
             node_value v' = node_value v.
Proof.
  intros Hn Hf. unfold set_field. rewrite Hn. cbn. rewrite Hf. eexists; split; [reflexivity|].
  destruct v as [t s x| |]; cbn; try reflexivity.
  destruct s; try reflexivity. destruct t; try reflexivity; destruct (nonstr x); reflexivity.
Qed.
