(* Small facts about the field-spec filter used by C02 (the large frame lemmas live in Yaml/FieldSpecProofs.v). *)
From KV Require Import Yaml.FieldSpec.

Lemma fs_apply_gvk_mismatch ck ct sv fs obj :
  is_match_gvk fs obj = false -> fs_apply ck ct sv fs obj = Ok obj.
Proof. intros H; unfold fs_apply; rewrite H; reflexivity. Qed.

(* a field-spec list none of whose entries matches the object's GVK leaves the object alone *)
Lemma fsslice_apply_no_match ck ct sv l obj :
  forallb (fun fs => negb (is_match_gvk fs obj)) l = true -> fsslice_apply ck ct sv l obj = Ok obj.
Proof.
  induction l as [|fs t IH]; cbn; intros H; [reflexivity|].
  apply andb_prop in H; destruct H as [H1 H2].
  rewrite fs_apply_gvk_mismatch by (destruct (is_match_gvk fs obj); [discriminate|reflexivity]).
  cbn. apply IH; exact H2.
Qed.
