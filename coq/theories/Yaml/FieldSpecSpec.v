(* Specification vocabulary for the field-spec traversal (definitions only; proofs in FieldSpecProofs.v):
   positions in a document, the reference interpretation [denotes] of a slash path, and the notion of a
   position leaving a field-spec path ([fs_diverges]) used by the frame lemma. *)
From KV Require Export Yaml.FieldSpec.

(* a position in a document: map keys (first match, as kyaml reads them) and list indices *)
Inductive step := JKey (k : string) | JIdx (i : nat).
Definition jpath := list step.

Fixpoint get_at (q : jpath) (n : node) : option node :=
  match q with
  | [] => Some n
  | JKey k :: q' =>
      match n with
      | Map kvs => match find_field k kvs with Some x => get_at q' x | None => None end
      | _ => None
      end
  | JIdx i :: q' =>
      match n with
      | Seq es => match nth_error es i with Some e => get_at q' e | None => None end
      | _ => None
      end
  end.

(* apply f to the node at a position (Err when the position does not exist) *)
Fixpoint upd_at (q : jpath) (f : node -> res node) (n : node) : res node :=
  match q with
  | [] => f n
  | JKey k :: q' =>
      match n with
      | Map kvs =>
          match find_field k kvs with
          | Some x => do x' <- upd_at q' f x; Ok (Map (set_first k x' kvs))
          | None => Err
          end
      | _ => Err
      end
  | JIdx i :: q' =>
      match n with
      | Seq es =>
          match nth_error es i with
          | Some e => do e' <- upd_at q' f e; Ok (Seq (replace_nth i e' es))
          | None => Err
          end
      | _ => Err
      end
  end.

(* ... to the nodes at a list of positions, in order *)
Fixpoint apply_at (f : node -> res node) (qs : list jpath) (n : node) : res node :=
  match qs with
  | [] => Ok n
  | q :: t => do n' <- upd_at q f n; apply_at f t n'
  end.

(* ---------- segments of a field-spec path ---------- *)
Definition seg_name (s : string) : string := fst (is_sequence_field s).
Definition seg_hint (s : string) : bool := snd (is_sequence_field s).

(* the segment names a map key as PathGetter reads it: not blank, no surrounding blanks, not a number,
   not "-", "*" or a bracketed selector *)
Definition seg_ok (s : string) : bool :=
  match parse_path [seg_name s] with
  | [PKey k] => String.eqb k (seg_name s)
  | _ => false
  end.

(* ... and carries no "[]" hint *)
Definition plain_seg (s : string) : bool := seg_ok s && negb (seg_hint s).

(* ---------- reference interpretation of a slash path ----------
   keys descend into mappings, sequences are transparent (fan-out, the path is kept), null stops the
   descent, a scalar where a container is expected is an error. Result: the positions denoted, in
   document order. *)
Fixpoint den_seq (g : node -> res (list jpath)) (i : nat) (l : list node) : res (list jpath) :=
  match l with
  | [] => Ok []
  | e :: t => do a <- g e; do b <- den_seq g (S i) t; Ok (map (cons (JIdx i)) a ++ b)%list
  end.

Fixpoint denotes (path : list string) {struct path} : node -> res (list jpath) :=
  match path with
  | [] => fun _ => Ok [[]]
  | p :: rest =>
      fix go (obj : node) {struct obj} : res (list jpath) :=
        if is_null obj then Ok [] else
        match obj with
        | Seq es =>
            (fix goes (i : nat) (l : list node) : res (list jpath) :=
               match l with
               | [] => Ok []
               | e :: t => do a <- go e; do b <- goes (S i) t; Ok (map (cons (JIdx i)) a ++ b)%list
               end) 0 es
        | Map kvs =>
            match find_field p kvs with
            | Some x => do a <- denotes rest x; Ok (map (cons (JKey p)) a)
            | None => Ok []
            end
        | Scalar _ _ _ => Err
        end
  end.

(* ---------- a position leaves the field-spec path at some key ----------
   index steps are transparent, as sequences are for the traversal; the position must part from the path
   before either of them ends (a prefix of the path contains the touched nodes, an extension lies below one) *)
Fixpoint fs_diverges (path : list string) (q : jpath) : bool :=
  match q with
  | [] => false
  | JIdx _ :: q' => fs_diverges path q'
  | JKey k :: q' =>
      match path with
      | [] => false
      | s :: rest => if String.eqb k (seg_name s) then fs_diverges rest q' else true
      end
  end.
