(* C15, whole-document form of merge3(o, o, u) = u on the fragment without associative lists:
   when local is still the original, the merge gives exactly updated -- provided updated and original agree
   in the places where the implementation is known to deviate (the guards of [agrees], each the complement of a
   recorded finding class or of a documented ordering rule). *)
From KV Require Import Yaml.Walk Yaml.WalkProofs Yaml.WalkFields Yaml.WalkShape Yaml.SortUniq
     Yaml.Merge2 Yaml.Merge2Frame Yaml.Merge2Idem Yaml.Merge3 Yaml.Merge3Proofs Yaml.Merge3Whole.
Local Open Scope string_scope.
Local Open Scope list_scope.

(* ---------- structural equality decides equality ---------- *)
Lemma tag_eqb_eq a b : tag_eqb a b = true -> a = b.
Proof. destruct a, b; cbn; congruence. Qed.
Lemma style_eqb_eq a b : style_eqb a b = true -> a = b.
Proof. destruct a, b; cbn; congruence. Qed.

Lemma node_eqb_true a : forall b, node_eqb a b = true -> a = b.
Proof.
  induction a as [t s v|kvs IH|es IH] using node_ind'; intros b H; destruct b as [t' s' v'|kvs'|es']; try discriminate.
  - cbn in H. apply Bool.andb_true_iff in H. destruct H as [H H3]. apply Bool.andb_true_iff in H. destruct H as [H1 H2].
    apply tag_eqb_eq in H1. apply style_eqb_eq in H2. apply String.eqb_eq in H3. subst. reflexivity.
  - f_equal. cbn in H. revert kvs' H. induction IH as [|[k x] l Hx Hl IHl]; intros [|[k' x'] l'] H; try discriminate; auto.
    apply Bool.andb_true_iff in H. destruct H as [H H3]. apply Bool.andb_true_iff in H. destruct H as [H1 H2].
    apply String.eqb_eq in H1. cbn in Hx. apply Hx in H2. subst. f_equal. apply IHl; auto.
  - f_equal. cbn in H. revert es' H. induction IH as [|x l Hx Hl IHl]; intros [|x' l'] H; try discriminate; auto.
    apply Bool.andb_true_iff in H. destruct H as [H1 H2]. apply Hx in H1. subst. f_equal. apply IHl; auto.
Qed.

(* ---------- the guards ---------- *)
Definition strs_eqb (a b : list string) : bool := if list_eq_dec string_dec a b then true else false.

(* the key order the walk produces: the destination's keys that survive, in its order, then the new keys sorted *)
Definition merged_order (ok : list (string * node)) (names : list string) (uk : list (string * node)) : list string :=
  filter (fun k => str_in k (keys uk)) (keys ok) ++ filter (fun k => negb (str_in k (keys ok))) names.

(* [agrees o u]: updated [u] against original (= local) [o] at the same place.
   - a mapping of updated sits on a mapping or on nothing (else: kind error / explicit-null class);
     its keys are in the order the walk produces ([merged_order]; FieldSetter appends new keys, walked in sorted order);
     a field it no longer has was not a mapping in original (else: class container-missing-on-one-side);
   - a scalar of updated sits on nothing or on a non-null scalar with the same quoting style
     (else: class scalar-keeps-local-quoting, or explicit-null) and, when the text is the same, the same tag
     (else: class scalar-type-only-change-ignored);
   - a list of updated sits on nothing or on a list. *)
Fixpoint agrees (o : option node) (u : node) {struct u} : bool :=
  match u with
  | Map uk =>
      let level (ok : list (string * node)) (names : list string) :=
          strs_eqb (keys uk) (merged_order ok names uk) &&
          forallb (fun kv => str_in (fst kv) (keys uk) || negb (is_map (snd kv))) ok &&
          (fix go (es : list (string * node)) : bool :=
             match es with
             | [] => true
             | kv :: t => agrees (find_field (fst kv) ok) (snd kv) && go t
             end) uk in
      match o with
      | Some (Map ok) => level ok (field_names [Some (Map ok); Some (Map ok); Some (Map uk)])
      | None => level [] (field_names [Some (Map []); None; Some (Map uk)])
      | Some _ => false
      end
  | Scalar tu su au =>
      match o with
      | None => true
      | Some (Scalar tx sx ax) =>
          negb (is_null (Scalar tx sx ax)) && style_eqb sx su && (negb (String.eqb au ax) || tag_eqb tx tu)
      | Some _ => false
      end
  | Seq _ => match o with None | Some (Seq _) => true | Some _ => false end
  end.

Definition level_ok (uk ok : list (string * node)) (names : list string) : Prop :=
  keys uk = merged_order ok names uk /\
  (forall k v, find_field k ok = Some v -> find_field k uk = None -> is_map v = false) /\
  (forall k v, find_field k uk = Some v -> agrees (find_field k ok) v = true).

Lemma agrees_level uk ok names :
  strs_eqb (keys uk) (merged_order ok names uk) &&
  forallb (fun kv => str_in (fst kv) (keys uk) || negb (is_map (snd kv))) ok &&
  (fix go (es : list (string * node)) : bool :=
     match es with
     | [] => true
     | kv :: t => agrees (find_field (fst kv) ok) (snd kv) && go t
     end) uk = true ->
  level_ok uk ok names.
Proof.
  intros H. apply Bool.andb_true_iff in H. destruct H as [H H3]. apply Bool.andb_true_iff in H. destruct H as [H1 H2].
  split; [|split].
  - unfold strs_eqb in H1. destruct (list_eq_dec string_dec _ _); [auto|discriminate].
  - intros k v F Fu. apply find_field_In in F. rewrite forallb_forall in H2. specialize (H2 _ F). cbn [fst snd] in H2.
    rewrite find_in_keys, Fu in H2. cbn [orb] in H2. apply Bool.negb_true_iff in H2. exact H2.
  - intros k v F. apply find_field_In in F. clear H1 H2.
    induction uk as [|[k0 v0] t IH]; [contradiction|].
    apply Bool.andb_true_iff in H3. destruct H3 as [Ha Hb].
    destruct F as [F|F]; [inv F; exact Ha|auto].
Qed.

(* ---------- rebuilding a mapping from its keys ---------- *)
Definition entries (uk : list (string * node)) (ks : list string) : list (string * node) :=
  flat_map (fun k => opt_entry k (find_field k uk)) ks.

Lemma entries_app uk a b : entries uk (a ++ b) = entries uk a ++ entries uk b.
Proof. unfold entries. apply flat_map_app. Qed.

Lemma entries_self uk : nodupk uk -> entries uk (keys uk) = uk.
Proof.
  unfold nodupk, entries. induction uk as [|[k v] t IH]; cbn; auto. intros H. inversion H as [|? ? Hn Hd]; subst.
  rewrite String.eqb_refl. cbn [opt_entry app]. f_equal.
  rewrite <- (IH Hd) at 2. apply flat_map_ext_in. intros k' Hk'.
  destruct (String.eqb k k') eqn:E; auto. apply String.eqb_eq in E. subst. contradiction.
Qed.

Lemma entries_filter uk l : entries uk (filter (fun k => str_in k (keys uk)) l) = entries uk l.
Proof.
  unfold entries. induction l as [|k t IH]; cbn; auto.
  destruct (str_in k (keys uk)) eqn:E; cbn; rewrite IH; auto.
  rewrite find_in_keys in E. destruct (find_field k uk); [discriminate|reflexivity].
Qed.

Lemma find_field_nodup_in k v (kvs : list (string * node)) : nodupk kvs -> In (k, v) kvs -> find_field k kvs = Some v.
Proof.
  unfold nodupk. induction kvs as [|[k0 v0] t IH]; cbn; [contradiction|]. intros H Hi. inversion H as [|? ? Hn Hd]; subst.
  destruct Hi as [E|Hi].
  - inv E. rewrite String.eqb_refl. reflexivity.
  - destruct (String.eqb k0 k) eqn:E; auto. apply String.eqb_eq in E. subst.
    exfalso. apply Hn. unfold keys. apply in_map_iff. exists (k, v). auto.
Qed.

(* the exact shape of the walk result is updated's mapping *)
Lemma shape_is_updated nonstr names (R : string -> option wres) ok uk :
  nodupk ok -> nodupk uk ->
  (forall k, In k (keys ok) -> In k names) ->
  (forall k, In k names -> fval nonstr (R k) (find_field k ok) = find_field k uk) ->
  keys uk = merged_order ok names uk ->
  shape nonstr names R ok = uk.
Proof.
  intros Hno Hnu Hsub HA Hord. unfold shape.
  assert (Hu : upd_part nonstr names R ok = entries uk (keys ok)).
  { unfold upd_part, entries, keys. rewrite (flat_map_ext_in _ (fun kv => opt_entry (fst kv) (find_field (fst kv) uk))).
    - clear. induction ok as [|kv t IH]; cbn; auto. rewrite IH. reflexivity.
    - intros [k v] Hi. cbn [fst snd].
      assert (Hk : In k names) by (apply Hsub; apply (in_keys (k, v)); auto).
      apply str_in_iff in Hk. rewrite Hk.
      rewrite <- (find_field_nodup_in k v ok Hno Hi). rewrite HA by (apply str_in_iff; auto). reflexivity. }
  assert (Hn : new_part nonstr names R ok = entries uk (filter (fun k => negb (str_in k (keys ok))) names)).
  { unfold new_part, entries.
    assert (G : forall l, (forall k, In k l -> In k names) ->
                flat_map (fun k => if str_in k (keys ok) then [] else opt_entry k (fval nonstr (R k) None)) l =
                flat_map (fun k => opt_entry k (find_field k uk)) (filter (fun k => negb (str_in k (keys ok))) l)).
    { induction l as [|k t IH]; intros Hl; cbn; auto.
      rewrite IH by (intros; apply Hl; right; auto).
      destruct (str_in k (keys ok)) eqn:E; cbn; auto.
      rewrite find_in_keys in E. specialize (HA k (Hl k (or_introl eq_refl))).
      destruct (find_field k ok); [discriminate|]. rewrite HA. reflexivity. }
    apply G; auto. }
  rewrite Hu, Hn, <- (entries_filter uk (keys ok)), <- entries_app.
  fold (merged_order ok names uk). rewrite <- Hord. apply entries_self; auto.
Qed.

Section WholeUpd.
  Context {Sc : Type}.
  Variable sch : schema Sc.
  Variable opts : wopts.
  Variable nonstr : string -> bool.
  Hypothesis Hatomic : atomic_lists sch opts.

  Notation W3 := (walk sch opts nonstr merger3).

  (* a non-mapping value that updated no longer has is cleared *)
  Lemma removed3 f sc x r :
    is_map x = false ->
    W3 f sc None [Some x; Some x; None] = Ok r -> fval nonstr r (Some x) = None.
  Proof.
    intros Hx H. destruct f as [|f]; [discriminate|]. cbn [walk] in H.
    destruct x as [t s v| |es]; try discriminate.
    - destruct (is_null (Scalar t s v)) eqn:En.
      + destruct t; try discriminate. cbn in H. unfold walk_map in H. cbn in H. inv H. reflexivity.
      + assert (Hk : first_kind [Some (Scalar t s v); Some (Scalar t s v); None] = Some KScalar).
        { cbn. cbn in En. rewrite En. reflexivity. }
        rewrite Hk in H. destruct (all_valid KScalar _); [|discriminate].
        cbn [v_scalar merger3] in H. unfold m3_visit_scalar in H. cbn [dest_of origin_of updated_of] in H.
        unfold tagged_null in H. rewrite En in H. cbn [orb] in H.
        unfold o_null in H. rewrite En in H. cbn in H. inv H. reflexivity.
    - cbn [first_kind o_null is_null kind_of] in H.
      destruct (all_valid KSeq _); [|discriminate].
      rewrite (not_assoc sch opts Hatomic) in H.
      cbn [v_list merger3] in H. unfold m3_visit_list in H. cbn [dest_of origin_of updated_of] in H.
      cbn in H. inv H. reflexivity.
  Qed.

  Lemma agrees_tagged o u : is_map u = false -> agrees o u = true -> tagged_null o = false.
  Proof.
    destruct o as [x|]; auto. destruct u as [tu su au| |es]; try discriminate; intros _ H.
    - destruct x as [tx sx ax| |]; try discriminate. cbn [agrees] in H.
      apply Bool.andb_true_iff in H. destruct H as [H _]. apply Bool.andb_true_iff in H. destruct H as [H _].
      apply Bool.negb_true_iff in H. exact H.
    - destruct x; try discriminate. reflexivity.
  Qed.

  Lemma expected3_agrees o u :
    is_map u = false -> clean3 nonstr u = true -> agrees o u = true -> expected3 nonstr o u = u.
  Proof.
    intros Hm Hc Ha. destruct (clean3_quote _ _ Hc) as [Hq _].
    destruct o as [x|]; [|exact Hq]. cbn [expected3].
    destruct u as [tu su au| |es]; try discriminate.
    - destruct x as [tx sx ax| |]; try discriminate. cbn [agrees] in Ha.
      apply Bool.andb_true_iff in Ha. destruct Ha as [Ha H3]. apply Bool.andb_true_iff in Ha. destruct Ha as [_ H2].
      apply style_eqb_eq in H2. subst sx. cbn [same3].
      destruct (String.eqb au ax) eqn:E.
      + cbn in H3. apply tag_eqb_eq in H3. apply String.eqb_eq in E. subst. exact Hq.
      + reflexivity.
    - destruct x as [| |xs]; try discriminate. cbn [same3].
      destruct (node_eqb (Seq es) (Seq xs)) eqn:E; [|reflexivity].
      apply node_eqb_true in E. inv E. reflexivity.
  Qed.

  Lemma in_names3 k a b c :
    In k (field_names [a; b; c]) ->
    field_of k a <> None \/ field_of k b <> None \/ field_of k c <> None.
  Proof.
    intros H. apply in_field_names in H. destruct H as [kvs [Hs Hk]].
    assert (F : find_field k kvs <> None).
    { intros F. apply find_field_none_iff in F. contradiction. }
    destruct Hs as [E|[E|[E|[]]]]; subst; cbn [field_of]; auto.
  Qed.

  Lemma upd_walk f : forall sc ov u r,
      W3 f sc None [ov; ov; Some u] = Ok r ->
      ofrag wfk ov = true -> wfk u = true -> clean3 nonstr u = true -> agrees ov u = true ->
      fval nonstr r ov = Some u.
  Proof.
    induction f as [|f IH]; intros sc ov u r H Hwo Hwu Hc Ha; [discriminate|].
    destruct (clean3_quote _ _ Hc) as [Hq Hn].
    destruct u as [tu su au| uk |es].
    - rewrite (leaf3u sch opts nonstr Hatomic (S f) sc ov (Scalar tu su au) r eq_refl Hn (agrees_tagged _ (Scalar tu su au) eq_refl Ha) H).
      rewrite expected3_agrees; auto.
    - destruct (wfk_map _ Hwu) as [Hnu Hsubu].
      destruct ov as [[| ok |]|]; try discriminate.
      + (* original has a mapping here *)
        cbn [agrees] in Ha. apply agrees_level in Ha. destruct Ha as [Hord [Hrem Hgo]].
        cbn [ofrag] in Hwo. destruct (wfk_map _ Hwo) as [Hno Hsubo].
        destruct (map_level3_dest sch opts nonstr f sc ok (Some (Map ok)) (Some (Map uk)) r eq_refl H) as [d [-> Hwf]].
        destruct (walk_fields_shape_inv sch nonstr _ _ _ _ _ (nodup_sort_uniq _) _ _ Hno Hwf) as [R [HR ->]].
        cbn [fval w_node w_keep w_inplace is_null andb quote11]. f_equal. f_equal.
        apply shape_is_updated; auto.
        * intros k Hk. apply in_field_names. exists ok. split; [left; reflexivity|auto].
        * intros k Hk. specialize (HR k Hk).
          unfold fvs, set_nth in HR. cbn [map replace_nth field_of] in HR.
          destruct (find_field k uk) as [uv|] eqn:Fu.
          -- apply (IH _ _ _ _ HR); [apply ofrag_field; auto|eapply Hsubu; eauto|eapply clean3_map; eauto|auto].
          -- destruct (find_field k ok) as [xv|] eqn:Fo.
             ++ eapply removed3; [|exact HR]. eapply Hrem; eauto.
             ++ exfalso. apply in_names3 in Hk. cbn [field_of] in Hk. rewrite Fo, Fu in Hk. intuition.
      + (* nothing in original: a new mapping is made and filled *)
        cbn [agrees] in Ha. apply agrees_level in Ha. destruct Ha as [Hord [_ Hgo]].
        destruct (map_level3_new sch opts nonstr f sc uk r H) as [d [-> Hwf]].
        assert (Hno : nodupk []) by constructor.
        destruct (walk_fields_shape_inv sch nonstr _ _ _ _ _ (nodup_sort_uniq _) _ _ Hno Hwf) as [R [HR ->]].
        cbn [fval w_node w_keep w_inplace is_null andb quote11]. f_equal. f_equal.
        apply shape_is_updated; auto.
        * intros k [].
        * intros k Hk. specialize (HR k Hk).
          unfold fvs, set_nth in HR. cbn [map replace_nth field_of find_field] in HR. cbn [find_field].
          destruct (find_field k uk) as [uv|] eqn:Fu.
          -- apply (IH _ _ _ _ HR); [reflexivity|eapply Hsubu; eauto|eapply clean3_map; eauto|].
             specialize (Hgo k uv Fu). cbn [find_field] in Hgo. exact Hgo.
          -- exfalso. apply in_names3 in Hk. cbn [field_of find_field] in Hk. rewrite Fu in Hk. intuition.
    - rewrite (leaf3u sch opts nonstr Hatomic (S f) sc ov (Seq es) r eq_refl eq_refl (agrees_tagged _ (Seq es) eq_refl Ha) H).
      rewrite expected3_agrees; auto.
  Qed.

  Theorem merge3_updated_whole o u r :
    is_map o && is_map u && wfk o && wfk u && clean3 nonstr u && agrees (Some o) u = true ->
    merge3 sch opts nonstr (Some o) (Some o) (Some u) = Ok r ->
    r = Some u.
  Proof.
    intros Hf H. repeat rewrite Bool.andb_true_iff in Hf. destruct Hf as [[[[[Hmo Hmu] Hwo] Hwu] Hc] Ha].
    destruct o as [| ok |]; try discriminate. destruct u as [| uk |]; try discriminate.
    unfold merge3, walk_top in H.
    destruct (walk sch opts nonstr merger3 (fuel_of [Some (Map ok); Some (Map ok); Some (Map uk)]) None None
                [Some (Map ok); Some (Map ok); Some (Map uk)]) as [ro| | |] eqn:E; cbn in H; try discriminate.
    inv H. pose proof (upd_walk _ _ _ _ _ E Hwo Hwu Hc Ha) as Hfx.
    unfold fuel_of in E.
    destruct (map_level3_dest sch opts nonstr _ _ ok (Some (Map ok)) (Some (Map uk)) ro eq_refl E) as [d' [-> _]].
    cbn in Hfx |- *. destruct d' as [t s v| |]; cbn in Hfx.
    - destruct t; cbn in Hfx; try discriminate; destruct s; try discriminate; try (destruct (nonstr v); discriminate).
    - inv Hfx. reflexivity.
    - inv Hfx.
  Qed.
End WholeUpd.

(* non-vacuity: upstream changes a scalar, removes a scalar and a list, adds a scalar and a nested mapping (keys
   sorted), edits inside a shared mapping and adds a key there *)
Definition uw_o : node :=
  Map [("b", Scalar TInt SPlain "1"); ("a", Scalar TStr SDouble "x"); ("gone", Scalar TStr SPlain "g");
       ("m", Map [("y", Scalar TBool SPlain "true"); ("x", Scalar TInt SPlain "1")]);
       ("l", Seq [Scalar TStr SPlain "p"]); ("l2", Seq [])].
Definition uw_u : node :=
  Map [("b", Scalar TInt SPlain "2"); ("a", Scalar TStr SDouble "no");
       ("m", Map [("y", Scalar TBool SPlain "true"); ("x", Scalar TInt SPlain "5"); ("w", Scalar TStr SPlain "new")]);
       ("l", Seq [Scalar TStr SPlain "q"; Scalar TStr SPlain "r"]);
       ("n", Map [("k1", Scalar TInt SPlain "1"); ("k2", Map [("z", Scalar TStr SPlain "deep")])]);
       ("z", Scalar TFloat SPlain "0.5")].
Example updated_whole_example :
  is_map uw_o && is_map uw_u && wfk uw_o && wfk uw_u && clean3 (fun s => String.eqb s "no") uw_u &&
  agrees (Some uw_o) uw_u = true /\
  node_eqb uw_o uw_u = false /\
  merge3 schemaless kustomize_opts (fun s => String.eqb s "no") (Some uw_o) (Some uw_o) (Some uw_u) = Ok (Some uw_u).
Proof. split; [|split]; vm_compute; reflexivity. Qed.
