(* Proofs about KV.Yaml.Split (kept out of the model file). *)
From KV Require Import Yaml.Split Fs.PathProofs.
From Coq Require Import ZifyNat.
Local Open Scope list_scope.

Ltac inv H := inversion H; subst; clear H.

(* ---------- strings ---------- *)

Lemma str_rev_app a b : str_rev (a ++ b)%string = (str_rev b ++ str_rev a)%string.
Proof.
  induction a as [|c a IH]; cbn [append].
  - rewrite app_empty_r. reflexivity.
  - rewrite !str_rev_cons, IH, app_assoc_s. reflexivity.
Qed.

Lemma push_rev_spec t acc : str_rev (push_rev t acc) = (str_rev acc ++ t)%string.
Proof.
  unfold push_rev. rewrite str_rev_acc_app, str_rev_app, str_rev_involutive. reflexivity.
Qed.

Lemma dashes_snoc k : dashes (S k) = (dashes k ++ String dash "")%string.
Proof. induction k; cbn in *; congruence. Qed.

Lemma pending_snoc k : pending (S k) = (pending k ++ String dash "")%string.
Proof. unfold pending. rewrite dashes_snoc. reflexivity. Qed.

Lemma app_cons_r (a : string) c s : (a ++ String c s)%string = ((a ++ String c "") ++ s)%string.
Proof. rewrite app_assoc_s. reflexivity. Qed.

Lemma flush_consumed acc m : flush acc m = consumed acc m.
Proof.
  destruct m as [|k|l]; unfold flush, consumed.
  - rewrite app_empty_r. reflexivity.
  - rewrite push_rev_spec. reflexivity.
  - rewrite push_rev_spec, app_assoc_s. reflexivity.
Qed.

(* ---------- finished (document, separator) pairs ---------- *)

Fixpoint done_text (docs_rev seps_rev : list string) : string :=
  match docs_rev, seps_rev with
  | d :: dr, sp :: sr => (done_text dr sr ++ d ++ sp)%string
  | _, _ => EmptyString
  end.

Lemma interleave_rev dr : forall sr tds tsp,
  List.length dr = List.length sr ->
  interleave (rev dr ++ tds) (rev sr ++ tsp) = (done_text dr sr ++ interleave tds tsp)%string.
Proof.
  induction dr as [|d dr IH]; intros [|sp sr] tds tsp L; try discriminate; [reflexivity|].
  cbn [rev done_text]. rewrite <- !app_assoc. cbn [app].
  rewrite IH by (cbn in L; lia). cbn [interleave]. rewrite !app_assoc_s. reflexivity.
Qed.

Lemma interleave_last dr sr last :
  List.length dr = List.length sr ->
  interleave (rev dr ++ [last]) (rev sr) = (done_text dr sr ++ last)%string.
Proof.
  intros L. rewrite <- (app_nil_r (rev sr)). rewrite interleave_rev by auto. reflexivity.
Qed.

(* ---------- the scanner loses nothing ---------- *)

Lemma consumed_step_eq acc m c acc' m' :
  consumed acc' m' = (consumed acc m ++ String c "")%string ->
  forall pre s', (pre ++ consumed acc' m' ++ s')%string = (pre ++ consumed acc m ++ String c s')%string.
Proof. intros E pre s'. rewrite E, !app_assoc_s. reflexivity. Qed.

Ltac use_ih IH H :=
  apply IH in H; [ | solve [cbn; auto; lia] | solve [cbn; auto; lia] ].

Lemma split_go_text s : forall acc m dr sr ds sp,
  mode_ok m -> List.length dr = List.length sr ->
  split_go s acc m dr sr = Ok (ds, sp) ->
  interleave ds sp = (done_text dr sr ++ consumed acc m ++ s)%string.
Proof.
  induction s as [|c s IH]; intros acc m dr sr ds sp Hm L H.
  - cbn [split_go] in H. injection H as E1 E2. rewrite <- E1, <- E2.
    rewrite interleave_last by auto. rewrite app_empty_r, flush_consumed. reflexivity.
  - cbn [split_go] in H. destruct m as [|k|l].
    + destruct (Ascii.eqb c nl) eqn:E.
      * apply Ascii.eqb_eq in E; subst c. use_ih IH H.
        rewrite H. apply consumed_step_eq. unfold consumed. cbn. rewrite app_empty_r. reflexivity.
      * use_ih IH H. rewrite H. apply consumed_step_eq.
        unfold consumed. rewrite str_rev_cons, !app_empty_r. reflexivity.
    + cbn in Hm. destruct (Ascii.eqb c dash) eqn:Ed.
      * apply Ascii.eqb_eq in Ed; subst c.
        destruct k as [|[|k']].
        -- use_ih IH H. rewrite H. apply consumed_step_eq.
           unfold consumed. rewrite pending_snoc, app_assoc_s. reflexivity.
        -- use_ih IH H. rewrite H. apply consumed_step_eq.
           unfold consumed. rewrite pending_snoc, app_assoc_s. reflexivity.
        -- assert (k' = 0) by lia. subst k'.
           use_ih IH H. rewrite H. apply consumed_step_eq.
           unfold consumed. cbn [str_rev str_rev_acc]. rewrite app_empty_r.
           rewrite pending_snoc, app_assoc_s. reflexivity.
      * destruct (Ascii.eqb c nl) eqn:E.
        -- apply Ascii.eqb_eq in E; subst c. use_ih IH H.
           rewrite H. apply consumed_step_eq. unfold consumed. rewrite push_rev_spec.
           cbn [pending dashes]. rewrite !app_assoc_s. reflexivity.
        -- use_ih IH H. rewrite H. apply consumed_step_eq.
           unfold consumed. rewrite str_rev_cons, push_rev_spec, !app_empty_r, !app_assoc_s. reflexivity.
    + destruct (Ascii.eqb c nl) eqn:E.
      * apply Ascii.eqb_eq in E; subst c.
        destruct (sep_line_ok (str_rev l)); [|discriminate].
        use_ih IH H. rewrite H.
        cbn [done_text]. unfold consumed at 1. cbn [str_rev str_rev_acc append].
        unfold consumed, sep_text. cbn [pending dashes append]. rewrite !app_assoc_s. cbn [append].
        rewrite !app_assoc_s. reflexivity.
      * use_ih IH H. rewrite H. apply consumed_step_eq.
        unfold consumed. rewrite str_rev_cons, !app_assoc_s. reflexivity.
Qed.

(* splitDocuments cuts the input into documents and separators, in order, losing nothing *)
Theorem split_join s ds seps :
  split_documents_full s = Ok (ds, seps) -> interleave ds seps = s.
Proof.
  destruct s as [|c s']; cbn [split_documents_full]; intros H.
  - inv H. reflexivity.
  - apply split_go_text in H; cbn; auto.
Qed.


(* ---------- separators: shape and number ---------- *)

Definition is_separator (sp : string) : Prop :=
  exists line, sp = sep_text line /\ sep_line_ok line = true.

Lemma split_go_seps s : forall acc m dr sr ds sp,
  List.length dr = List.length sr -> Forall is_separator sr ->
  split_go s acc m dr sr = Ok (ds, sp) ->
  List.length ds = S (List.length sp) /\ Forall is_separator sp.
Proof.
  induction s as [|c s IH]; intros acc m dr sr ds sp L F H.
  - cbn [split_go] in H. injection H as E1 E2. subst. split.
    + rewrite app_length, !rev_length. cbn. lia.
    + apply Forall_rev; auto.
  - cbn [split_go] in H. destruct m as [|k|l].
    + destruct (Ascii.eqb c nl); eapply IH; eauto.
    + destruct (Ascii.eqb c dash); [destruct k as [|[|k']]; eapply IH; eauto|].
      destruct (Ascii.eqb c nl); eapply IH; eauto.
    + destruct (Ascii.eqb c nl).
      * destruct (sep_line_ok (str_rev l)) eqn:Ok1; [|discriminate].
        eapply IH in H; eauto; [cbn; lia|].
        constructor; auto. exists (str_rev l). auto.
      * eapply IH; eauto.
Qed.

(* n+1 documents around n separators, every separator being "\n---", a blank-or-comment rest of line, "\n" *)
Theorem split_shape s ds seps :
  split_documents_full s = Ok (ds, seps) -> s <> "" ->
  List.length ds = S (List.length seps) /\ Forall is_separator seps.
Proof.
  destruct s as [|c s']; [congruence|]. cbn [split_documents_full]. intros H _.
  eapply split_go_seps in H; eauto.
Qed.

(* ---------- documents contain no separator ---------- *)

Lemma mode_after_app a : forall b m,
  mode_after (a ++ b)%string m =
  match mode_after a m with Some m' => mode_after b m' | None => None end.
Proof.
  induction a as [|c a IH]; intros b m; [reflexivity|].
  cbn [append mode_after]. destruct m as [|k|l].
  - destruct (Ascii.eqb c nl); apply IH.
  - destruct (Ascii.eqb c dash); [destruct k as [|[|k']]; apply IH|].
    destruct (Ascii.eqb c nl); apply IH.
  - destruct (Ascii.eqb c nl); [reflexivity|apply IH].
Qed.

(* a text in which no candidate completes goes, whole, to the current document *)
Lemma quiet_step acc m c acc' m' s :
  consumed acc' m' = (consumed acc m ++ String c "")%string ->
  (consumed acc' m' ++ s)%string = (consumed acc m ++ String c s)%string.
Proof. intros E. rewrite E, app_assoc_s. reflexivity. Qed.

Lemma split_go_quiet s : forall acc m dr sr m',
  mode_ok m -> mode_after s m = Some m' ->
  split_go s acc m dr sr = Ok (rev ((consumed acc m ++ s)%string :: dr), rev sr).
Proof.
  induction s as [|c s IH]; intros acc m dr sr m' Hm H.
  - cbn [split_go]. rewrite flush_consumed, app_empty_r. reflexivity.
  - cbn [split_go mode_after] in *. destruct m as [|k|l].
    + destruct (Ascii.eqb c nl) eqn:E.
      * apply Ascii.eqb_eq in E; subst c. erewrite IH; try eassumption; try solve [cbn; auto; lia].
        do 4 f_equal. apply quiet_step.
        unfold consumed. cbn. rewrite app_empty_r. reflexivity.
      * erewrite IH; try eassumption; try solve [cbn; auto; lia]. do 4 f_equal. apply quiet_step.
        unfold consumed. rewrite str_rev_cons, !app_empty_r. reflexivity.
    + cbn in Hm. destruct (Ascii.eqb c dash) eqn:Ed.
      * apply Ascii.eqb_eq in Ed; subst c.
        destruct k as [|[|k']].
        -- erewrite IH; try eassumption; try solve [cbn; auto; lia]. do 4 f_equal. apply quiet_step.
           unfold consumed. rewrite pending_snoc, app_assoc_s. reflexivity.
        -- erewrite IH; try eassumption; try solve [cbn; auto; lia]. do 4 f_equal. apply quiet_step.
           unfold consumed. rewrite pending_snoc, app_assoc_s. reflexivity.
        -- assert (k' = 0) by lia. subst k'.
           erewrite IH; try eassumption; try solve [cbn; auto; lia]. do 4 f_equal. apply quiet_step.
           unfold consumed. cbn [str_rev str_rev_acc]. rewrite app_empty_r.
           rewrite pending_snoc, app_assoc_s. reflexivity.
      * destruct (Ascii.eqb c nl) eqn:E.
        -- apply Ascii.eqb_eq in E; subst c. erewrite IH; try eassumption; try solve [cbn; auto; lia].
           do 4 f_equal. apply quiet_step.
           unfold consumed. rewrite push_rev_spec. cbn [pending dashes]. rewrite !app_assoc_s. reflexivity.
        -- erewrite IH; try eassumption; try solve [cbn; auto; lia]. do 4 f_equal. apply quiet_step.
           unfold consumed. rewrite str_rev_cons, push_rev_spec, !app_empty_r, !app_assoc_s. reflexivity.
    + destruct (Ascii.eqb c nl) eqn:E; [discriminate|].
      erewrite IH; try eassumption; try solve [cbn; auto; lia]. do 4 f_equal. apply quiet_step.
      unfold consumed. rewrite str_rev_cons, !app_assoc_s. reflexivity.
Qed.

Definition quiet (d : string) : Prop := exists m, mode_after d MDoc = Some m.

Lemma quiet_split d : quiet d -> d <> "" -> split_documents d = Ok [d].
Proof.
  intros [m H] Hne. unfold split_documents, split_documents_full.
  destruct d as [|c d']; [congruence|].
  erewrite split_go_quiet; eauto; cbn; auto.
Qed.

Lemma quiet_prefix a b : quiet (a ++ b)%string -> quiet a.
Proof.
  intros [m H]. rewrite mode_after_app in H. unfold quiet.
  destruct (mode_after a MDoc); [eauto|discriminate].
Qed.

Lemma mode_after_snoc t m0 m c m' :
  mode_after t m0 = Some m -> mode_after (String c "") m = Some m' ->
  mode_after (t ++ String c "")%string m0 = Some m'.
Proof. intros H1 H2. rewrite mode_after_app, H1. exact H2. Qed.

Ltac go_on IH H F := eapply IH; [ | | exact F | exact H ]; [ solve [cbn; auto; lia] | ].

Lemma split_go_docs_quiet s : forall acc m dr sr ds sp,
  mode_ok m -> mode_after (consumed acc m) MDoc = Some m -> Forall quiet dr ->
  split_go s acc m dr sr = Ok (ds, sp) -> Forall quiet ds.
Proof.
  induction s as [|c s IH]; intros acc m dr sr ds sp Hm J F H.
  - cbn [split_go] in H. injection H as E1 E2. subst. apply Forall_app. split; [apply Forall_rev; auto|].
    constructor; auto. rewrite flush_consumed. exists m. auto.
  - cbn [split_go] in H. destruct m as [|k|l].
    + destruct (Ascii.eqb c nl) eqn:E.
      * apply Ascii.eqb_eq in E; subst c. go_on IH H F.
        replace (consumed acc (MNl 0)) with (consumed acc MDoc ++ String nl "")%string
          by (unfold consumed; cbn; rewrite app_empty_r; reflexivity).
        eapply mode_after_snoc; eauto.
      * go_on IH H F.
        replace (consumed (String c acc) MDoc) with (consumed acc MDoc ++ String c "")%string
          by (unfold consumed; rewrite str_rev_cons, !app_empty_r; reflexivity).
        eapply mode_after_snoc; eauto. cbn [mode_after]. rewrite E. reflexivity.
    + cbn in Hm. destruct (Ascii.eqb c dash) eqn:Ed.
      * apply Ascii.eqb_eq in Ed; subst c.
        destruct k as [|[|k']].
        -- go_on IH H F.
           replace (consumed acc (MNl 1)) with (consumed acc (MNl 0) ++ String dash "")%string
             by (unfold consumed; rewrite pending_snoc, app_assoc_s; reflexivity).
           eapply mode_after_snoc; eauto.
        -- go_on IH H F.
           replace (consumed acc (MNl 2)) with (consumed acc (MNl 1) ++ String dash "")%string
             by (unfold consumed; rewrite pending_snoc, app_assoc_s; reflexivity).
           eapply mode_after_snoc; eauto.
        -- assert (k' = 0) by lia. subst k'. go_on IH H F.
           replace (consumed acc (MSep "")) with (consumed acc (MNl 2) ++ String dash "")%string
             by (unfold consumed; cbn [str_rev str_rev_acc]; rewrite app_empty_r, pending_snoc, app_assoc_s; reflexivity).
           eapply mode_after_snoc; eauto.
      * destruct (Ascii.eqb c nl) eqn:E.
        -- apply Ascii.eqb_eq in E; subst c. go_on IH H F.
           replace (consumed (push_rev (pending k) acc) (MNl 0)) with (consumed acc (MNl k) ++ String nl "")%string
             by (unfold consumed; rewrite push_rev_spec; cbn [pending dashes]; rewrite !app_assoc_s; reflexivity).
           eapply mode_after_snoc; eauto.
        -- go_on IH H F.
           replace (consumed (String c (push_rev (pending k) acc)) MDoc) with (consumed acc (MNl k) ++ String c "")%string
             by (unfold consumed; rewrite str_rev_cons, push_rev_spec, !app_empty_r, !app_assoc_s; reflexivity).
           eapply mode_after_snoc; eauto. cbn [mode_after]. rewrite Ed, E. reflexivity.
    + destruct (Ascii.eqb c nl) eqn:E.
      * destruct (sep_line_ok (str_rev l)); [|discriminate].
        assert (F' : Forall quiet (str_rev acc :: dr)).
        { constructor; auto. unfold consumed in J.
          apply (quiet_prefix (str_rev acc) (pending 3 ++ str_rev l)). exists (MSep l). auto. }
        go_on IH H F'. reflexivity.
      * go_on IH H F.
        replace (consumed acc (MSep (String c l))) with (consumed acc (MSep l) ++ String c "")%string
          by (unfold consumed; rewrite str_rev_cons, !app_assoc_s; reflexivity).
        eapply mode_after_snoc; eauto. cbn [mode_after]. rewrite E. reflexivity.
Qed.

(* no document contains a separator: splitting it again gives it back *)
Theorem split_no_inner s ds seps :
  split_documents_full s = Ok (ds, seps) ->
  Forall (fun d => d = "" \/ split_documents d = Ok [d]) ds.
Proof.
  destruct s as [|c s']; cbn [split_documents_full]; intros H.
  - injection H as <- <-. constructor.
  - assert (Q : Forall quiet ds).
    { eapply split_go_docs_quiet; [ | | | exact H]; [cbn; auto|reflexivity|constructor]. }
    eapply Forall_impl; [|exact Q]. intros d Q1.
    destruct d as [|a d']; [left; reflexivity|right]. apply quiet_split; auto. congruence.
Qed.
