(* Model of kyaml/yaml/fns.go: FieldMatcher, FieldSetter, FieldClearer, ElementMatcher,
   ElementIndexer and PathGetter (Lookup / LookupCreate).
   Go mutates the document through pointers; here every function returns the new document.
   [walk] is PathGetter followed by an arbitrary continuation applied to the node it returns. *)
From KV Require Export Yaml.Node.

Inductive kind := KScalar | KMap | KSeq.

Definition empty_of (k : kind) : node :=
  match k with
  | KScalar => Scalar TNone SPlain ""
  | KMap => Map []
  | KSeq => Seq []
  end.

(* ---------- path parts (PathGetter.getFilter) ---------- *)
Inductive part :=
| PKey (k : string)            (* field name / map key *)
| PIdx (i : nat)               (* "0", "1", ... *)
| PLast                        (* "-" *)
| PSel (nm v : string)         (* "[nm=v]" ; nm = "" selects a primitive element *)
| PBadSel                      (* "[...]" without '=' : error *)
| PNeg                         (* negative number: error *)
| PWild.                       (* "*": error in PathGetter *)

(* strconv.Atoi restricted to inputs that fit an int (the harness never sends more than 9 digits) *)
Definition atoi (s : string) : option (bool * N) :=   (* (negative, magnitude) *)
  match s with
  | String c rest =>
      let n := N_of_ascii c in
      if (n =? 45)%N then   (* '-' *)
        match rest with
        | EmptyString => None
        | _ => if all_digits rest then Some (true, digits_val rest 0) else None
        end
      else if (n =? 43)%N then  (* '+' *)
        match rest with
        | EmptyString => None
        | _ => if all_digits rest then Some (false, digits_val rest 0) else None
        end
      else if all_digits s then Some (false, digits_val s 0) else None
  | EmptyString => None
  end.

Definition is_list_index (p : string) : bool := has_prefix "[" p && has_suffix "]" p.

Definition split_index_name_value (p : string) : option (string * string) :=
  split_first "="%char (trim_prefix "[" (trim_suffix "]" p)).

Definition classify (s : string) : part :=
  match atoi s with
  | Some (neg, n) => if neg && negb (n =? 0)%N then PNeg else PIdx (N.to_nat n)
  | None =>
      if String.eqb s "-" then PLast
      else if String.eqb s "*" then PWild
      else if is_list_index s then
             match split_index_name_value s with
             | Some (a, b) => PSel a b
             | None => PBadSel
             end
      else PKey s
  end.

(* cleanPath: trim, drop empties *)
Definition clean_path (l : list string) : list string :=
  filter (fun s => negb (String.eqb s "")) (map trim_space l).

Definition parse_path (l : list string) : list part := map classify (clean_path l).

(* getPathPartKind: the kind of node to create for a field, given the part that follows it *)
Definition kind_before (next : option part) (leaf : kind) : kind :=
  match next with
  | None => leaf
  | Some (PSel _ _) | Some PBadSel | Some (PIdx _) => KSeq
  | Some _ => KMap
  end.

Section WithOracle.
  (* yaml.IsValueNonString: "would a YAML 1.1 parser read this as a non-string?" (go-yaml v2, external) *)
  Variable nonstr : string -> bool.

  (* FieldSetter's forced quoting of string-ish scalars that YAML 1.1 would re-type *)
  Definition quote11 (v : node) : node :=
    match v with
    | Scalar t SPlain s =>
        match t with
        | TStr | TNone => if nonstr s then Scalar t SDouble s else v
        | _ => v
        end
    | _ => v
    end.

  Definition style_of (n : node) : style :=
    match n with Scalar _ s _ => s | _ => SPlain end.
  Definition with_style (s : style) (n : node) : node :=
    match n with Scalar t _ v => Scalar t s v | _ => n end.

  (* FieldClearer{Name} *)
  Definition clear_field (name : string) (n : node) : res node :=
    match n with
    | Map kvs => Ok (Map (remove_first name kvs))
    | _ => if is_null n then Ok n else Err
    end.

  (* FieldSetter{Name: name (non-empty), Value: v}; [keep] = RNode.ShouldKeep of the value.
     Returns the updated mapping. *)
  Definition set_field (name : string) (v : option node) (keep : bool) (n : node) : res node :=
    match v with
    | None => clear_field name n
    | Some v0 =>
        if is_null v0 && negb keep then clear_field name n
        else
          match n with
          | Map kvs =>
              match find_field name kvs with
              | Some old => Ok (Map (set_first name (with_style (style_of old) v0) kvs))
              | None => Ok (Map (kvs ++ [(name, quote11 v0)]))
              end
          | _ => if is_null n then Ok n   (* content appended to a null scalar: invisible *)
                 else Err
          end
    end.

  (* FieldSetter{Name: "", Value: v} applied to a scalar *)
  Definition set_scalar (v : option node) (n : node) : res node :=
    match n with
    | Scalar _ s _ =>
        if is_null n then
          (* ErrorIfInvalid passes on null; then as below *)
          match v with
          | None => Ok n
          | Some v0 => if is_null v0 then Ok n else Ok (with_style s v0)
          end
        else
          match v with
          | None => Ok n
          | Some v0 => if is_null v0 then Ok n else Ok (with_style s v0)
          end
    | _ => Err
    end.

  (* ElementMatcher's test of one element against [nm=v] *)
  Definition sel_match (nm v : string) (e : node) : bool :=
    if String.eqb nm "" then String.eqb (node_value e) v
    else match e with
         | Map kvs =>
             match find_field nm kvs with
             | Some x => String.eqb (node_value x) v
             | None => false
             end
         | _ => false
         end.

  (* element appended by PathGetter.elemFilter when creating *)
  Definition sel_new (nm v : string) : node :=
    if String.eqb nm "" then Scalar TNone SPlain v
    else Map [(nm, Scalar TNone SPlain v)].

  (* PathGetter{Path: ps, Create: cr} followed by the continuation [k] on the node found.
     Result: the updated document and, if the path was found (or created), k's answer. *)
  Fixpoint walk {A : Type} (cr : option kind) (ps : list part)
           (k : node -> res (node * A)) (n : node) {struct ps} : res (node * option A) :=
    match ps with
    | [] => do r <- k n; Ok (fst r, Some (snd r))
    | p :: ps' =>
        match p with
        | PKey name =>
            match n with
            | Map kvs =>
                match find_field name kvs with
                | Some x =>
                    do r <- walk cr ps' k x;
                    Ok (Map (set_first name (fst r) kvs), snd r)
                | None =>
                    match cr with
                    | None => Ok (n, None)
                    | Some leaf =>
                        let x := empty_of (kind_before (hd_error ps') leaf) in
                        do r <- walk cr ps' k x;
                        Ok (Map (kvs ++ [(name, fst r)]), snd r)
                    end
                end
            | _ => if is_null n then Ok (n, None) else Err
            end
        | PIdx i =>
            match n with
            | Seq es =>
                match nth_error es i with
                | Some e =>
                    do r <- walk cr ps' k e;
                    Ok (Seq (replace_nth i (fst r) es), snd r)
                | None => Ok (n, None)
                end
            | _ => if is_null n then Ok (n, None) else Err
            end
        | PLast =>
            match n with
            | Seq es =>
                match es with
                | [] => Ok (n, None)   (* len(elems) == 0: no match (repo fix 5cf7cc6; was elems[-1], a panic) *)
                | _ =>
                    let i := List.length es - 1 in
                    match nth_error es i with
                    | Some e =>
                        do r <- walk cr ps' k e;
                        Ok (Seq (replace_nth i (fst r) es), snd r)
                    | None => Ok (n, None)   (* unreachable: the last index of a non-empty list exists *)
                    end
                end
            | _ => if is_null n then Ok (n, None)   (* a null node has zero elements: no match *)
                   else Err
            end
        | PSel nm v =>
            match n with
            | Seq es =>
                match find_index (sel_match nm v) es with
                | Some i =>
                    match nth_error es i with
                    | Some e =>
                        do r <- walk cr ps' k e;
                        Ok (Seq (replace_nth i (fst r) es), snd r)
                    | None => Err (* unreachable *)
                    end
                | None =>
                    match cr with
                    | None => Ok (n, None)
                    | Some _ =>
                        do r <- walk cr ps' k (sel_new nm v);
                        Ok (Seq (es ++ [fst r]), snd r)
                    end
                end
            | _ =>
                if is_null n then
                  match cr with
                  | None => Ok (n, None)
                  | Some _ =>
                      (* element appended to the Content of a null scalar: the walk continues on a
                         detached node, nothing of it is visible in the document *)
                      do r <- walk cr ps' k (sel_new nm v);
                      Ok (n, snd r)
                  end
                else Err
            end
        | PBadSel | PNeg | PWild => Err
        end
    end.

  (* ---------- the operations the property talks about ---------- *)
  Definition k_get (x : node) : res (node * node) := Ok (x, x).

  (* rn.Pipe(Lookup(path...)) *)
  Definition lookup (ps : list part) (n : node) : res (option node) :=
    do r <- walk None ps k_get n; Ok (snd r).

  (* rn.Pipe(LookupCreate(kind, path...)) : document afterwards and node returned *)
  Definition lookup_create (leaf : kind) (ps : list part) (n : node) : res (node * option node) :=
    walk (Some leaf) ps k_get n.

  (* rn.Pipe(LookupCreate(MappingNode, path...), SetField(name, v)) *)
  Definition k_set_field (name : string) (v : node) (m : node) : res (node * unit) :=
    do m' <- set_field name (Some v) false m; Ok (m', tt).
  Definition put (ps : list part) (name : string) (v : node) (n : node) : res (node * option unit) :=
    walk (Some KMap) ps (k_set_field name v) n.

  (* rn.Pipe(Lookup(path...), SetField(name, v)) : no creation of the path *)
  Definition put_nocreate (ps : list part) (name : string) (v : node) (n : node) : res (node * option unit) :=
    walk None ps (k_set_field name v) n.

  (* rn.Pipe(Lookup(path...), Clear(name)) *)
  Definition k_clear (name : string) (m : node) : res (node * unit) :=
    do m' <- clear_field name m; Ok (m', tt).
  Definition clear_at (ps : list part) (name : string) (n : node) : res (node * option unit) :=
    walk None ps (k_clear name) n.

  (* rn.Pipe(LookupCreate(ScalarNode, path...), FieldSetter{Value: v}) *)
  Definition k_set_scalar (v : node) (x : node) : res (node * unit) :=
    do x' <- set_scalar (Some v) x; Ok (x', tt).
  Definition put_scalar (ps : list part) (v : node) (n : node) : res (node * option unit) :=
    walk (Some KScalar) ps (k_set_scalar v) n.
End WithOracle.
