(* C15, whole-document form of merge3(d, d, d) = d on the fragment without associative lists:
   for a document without explicit or implicit nulls, with pairwise different keys and whose strings
   need no forced quoting, merging it with itself gives exactly it back. *)
From KV Require Import Yaml.Walk Yaml.WalkProofs Yaml.WalkFields Yaml.WalkShape Yaml.SortUniq
     Yaml.Merge2 Yaml.Merge2Frame Yaml.Merge2Idem Yaml.Merge3 Yaml.Merge3Proofs.
Local Open Scope string_scope.
Local Open Scope list_scope.

(* no null reached through mappings; no plain string that FieldSetter would force into double quotes *)
Fixpoint clean3 (nonstr : string -> bool) (n : node) : bool :=
  match n with
  | Scalar t s x =>
      negb (is_null n) &&
      negb (match s, t with SPlain, TStr | SPlain, TNone => nonstr x | _, _ => false end)
  | Map kvs => (fix go (l : list (string * node)) : bool :=
                  match l with [] => true | kv :: t => clean3 nonstr (snd kv) && go t end) kvs
  | Seq _ => true
  end.

Lemma clean3_map nonstr kvs : clean3 nonstr (Map kvs) = true ->
  forall k v, find_field k kvs = Some v -> clean3 nonstr v = true.
Proof.
  cbn [clean3]. induction kvs as [|[k0 v0] t IH]; cbn; intros H k v F; [discriminate|].
  apply Bool.andb_true_iff in H. destruct H as [Ha Hb].
  destruct (String.eqb k0 k); [inv F; auto|eauto].
Qed.

Lemma clean3_quote nonstr v : clean3 nonstr v = true -> quote11 nonstr v = v /\ is_null v = false.
Proof.
  destruct v as [t s x| |]; cbn; auto. intros H. apply Bool.andb_true_iff in H. destruct H as [H1 H2].
  apply Bool.negb_true_iff in H1, H2. split; auto.
  destruct s; auto. destruct t; auto; rewrite H2; reflexivity.
Qed.

Section Whole.
  Context {Sc : Type}.
  Variable sch : schema Sc.
  Variable opts : wopts.
  Variable nonstr : string -> bool.
  Hypothesis Hatomic : atomic_lists sch opts.

  Notation W3 := (walk sch opts nonstr merger3).

  Lemma all_equal_walk f : forall sc x r,
      W3 f sc None [Some x; Some x; Some x] = Ok r ->
      wfk x = true -> clean3 nonstr x = true ->
      fval nonstr r (Some x) = Some x.
  Proof.
    induction f as [|f IH]; intros sc x r H Hw Hc; [discriminate|].
    destruct (clean3_quote _ _ Hc) as [Hq Hn].
    destruct x as [t s v| kvs |es].
    - rewrite (leaf3 sch opts nonstr Hatomic (S f) sc (Scalar t s v) (Some (Scalar t s v)) r eq_refl Hn Hn H). rewrite Hq. reflexivity.
    - destruct (map_level3 sch opts nonstr f sc kvs (Some (Map kvs)) r eq_refl H) as [d [-> Hwf]].
      destruct (wfk_map _ Hw) as [Hnk Hsub].
      destruct (walk_fields_shape_inv sch nonstr _ _ _ _ _ (nodup_sort_uniq _) _ _ Hnk Hwf) as [R [HR ->]].
      rewrite shape_fix; auto.
      intros k Hk. specialize (HR k Hk).
      unfold fvs, set_nth in HR. cbn [map replace_nth field_of] in HR.
      destruct (find_field k kvs) as [v|] eqn:F.
      + apply (IH _ _ _ HR); [eapply Hsub; eauto|eapply clean3_map; eauto].
      + exfalso. apply in_field_names in Hk. destruct Hk as [kvs0 [Hs Hkk]].
        assert (kvs0 = kvs) by (destruct Hs as [E|[E|[E|[]]]]; inv E; auto). subst.
        apply find_field_none_iff in F. contradiction.
    - rewrite (leaf3 sch opts nonstr Hatomic (S f) sc (Seq es) (Some (Seq es)) r eq_refl eq_refl eq_refl H). reflexivity.
  Qed.

  (* (a kind-consistent document merged with itself cannot fail; the statement does not need that) *)
  Theorem merge3_all_equal d r :
    is_map d && wfk d && clean3 nonstr d = true ->
    merge3 sch opts nonstr (Some d) (Some d) (Some d) = Ok r ->
    r = Some d.
  Proof.
    intros Hf H. repeat rewrite Bool.andb_true_iff in Hf. destruct Hf as [[Hm Hw] Hc].
    destruct d as [| kvs |]; try discriminate.
    unfold merge3, walk_top in H.
    destruct (walk sch opts nonstr merger3 (fuel_of [Some (Map kvs); Some (Map kvs); Some (Map kvs)]) None None
                [Some (Map kvs); Some (Map kvs); Some (Map kvs)]) as [ro| | |] eqn:E; cbn in H; try discriminate.
    inv H. pose proof (all_equal_walk _ _ _ _ E Hw Hc) as Hfx.
    unfold fuel_of in E.
    destruct (map_level3 sch opts nonstr _ _ kvs (Some (Map kvs)) ro eq_refl E) as [d' [-> _]].
    cbn in Hfx |- *. destruct d' as [t s v| |]; cbn in Hfx.
    - destruct t; cbn in Hfx; try discriminate; destruct s; try discriminate; try (destruct (nonstr v); discriminate).
    - inv Hfx. reflexivity.
    - inv Hfx.
  Qed.
End Whole.

(* ---------- merge3(l, o, o) = l, whole document ---------- *)
(* what the unchanged upstream pair may hold, place by place, for local to come back unchanged:
   - where local has a value, upstream has no null;
   - a mapping of upstream is present in local as well (local did not remove a whole mapping). *)
Fixpoint covers (l o : node) : bool :=
  match o with
  | Map ok =>
      match l with
      | Map lk =>
          (fix go (es : list (string * node)) : bool :=
             match es with
             | [] => true
             | kv :: t =>
                 match find_field (fst kv) lk with
                 | None => negb (is_map (snd kv))
                 | Some lv => negb (is_null (snd kv)) && covers lv (snd kv)
                 end && go t
             end) ok
      | _ => true
      end
  | _ => true
  end.
Definition ocovers (l : node) (o : option node) : bool :=
  match o with None => true | Some on => negb (is_null on) && covers l on end.

Lemma covers_field lk ok k ov :
  covers (Map lk) (Map ok) = true -> find_field k ok = Some ov ->
  match find_field k lk with
  | None => is_map ov = false
  | Some lv => ocovers lv (Some ov) = true
  end.
Proof.
  cbn [covers]. intros H F. apply find_field_In in F.
  induction ok as [|[k0 v0] t IH]; [contradiction|].
  apply Bool.andb_true_iff in H. destruct H as [Ha Hb].
  destruct F as [F|F]; [|apply IH; auto]. inv F. cbn [fst snd] in Ha.
  destruct (find_field k lk); [exact Ha|apply Bool.negb_true_iff in Ha; exact Ha].
Qed.

Section WholeLocal.
  Context {Sc : Type}.
  Variable sch : schema Sc.
  Variable opts : wopts.
  Variable nonstr : string -> bool.
  Hypothesis Hatomic : atomic_lists sch opts.

  Notation W3 := (walk sch opts nonstr merger3).

  (* a place local does not have and where the unchanged pair holds no mapping: nothing is added *)
  Lemma absent3 f sc x r :
    match x with Some (Map _) => False | _ => True end ->
    W3 f sc None [None; x; x] = Ok r -> fval nonstr r None = None.
  Proof.
    intros Hx H. destruct f as [|f]; [discriminate|]. cbn [walk] in H.
    destruct x as [[t s v| |es]|]; try contradiction.
    - destruct (is_null (Scalar t s v)) eqn:En.
      + destruct t; try discriminate. cbn in H. unfold walk_map in H. cbn in H. inv H. reflexivity.
      + assert (Hk : first_kind [None; Some (Scalar t s v); Some (Scalar t s v)] = Some KScalar).
        { cbn. cbn in En. rewrite En. reflexivity. }
        rewrite Hk in H. destruct (all_valid KScalar _); [|discriminate].
        cbn [v_scalar merger3] in H. unfold m3_visit_scalar in H. cbn [dest_of origin_of updated_of] in H.
        unfold tagged_null in H. rewrite En in H. cbn [orb] in H.
        unfold o_null in H. rewrite En in H. cbn [Bool.eqb negb andb] in H.
        rewrite String.eqb_refl in H. cbn in H. inv H. reflexivity.
    - cbn [first_kind o_null is_null kind_of] in H.
      destruct (all_valid KSeq _); [|discriminate].
      rewrite (not_assoc sch opts Hatomic) in H.
      cbn [v_list merger3] in H. unfold m3_visit_list in H. cbn [dest_of origin_of updated_of] in H.
      cbn [tagged_null is_null orb o_null Bool.eqb negb andb] in H.
      rewrite node_eqb_refl in H. cbn in H. inv H. reflexivity.
    - cbn in H. unfold walk_map in H. cbn in H. inv H. reflexivity.
  Qed.

  Lemma ocovers_tagged l o : ocovers l o = true -> tagged_null o = false.
  Proof.
    destruct o as [on|]; cbn; auto. intros H. apply Bool.andb_true_iff in H. destruct H as [H _].
    apply Bool.negb_true_iff in H. exact H.
  Qed.

  Lemma all_local_walk f : forall sc l o r,
      W3 f sc None [Some l; o; o] = Ok r ->
      wfk l = true -> clean3 nonstr l = true -> ocovers l o = true ->
      fval nonstr r (Some l) = Some l.
  Proof.
    induction f as [|f IH]; intros sc l o r H Hw Hc Hcov; [discriminate|].
    destruct (clean3_quote _ _ Hc) as [Hq Hn].
    pose proof (ocovers_tagged _ _ Hcov) as Ho.
    destruct l as [t s v| lk |es].
    - rewrite (leaf3 sch opts nonstr Hatomic (S f) sc (Scalar t s v) o r eq_refl Hn Ho H). rewrite Hq. reflexivity.
    - destruct (map_level3 sch opts nonstr f sc lk o r Ho H) as [d [-> Hwf]].
      destruct (wfk_map _ Hw) as [Hnk Hsub].
      destruct (walk_fields_shape_inv sch nonstr _ _ _ _ _ (nodup_sort_uniq _) _ _ Hnk Hwf) as [R [HR ->]].
      rewrite shape_fix; auto.
      intros k Hk. specialize (HR k Hk).
      unfold fvs, set_nth in HR. cbn [map replace_nth field_of] in HR. fold (field_of k o) in HR.
      destruct (find_field k lk) as [lv|] eqn:F.
      + apply (IH _ _ _ _ HR); [eapply Hsub; eauto|eapply clean3_map; eauto|].
        destruct o as [[| ok |]|]; cbn [field_of]; auto.
        destruct (find_field k ok) as [ov|] eqn:Fo; auto.
        cbn [ocovers] in Hcov. apply Bool.andb_true_iff in Hcov. destruct Hcov as [_ Hcov].
        pose proof (covers_field _ _ _ _ Hcov Fo) as Hf. rewrite F in Hf. exact Hf.
      + eapply absent3; [|exact HR].
        destruct o as [[| ok |]|]; cbn [field_of]; auto.
        destruct (find_field k ok) as [ov|] eqn:Fo; auto.
        cbn [ocovers] in Hcov. apply Bool.andb_true_iff in Hcov. destruct Hcov as [_ Hcov].
        pose proof (covers_field _ _ _ _ Hcov Fo) as Hf. rewrite F in Hf.
        destruct ov; try discriminate; exact I.
    - rewrite (leaf3 sch opts nonstr Hatomic (S f) sc (Seq es) o r eq_refl eq_refl Ho H). reflexivity.
  Qed.

  Theorem merge3_local_whole l o r :
    is_map l && wfk l && clean3 nonstr l && ocovers l o = true ->
    merge3 sch opts nonstr (Some l) o o = Ok r ->
    r = Some l.
  Proof.
    intros Hf H. repeat rewrite Bool.andb_true_iff in Hf. destruct Hf as [[[Hm Hw] Hc] Hcov].
    destruct l as [| lk |]; try discriminate.
    unfold merge3, walk_top in H.
    destruct (walk sch opts nonstr merger3 (fuel_of [Some (Map lk); o; o]) None None
                [Some (Map lk); o; o]) as [ro| | |] eqn:E; cbn in H; try discriminate.
    inv H. pose proof (all_local_walk _ _ _ _ _ E Hw Hc Hcov) as Hfx.
    unfold fuel_of in E.
    destruct (map_level3 sch opts nonstr _ _ lk o ro (ocovers_tagged _ _ Hcov) E) as [d' [-> _]].
    cbn in Hfx |- *. destruct d' as [t s v| |]; cbn in Hfx.
    - destruct t; cbn in Hfx; try discriminate; destruct s; try discriminate; try (destruct (nonstr v); discriminate).
    - inv Hfx. reflexivity.
    - inv Hfx.
  Qed.
End WholeLocal.

(* non-vacuity *)
Definition whole_d : node :=
  Map [("a", Scalar TInt SPlain "1"); ("s", Scalar TStr SDouble "no");
       ("m", Map [("x", Scalar TBool SPlain "true"); ("e", Map [])]); ("l", Seq [Scalar TStr SPlain "p"; Scalar TInt SPlain "1"])].
Example all_equal_example :
  is_map whole_d && wfk whole_d && clean3 (fun s => String.eqb s "no") whole_d = true /\
  merge3 schemaless kustomize_opts (fun s => String.eqb s "no") (Some whole_d) (Some whole_d) (Some whole_d) = Ok (Some whole_d).
Proof. split; vm_compute; reflexivity. Qed.

(* local adds, changes and removes non-mapping fields, adds a mapping, edits inside a shared mapping; upstream
   (unchanged) has a field local removed and a list *)
Definition lw_l : node :=
  Map [("a", Scalar TInt SPlain "2"); ("m", Map [("x", Scalar TBool SPlain "true"); ("y", Scalar TStr SPlain "new")]);
       ("n", Map [("k", Scalar TInt SPlain "1")]); ("l", Seq [Scalar TStr SPlain "q"])].
Definition lw_o : node :=
  Map [("a", Scalar TInt SPlain "1"); ("gone", Scalar TStr SPlain "x"); ("m", Map [("x", Scalar TBool SPlain "false"); ("z", Seq [])]);
       ("l", Seq [Scalar TStr SPlain "p"])].
Example local_whole_example :
  is_map lw_l && wfk lw_l && clean3 (fun s => String.eqb s "no") lw_l && ocovers lw_l (Some lw_o) = true /\
  node_eqb lw_l lw_o = false /\
  merge3 schemaless kustomize_opts (fun s => String.eqb s "no") (Some lw_l) (Some lw_o) (Some lw_o) = Ok (Some lw_l).
Proof. split; [|split]; vm_compute; reflexivity. Qed.
