(* C15, whole-document form of merge3(d, d, d) = d on the fragment without associative lists:
   for a document without explicit or implicit nulls, with pairwise different keys and whose strings
   need no forced quoting, merging it with itself gives exactly it back. *)
From KV Require Import Yaml.Walk Yaml.WalkProofs Yaml.WalkFields Yaml.WalkShape Yaml.SortUniq
     Yaml.Merge2 Yaml.Merge2Frame Yaml.Merge2Idem Yaml.Merge3 Yaml.Merge3Proofs.
Local Open Scope string_scope.
Local Open Scope list_scope.

(* no null reached through mappings; no plain string that FieldSetter would force into double quotes *)
Fixpoint clean3 (nonstr : string -> bool) (n : node) : bool :=
  match n with
  | Scalar t s x =>
      negb (is_null n) &&
      negb (match s, t with SPlain, TStr | SPlain, TNone => nonstr x | _, _ => false end)
  | Map kvs => (fix go (l : list (string * node)) : bool :=
                  match l with [] => true | kv :: t => clean3 nonstr (snd kv) && go t end) kvs
  | Seq _ => true
  end.

Lemma clean3_map nonstr kvs : clean3 nonstr (Map kvs) = true ->
  forall k v, find_field k kvs = Some v -> clean3 nonstr v = true.
Proof.
  cbn [clean3]. induction kvs as [|[k0 v0] t IH]; cbn; intros H k v F; [discriminate|].
  apply Bool.andb_true_iff in H. destruct H as [Ha Hb].
  destruct (String.eqb k0 k); [inv F; auto|eauto].
Qed.

Lemma clean3_quote nonstr v : clean3 nonstr v = true -> quote11 nonstr v = v /\ is_null v = false.
Proof.
  destruct v as [t s x| |]; cbn; auto. intros H. apply Bool.andb_true_iff in H. destruct H as [H1 H2].
  apply Bool.negb_true_iff in H1, H2. split; auto.
  destruct s; auto. destruct t; auto; rewrite H2; reflexivity.
Qed.

Section Whole.
  Context {Sc : Type}.
  Variable sch : schema Sc.
  Variable opts : wopts.
  Variable nonstr : string -> bool.
  Hypothesis Hatomic : atomic_lists sch opts.

  Notation W3 := (walk sch opts nonstr merger3).

  Lemma all_equal_walk f : forall sc x r,
      W3 f sc None [Some x; Some x; Some x] = Ok r ->
      wfk x = true -> clean3 nonstr x = true ->
      fval nonstr r (Some x) = Some x.
  Proof.
    induction f as [|f IH]; intros sc x r H Hw Hc; [discriminate|].
    destruct (clean3_quote _ _ Hc) as [Hq Hn].
    destruct x as [t s v| kvs |es].
    - rewrite (leaf3 sch opts nonstr Hatomic (S f) sc (Scalar t s v) (Some (Scalar t s v)) r eq_refl Hn Hn H). rewrite Hq. reflexivity.
    - destruct (map_level3 sch opts nonstr f sc kvs (Some (Map kvs)) r eq_refl H) as [d [-> Hwf]].
      destruct (wfk_map _ Hw) as [Hnk Hsub].
      destruct (walk_fields_shape_inv sch nonstr _ _ _ _ _ (nodup_sort_uniq _) _ _ Hnk Hwf) as [R [HR ->]].
      rewrite shape_fix; auto.
      intros k Hk. specialize (HR k Hk).
      unfold fvs, set_nth in HR. cbn [map replace_nth field_of] in HR.
      destruct (find_field k kvs) as [v|] eqn:F.
      + apply (IH _ _ _ HR); [eapply Hsub; eauto|eapply clean3_map; eauto].
      + exfalso. apply in_field_names in Hk. destruct Hk as [kvs0 [Hs Hkk]].
        assert (kvs0 = kvs) by (destruct Hs as [E|[E|[E|[]]]]; inv E; auto). subst.
        apply find_field_none_iff in F. contradiction.
    - rewrite (leaf3 sch opts nonstr Hatomic (S f) sc (Seq es) (Some (Seq es)) r eq_refl eq_refl eq_refl H). reflexivity.
  Qed.

  (* (a kind-consistent document merged with itself cannot fail; the statement does not need that) *)
  Theorem merge3_all_equal d r :
    is_map d && wfk d && clean3 nonstr d = true ->
    merge3 sch opts nonstr (Some d) (Some d) (Some d) = Ok r ->
    r = Some d.
  Proof.
    intros Hf H. repeat rewrite Bool.andb_true_iff in Hf. destruct Hf as [[Hm Hw] Hc].
    destruct d as [| kvs |]; try discriminate.
    unfold merge3, walk_top in H.
    destruct (walk sch opts nonstr merger3 (fuel_of [Some (Map kvs); Some (Map kvs); Some (Map kvs)]) None None
                [Some (Map kvs); Some (Map kvs); Some (Map kvs)]) as [ro| | |] eqn:E; cbn in H; try discriminate.
    inv H. pose proof (all_equal_walk _ _ _ _ E Hw Hc) as Hfx.
    unfold fuel_of in E.
    destruct (map_level3 sch opts nonstr _ _ kvs (Some (Map kvs)) ro eq_refl E) as [d' [-> _]].
    cbn in Hfx |- *. destruct d' as [t s v| |]; cbn in Hfx.
    - destruct t; cbn in Hfx; try discriminate; destruct s; try discriminate; try (destruct (nonstr v); discriminate).
    - inv Hfx. reflexivity.
    - inv Hfx.
  Qed.
End Whole.

(* non-vacuity *)
Definition whole_d : node :=
  Map [("a", Scalar TInt SPlain "1"); ("s", Scalar TStr SDouble "no");
       ("m", Map [("x", Scalar TBool SPlain "true"); ("e", Map [])]); ("l", Seq [Scalar TStr SPlain "p"; Scalar TInt SPlain "1"])].
Example all_equal_example :
  is_map whole_d && wfk whole_d && clean3 (fun s => String.eqb s "no") whole_d = true /\
  merge3 schemaless kustomize_opts (fun s => String.eqb s "no") (Some whole_d) (Some whole_d) (Some whole_d) = Ok (Some whole_d).
Proof. split; vm_compute; reflexivity. Qed.
