(* C04 frame law for merge2 on the fragment without associative lists (schema-less custom kinds, or any
   schema that declares no merge strategy; inference off): every non-mapping value of the target that
   the patch does not mention is still there after the merge, with the same tag and text (style: only
   the forced quoting of YAML-1.1-ambiguous strings) -- unless it is an implicit null (""), which is
   dropped (F12: see [frame_implicit_null_dropped]). *)
From KV Require Import Yaml.Walk Yaml.WalkProofs Yaml.WalkFields Yaml.SortUniq Yaml.Merge2 Yaml.Merge2Proofs.
Local Open Scope list_scope.

Fixpoint getp (q : list string) (n : node) : option node :=
  match q with
  | [] => Some n
  | k :: r => match dfield k n with Some x => getp r x | None => None end
  end.

(* the patch says nothing about path q: it has no entry there, and on the way down it consists of
   plain mappings without a "$patch" directive *)
Fixpoint untouched (p : option node) (q : list string) : Prop :=
  match q with
  | [] => p = None
  | k :: r =>
      match p with
      | None => True
      | Some (Map pk) => find_field smp_key pk = None /\ untouched (find_field k pk) r
      | Some _ => False
      end
  end.

(* the target consists of mappings with pairwise different keys along q *)
Fixpoint maps_along (q : list string) (t : node) : Prop :=
  match q with
  | [] => True
  | k :: r =>
      match t with
      | Map kvs => nodupk kvs /\ match find_field k kvs with Some x => maps_along r x | None => True end
      | _ => False
      end
  end.

Definition implicit_null (v : node) : bool :=
  match v with Scalar TNull _ x => String.eqb x "" | _ => false end.

Section Frame.
  Context {Sc : Type}.
  Variable sch : schema Sc.
  Variable opts : wopts.
  Variable nonstr : string -> bool.

  (* no list is associative: inference off and no merge strategy in the schema *)
  Definition atomic_lists : Prop :=
    o_infer opts = false /\ forall s, has_merge_strategy (fst (sc_pskl sch s)) = false.
  Hypothesis Hatomic : atomic_lists.

  Lemma not_assoc sc srcs : is_associative sch opts sc srcs = false.
  Proof.
    destruct Hatomic as [Hi Hs]. unfold is_associative. destruct sc; [apply Hs|rewrite Hi; reflexivity].
  Qed.

  Notation W := (walk sch opts nonstr merger).

  (* ---- a value nobody mentions: walk [Some v; None] for a non-mapping v ---- *)
  Lemma leaf_unmentioned f sc v r :
    is_map v = false -> implicit_null v = false ->
    W f sc None [Some v; None] = Ok r ->
    fval nonstr r (Some v) = Some (quote11 nonstr v).
  Proof.
    intros Hm Hi H. destruct f as [|f]; [discriminate|]. cbn [walk] in H.
    destruct v as [t s x| |es]; [| discriminate |].
    - destruct t.
      + cbn in H. inv H. reflexivity.
      + cbn in H. inv H. reflexivity.
      + cbn in H. inv H. reflexivity.
      + cbn in H. inv H. reflexivity.
      + cbn in H. inv H. reflexivity.
      + (* explicit null: kept as a persistent null *)
        cbn in Hi. cbn in H. unfold walk_map in H. cbn in H. rewrite Hi in H. cbn in H. inv H. cbn. destruct s; reflexivity.
      + cbn in H. inv H. reflexivity.
    - cbn [first_kind o_null is_null kind_of] in H. cbn [all_valid forallb is_null kind_of kind_eqb orb andb] in H.
      rewrite not_assoc in H. cbn in H. inv H. reflexivity.
  Qed.

  (* ---- one mapping level: dest is a mapping, the patch is absent or a mapping without directive ---- *)
  Definition plain_patch (p : option node) : Prop :=
    match p with
    | None => True
    | Some (Map pk) => find_field smp_key pk = None
    | Some _ => False
    end.

  Lemma map_level f sc tk p x :
    plain_patch p ->
    W (S f) sc None [Some (Map tk); p] = Ok x ->
    exists d, x = Some (mkW d false true) /\
              walk_fields sch nonstr (W f) (get_schema sch sc [Some (Map tk); p]) None [Some (Map tk); p]
                          (field_names [Some (Map tk); p]) (Map tk) = Ok d.
  Proof.
    intros Hp H. cbn [walk] in H.
    destruct p as [[| pk |]|]; try contradiction.
    - cbn [first_kind o_null is_null kind_of all_valid forallb kind_eqb orb andb] in H.
      unfold walk_map in H. cbn [v_map merger m2_visit_map dest_of origin_of o_null is_null tagged_null] in H.
      cbn [determine_smp] in H. cbn in Hp. rewrite Hp in H.
      cbn [bind fst snd set_origin sync_from_alias resolve nth_error] in H.
      match type of H with
      | bind ?X _ = _ => destruct X as [d| | |] eqn:E; cbn in H; try discriminate
      end.
      inv H. exists d. split; auto.
    - cbn [first_kind o_null is_null kind_of all_valid forallb kind_eqb orb andb] in H.
      unfold walk_map in H. cbn [v_map merger m2_visit_map dest_of origin_of o_null is_null tagged_null] in H.
      cbn [determine_smp bind fst snd set_origin sync_from_alias resolve nth_error] in H.
      match type of H with
      | bind ?X _ = _ => destruct X as [d| | |] eqn:E; cbn in H; try discriminate
      end.
      inv H. exists d. split; auto.
  Qed.

  Lemma in_field_names_dest k tk v p :
    find_field k tk = Some v -> In k (field_names [Some (Map tk); p]).
  Proof.
    intros H. unfold field_names. apply in_sort_uniq. cbn. apply in_or_app. left.
    destruct (in_dec string_dec k (keys tk)) as [Hi|Hn]; auto.
    apply find_field_none_iff in Hn. congruence.
  Qed.

  (* ---- the frame law, leaf by leaf ---- *)
  Lemma frame_leaf q :
    q <> [] ->
    forall f sc tk p w v,
      W f sc None [Some (Map tk); p] = Ok (Some w) ->
      untouched p q -> maps_along q (Map tk) ->
      getp q (Map tk) = Some v -> is_map v = false -> implicit_null v = false ->
      getp q (w_node w) = Some (quote11 nonstr v).
  Proof.
    induction q as [|k r IH]; [congruence|]. intros _ f sc tk p w v H Hu Hm Hg Hv Hi.
    destruct f as [|f]; [discriminate|].
    assert (Hp : plain_patch p).
    { destruct p as [[| pk |]|]; cbn in Hu |- *; tauto. }
    destruct (map_level _ _ _ _ _ Hp H) as [d [Hx Hw]]. inv Hx. cbn [w_node].
    cbn in Hm. destruct Hm as [Hnd Hm].
    cbn [getp dfield] in Hg. destruct (find_field k tk) as [tv|] eqn:Ftv; [|discriminate].
    destruct (walk_fields_map sch nonstr _ _ _ _ _ (nodup_sort_uniq _) _ _ Hnd Hw) as [kvs' [-> [Hnd' [_ Hin]]]].
    destruct (Hin k (in_field_names_dest _ _ _ _ Ftv)) as [rk [Hrk Hfk]].
    rewrite Ftv in Hrk, Hfk. cbn [getp dfield]. rewrite Hfk.
    unfold fvs, set_nth in Hrk. cbn [map replace_nth field_of] in Hrk.
    assert (Hup : untouched (field_of k p) r).
    { destruct p as [[| pk |]|]; cbn in Hu |- *; try tauto. destruct r; cbn; auto. }
    destruct r as [|k' r'].
    - (* the leaf itself *)
      cbn in Hg. inv Hg. cbn in Hup. rewrite Hup in Hrk.
      erewrite leaf_unmentioned; eauto.
    - (* one more mapping level *)
      cbn [getp] in Hg. destruct tv as [| tk' |]; try (cbn in Hg; discriminate).
      assert (Hp' : plain_patch (field_of k p)).
      { destruct (field_of k p) as [[| pk' |]|]; cbn in Hup |- *; tauto. }
      destruct f as [|f]; [discriminate|].
      destruct (map_level _ _ _ _ _ Hp' Hrk) as [d' [Hx' Hw']]. subst rk.
      cbn [fval w_node w_keep w_inplace].
      assert (Hd' : exists kvs2, d' = Map kvs2).
      { pose proof Hm as Hm0. cbn in Hm0. destruct Hm0 as [Hnd2 _].
        destruct (walk_fields_map sch nonstr _ _ _ _ _ (nodup_sort_uniq _) _ _ Hnd2 Hw') as [kvs2 [-> _]]. eauto. }
      destruct Hd' as [kvs2 ->]. cbn [is_null andb quote11].
      change (Map kvs2) with (w_node (mkW (Map kvs2) false true)).
      eapply (IH ltac:(discriminate) (S f)); eauto.
  Qed.

  (* an unmentioned implicit null is dropped (the F12 behaviour), whatever surrounds it *)
  Lemma frame_implicit_null_dropped f sc tk p w k s :
    W f sc None [Some (Map tk); p] = Ok (Some w) ->
    plain_patch p -> field_of k p = None -> nodupk tk ->
    find_field k tk = Some (Scalar TNull s "") ->
    dfield k (w_node w) = None.
  Proof.
    intros H Hp Hk Hnd Ft. destruct f as [|f]; [discriminate|].
    destruct (map_level _ _ _ _ _ Hp H) as [d [Hx Hw]]. inv Hx. cbn [w_node].
    destruct (walk_fields_map sch nonstr _ _ _ _ _ (nodup_sort_uniq _) _ _ Hnd Hw) as [kvs' [-> [Hnd' [_ Hin]]]].
    destruct (Hin k (in_field_names_dest _ _ _ _ Ft)) as [rk [Hrk Hfk]].
    rewrite Ft in Hrk, Hfk. cbn [dfield]. rewrite Hfk.
    unfold fvs, set_nth in Hrk. cbn [map replace_nth field_of] in Hrk. fold (field_of k p) in Hrk. rewrite Hk in Hrk.
    destruct f as [|f]; [discriminate|]. cbn in Hrk. inv Hrk. reflexivity.
  Qed.
End Frame.

(* ---------- at the level of merge2.Merge ---------- *)
Section Top.
  Context {Sc : Type}.
  Variable sch : schema Sc.
  Variable opts : wopts.
  Variable nonstr : string -> bool.
  Hypothesis Hatomic : atomic_lists sch opts.

  Theorem merge2_frame q tk p r v :
    q <> [] ->
    merge2 sch opts nonstr p (Some (Map tk)) = Ok (Some r) ->
    untouched p q -> maps_along q (Map tk) ->
    getp q (Map tk) = Some v -> is_map v = false -> implicit_null v = false ->
    getp q r = Some (quote11 nonstr v).
  Proof.
    intros Hq H Hu Hm Hg Hv Hi. unfold merge2, walk_top in H.
    destruct (walk sch opts nonstr merger (fuel_of [Some (Map tk); p]) None None [Some (Map tk); p])
      as [[w|]| | |] eqn:E; cbn in H; inv H.
    eapply frame_leaf; eauto.
  Qed.

  Theorem merge2_implicit_null_dropped tk p r k s :
    merge2 sch opts nonstr p (Some (Map tk)) = Ok (Some r) ->
    plain_patch p -> field_of k p = None -> nodupk tk ->
    find_field k tk = Some (Scalar TNull s "") ->
    dfield k r = None.
  Proof.
    intros H Hp Hk Hnd Ft. unfold merge2, walk_top in H.
    destruct (walk sch opts nonstr merger (fuel_of [Some (Map tk); p]) None None [Some (Map tk); p])
      as [[w|]| | |] eqn:E; cbn in H; inv H.
    eapply frame_implicit_null_dropped; eauto.
  Qed.
End Top.

(* the forced quoting changes neither tag nor text *)
Lemma quote11_same nonstr v :
  node_value (quote11 nonstr v) = node_value v /\
  match quote11 nonstr v, v with
  | Scalar t _ _, Scalar t' _ _ => t = t'
  | a, b => a = b
  end.
Proof.
  destruct v as [t s x| |]; cbn; auto.
  destruct s; cbn; auto. destruct t; cbn; auto; destruct (nonstr x); cbn; auto.
Qed.

(* ---------- a schema-less instance: the hypotheses are satisfiable ---------- *)
Definition schemaless : schema unit :=
  mkSchema unit (fun _ _ => None) (fun _ _ => None) (fun _ => None) (fun _ => (""%string, [])).
Definition kustomize_opts : wopts := mkOpts false true ["name"%string].

Lemma schemaless_atomic : atomic_lists schemaless kustomize_opts.
Proof. split; reflexivity. Qed.

Definition ex_target : node :=
  Map [("kind", Scalar TStr SPlain "Foo"); ("spec", Map [("a", Scalar TInt SPlain "1"); ("b", Scalar TStr SPlain "x")])]%string.
Definition ex_patch : node :=
  Map [("spec", Map [("b", Scalar TStr SPlain "y")])]%string.

(* non-vacuity: a concrete non-trivial input meets every hypothesis of [merge2_frame] *)
Example frame_example :
  exists r,
    merge2 schemaless kustomize_opts (fun _ => false) (Some ex_patch) (Some ex_target) = Ok (Some r) /\
    untouched (Some ex_patch) ["spec"; "a"]%string /\
    getp ["spec"; "a"]%string r = Some (Scalar TInt SPlain "1") /\
    getp ["spec"; "b"]%string r = Some (Scalar TStr SPlain "y").
Proof. eexists. split; [vm_compute; reflexivity|]. cbn. repeat split. Qed.

(* the frame law WITHOUT the implicit-null restriction is false for the code as it is (finding F12) *)
Definition f12_target : node :=
  Map [("spec", Map [("a", Scalar TNull SPlain ""); ("b", Scalar TInt SPlain "1")])]%string.
Definition f12_patch : node := Map [("spec", Map [("b", Scalar TInt SPlain "2")])]%string.

Lemma frame_refuted :
  exists (p t r : node) (q : list string) (v : node),
    merge2 schemaless kustomize_opts (fun _ => false) (Some p) (Some t) = Ok (Some r) /\
    untouched (Some p) q /\ maps_along q t /\ getp q t = Some v /\ is_map v = false /\
    getp q r = None.
Proof.
  exists f12_patch, f12_target. eexists. exists ["spec"; "a"]%string. eexists.
  split; [vm_compute; reflexivity|]. cbn.
  repeat split; try (repeat constructor; cbn; intuition congruence).
Qed.
