(* Model of kyaml/yaml/match.go (PathMatcher, including Create) and of
   kyaml/utils/pathsplitter.go (PathSplitter with an arbitrary one-byte delimiter, SmarterPathSplitter).

   Go returns pointers to the matched nodes and mutates the document while creating; here [pm]
   returns the document afterwards and the ADDRESSES of the matched nodes (child indices from the
   root), so that a caller can write through them afterwards exactly as the Go callers do.
   A match inside a node that is not part of the document (Go appends to the invisible Content of
   a null scalar and keeps walking) is reported as [HDetached]. *)
From KV Require Export Base.Regex Yaml.Fns.
From KV Require Export Gen.C10Patterns.

(* ---------- kyaml/utils: PathSplitter / SmarterPathSplitter ---------- *)
Fixpoint merge_escaped_c (d : string) (cur : string) (rest : list string) : list string :=
  match rest with
  | [] => [cur]
  | p :: rest' =>
      if has_suffix "\" cur
      then merge_escaped_c d (trim_suffix "\" cur ++ d ++ p) rest'
      else cur :: merge_escaped_c d p rest'
  end.

Definition path_splitter_c (c : ascii) (path : string) : list string :=
  let ps := split_on c path in
  let ps := match ps with
            | "" :: (_ :: _) as t => t
            | _ => ps
            end in
  match ps with
  | [] => [""]
  | h :: t => merge_escaped_c (String c "") h t
  end.

Fixpoint contains_char (c : ascii) (s : string) : bool :=
  match s with
  | EmptyString => false
  | String a s' => Ascii.eqb a c || contains_char c s'
  end.

(* strings.Trim(s, "[]") *)
Fixpoint trim_left_brackets (s : string) : string :=
  match s with
  | String c s' => if Ascii.eqb c "["%char || Ascii.eqb c "]"%char then trim_left_brackets s' else s
  | EmptyString => EmptyString
  end.
Definition trim_brackets (s : string) : string :=
  str_rev (trim_left_brackets (str_rev (trim_left_brackets s))).

Definition finish_bracketed (d : string) (br : list string) : string :=
  let s := join_with d br in
  if contains_char "="%char s then s else trim_brackets s.

Fixpoint sps (d : string) (cur : option (list string)) (l : list string) : list string :=
  match l with
  | [] => match cur with Some br => [finish_bracketed d br] | None => [] end
  | e :: t =>
      match cur with
      | Some br =>
          let br' := (br ++ [e])%list in
          if has_suffix "]" e then finish_bracketed d br' :: sps d None t else sps d (Some br') t
      | None =>
          if has_prefix "[" e && negb (has_suffix "]" e) then sps d (Some [e]) t
          else e :: sps d None t
      end
  end.

Definition smarter_path_splitter (c : ascii) (path : string) : list string :=
  sps (String c "") None (path_splitter_c c path).

(* ---------- PathMatcher ---------- *)
Definition addr := list nat.
Inductive hit :=
| HAt (a : addr)            (* a node of the document *)
| HDetached (x : node).     (* a node that is not reachable from the document (its content) *)

Definition push (i : nat) (h : hit) : hit :=
  match h with HAt a => HAt (i :: a) | HDetached x => HDetached x end.

Definition child (i : nat) (n : node) : option node :=
  match n with
  | Map kvs => option_map snd (nth_error kvs i)
  | Seq es => nth_error es i
  | _ => None
  end.

Fixpoint get_at (a : addr) (n : node) : option node :=
  match a with
  | [] => Some n
  | i :: a' => match child i n with Some c => get_at a' c | None => None end
  end.

(* hits found inside a node [d] that is itself not part of the document *)
Definition detach (d : node) (l : list hit) : list hit :=
  map (fun h => match h with
                | HAt a => HDetached (match get_at a d with Some x => x | None => d end)
                | HDetached x => HDetached x
                end) l.

Inductive ppart :=
| PPIdx (i : nat)
| PPSel (raw : string)
| PPWild
| PPField (name : string).

(* the dispatch of PathMatcher.filter: IsIdxNumber, IsListIndex, IsWildcard, else a field *)
Definition classify_pm (p : string) : ppart :=
  match atoi p with
  | Some (neg, n) =>
      if neg && negb (n =? 0)%N then
        (if is_list_index p then PPSel p else if String.eqb p "*" then PPWild else PPField p)
      else PPIdx (N.to_nat n)
  | None =>
      if is_list_index p then PPSel p
      else if String.eqb p "*" then PPWild
      else PPField p
  end.

Definition is_idx_number (p : string) : bool :=
  match atoi p with Some (neg, n) => negb (neg && negb (n =? 0)%N) | None => false end.

(* getPathPartKind(nextPart, defaultKind) *)
Definition path_part_kind (next : string) (leaf : kind) : kind :=
  if is_list_index next then KSeq
  else if is_idx_number next then KSeq
  else if String.eqb next "" then leaf
  else KMap.

Definition index_of_key (name : string) (kvs : list (string * node)) : nat :=
  match find_index (fun kv => String.eqb (fst kv) name) kvs with Some i => i | None => O end.

(* the element doSeq appends when nothing matched and Create is set *)
Definition pm_new_elem (fld v : string) : node :=
  if String.eqb fld "" then Scalar TNone SPlain v
  else Map [(fld, Scalar TNone SPlain v)].

Fixpoint visit_elems (f : node -> res (node * list hit)) (i : nat) (es : list node)
  : res (list node * list hit) :=
  match es with
  | [] => Ok ([], [])
  | e :: t =>
      do r <- f e;
      do rt <- visit_elems f (S i) t;
      Ok (fst r :: fst rt, (map (push i) (snd r) ++ snd rt)%list)
  end.

(* doSeq: visit every element; if nothing was returned and Create is set, append the new element and
   search again (Go: `return p.doSeq(rn)`).  Since the repair of the create-and-retry loop
   ([gen_match_doseq_guarded]: `if p.appended { return nil, err }; p.appended = true`) a second search
   that finds nothing is an error; before it the loop went on, which is what [f] bounds
   ([app] = the element has been appended already). *)
Fixpoint retry_loop (visit : node -> res (node * list hit)) (new_elem : node) (cr : bool) (app : bool)
         (f : nat) (es : list node) {struct f} : res (list node * list hit) :=
  match f with
  | O => Diverge
  | S f' =>
      do r <- visit_elems visit 0 es;
      match snd r with
      | _ :: _ => Ok r
      | [] =>
          if cr then
            (if gen_match_doseq_guarded && app then Err
             else retry_loop visit new_elem cr true f' (fst r ++ [new_elem])%list)
          else Ok r
      end
  end.

Section PM.
  Variable parse : string -> option re.   (* regexp.Compile; None = error *)
  Variable enc : node -> string.          (* strings.TrimSpace(RNode.String()): the go-yaml emitter *)
  Variable nonstr : string -> bool.       (* yaml.IsValueNonString *)
  Variable create : option kind.          (* PathMatcher.Create (None = 0) *)
  Variable fuel : nat.                    (* bound on doSeq's create-and-retry recursion *)

  Definition is_create : bool := match create with Some _ => true | None => false end.
  Definition leaf_kind : kind := match create with Some k => k | None => KScalar end.

  (* regular expression of visitElem / visitPrimitiveElem, compiled afresh for every element *)
  Definition elem_regex (v : string) : res re :=
    match render gen_match_visitElem_pattern v with
    | None => Err
    | Some t => match parse t with Some r => Ok r | None => Err end
    end.

  Fixpoint pm (path : list string) (n : node) {struct path} : res (node * list hit) :=
    match path with
    | [] => Ok (n, [HAt []])
    | p :: rest =>
        let newk := path_part_kind (hd "" rest) leaf_kind in
        match classify_pm p with
        | PPIdx i =>                                             (* doIndexSeq *)
            match n with
            | Seq es =>
                if Nat.eqb (List.length es) i && is_create then
                  do r <- pm rest (empty_of newk);
                  Ok (Seq (es ++ [fst r]), map (push i) (snd r))
                else
                  match nth_error es i with
                  | None => Err
                  | Some e =>
                      do r <- pm rest e;
                      Ok (Seq (replace_nth i (fst r) es), map (push i) (snd r))
                  end
            | _ =>
                if is_null n then
                  (if Nat.eqb i 0 && is_create then
                     do r <- pm rest (empty_of newk); Ok (n, detach (fst r) (snd r))
                   else Err)
                else Err
            end
        | PPSel raw =>                                           (* doSeq *)
            match split_index_name_value raw with
            | None => Err
            | Some (fld, v) =>
                let visit_one (e : node) : res (node * list hit) :=
                  do r <- elem_regex v;
                  if String.eqb fld "" then
                    (if matches r (enc e) then Ok (e, [HAt []]) else Ok (e, []))
                  else
                    match e with
                    | Map kvs =>
                        match find_field fld kvs with
                        | Some x => if matches r (enc x) then pm rest e else Ok (e, [])
                        | None => Ok (e, [])
                        end
                    | _ => Ok (e, [])
                    end in
                let retry := retry_loop visit_one (pm_new_elem fld v) is_create false in
                match n with
                | Seq es => do r <- retry fuel es; Ok (Seq (fst r), snd r)
                | _ =>
                    if is_null n then (do r <- retry fuel []; Ok (n, detach (Seq (fst r)) (snd r))) else Err
                end
            end
        | PPWild =>                                              (* doMatchEvery *)
            match n with
            | Seq es => do r <- visit_elems (pm rest) 0 es; Ok (Seq (fst r), snd r)
            | _ => if is_null n then Ok (n, []) else Err
            end
        | PPField name =>                                        (* doField *)
            if String.eqb name "" then
              match n with
              | Scalar _ st v =>
                  if negb (is_null n) && String.eqb v "" then pm rest n
                  else if is_create then
                    do r <- pm rest (empty_of newk);
                    Ok (with_style st (empty_of newk), detach (fst r) (snd r))
                  else Ok (n, [])
              | _ => Err
              end
            else
              match n with
              | Map kvs =>
                  match find_field name kvs with
                  | Some x =>
                      do r <- pm rest x;
                      Ok (Map (set_first name (fst r) kvs), map (push (index_of_key name kvs)) (snd r))
                  | None =>
                      if is_create then
                        do r <- pm rest (quote11 nonstr (empty_of newk));
                        Ok (Map (kvs ++ [(name, fst r)]), map (push (List.length kvs)) (snd r))
                      else Ok (n, [])
                  end
              | _ =>
                  if is_null n then
                    (if is_create then
                       do r <- pm rest (quote11 nonstr (empty_of newk)); Ok (n, detach (fst r) (snd r))
                     else Ok (n, []))
                  else Err
              end
        end
    end.
End PM.

(* ---------- writing through addresses ---------- *)
Fixpoint replace_nth_kv (i : nat) (v : node) (kvs : list (string * node)) : list (string * node) :=
  match kvs, i with
  | [], _ => []
  | (k, _) :: t, O => (k, v) :: t
  | kv :: t, S i' => kv :: replace_nth_kv i' v t
  end.

(* apply f to the node at address a (no change when the address does not exist) *)
Fixpoint update_at (f : node -> res node) (a : addr) (n : node) : res node :=
  match a with
  | [] => f n
  | i :: a' =>
      match n with
      | Map kvs =>
          match nth_error kvs i with
          | Some (_, c) => do c' <- update_at f a' c; Ok (Map (replace_nth_kv i c' kvs))
          | None => Ok n
          end
      | Seq es =>
          match nth_error es i with
          | Some c => do c' <- update_at f a' c; Ok (Seq (replace_nth i c' es))
          | None => Ok n
          end
      | _ => Ok n
      end
  end.
