(* Model of the identity handling of api/resource Resource.ApplySmPatch (and of what
   resWrangler.ApplySmPatch adds around it): kind, name and namespace of the target are saved,
   patchstrategicmerge.Filter (merge2, prepend) is applied, and -- unless the result is nil or empty
   (= the resource is deleted) -- kind and name are restored unless the patch carries the
   allowKindChange / allowNameChange build annotation, and the namespace is ALWAYS restored
   (SetNamespace("") drops the field).

   kyaml getters / setters used: RNode.GetKind / GetName / GetNamespace (getMapFieldValue,
   getMetaStringField, getMetaData), SetKind / SetName (SetMapField = LookupCreate + SetField) and
   SetNamespace (Lookup + Clear, or SetMapField); their errors are dropped by ApplySmPatch.
   Not modelled: StorePreviousId (it only appends build annotations to the target before the merge). *)
From KV Require Export Yaml.Merge2 Yaml.WalkFields.
Local Open Scope list_scope.
Local Open Scope string_scope.

(* RNode.GetKind *)
Definition get_kind (n : node) : string :=
  match dfield "kind" n with Some v => node_value v | None => "" end.

(* getMetaData: the metadata value unless nil / empty *)
Definition meta_of (n : node) : option node :=
  match dfield "metadata" n with
  | Some v => if nil_or_empty v then None else Some v
  | None => None
  end.

(* getMetaStringField *)
Definition meta_str (f : string) (n : node) : string :=
  match meta_of n with
  | Some md => match dfield f md with
               | Some v => if nil_or_empty v then "" else node_value v
               | None => ""
               end
  | None => ""
  end.
Definition get_name := meta_str "name".
Definition get_namespace := meta_str "namespace".

(* metadata.annotations[key] == "enabled" (Resource.isEnabled) *)
Definition anno_enabled (key : string) (n : node) : bool :=
  match meta_of n with
  | Some md => match dfield "annotations" md with
               | Some a => match dfield key a with
                           | Some v => String.eqb (node_value v) "enabled"
                           | None => false
                           end
               | None => false
               end
  | None => false
  end.
Definition allow_name_key := "internal.config.kubernetes.io/allowNameChange".
Definition allow_kind_key := "internal.config.kubernetes.io/allowKindChange".
Definition name_change_allowed := anno_enabled allow_name_key.
Definition kind_change_allowed := anno_enabled allow_kind_key.

(* IsNilOrEmpty of the resource after the filter *)
Definition res_empty (r : option node) : bool :=
  match r with None => true | Some x => nil_or_empty x end.

Section Identity.
  Context {Sc : Type}.
  Variable sch : schema Sc.
  Variable assoc_keys : list string.
  Variable nonstr : string -> bool.

  Definition drop_err (n : node) (r : res (node * option unit)) : node :=
    match r with Ok (n', _) => n' | _ => n end.

  (* rn.SetMapField(NewScalarRNode(v), path..., name) with the error dropped *)
  Definition set_kind (k : string) (n : node) : node :=
    drop_err n (put nonstr [] "kind" (Scalar TNone SPlain k) n).
  Definition set_name (v : string) (n : node) : node :=
    drop_err n (put nonstr [PKey "metadata"] "name" (Scalar TNone SPlain v) n).
  (* rn.SetNamespace(ns) *)
  Definition set_namespace (ns : string) (n : node) : node :=
    if String.eqb ns "" then drop_err n (clear_at [PKey "metadata"] "namespace" n)
    else drop_err n (put nonstr [PKey "metadata"] "namespace" (Scalar TNone SPlain ns) n).

  (* what ApplySmPatch does to the merged node *)
  Definition restore_identity (patch target merged : node) : node :=
    let x1 := if kind_change_allowed patch then merged else set_kind (get_kind target) merged in
    let x2 := if name_change_allowed patch then x1 else set_name (get_name target) x1 in
    set_namespace (get_namespace target) x2.

  (* Resource.ApplySmPatch: None / empty = the resource is deleted *)
  Definition apply_sm_patch (patch target : node) : res (option node) :=
    do r <- merge2 sch (mkOpts false true assoc_keys) nonstr (Some patch) (Some target);
    match r with
    | None => Ok None
    | Some x => if nil_or_empty x then Ok (Some x) else Ok (Some (restore_identity patch target x))
    end.
End Identity.
