(* A list-selector part [k=v] ANYWHERE in a path (not only as its last part), without Create:
   what PathMatcher returns below a sequence is exactly, entry by entry, what the rest of the path
   returns in the entries whose field k has a text in which the regular expression v finds a match.
   Generalises pm_last_selector_spec (C10_match_elem_partial) from "last part" to every position. *)
From KV Require Import Base.Regex Base.RegexProofs Yaml.Match Yaml.MatchProofs.
Require Import Lia.

Ltac inv H := inversion H; subst; clear H.

Lemma in_map_push i a : forall hs, In (HAt (i :: a)) (map (push i) hs) <-> In (HAt a) hs.
Proof.
  induction hs as [|h t IH]; cbn; [tauto|].
  rewrite IH. split; intros [H|H]; auto; left.
  - destruct h; cbn in H; inv H. reflexivity.
  - subst. reflexivity.
Qed.

Lemma in_map_push_other i j a : forall hs, i <> j -> ~ In (HAt (j :: a)) (map (push i) hs).
Proof.
  induction hs as [|h t IH]; cbn; intros Hne; [tauto|].
  intros [H|H]; [|exact (IH Hne H)]. destruct h; cbn in H; inv H. congruence.
Qed.

(* the hits of a visit over the elements: entry by entry, the hits of that entry's own visit *)
Lemma visit_elems_hits_gen (f : node -> res (node * list hit)) : forall es i es' hs,
  visit_elems f i es = Ok (es', hs) ->
  forall j a, In (HAt (j :: a)) hs <->
    exists e e' hj, nth_error es (j - i) = Some e /\ i <= j /\ f e = Ok (e', hj) /\ In (HAt a) hj.
Proof.
  induction es as [|e t IH]; intros i es' hs H j a; cbn in H.
  - inv H. split; [intros []|]. intros (e & _ & _ & He & _). destruct (j - i); discriminate.
  - destruct (f e) as [[e1 h1]| | |] eqn:F; cbn in H; try discriminate.
    destruct (visit_elems f (S i) t) as [[t1 h2]| | |] eqn:V; cbn in H; inv H.
    specialize (IH (S i) t1 h2 V j a). rewrite in_app_iff, IH. split.
    + intros [Hin|(x & x' & hx & Hx & Hle & Fx & Hin)].
      * destruct (Nat.eq_dec i j) as [->|Hne]; [|exfalso; eapply in_map_push_other; eauto].
        apply in_map_push in Hin. exists e, e1, h1. rewrite Nat.sub_diag. auto.
      * exists x, x', hx. replace (j - i) with (S (j - S i)) by lia. cbn. repeat split; auto; lia.
    + intros (x & x' & hx & Hx & Hle & Fx & Hin).
      destruct (Nat.eq_dec i j) as [->|Hne].
      * rewrite Nat.sub_diag in Hx. cbn in Hx. inv Hx. rewrite F in Fx. inv Fx.
        left. apply in_map_push. auto.
      * right. exists x, x', hx. replace (j - i) with (S (j - S i)) in Hx by lia. cbn in Hx.
        repeat split; auto; lia.
Qed.

Section SelSpec.
  Variable parse : string -> option re.
  Variable enc : node -> string.
  Variable nonstr : string -> bool.

  (* a selector part [k=v] followed by ANY rest, no Create, on a sequence: the address j :: a is returned
     iff entry j is a mapping whose field k has a text in which r finds a match AND the rest of the
     path returns a inside that entry *)
  Theorem pm_selector_spec k v r rest fuel es es' hs :
    k <> "" -> parse v = Some r ->
    split_index_name_value ("[" ++ k ++ "=" ++ v ++ "]") = Some (k, v) ->
    classify_pm ("[" ++ k ++ "=" ++ v ++ "]") = PPSel ("[" ++ k ++ "=" ++ v ++ "]") ->
    pm parse enc nonstr None (S fuel) (("[" ++ k ++ "=" ++ v ++ "]") :: rest) (Seq es) = Ok (Seq es', hs) ->
    forall j a, In (HAt (j :: a)) hs <->
      exists kvs x e' hj,
        nth_error es j = Some (Map kvs) /\ find_field k kvs = Some x /\ matches r (enc x) = true /\
        pm parse enc nonstr None (S fuel) rest (Map kvs) = Ok (e', hj) /\ In (HAt a) hj.
  Proof.
    intros Hk Hp Hs Hc H j a. cbn [pm] in H. rewrite Hc, Hs in H. cbn -[elem_regex pm] in H.
    match type of H with context [visit_elems ?f 0 es] =>
      set (vis := f) in *;
      destruct (visit_elems vis 0 es) as [[es1 h1]| | |] eqn:V; cbn -[pm] in H; try discriminate
    end.
    assert (hs = h1) by (destruct h1; inv H; auto). subst h1.
    rewrite (visit_elems_hits_gen vis es 0 es1 hs V j a). rewrite Nat.sub_0_r.
    assert (Hvis : forall e, vis e =
              match e with
              | Map kvs => match find_field k kvs with
                           | Some x => if matches r (enc x) then pm parse enc nonstr None (S fuel) rest e else Ok (e, [])
                           | None => Ok (e, [])
                           end
              | _ => Ok (e, [])
              end).
    { intros e. unfold vis. rewrite elem_regex_text, Hp. cbn -[pm].
      apply String.eqb_neq in Hk. rewrite Hk. destruct e; reflexivity. }
    split.
    - intros (e & e' & hj & He & _ & Fe & Hin). rewrite Hvis in Fe.
      destruct e as [| kvs |]; try (inv Fe; destruct Hin).
      destruct (find_field k kvs) as [x|] eqn:F; [|inv Fe; destruct Hin].
      destruct (matches r (enc x)) eqn:Mx; [|inv Fe; destruct Hin].
      exists kvs, x, e', hj. auto.
    - intros (kvs & x & e' & hj & He & F & Mx & P & Hin).
      exists (Map kvs), e', hj. repeat split; auto; [lia|]. rewrite Hvis, F, Mx. exact P.
  Qed.
End SelSpec.

(* non-vacuity: containers [name=x] then image — the near misses ax and x-1 are returned too (the
   list key is matched by an unanchored regular expression, finding C10/replacement-listkey-unanchored-regex),
   the entry y is not; the returned addresses are the image fields of exactly those entries *)
Example pm_selector_example :
  let c := fun n => Map [("name", Scalar TStr SPlain n); ("image", Scalar TStr SPlain "i")] in
  pm (parse_of [("x", Some (lit "x"))]) node_value (fun _ => false) None 1 ["[name=x]"; "image"]
     (Seq [c "x"; c "y"; c "ax"; c "x-1"]) =
  Ok (Seq [c "x"; c "y"; c "ax"; c "x-1"], [HAt [0; 1]; HAt [2; 1]; HAt [3; 1]]).
Proof. vm_compute. reflexivity. Qed.
