(* PathMatcher WITH Create returns when every list selector of the path matches itself —
   proved for the usual shape of replacement target paths: any parts, then at most one list
   selector, then only (non-empty) field names after it. *)
From KV Require Import Base.Regex Yaml.Match Yaml.MatchProofs.

Ltac inv H := inversion H; subst; clear H.

Definition field_part (p : string) : bool :=
  match classify_pm p with PPField name => negb (String.eqb name "") | _ => false end.
Definition fields_only (path : list string) : bool := forallb field_part path.

Fixpoint sel_then_fields (path : list string) : bool :=
  match path with
  | [] => true
  | p :: rest =>
      match classify_pm p with
      | PPSel _ => fields_only rest
      | _ => sel_then_fields rest
      end
  end.

(* outcome "returned something or failed cleanly" *)
Definition found_or_err (r : res (node * list hit)) : Prop :=
  match r with Ok (_, h) => h <> [] | Err => True | _ => False end.

Lemma visit_elems_last (f : node -> res (node * list hit)) : forall l i x l' hs,
  visit_elems f i (l ++ [x]) = Ok (l', hs) ->
  (exists x' h, f x = Ok (x', h) /\ h <> []) -> hs <> [].
Proof.
  induction l as [|a t IH]; intros i x l' hs H (x' & h & Fx & Hh); cbn in H.
  - rewrite Fx in H. cbn in H. inv H. destruct h; [congruence|]. cbn. discriminate.
  - destruct (f a) as [[a1 h1]| | |]; cbn in H; try discriminate.
    destruct (visit_elems f (S i) (t ++ [x])) as [[t1 h2]| | |] eqn:V; cbn in H; inv H.
    assert (h2 <> []) by (eapply IH; eauto).
    destruct h2; [congruence|]. destruct (map (push i) h1); cbn; discriminate.
Qed.

Lemma visit_elems_last_err (f : node -> res (node * list hit)) x :
  f x = Err -> forall l i r, visit_elems f i (l ++ [x]) <> Ok r.
Proof.
  intros Fx. induction l as [|a t IH]; intros i r V; cbn in V.
  - rewrite Fx in V. discriminate.
  - destruct (f a) as [[a1 h1]| | |]; cbn in V; try discriminate.
    destruct (visit_elems f (S i) (t ++ [x])) as [[t1 h2]| | |] eqn:V2; cbn in V; try discriminate.
    eapply IH; eauto.
Qed.

Lemma retry_two visit new_elem cr f :
  (forall e, visit e <> Diverge) ->
  found_or_err (visit new_elem) ->
  forall es, retry_loop visit new_elem cr (S (S f)) es <> Diverge.
Proof.
  intros Hv Hn es. cbn [retry_loop].
  pose proof (visit_elems_total visit es 0 (fun e _ => Hv e)) as T1.
  destruct (visit_elems visit 0 es) as [[es1 h1]| | |]; cbn; try discriminate; [|congruence].
  destruct h1; [|discriminate]. destruct cr; [|discriminate].
  pose proof (visit_elems_total visit (es1 ++ [new_elem]) 0 (fun e _ => Hv e)) as T2.
  destruct (visit_elems visit 0 (es1 ++ [new_elem])) as [[es2 h2]| | |] eqn:V; cbn; try discriminate; [|congruence].
  destruct h2 as [|x t]; [|discriminate]. exfalso.
  unfold found_or_err in Hn. destruct (visit new_elem) as [[x' h]| | |] eqn:Fx; try contradiction.
  - eapply (visit_elems_last visit es1 0 new_elem es2 []); eauto.
  - eapply visit_elems_last_err; eauto.
Qed.

Section Total.
  Variable parse : string -> option re.
  Variable enc : node -> string.
  Variable nonstr : string -> bool.
  Variable k : kind.                    (* Create = Some k *)
  Variable fuel : nat.

  Notation pmc := (pm parse enc nonstr (Some k)).

  (* after a list selector only field names follow: the walk creates what is missing and returns it *)
  Lemma fields_found : forall f path, fields_only path = true -> forall n, found_or_err (pmc f path n).
  Proof.
    intros f. induction path as [|p rest IH]; intros Hf n; cbn [pm].
    - cbn. discriminate.
    - cbn in Hf. apply andb_prop in Hf. destruct Hf as [Hp Hr].
      unfold field_part in Hp. destruct (classify_pm p) as [| | |name]; try discriminate.
      apply negb_true_iff in Hp. rewrite Hp.
      destruct n as [t s v|kvs|es].
      + destruct (is_null _); cbn; auto.
        specialize (IH Hr (quote11 nonstr (empty_of (path_part_kind (hd "" rest) k)))).
        cbn in IH. destruct (pmc f rest _) as [[x h]| | |]; cbn in *; auto.
        destruct h; [congruence|]; discriminate.
      + destruct (find_field name kvs) as [x|].
        * specialize (IH Hr x). destruct (pmc f rest x) as [[x1 h]| | |]; cbn in *; auto.
          destruct h; [congruence|]; discriminate.
        * cbn. specialize (IH Hr (quote11 nonstr (empty_of (path_part_kind (hd "" rest) k)))).
          cbn in IH. destruct (pmc f rest _) as [[x h]| | |]; cbn in *; auto.
          destruct h; [congruence|]; discriminate.
      + cbn. auto.
  Qed.

  Lemma found_not_diverge r : found_or_err r -> r <> Diverge.
  Proof. destruct r as [[? ?]| | |]; cbn; intros; try discriminate; contradiction. Qed.

  (* every list selector [fld=v] of the path: v, compiled, matches the text of the scalar v *)
  Definition self_matching (path : list string) : Prop :=
    forall p fld v r, In p path -> split_index_name_value p = Some (fld, v) -> parse v = Some r ->
      matches r (enc (Scalar TNone SPlain v)) = true.

  Theorem pm_create_total : forall path,
    sel_then_fields path = true -> self_matching path ->
    forall n, pmc (S (S fuel)) path n <> Diverge.
  Proof.
    induction path as [|p rest IH]; intros Hs Hm n; cbn [pm]; [discriminate|].
    assert (Hm' : self_matching rest) by (intros q; intros; eapply Hm; eauto; right; auto).
    cbn [sel_then_fields] in Hs.
    destruct (classify_pm p) as [i|raw| |name] eqn:Cp.
    - (* index *)
      destruct n as [t s v|kvs|es].
      + destruct (is_null _); [|discriminate].
        destruct (Nat.eqb i 0 && is_create (Some k)); [|discriminate].
        specialize (IH Hs Hm' (empty_of (path_part_kind (hd "" rest) (leaf_kind (Some k))))).
        destruct (pmc _ rest _) as [[x h]| | |]; cbn; try discriminate; auto.
      + discriminate.
      + destruct (Nat.eqb (List.length es) i && is_create (Some k)).
        * specialize (IH Hs Hm' (empty_of (path_part_kind (hd "" rest) (leaf_kind (Some k))))).
          destruct (pmc _ rest _) as [[x h]| | |]; cbn; try discriminate; auto.
        * destruct (nth_error es i) as [e|]; [|discriminate].
          specialize (IH Hs Hm' e). destruct (pmc _ rest e) as [[x h]| | |]; cbn; try discriminate; auto.
    - (* list selector *)
      destruct (split_index_name_value raw) as [[fld v]|] eqn:Sp; [|discriminate].
      assert (Praw : p = raw).
      { unfold classify_pm in Cp. destruct (atoi p) as [[neg m]|];
          [destruct (neg && negb (m =? 0)%N); [|discriminate]|];
          destruct (is_list_index p); try (inv Cp; reflexivity);
          destruct (String.eqb p "*"); discriminate. }
      subst raw.
      match goal with |- context [retry_loop ?vis ?ne ?cr] =>
        assert (R : forall es, retry_loop vis ne cr (S (S fuel)) es <> Diverge)
      end.
      { apply retry_two.
        - intros e. cbn -[elem_regex]. rewrite elem_regex_text.
          destruct (parse v) as [r|]; cbn; [|discriminate].
          destruct (String.eqb fld ""); [destruct (matches r (enc e)); discriminate|].
          destruct e as [t s v0|kvs|es0]; try discriminate.
          destruct (find_field fld kvs) as [x|]; [|discriminate].
          destruct (matches r (enc x)); [|discriminate].
          apply found_not_diverge, fields_found; auto.
        - cbn -[elem_regex]. rewrite elem_regex_text.
          destruct (parse v) as [r|] eqn:Pv; cbn; auto.
          assert (Self : matches r (enc (Scalar TNone SPlain v)) = true)
            by (eapply Hm; eauto; left; auto).
          unfold pm_new_elem. destruct (String.eqb fld "") eqn:Ef.
          + rewrite Self. cbn. discriminate.
          + cbn [find_field]. rewrite String.eqb_refl, Self. apply fields_found; auto. }
      destruct n as [t s v0|kvs|es].
      + destruct (is_null _); [|discriminate].
        specialize (R []). destruct (retry_loop _ _ _ _ []) as [[x h]| | |]; cbn; try discriminate; auto.
      + discriminate.
      + specialize (R es). destruct (retry_loop _ _ _ _ es) as [[x h]| | |]; cbn; try discriminate; auto.
    - (* wildcard *)
      destruct n as [t s v|kvs|es]; try (destruct (is_null _); discriminate); try discriminate.
      assert (V : visit_elems (pmc (S (S fuel)) rest) 0 es <> Diverge)
        by (apply visit_elems_total; intros; apply IH; auto).
      destruct (visit_elems (pmc (S (S fuel)) rest) 0 es) as [[x h]| | |]; cbn; try discriminate; auto.
    - (* field *)
      destruct (String.eqb name "").
      + destruct n as [t s v|kvs|es]; try discriminate.
        destruct (negb (is_null (Scalar t s v)) && String.eqb v ""); [apply IH; auto|].
        cbn [is_create].
        specialize (IH Hs Hm' (empty_of (path_part_kind (hd "" rest) (leaf_kind (Some k))))).
        destruct (pmc _ rest _) as [[x h]| | |]; cbn; try discriminate; auto.
      + destruct n as [t s v|kvs|es].
        * destruct (is_null _); [|discriminate]. cbn [is_create].
          specialize (IH Hs Hm' (quote11 nonstr (empty_of (path_part_kind (hd "" rest) (leaf_kind (Some k)))))).
          destruct (pmc _ rest _) as [[x h]| | |]; cbn; try discriminate; auto.
        * destruct (find_field name kvs) as [x|].
          -- specialize (IH Hs Hm' x). destruct (pmc _ rest x) as [[x1 h]| | |]; cbn; try discriminate; auto.
          -- cbn [is_create].
             specialize (IH Hs Hm' (quote11 nonstr (empty_of (path_part_kind (hd "" rest) (leaf_kind (Some k)))))).
             destruct (pmc _ rest _) as [[x1 h]| | |]; cbn; try discriminate; auto.
        * discriminate.
  Qed.
End Total.

(* non-vacuity: the usual replacement target path with a self-matching selector value *)
Example pm_create_total_example :
  sel_then_fields ["spec"; "containers"; "[name=zz]"; "image"] = true /\
  self_matching (parse_of [("zz", Some (lit "zz"))]) node_value ["spec"; "containers"; "[name=zz]"; "image"].
Proof.
  split; [reflexivity|].
  intros p fld v r Hin Hs Hp. cbn in Hin.
  destruct Hin as [<-|[<-|[<-|[<-|[]]]]]; cbn in Hs; try discriminate.
  inv Hs. cbn in Hp. inv Hp. reflexivity.
Qed.
