(* PathMatcher always returns: with the create-and-retry of doSeq guarded (a second search that
   finds nothing is an error) two units of fuel are enough for every path, every document and every
   Create kind — no hypothesis on the selector values is left. *)
From KV Require Import Base.Regex Yaml.Match Yaml.MatchProofs.

Ltac inv H := inversion H; subst; clear H.

Section Total.
  Variable parse : string -> option re.
  Variable enc : node -> string.
  Variable nonstr : string -> bool.
  Variable create : option kind.
  Variable fuel : nat.

  Notation pmc := (pm parse enc nonstr create (S (S fuel))).

  Theorem pm_total : forall path n, pmc path n <> Diverge.
  Proof.
    induction path as [|p rest IH]; intros n; cbn [pm]; [discriminate|].
    destruct (classify_pm p) as [i|raw| |name] eqn:Cp.
    - destruct n as [t s v|kvs|es].
      + destruct (is_null _); [|discriminate].
        destruct (Nat.eqb i 0 && is_create create); [|discriminate].
        match goal with |- (do r <- ?X; _) <> _ => pose proof (IH (empty_of (path_part_kind (hd "" rest) (leaf_kind create)))) as I; destruct X as [[x h]| | |] end; cbn; try discriminate; auto.
      + cbn. discriminate.
      + destruct (Nat.eqb (List.length es) i && is_create create).
        * match goal with |- (do r <- ?X; _) <> _ => pose proof (IH (empty_of (path_part_kind (hd "" rest) (leaf_kind create)))) as I; destruct X as [[x h]| | |] end; cbn; try discriminate; auto.
        * destruct (nth_error es i) as [e|]; [|discriminate].
          specialize (IH e). destruct (pmc rest e) as [[x h]| | |]; cbn; try discriminate; auto.
    - destruct (split_index_name_value raw) as [[fld v]|] eqn:Sp; [|discriminate].
      match goal with |- context [retry_loop ?vis ?ne ?cr ?app] =>
        assert (R : forall es, retry_loop vis ne cr app (S (S fuel)) es <> Diverge)
      end.
      { intros es0. apply retry_total. intros e. cbn -[elem_regex]. rewrite elem_regex_text.
        destruct (parse v) as [r|]; cbn; [|discriminate].
        destruct (String.eqb fld ""); [destruct (matches r (enc e)); discriminate|].
        destruct e as [t s v0|kvs|es1]; try discriminate.
        destruct (find_field fld kvs) as [x|]; [|discriminate].
        destruct (matches r (enc x)); [apply IH|discriminate]. }
      destruct n as [t s v0|kvs|es].
      + destruct (is_null _); [|discriminate].
        specialize (R []). destruct (retry_loop _ _ _ _ _ []) as [[x h]| | |]; cbn; try discriminate; auto.
      + discriminate.
      + specialize (R es). destruct (retry_loop _ _ _ _ _ es) as [[x h]| | |]; cbn; try discriminate; auto.
    - destruct n as [t s v|kvs|es]; try (destruct (is_null _); discriminate); try discriminate.
      assert (V : visit_elems (pmc rest) 0 es <> Diverge)
        by (apply visit_elems_total; intros; apply IH).
      destruct (visit_elems (pmc rest) 0 es) as [[x h]| | |]; cbn; try discriminate; auto.
    - destruct (String.eqb name "").
      + destruct n as [t s v|kvs|es]; try discriminate.
        destruct (negb (is_null (Scalar t s v)) && String.eqb v ""); [apply IH|].
        destruct (is_create create); [|discriminate].
        match goal with |- (do r <- ?X; _) <> _ => pose proof (IH (empty_of (path_part_kind (hd "" rest) (leaf_kind create)))) as I; destruct X as [[x h]| | |] end; cbn; try discriminate; auto.
      + destruct n as [t s v|kvs|es].
        * destruct (is_null _); [|discriminate]. destruct (is_create create); [|discriminate].
          match goal with |- (do r <- ?X; _) <> _ => pose proof (IH (quote11 nonstr (empty_of (path_part_kind (hd "" rest) (leaf_kind create))))) as I; destruct X as [[x h]| | |] end; cbn; try discriminate; auto.
        * destruct (find_field name kvs) as [x|].
          -- specialize (IH x). destruct (pmc rest x) as [[x1 h]| | |]; cbn; try discriminate; auto.
          -- destruct (is_create create); [|discriminate].
             match goal with |- (do r <- ?X; _) <> _ => pose proof (IH (quote11 nonstr (empty_of (path_part_kind (hd "" rest) (leaf_kind create))))) as I; destruct X as [[x1 h]| | |] end; cbn; try discriminate; auto.
        * discriminate.
  Qed.
End Total.
