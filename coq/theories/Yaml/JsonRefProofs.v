(* The model of kyaml's path operations refines the reference model on plain JSON values (Yaml/JsonRef.v). *)
From KV Require Import Yaml.Fns Yaml.FnsSpec Yaml.FnsProofs Yaml.JsonRef.

Ltac inv H := inversion H; subst; clear H.

Definition tj (kv : string * node) : string * json := (fst kv, to_json (snd kv)).

Lemma to_json_map kvs : to_json (Map kvs) = JObj (map tj kvs).
Proof. reflexivity. Qed.

Lemma jvalue_to_json x : jvalue (to_json x) = node_value x.
Proof. destruct x; reflexivity. Qed.

Lemma jfind_map k kvs : jfind k (map tj kvs) = option_map to_json (find_field k kvs).
Proof.
  induction kvs as [|[k' v] t IH]; cbn; [reflexivity|].
  destruct (String.eqb k' k); auto.
Qed.

Lemma jset_map k y kvs : jset k (to_json y) (map tj kvs) = map tj (set_first k y kvs).
Proof.
  induction kvs as [|[k' v] t IH]; cbn; [reflexivity|].
  destruct (String.eqb k' k); cbn; [reflexivity|now rewrite IH].
Qed.

Lemma jsel_to_json nm v e : jsel nm v (to_json e) = sel_match nm v e.
Proof.
  unfold jsel, sel_match. destruct (String.eqb nm ""); [now rewrite jvalue_to_json|].
  destruct e as [| kvs |]; try reflexivity.
  cbn -[jfind]. fold tj. rewrite jfind_map.
  destruct (find_field nm kvs); cbn; [now rewrite jvalue_to_json|reflexivity].
Qed.

Lemma find_index_map {A B} (g : A -> B) (f : B -> bool) l :
  find_index f (map g l) = find_index (fun x => f (g x)) l.
Proof. induction l as [|h t IH]; cbn; [reflexivity|]. destruct (f (g h)); auto. now rewrite IH. Qed.

Lemma find_index_ext {A} (f g : A -> bool) l : (forall x, f x = g x) -> find_index f l = find_index g l.
Proof. intros H. induction l as [|h t IH]; cbn; [reflexivity|]. rewrite H, IH. reflexivity. Qed.

Lemma find_index_jsel nm v es :
  find_index (jsel nm v) (map to_json es) = find_index (sel_match nm v) es.
Proof. rewrite find_index_map. apply find_index_ext. intros x. apply jsel_to_json. Qed.

Lemma replace_nth_map {A B} (g : A -> B) i y l :
  replace_nth i (g y) (map g l) = map g (replace_nth i y l).
Proof. revert i; induction l as [|h t IH]; intros [|i]; cbn; auto. now rewrite IH. Qed.

Lemma to_json_child p n : jchild p (to_json n) = option_map to_json (child p n).
Proof.
  destruct p, n; try reflexivity.
  - cbn -[jfind]. fold tj. apply jfind_map.
  - cbn. apply nth_error_map.
  - cbn. destruct es as [|e es]; [reflexivity|]. cbn [map]. rewrite <- (map_length to_json (e :: es)).
    cbn [map]. change (to_json e :: map to_json es) with (map to_json (e :: es)). apply nth_error_map.
  - cbn. rewrite find_index_jsel. destruct (find_index (sel_match nm v) es); [apply nth_error_map|reflexivity].
Qed.

Lemma to_json_plug p n y : to_json (plug p n y) = jplug p (to_json n) (to_json y).
Proof.
  destruct p, n; try reflexivity.
  - cbn -[jset]. fold tj. now rewrite jset_map.
  - cbn. now rewrite replace_nth_map.
  - cbn. now rewrite map_length, replace_nth_map.
  - cbn. rewrite find_index_jsel. destruct (find_index (sel_match nm v) es); [|reflexivity].
    cbn. now rewrite replace_nth_map.
Qed.

Lemma to_json_empty_of k : to_json (empty_of k) = jempty k.
Proof. destruct k; reflexivity. Qed.

Lemma to_json_sel_new nm v : to_json (sel_new nm v) = jsel_new nm v.
Proof. unfold sel_new, jsel_new. destruct (String.eqb nm ""); reflexivity. Qed.

(* ---------- jget: what Lookup finds is what the reference model finds ---------- *)
Lemma lookup_refines_found ps : forall n x, lookup ps n = Ok (Some x) -> jget ps (to_json n) = Some (to_json x).
Proof.
  induction ps as [|p ps IH]; intros n x L.
  - cbn in L. inv L. reflexivity.
  - destruct (child p n) as [y|] eqn:C.
    + rewrite (lookup_found _ _ _ _ C) in L. cbn. rewrite to_json_child, C. cbn. now apply IH.
    + exfalso. eapply lookup_missing_not_found; eauto.
Qed.

Lemma lookup_refines_absent ps : forall n, lookup ps n = Ok None -> jget ps (to_json n) = None.
Proof.
  induction ps as [|p ps IH]; intros n L.
  - discriminate.
  - cbn. rewrite to_json_child. destruct (child p n) as [y|] eqn:C; cbn; [|reflexivity].
    rewrite (lookup_found _ _ _ _ C) in L. now apply IH.
Qed.

(* ---------- jupd: a successful write is the reference update ---------- *)
Lemma walk_refines {A} cr ps (k : node -> res (node * A)) (f : json -> option json) :
  (forall x x' a, k x = Ok (x', a) -> is_null x = false -> f (to_json x) = Some (to_json x')) ->
  forall n n' a, no_null_path ps n = true -> walk cr ps k n = Ok (n', Some a) ->
  jupd cr ps f (to_json n) = Some (to_json n').
Proof.
  intros HK. induction ps as [|p ps IH]; intros n n' a NN H.
  - cbn in H. destruct (k n) as [[x' a']| | |] eqn:K; cbn in H; inv H.
    cbn. eapply HK; eauto. eapply no_null_here; eauto.
  - cbn [jupd]. rewrite to_json_child.
    destruct (child p n) as [x|] eqn:C.
    + rewrite (walk_found _ _ _ _ _ _ C) in H.
      destruct (walk cr ps k x) as [[x' r']| | |] eqn:W; cbn in H; inv H.
      cbn. rewrite (IH _ _ _ (no_null_child _ _ _ _ NN C) W). cbn. now rewrite to_json_plug.
    + destruct (walk_missing _ _ _ _ _ _ _ C H) as
        [[_ Hr]|[(name & kvs & leaf & y & -> & -> & -> & F & W & ->)
                |[(nm & v & es & leaf & y & -> & -> & -> & F & W & ->)
                 |(nm & v & leaf & y & -> & N & _)]]].
      * discriminate.
      * cbn -[jfind]. rewrite <- to_json_empty_of, (IH _ _ _ (no_null_empty_of _ _) W). cbn.
        now rewrite map_app.
      * cbn. rewrite <- to_json_sel_new, (IH _ _ _ (no_null_sel_new _ _ _) W). cbn.
        now rewrite map_app.
      * apply no_null_here in NN. congruence.
Qed.

(* ---------- the put operation ---------- *)
(* a value whose JSON view does not depend on the style it is stored with *)
Definition tagged (v : node) : bool := match v with Scalar TNone _ _ => false | _ => true end.

Lemma to_json_with_style s v : tagged v = true -> to_json (with_style s v) = to_json v.
Proof. intros H. destruct v as [t s0 v0| |]; try reflexivity. destruct t; try reflexivity. discriminate. Qed.

Lemma jupd_app_key ps name jv :
  forall j, jupd (Some KMap) (ps ++ [PKey name]) (fun _ => Some jv) j = jupd (Some KMap) ps (jset_field name jv) j.
Proof.
  induction ps as [|p ps IH]; intros j.
  - cbn -[jfind]. destruct j as [| kvs |]; try reflexivity.
    all: try (cbn -[jfind]; destruct (jfind name kvs); reflexivity).
  - cbn [app jupd]. destruct (jchild p j) as [x|]; [now rewrite IH|].
    destruct p; try reflexivity; destruct j; try reflexivity; rewrite IH.
    + destruct ps; reflexivity.
    + reflexivity.
Qed.

Section Put.
  Variable nonstr : string -> bool.

  Lemma set_field_refines name v :
    is_null v = false -> tagged v = true ->
    forall x x' a, k_set_field nonstr name v x = Ok (x', a) -> is_null x = false ->
                   jset_field name (to_json v) (to_json x) = Some (to_json x').
  Proof.
    intros Nv Tv x x' a K Nx. unfold k_set_field in K.
    destruct (set_field nonstr name (Some v) false x) as [m| | |] eqn:E; cbn in K; inv K.
    destruct (set_field_spec _ _ _ _ _ Nv E) as [[N _]|(kvs & s & -> & [(old & F & Hs & ->)|(F & Q & ->)])];
      [congruence| |].
    - cbn -[jfind jset]. fold tj. rewrite jfind_map, F. cbn -[jset].
      now rewrite <- (to_json_with_style s v Tv), jset_map.
    - cbn -[jfind jset]. fold tj. rewrite jfind_map, F. cbn.
      rewrite map_app. cbn [map]. unfold tj. cbn [fst snd]. now rewrite (to_json_with_style s v Tv).
  Qed.

  Lemma put_refines ps name v n n' :
    is_null v = false -> tagged v = true -> no_null_path ps n = true ->
    put nonstr ps name v n = Ok (n', Some tt) ->
    jput (ps ++ [PKey name]) (to_json v) (to_json n) = Some (to_json n').
  Proof.
    intros Nv Tv NN H. unfold jput. rewrite jupd_app_key.
    eapply walk_refines; eauto. apply set_field_refines; auto.
  Qed.
End Put.

(* non-vacuity: a put through a selector, creating a map on the way *)
Example ex_put_refines :
  let str s := Scalar TStr SPlain s in
  let doc := Map [("c", Seq [Map [("name", str "x")]])] in
  exists n', put (fun _ => false) [PKey "c"; PSel "name" "x"; PKey "m"] "k" (str "v") doc = Ok (n', Some tt) /\
             jput [PKey "c"; PSel "name" "x"; PKey "m"; PKey "k"] (to_json (str "v")) (to_json doc)
             = Some (to_json n').
Proof. eexists. split; vm_compute; reflexivity. Qed.

(* ---------- more operations refine the reference model ---------- *)
Lemma jremove_map k kvs : jremove k (map tj kvs) = map tj (remove_first k kvs).
Proof.
  induction kvs as [|[k' v] t IH]; cbn; [reflexivity|].
  destruct (String.eqb k' k); cbn; [reflexivity|now rewrite IH].
Qed.

(* Lookup + Clear *)
Lemma clear_refines ps name n n' :
  no_null_path ps n = true -> clear_at ps name n = Ok (n', Some tt) ->
  jclear ps name (to_json n) = Some (to_json n').
Proof.
  intros NN H. unfold jclear. eapply walk_refines; eauto.
  intros x x' a K Nx. unfold k_clear, clear_field in K.
  destruct x as [t s v|kvs|es]; cbn in K.
  - destruct t; cbn in Nx, K; discriminate.
  - inv K. cbn -[jremove]. fold tj. now rewrite jremove_map.
  - discriminate.
Qed.

(* LookupCreate(ScalarNode) + FieldSetter{Value: v} *)
Lemma put_scalar_refines ps v n n' :
  is_null v = false -> tagged v = true -> no_null_path ps n = true ->
  put_scalar ps v n = Ok (n', Some tt) ->
  jput_scalar ps (to_json v) (to_json n) = Some (to_json n').
Proof.
  intros Nv Tv NN H. unfold jput_scalar. eapply walk_refines; eauto.
  intros x x' a K Nx. unfold k_set_scalar, set_scalar in K.
  destruct x as [t s w|kvs|es]; try discriminate.
  rewrite Nx, Nv in K. cbn in K. inv K. cbn. now rewrite (to_json_with_style s v Tv).
Qed.

(* LookupCreate alone: the JSON image of the document afterwards is the reference "create the path" *)
Lemma lookup_create_refines leaf ps n n' x :
  no_null_path ps n = true -> lookup_create leaf ps n = Ok (n', Some x) ->
  jupd (Some leaf) ps (fun j => Some j) (to_json n) = Some (to_json n').
Proof.
  intros NN H. eapply walk_refines; eauto.
  intros y y' a K _. unfold k_get in K. now inv K.
Qed.
