(* A small reference semantics of strategic-merge patching on typed JSON values ([json] of Yaml/Node.v),
   for kinds whose lists are atomic:
     - a null in the patch deletes; a scalar or a list in the patch replaces;
     - a mapping in the patch merges into a mapping, key by key: the target's entries keep their
       order (merged, replaced or deleted), the keys only the patch has are appended in sorted order;
     - "$patch: delete" on a mapping deletes; "$patch: replace" puts the mapping (without the directive, nulls
       dropped) in place of whatever the target holds; "$patch: merge" merges as if the directive were not there;
     - a mapping added where the target has nothing (or a null) is added without its nulls
       (and without what its own "$patch: delete" sub-mappings address);
     - what the patch does not mention stays -- except implicit nulls (""), which kustomize drops
       (finding C04/frame/unmentioned-null-field-dropped: the reference semantics says what the code
       does; the full law is refuted in Props/C04.v).
   No fuel: structural recursion on the patch / on the target. *)
From KV Require Export Yaml.Walk.
Local Open Scope string_scope.
Local Open Scope list_scope.

Definition jentry (k : string) (o : option json) : list (string * json) :=
  match o with Some v => [(k, v)] | None => [] end.

Fixpoint jfind (k : string) (l : list (string * json)) : option json :=
  match l with
  | [] => None
  | (k', v) :: t => if String.eqb k' k then Some v else jfind k t
  end.
Definition jkeys (l : list (string * json)) : list string := map fst l.

Definition jis_delete (kvs : list (string * json)) : bool :=
  match jfind "$patch" kvs with
  | Some (JAtom _ _ v) => String.eqb v "delete"
  | _ => false
  end.

(* "$patch: replace" / "$patch: merge": the directive entry itself is not content *)
Definition jdir_is (d : string) (kvs : list (string * json)) : bool :=
  match jfind "$patch" kvs with
  | Some (JAtom _ _ v) => String.eqb v d
  | _ => false
  end.
Definition jelides (kvs : list (string * json)) : bool := jdir_is "replace" kvs || jdir_is "merge" kvs.
Definition jskip (el : bool) (k : string) : bool := el && String.eqb k "$patch".

(* what stays of a target value nobody mentions *)
Fixpoint jnorm (t : json) : option json :=
  match t with
  | JAtom TNull _ v => if String.eqb v "" then None else Some t
  | JAtom _ _ _ => Some t
  | JArr _ => Some t
  | JObj kvs =>
      Some (JObj ((fix go (l : list (string * json)) : list (string * json) :=
                     match l with
                     | [] => []
                     | (k, v) :: r => jentry k (jnorm v) ++ go r
                     end) kvs))
  end.

(* patch content added where the target has nothing *)
Fixpoint jadd (p : json) : option json :=
  match p with
  | JAtom TNull _ _ => None
  | JAtom _ _ _ => Some p
  | JArr _ => Some p
  | JObj kvs =>
      if jis_delete kvs then None
      else
        let el := jelides kvs in
        Some (JObj ((fix go (l : list (string * json)) : list (string * json) :=
                       match l with
                       | [] => []
                       | (k, v) :: r => if jskip el k then go r else jentry k (jadd v) ++ go r
                       end) kvs))
  end.

Fixpoint jassoc {A} (k : string) (l : list (string * A)) : option A :=
  match l with
  | [] => None
  | (k', v) :: t => if String.eqb k' k then Some v else jassoc k t
  end.

(* merge the fields: [fs] gives, per key of the patch, what that patch value does to a target value *)
Definition jmerge (fs : list (string * (option json -> option json))) (tk : list (string * json))
  : list (string * json) :=
  flat_map (fun kv => jentry (fst kv)
                        (match jassoc (fst kv) fs with
                         | Some f => f (Some (snd kv))
                         | None => jnorm (snd kv)
                         end)) tk
  ++
  flat_map (fun k => if str_in k (jkeys tk) then []
                     else jentry k (match jassoc k fs with Some f => f None | None => None end))
           (sort_uniq (jkeys tk ++ map fst fs)).

(* smp_spec p tv: the value a field ends up with when the patch holds p there and the target holds tv *)
Fixpoint smp_spec (p : json) : option json -> option json :=
  match p with
  | JAtom TNull _ _ => fun _ => None
  | JAtom _ _ _ => fun _ => Some p
  | JArr _ => fun _ => Some p
  | JObj pk =>
      if jis_delete pk then fun _ => None
      else if jdir_is "replace" pk then fun _ => jadd p
      else
        let el := jelides pk in
        let fs := (fix go (l : list (string * json)) : list (string * (option json -> option json)) :=
                     match l with
                     | [] => []
                     | (k, v) :: r => if jskip el k then go r else (k, smp_spec v) :: go r
                     end) pk in
        fun tv => match tv with
                  | Some (JObj tk) => Some (JObj (jmerge fs tk))
                  | _ => jadd p
                  end
  end.

(* a field of the target, given what the patch holds there (None = not mentioned) *)
Definition smp_field (pv tv : option json) : option json :=
  match pv with
  | Some p => smp_spec p tv
  | None => match tv with Some t => jnorm t | None => None end
  end.
