(* C04: merge2 refines the reference semantics [smp_spec] (Yaml/SmpSpec.v) at the level of typed JSON values
   ([to_json]), on the fragment without associative lists ("$patch: delete | replace | merge" at mapping level included). *)
From KV Require Import Yaml.Walk Yaml.WalkProofs Yaml.WalkFields Yaml.WalkShape Yaml.SortUniq
     Yaml.Merge2 Yaml.Merge2Proofs Yaml.Merge2Frame Yaml.Merge2Idem Yaml.SmpSpec.
Local Open Scope string_scope.
Local Open Scope list_scope.

(* every scalar reached through mappings carries a tag (true of every parsed document) *)
Fixpoint tagged (n : node) : bool :=
  match n with
  | Scalar t _ _ => negb (tag_eqb t TNone)
  | Map kvs => (fix go (l : list (string * node)) : bool :=
                  match l with [] => true | kv :: t => tagged (snd kv) && go t end) kvs
  | Seq _ => true
  end.

Lemma tagged_map kvs : tagged (Map kvs) = true -> forall k v, find_field k kvs = Some v -> tagged v = true.
Proof.
  cbn [tagged]. induction kvs as [|[k0 v0] t IH]; cbn; intros H k v F; [discriminate|].
  apply Bool.andb_true_iff in H. destruct H as [Ha Hb].
  destruct (String.eqb k0 k); [inv F; auto|eauto].
Qed.

Definition Jk (kvs : list (string * node)) : list (string * json) :=
  map (fun kv => (fst kv, to_json (snd kv))) kvs.
Definition oJ (o : option node) : option json := option_map to_json o.

Lemma to_json_map kvs : to_json (Map kvs) = JObj (Jk kvs).
Proof. reflexivity. Qed.

Lemma jfind_Jk k kvs : jfind k (Jk kvs) = oJ (find_field k kvs).
Proof. induction kvs as [|[k0 v0] t IH]; cbn; auto. destruct (String.eqb k0 k); auto. Qed.

Lemma jkeys_Jk kvs : jkeys (Jk kvs) = keys kvs.
Proof. unfold jkeys, Jk, keys. rewrite map_map. reflexivity. Qed.

Lemma jis_delete_Jk kvs : jis_delete (Jk kvs) = is_delete kvs.
Proof.
  unfold jis_delete, is_delete. change "$patch" with smp_key. rewrite jfind_Jk.
  destruct (find_field smp_key kvs) as [[t s v| |]|]; cbn; auto.
Qed.

Lemma quote11_json nonstr v : tagged v = true -> to_json (quote11 nonstr v) = to_json v.
Proof.
  destruct v as [t s x| |]; cbn; auto. intros Ht.
  destruct s; auto. destruct t; auto; try discriminate. destruct (nonstr x); reflexivity.
Qed.

(* the functions smp_spec builds for the fields of a patch mapping *)
Definition jstrip (el : bool) (l : list (string * json)) : list (string * json) :=
  filter (fun kv => negb (jskip el (fst kv))) l.

Definition spec_fs (pk : list (string * json)) : list (string * (option json -> option json)) :=
  map (fun kv => (fst kv, smp_spec (snd kv))) pk.

Lemma jassoc_spec_fs k pk : jassoc k (spec_fs pk) = option_map smp_spec (jfind k pk).
Proof. induction pk as [|[k0 v0] t IH]; cbn; auto. destruct (String.eqb k0 k); auto. Qed.

Lemma fst_spec_fs pk : map fst (spec_fs pk) = jkeys pk.
Proof. unfold spec_fs, jkeys. rewrite map_map. reflexivity. Qed.

Lemma smp_spec_obj pk tv :
  jis_delete pk = false -> jdir_is "replace" pk = false ->
  smp_spec (JObj pk) tv = match tv with
                          | Some (JObj tk) => Some (JObj (jmerge (spec_fs (jstrip (jelides pk) pk)) tk))
                          | _ => jadd (JObj pk)
                          end.
Proof.
  intros H Hr. cbn [smp_spec]. rewrite H, Hr. cbv zeta.
  destruct tv as [[| tk |]|]; try reflexivity. f_equal. f_equal. f_equal.
  generalize (jelides pk). intros el. clear. induction pk as [|[k v] t IH]; [reflexivity|].
  cbn [jstrip filter fst]. destruct (jskip el k); cbn [negb]; [exact IH|].
  cbn [spec_fs map fst snd]. f_equal. exact IH.
Qed.

Lemma smp_spec_replace pk tv :
  jis_delete pk = false -> jdir_is "replace" pk = true -> smp_spec (JObj pk) tv = jadd (JObj pk).
Proof. intros H Hr. cbn [smp_spec]. rewrite H, Hr. reflexivity. Qed.

Definition jadd_kvs (l : list (string * json)) : list (string * json) :=
  flat_map (fun kv => jentry (fst kv) (jadd (snd kv))) l.
Definition jnorm_kvs (l : list (string * json)) : list (string * json) :=
  flat_map (fun kv => jentry (fst kv) (jnorm (snd kv))) l.

Lemma jadd_obj pk : jis_delete pk = false -> jadd (JObj pk) = Some (JObj (jadd_kvs (jstrip (jelides pk) pk))).
Proof.
  intros H. cbn [jadd]. rewrite H. f_equal. f_equal. unfold jadd_kvs. clear H.
  generalize (jelides pk). intros el.
  induction pk as [|[k v] t IH]; [reflexivity|].
  cbn [jstrip filter fst]. destruct (jskip el k); cbn [negb]; [exact IH|].
  cbn [flat_map fst snd]. f_equal. exact IH.
Qed.
Lemma jnorm_obj tk : jnorm (JObj tk) = Some (JObj (jnorm_kvs tk)).
Proof.
  cbn [jnorm]. f_equal. f_equal. unfold jnorm_kvs.
  induction tk as [|[k v] t IH]; cbn [flat_map fst snd]; auto. rewrite IH. reflexivity.
Qed.

Lemma jstrip_false l : jstrip false l = l.
Proof. unfold jstrip, jskip. cbn [andb negb]. induction l; cbn; congruence. Qed.

Lemma jdir_is_Jk d kvs :
  jdir_is d (Jk kvs) = match find_field smp_key kvs with
                       | Some (Scalar _ _ v) => String.eqb v d
                       | _ => false
                       end.
Proof.
  unfold jdir_is. change "$patch" with smp_key. rewrite jfind_Jk.
  destruct (find_field smp_key kvs) as [[t s v| |]|]; reflexivity.
Qed.

Lemma Jk_remove_first k kvs :
  nodupk kvs -> Jk (remove_first k kvs) = filter (fun kv => negb (String.eqb (fst kv) k)) (Jk kvs).
Proof.
  unfold nodupk. induction kvs as [|[k0 v0] t IH]; [reflexivity|]. intros H. inversion H as [|? ? Hn Hd]; subst.
  cbn [remove_first Jk map filter fst]. destruct (String.eqb k0 k) eqn:E; cbn [negb].
  - apply String.eqb_eq in E. subst. clear IH.
    assert (G : forall l, ~ In k (keys l) -> Jk l = filter (fun kv => negb (String.eqb (fst kv) k)) (Jk l)).
    { induction l as [|[k1 v1] l' IHl]; [reflexivity|]. intros Hk. cbn [Jk map filter fst].
      destruct (String.eqb k1 k) eqn:E1; cbn [negb].
      - apply String.eqb_eq in E1. subst. exfalso. apply Hk. left; reflexivity.
      - f_equal. apply IHl. intros Hi. apply Hk. right; auto. }
    apply G; auto.
  - cbn [Jk map]. f_equal. apply IH; auto.
Qed.

(* a patch mapping of the fragment that is not "$patch: delete": its directive, its elided form, and their JSON views *)
Lemma dir_cases_json pk :
  wfk (Map pk) = true -> dirok (Map pk) = true -> is_delete pk = false ->
  exists ps pk',
    determine_smp (Some (Map pk)) = Ok (ps, Some (Map pk')) /\ (ps = SmpMerge \/ ps = SmpReplace) /\
    find_field smp_key pk' = None /\ nodupk pk' /\
    (forall k, ofrag wfk (find_field k pk') = true /\ ofrag dirok (find_field k pk') = true) /\
    (forall e, In e pk' -> In e pk) /\
    Jk pk' = jstrip (jelides (Jk pk)) (Jk pk) /\
    jdir_is "replace" (Jk pk) = (match ps with SmpReplace => true | _ => false end).
Proof.
  intros Hw Hd Hdel. destruct (wfk_in _ Hw) as [Hnd Hwc]. destruct (dirok_in _ Hd Hdel) as [Hv Hdc].
  unfold dirv in Hv. unfold is_delete in Hdel. cbn [determine_smp].
  unfold jelides. rewrite !jdir_is_Jk.
  destruct (find_field smp_key pk) as [x|] eqn:F.
  - exists (if String.eqb (node_value x) "replace" then SmpReplace else SmpMerge), (remove_first smp_key pk).
    split; [|split; [|split; [|split; [|split; [|split; [|split]]]]]].
    + unfold smp_of_value. rewrite Hdel.
      destruct (String.eqb (node_value x) "replace") eqn:E1; [reflexivity|].
      cbn [orb] in Hv. rewrite Hv. reflexivity.
    + destruct (String.eqb (node_value x) "replace"); auto.
    + apply find_remove_first_nodup; auto.
    + apply nodup_remove_first; auto.
    + intros k. destruct (find_field k (remove_first smp_key pk)) eqn:Fk; cbn [ofrag]; auto.
      apply find_field_In in Fk. apply in_remove_first in Fk. split; eauto.
    + intros e. apply in_remove_first.
    + rewrite Jk_remove_first by auto.
      destruct x as [t s v| |]; cbn [node_value] in Hv |- *; try discriminate.
      unfold jstrip, jskip. rewrite Hv. cbn [andb]. reflexivity.
    + destruct x as [t s v| |]; cbn [node_value] in Hv |- *; try discriminate.
      destruct (String.eqb v "replace"); reflexivity.
  - exists SmpMerge, pk. split; [reflexivity|]. split; auto. split; auto. split; auto. split.
    { intros k. destruct (find_field k pk) eqn:Fk; cbn [ofrag]; auto. apply find_field_In in Fk. split; eauto. }
    split; auto. split; [|reflexivity]. cbn [orb]. rewrite jstrip_false. reflexivity.
Qed.

Lemma tagged_in kvs : tagged (Map kvs) = true -> forall k v, In (k, v) kvs -> tagged v = true.
Proof.
  cbn [tagged]. induction kvs as [|[k0 v0] t IH]; cbn; intros H k v F; [contradiction|].
  apply Bool.andb_true_iff in H. destruct H as [Ha Hb].
  destruct F as [F|F]; [inv F; auto|eauto].
Qed.

(* ---------- the JSON view of the exact shape of walkMap's loop ---------- *)
Section JShape.
  Variable nonstr : string -> bool.

  Lemma Jk_app a b : Jk (a ++ b) = Jk a ++ Jk b.
  Proof. unfold Jk. apply map_app. Qed.

  Lemma Jk_opt_entry k o : Jk (opt_entry k o) = jentry k (oJ o).
  Proof. destruct o; reflexivity. Qed.

  Lemma find_of_in kvs : nodupk kvs -> forall kv, In kv kvs -> find_field (fst kv) kvs = Some (snd kv).
  Proof.
    unfold nodupk. induction kvs as [|[k v] t IH]; intros Hnd kv Hin; [destruct Hin|].
    inv Hnd. destruct Hin as [<-|Hin]; cbn.
    - rewrite String.eqb_refl. reflexivity.
    - destruct (String.eqb k (fst kv)) eqn:E.
      + apply String.eqb_eq in E. subst. exfalso. apply H1. apply (in_map fst) in Hin. exact Hin.
      + apply IH; auto.
  Qed.

  Lemma Jk_shape names R kvs (F : string -> option json -> option json) :
    nodupk kvs ->
    (forall k, In k names -> oJ (fval nonstr (R k) (find_field k kvs)) = F k (oJ (find_field k kvs))) ->
    Jk (shape nonstr names R kvs) =
    flat_map (fun kv => if str_in (fst kv) names then jentry (fst kv) (F (fst kv) (Some (to_json (snd kv))))
                        else [(fst kv, to_json (snd kv))]) kvs
    ++ flat_map (fun k => if str_in k (keys kvs) then [] else jentry k (F k None)) names.
  Proof.
    intros Hnd HF. unfold shape. rewrite Jk_app. f_equal.
    - unfold upd_part. pose proof (find_of_in kvs Hnd) as Hall.
      assert (Hsub : forall kv, In kv kvs -> In kv kvs) by auto.
      revert Hsub. generalize kvs at 1 3 4. intros l. induction l as [|[k v] t IH]; intros Hsub; cbn [flat_map fst snd]; auto.
      rewrite Jk_app. rewrite IH by (intros kv Hk; apply Hsub; right; auto). f_equal.
      destruct (str_in k names) eqn:E; [|reflexivity].
      rewrite Jk_opt_entry. apply str_in_iff in E.
      pose proof (HF k E) as H. pose proof (Hall (k, v) (Hsub _ (or_introl eq_refl))) as Hf. cbn [fst snd] in Hf.
      rewrite Hf in H. cbn [oJ option_map] in H. rewrite H. reflexivity.
    - unfold new_part. induction names as [|k t IH]; cbn [flat_map]; auto.
      rewrite Jk_app. rewrite IH by (intros; apply HF; right; auto). f_equal.
      destruct (str_in k (keys kvs)) eqn:E; [reflexivity|].
      rewrite Jk_opt_entry. pose proof (HF k (or_introl eq_refl)) as H.
      rewrite find_in_keys in E. destruct (find_field k kvs); [discriminate|]. cbn in H. rewrite H. reflexivity.
  Qed.

  Lemma flat_map_map {A B C} (f : B -> list C) (g : A -> B) l :
    flat_map f (map g l) = flat_map (fun x => f (g x)) l.
  Proof. induction l; cbn; auto. rewrite IHl. reflexivity. Qed.

  Lemma flat_map_nil {A B} (f : A -> list B) l : (forall x, In x l -> f x = []) -> flat_map f l = [].
  Proof. induction l; cbn; intros H; auto. rewrite H, IHl; auto. Qed.
End JShape.

Section Refine.
  Context {Sc : Type}.
  Variable sch : schema Sc.
  Variable opts : wopts.
  Variable nonstr : string -> bool.
  Hypothesis Hatomic : atomic_lists sch opts.

  Notation W := (walk sch opts nonstr merger).

  (* what the reference semantics says about one field *)
  Definition spec_goal (alias : option nat) (tv pv : option node) : option json :=
    match alias with
    | None => smp_field (oJ pv) (oJ tv)
    | Some _ => match oJ pv with Some p => jadd p | None => None end
    end.

  Lemma implicit_null_unmentioned f sc s r :
    W (S f) sc None [Some (Scalar TNull s ""); None] = Ok r -> fval nonstr r (Some (Scalar TNull s "")) = None.
  Proof. intros H. cbn in H. unfold walk_map in H. cbn in H. inv H. reflexivity. Qed.

  Lemma none_none f sc alias r : alias = None \/ alias = Some 1 -> W (S f) sc alias [None; None] = Ok r -> r = None.
  Proof. intros [-> | ->] H; cbn in H; unfold walk_map in H; cbn in H; inv H; reflexivity. Qed.

  (* ---- the structural case ---- *)
  Lemma spec_core f sc0 alias' srcs d0 names pv d :
    (forall sc alias tv pv r,
        W f sc alias [tv; pv] = Ok r -> aliasing alias tv pv ->
        ofrag wfk tv = true -> ofrag wfk pv = true -> ofrag dirok pv = true ->
        ofrag tagged tv = true -> ofrag tagged pv = true ->
        oJ (fval nonstr r tv) = spec_goal alias tv pv) ->
    NoDup names -> nodupk d0 ->
    (forall k, ofrag wfk (find_field k d0) = true /\ ofrag tagged (find_field k d0) = true) ->
    (forall k, ofrag wfk (field_of k pv) = true /\ ofrag dirok (field_of k pv) = true /\
               ofrag tagged (field_of k pv) = true) ->
    (forall k, fvs alias' srcs k (find_field k d0) = [find_field k d0; field_of k pv] /\
               aliasing alias' (find_field k d0) (field_of k pv)) ->
    walk_fields sch nonstr (W f) sc0 alias' srcs names (Map d0) = Ok d ->
    exists kvs', d = Map kvs' /\
      Jk kvs' =
      flat_map (fun kv => if str_in (fst kv) names
                          then jentry (fst kv) (spec_goal alias' (Some (snd kv)) (field_of (fst kv) pv))
                          else [(fst kv, to_json (snd kv))]) d0
      ++ flat_map (fun k => if str_in k (keys d0) then [] else jentry k (spec_goal alias' None (field_of k pv))) names.
  Proof.
    intros IH Hnd Hnk Hsub Hpsub Hfv Hw.
    destruct (walk_fields_shape_inv sch nonstr _ _ _ _ names Hnd _ _ Hnk Hw) as [R [HR ->]].
    eexists. split; [reflexivity|].
    rewrite (Jk_shape nonstr names R d0
               (fun k tvj => match alias' with
                             | None => smp_field (oJ (field_of k pv)) tvj
                             | Some _ => match oJ (field_of k pv) with Some p => jadd p | None => None end
                             end)); auto.
    intros k Hk. specialize (HR k Hk). destruct (Hfv k) as [Efv Hal]. rewrite Efv in HR.
    destruct (Hpsub k) as [Hp1 [Hp2 Hp3]]. destruct (Hsub k) as [Ht1 Ht2].
    rewrite (IH _ _ _ _ _ HR Hal Ht1 Hp1 Hp2 Ht2 Hp3). unfold spec_goal. destruct alias'; reflexivity.
  Qed.

  Lemma str_in_names_dest tk pv kv : In kv tk -> str_in (fst kv) (field_names [Some (Map tk); pv]) = true.
  Proof.
    intros Hin. apply str_in_iff. apply (in_names_cover tk pv). left. apply (in_map fst) in Hin. exact Hin.
  Qed.

  Lemma names_dup pk : forall k, In k (field_names [Some (Map pk); Some (Map pk)]) -> str_in k (keys pk) = true.
  Proof.
    intros k Hk. apply in_field_names in Hk. destruct Hk as [kvs [Hs Hkk]].
    assert (kvs = pk) by (destruct Hs as [E|[E|[]]]; inv E; auto). subst. apply str_in_iff; auto.
  Qed.

  (* added / aliased mapping: the entries of the patch mapping, each with its nulls dropped *)
  Lemma added_shape pk names (Hn : forall k, In k names -> str_in k (keys pk) = true)
        (Hall : forall kv, In kv pk -> str_in (fst kv) names = true) :
    nodupk pk ->
    flat_map (fun kv => if str_in (fst kv) names
                        then jentry (fst kv) (spec_goal (Some 1) (Some (snd kv)) (field_of (fst kv) (Some (Map pk))))
                        else [(fst kv, to_json (snd kv))]) pk
    ++ flat_map (fun k => if str_in k (keys pk) then [] else jentry k (spec_goal (Some 1) None (field_of k (Some (Map pk))))) names
    = jadd_kvs (Jk pk).
  Proof.
    intros Hnd. rewrite (flat_map_nil _ names), app_nil_r.
    2:{ intros k Hk. rewrite (Hn k Hk). reflexivity. }
    unfold jadd_kvs, Jk. rewrite flat_map_map. apply flat_map_ext_in. intros kv Hin.
    rewrite (Hall kv Hin). cbn [fst snd]. unfold spec_goal. cbn [field_of].
    rewrite (find_of_in pk Hnd kv Hin). reflexivity.
  Qed.

  Lemma sub_of_map kvs : wfk (Map kvs) = true -> tagged (Map kvs) = true ->
    forall k, ofrag wfk (find_field k kvs) = true /\ ofrag tagged (find_field k kvs) = true.
  Proof.
    intros Hw Ht k. destruct (wfk_map _ Hw) as [_ H1]. split; apply ofrag_field; auto. apply tagged_map; auto.
  Qed.

  Lemma refine_walk f : forall sc alias tv pv r,
      W f sc alias [tv; pv] = Ok r -> aliasing alias tv pv ->
      ofrag wfk tv = true -> ofrag wfk pv = true -> ofrag dirok pv = true ->
      ofrag tagged tv = true -> ofrag tagged pv = true ->
      oJ (fval nonstr r tv) = spec_goal alias tv pv.
  Proof.
    induction f as [|f IH]; intros sc alias tv pv r H Hal Hwt Hwp Hnp Htt Htp; [discriminate|].
    assert (Ha : alias = None \/ alias = Some 1) by (destruct Hal as [|[? _]]; auto).
    destruct pv as [[pt ps px| pk |pes]|].
    - (* scalar in the patch *)
      destruct (is_null (Scalar pt ps px)) eqn:En.
      + destruct pt; try discriminate.
        rewrite (null_patch_clears sch opts nonstr Hatomic _ _ _ _ _ _ _ Ha H).
        destruct Ha as [-> | ->]; reflexivity.
      + destruct (scalar_patch sch opts nonstr _ _ _ _ _ _ _ _ Ha En H) as [sX ->].
        cbn in Htp. destruct pt; try discriminate; destruct Ha as [-> | ->]; reflexivity.
    - (* mapping in the patch *)
      cbn [ofrag] in Hwp, Hnp, Htp.
      destruct (is_delete pk) eqn:Ed.
      { rewrite (delete_patch_clears sch opts nonstr _ _ _ _ _ _ Ha Ed H).
        unfold spec_goal, smp_field, oJ. cbn [option_map]. rewrite to_json_map.
        destruct Ha as [-> | ->]; cbn [smp_spec jadd]; rewrite jis_delete_Jk, Ed; reflexivity. }
      destruct (dir_cases_json pk Hwp Hnp Ed) as [dps [pk' [Hdet [Hps [Hpp [Hnk' [Hch [Hin' [EJ Erep]]]]]]]]].
      assert (Hjd : jis_delete (Jk pk) = false) by (rewrite jis_delete_Jk; auto).
      (* the JSON side, in terms of the elided mapping *)
      assert (Jadd : jadd (JObj (Jk pk)) = Some (JObj (jadd_kvs (Jk pk')))).
      { rewrite jadd_obj by auto. rewrite EJ. reflexivity. }
      assert (Hpsub : forall k, ofrag wfk (field_of k (Some (Map pk'))) = true /\
                                ofrag dirok (field_of k (Some (Map pk'))) = true /\
                                ofrag tagged (field_of k (Some (Map pk'))) = true).
      { intros k. cbn [field_of]. destruct (Hch k) as [C1 C2]. split; auto. split; auto.
        destruct (find_field k pk') eqn:Fk; cbn [ofrag]; auto.
        apply find_field_In in Fk. apply Hin' in Fk. eapply tagged_in; eauto. }
      assert (Hsubp : forall k, ofrag wfk (find_field k pk') = true /\ ofrag tagged (find_field k pk') = true).
      { intros k. destruct (Hpsub k) as [C1 [_ C3]]. cbn [field_of] in C1, C3. auto. }
      (* the patch mapping itself becomes the walked destination: added, replacing or aliased *)
      assert (Hself : forall sc0 a b d,
                 walk_fields sch nonstr (W f) sc0 (Some 1) [a; b]
                             (field_names [Some (Map pk'); Some (Map pk')]) (Map pk') = Ok d ->
                 exists kvs', d = Map kvs' /\ Jk kvs' = jadd_kvs (Jk pk')).
      { intros sc0 a b d Ew.
        eapply (spec_core f _ (Some 1) _ pk' _ (Some (Map pk')) d IH) in Ew;
          [ | apply nodup_sort_uniq | exact Hnk' | exact Hsubp | exact Hpsub
            | intros k; rewrite fvs_alias1; split; [reflexivity|]; right; split; reflexivity ].
        destruct Ew as [kvs' [-> Ej]]. exists kvs'. split; auto.
        rewrite added_shape in Ej; auto; [apply names_dup|intros kv Hin; apply str_in_names_dest; auto]. }
      destruct tv as [[tt ts tx| tk |tes]|].
      + destruct (is_null (Scalar tt ts tx)) eqn:En.
        2:{ exfalso. destruct tt; try discriminate; destruct Ha as [-> | ->]; cbn in H; discriminate. }
        assert (alias = None) as -> by (destruct Hal as [|[_ E]]; auto; discriminate).
        rewrite (dlevel_add sch opts nonstr f sc _ pk dps pk') in H by auto.
        match type of H with bind ?X _ = _ => destruct X as [d| | |] eqn:Ew; cbn in H; try discriminate end.
        inv H. destruct (Hself _ _ _ _ Ew) as [kvs' [-> Ej]].
        destruct tt; try discriminate.
        cbn [fval w_node w_keep w_inplace is_null andb with_style style_of oJ option_map].
        rewrite to_json_map, Ej. unfold spec_goal, smp_field, oJ. cbn [option_map]. rewrite to_json_map.
        destruct Hps as [-> | ->].
        * rewrite smp_spec_obj by auto. cbn [to_json]. rewrite Jadd. reflexivity.
        * rewrite smp_spec_replace by auto. rewrite Jadd. reflexivity.
      + destruct Hal as [-> | [-> E]].
        * destruct Hps as [-> | ->].
          -- rewrite (dlevel_merge sch opts nonstr f sc tk pk pk' Hdet) in H.
             match type of H with bind ?X _ = _ => destruct X as [d| | |] eqn:Ew; cbn in H; try discriminate end.
             inv H. destruct (wfk_map _ Hwt) as [Hnkt _].
             eapply (spec_core f _ None _ tk _ (Some (Map pk')) d IH) in Ew;
               [ | apply nodup_sort_uniq | exact Hnkt | apply sub_of_map; auto | exact Hpsub
                 | intros k; rewrite fvs_none; split; [reflexivity|left; reflexivity] ].
             destruct Ew as [kvs' [-> Ej]].
             cbn [fval w_node w_keep w_inplace is_null andb quote11 oJ option_map].
             rewrite to_json_map, Ej. unfold spec_goal, smp_field, oJ. cbn [option_map]. rewrite !to_json_map.
             rewrite smp_spec_obj by auto. rewrite <- EJ. f_equal. f_equal. unfold jmerge. f_equal.
             ++ change (Jk tk) with (map (fun kv : string * node => (fst kv, to_json (snd kv))) tk).
                rewrite flat_map_map. apply flat_map_ext_in. intros kv Hin.
                rewrite (str_in_names_dest tk (Some (Map pk')) kv Hin). cbn [fst snd].
                rewrite jassoc_spec_fs, jfind_Jk. unfold spec_goal, smp_field, oJ. cbn [field_of option_map].
                destruct (find_field (fst kv) pk'); reflexivity.
             ++ rewrite fst_spec_fs, !jkeys_Jk.
                replace (field_names [Some (Map tk); Some (Map pk')]) with (sort_uniq (keys tk ++ keys pk'))
                  by (unfold field_names; cbn; rewrite app_nil_r; reflexivity).
                apply flat_map_ext_in. intros k Hk.
                destruct (str_in k (keys tk)); [reflexivity|].
                rewrite jassoc_spec_fs, jfind_Jk. unfold spec_goal, smp_field, oJ. cbn [field_of option_map].
                destruct (find_field k pk'); reflexivity.
          -- rewrite (dlevel_repl sch opts nonstr f sc tk pk pk' Hdet) in H.
             match type of H with bind ?X _ = _ => destruct X as [d| | |] eqn:Ew; cbn in H; try discriminate end.
             inv H. destruct (Hself _ _ _ _ Ew) as [kvs' [-> Ej]].
             cbn [fval w_node w_keep w_inplace is_null andb with_style style_of oJ option_map].
             rewrite to_json_map, Ej. unfold spec_goal, smp_field, oJ. cbn [option_map]. rewrite !to_json_map.
             rewrite smp_spec_replace by auto. rewrite Jadd. reflexivity.
        * inv E. rewrite (dlevel_dup sch opts nonstr f sc pk dps pk') in H by auto.
          match type of H with bind ?X _ = _ => destruct X as [d| | |] eqn:Ew; cbn in H; try discriminate end.
          inv H. destruct (Hself _ _ _ _ Ew) as [kvs' [-> Ej]].
          cbn [fval w_node w_keep w_inplace is_null andb quote11 oJ option_map].
          rewrite to_json_map, Ej. unfold spec_goal, oJ. cbn [option_map]. rewrite to_json_map.
          rewrite Jadd. reflexivity.
      + exfalso. destruct Ha as [-> | ->]; cbn in H; discriminate.
      + assert (alias = None) as -> by (destruct Hal as [|[_ E]]; auto; discriminate).
        rewrite (dlevel_add sch opts nonstr f sc _ pk dps pk') in H by auto.
        match type of H with bind ?X _ = _ => destruct X as [d| | |] eqn:Ew; cbn in H; try discriminate end.
        inv H. destruct (Hself _ _ _ _ Ew) as [kvs' [-> Ej]].
        cbn [fval w_node w_keep w_inplace is_null andb quote11 oJ option_map].
        rewrite to_json_map, Ej. unfold spec_goal, smp_field, oJ. cbn [option_map]. rewrite to_json_map.
        destruct Hps as [-> | ->].
        * rewrite smp_spec_obj by auto. rewrite Jadd. reflexivity.
        * rewrite smp_spec_replace by auto. rewrite Jadd. reflexivity.
    - (* list in the patch *)
      rewrite (seq_patch sch opts nonstr Hatomic _ _ _ _ _ _ Ha H). destruct Ha as [-> | ->]; reflexivity.
    - (* nothing in the patch *)
      destruct tv as [[tt ts tx| tk |tes]|].
      + assert (alias = None) as -> by (destruct Hal as [|[_ E]]; auto; discriminate).
        destruct (implicit_null (Scalar tt ts tx)) eqn:Ei.
        * destruct tt; try discriminate. cbn in Ei. apply String.eqb_eq in Ei. subst tx.
          rewrite (implicit_null_unmentioned _ _ _ _ H). reflexivity.
        * rewrite (leaf_unmentioned sch opts nonstr Hatomic _ _ (Scalar tt ts tx) _ eq_refl Ei H).
          unfold oJ. cbn [option_map]. rewrite quote11_json by exact Htt.
          unfold spec_goal, smp_field, oJ. cbn [option_map to_json].
          cbn in Htt. destruct tt; try discriminate; try reflexivity. cbn in Ei. cbn [jnorm]. rewrite Ei. reflexivity.
      + assert (alias = None) as -> by (destruct Hal as [|[_ E]]; auto; discriminate).
        rewrite (level_merge sch opts nonstr) in H by exact I.
        match type of H with bind ?X _ = _ => destruct X as [d| | |] eqn:Ew; cbn in H; try discriminate end.
        inv H.
        destruct (wfk_map _ Hwt) as [Hnkt _].
        eapply (spec_core f _ None _ tk _ None d IH) in Ew;
          [ | apply nodup_sort_uniq | exact Hnkt | apply sub_of_map; auto | intros k; repeat split
            | intros k; rewrite fvs_none; split; [reflexivity|left; reflexivity] ].
        destruct Ew as [kvs' [-> Ej]].
        cbn [fval w_node w_keep w_inplace is_null andb quote11 oJ option_map].
        rewrite to_json_map, Ej. unfold spec_goal, smp_field, oJ. cbn [option_map]. rewrite to_json_map, jnorm_obj.
        f_equal. f_equal.
        rewrite (flat_map_nil _ (field_names [Some (Map tk); None])), app_nil_r.
        2:{ intros k Hk. apply in_field_names in Hk. destruct Hk as [kvs [Hs Hkk]].
            assert (kvs = tk) by (destruct Hs as [E|[E|[]]]; inv E; auto). subst.
            apply str_in_iff in Hkk. rewrite Hkk. reflexivity. }
        unfold jnorm_kvs, Jk. rewrite flat_map_map. apply flat_map_ext_in. intros kv Hin.
        rewrite (str_in_names_dest tk None kv Hin). reflexivity.
      + assert (alias = None) as -> by (destruct Hal as [|[_ E]]; auto; discriminate).
        rewrite (leaf_unmentioned sch opts nonstr Hatomic _ _ (Seq tes) _ eq_refl eq_refl H). reflexivity.
      + rewrite (none_none _ _ _ _ Ha H). destruct Ha as [-> | ->]; reflexivity.
  Qed.
End Refine.

Definition spec_fragment (p t : node) : bool := idem_fragment_dir p t && tagged p && tagged t.

Section RefineTop.
  Context {Sc : Type}.
  Variable sch : schema Sc.
  Variable opts : wopts.
  Variable nonstr : string -> bool.
  Hypothesis Hatomic : atomic_lists sch opts.

  Theorem merge2_refines_spec p t r :
    spec_fragment p t = true ->
    merge2 sch opts nonstr (Some p) (Some t) = Ok (Some r) ->
    Some (to_json r) = smp_spec (to_json p) (Some (to_json t)).
  Proof.
    unfold spec_fragment, idem_fragment_dir. intros Hf H.
    repeat rewrite Bool.andb_true_iff in Hf. destruct Hf as [[[[[[[Hmp Hmt] Hwt] Hwp] Hnp] Hdel] Htp] Htt].
    destruct p as [| pk |]; try discriminate. destruct t as [| tk |]; try discriminate.
    unfold merge2, walk_top in H.
    destruct (walk sch opts nonstr merger (fuel_of [Some (Map tk); Some (Map pk)]) None None
                [Some (Map tk); Some (Map pk)]) as [ro| | |] eqn:E; cbn in H; try discriminate.
    inv H.
    pose proof (refine_walk sch opts nonstr Hatomic _ _ _ _ _ _ E (or_introl eq_refl) Hwt Hwp Hnp Htt Htp) as Hr.
    apply Bool.negb_true_iff in Hdel.
    destruct (dir_cases pk Hwp Hnp Hdel) as [dps [pk' [Hdet [Hps [Hpp [Hnk' Hch]]]]]].
    destruct (wfk_map _ Hwt) as [Hnk _].
    assert (Hm : exists kvs', r = Map kvs' /\ fval nonstr ro (Some (Map tk)) = Some (Map kvs')).
    { unfold fuel_of in E.
      set (n0 := fold_right (fun (s : option node) (a : nat) => depth_o s + a) 0 [Some (Map tk); Some (Map pk)]) in E.
      destruct Hps as [-> | ->].
      - rewrite (dlevel_merge sch opts nonstr n0 None tk pk pk' Hdet) in E.
        match type of E with bind ?X _ = _ => destruct X as [d| | |] eqn:Ew; cbn [bind] in E; try discriminate end.
        inv E. cbn in H1. inv H1.
        destruct (walk_fields_map sch nonstr _ _ _ _ _ (nodup_sort_uniq _) _ _ Hnk Ew) as [kvs' [-> _]].
        exists kvs'. split; reflexivity.
      - rewrite (dlevel_repl sch opts nonstr n0 None tk pk pk' Hdet) in E.
        match type of E with bind ?X _ = _ => destruct X as [d| | |] eqn:Ew; cbn [bind] in E; try discriminate end.
        inv E. cbn in H1. inv H1.
        destruct (walk_fields_map sch nonstr _ _ _ _ _ (nodup_sort_uniq _) _ _ Hnk' Ew) as [kvs' [-> _]].
        exists kvs'. split; reflexivity. }
    destruct Hm as [kvs' [-> Hfv]]. rewrite Hfv in Hr.
    unfold spec_goal, smp_field, oJ in Hr. cbn [option_map] in Hr. exact Hr.
  Qed.
End RefineTop.

(* non-vacuity, on the documents of the idempotence example *)
Example refines_example :
  spec_fragment idem_p idem_t = true /\
  exists r, merge2 schemaless kustomize_opts (fun s => String.eqb s "no") (Some idem_p) (Some idem_t) = Ok (Some r) /\
            Some (to_json r) = smp_spec (to_json idem_p) (Some (to_json idem_t)) /\
            smp_spec (to_json idem_p) (Some (to_json idem_t)) =
            Some (JObj [("kind", JAtom TStr false "Foo");
                        ("spec", JObj [("b", JAtom TStr false "no");
                                       ("m", JObj [("x", JAtom TStr false "7"); ("y", JAtom TInt false "2")]);
                                       ("l", JArr [JAtom TStr false "q"; JAtom TStr false "r"]);
                                       ("n", JObj [("k", JAtom TBool false "true")])])]).
Proof. split; [reflexivity|]. eexists. split; [vm_compute; reflexivity|]. split; vm_compute; reflexivity. Qed.

(* non-vacuity for the directives, on the documents of the idempotence example with directives *)
Example refines_dir_example :
  spec_fragment idem_dir_p idem_dir_t = true /\
  exists r, merge2 schemaless kustomize_opts (fun s => String.eqb s "no") (Some idem_dir_p) (Some idem_dir_t) = Ok (Some r) /\
            Some (to_json r) = smp_spec (to_json idem_dir_p) (Some (to_json idem_dir_t)) /\
            smp_spec (to_json idem_dir_p) (Some (to_json idem_dir_t)) =
            Some (JObj [("kind", JAtom TStr false "Foo");
                        ("spec", JObj [("m", JObj [("x", JAtom TStr false "7")]);
                                       ("g", JObj [("u", JAtom TInt false "5"); ("v", JAtom TStr false "no")]);
                                       ("n", JObj [("k", JAtom TBool false "true")])])]).
Proof. split; [reflexivity|]. eexists. split; [vm_compute; reflexivity|]. split; vm_compute; reflexivity. Qed.
