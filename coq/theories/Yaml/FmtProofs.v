(* Proofs about KV.Yaml.Fmt (the canonical formatter).  The model file contains no proofs. *)
From KV Require Import Yaml.Fmt Yaml.FmtSort Yaml.FmtTablesRef Yaml.Resolve11 Yaml.Resolve11Proofs.
From Coq Require Import Permutation Sorted.

Ltac inv H := inversion H; subst; clear H.

(* ---------- the res monad ---------- *)

Lemma bind_ok {A B} (r : res A) (f : A -> res B) b :
  bind r f = Ok b -> exists a, r = Ok a /\ f a = Ok b.
Proof. destruct r; cbn; intros; try discriminate. eauto. Qed.

Lemma mapM_ok {A B} (f : A -> res B) l l' :
  mapM f l = Ok l' <-> Forall2 (fun x y => f x = Ok y) l l'.
Proof.
  revert l'. induction l as [|x t IH]; intros l'; cbn.
  - split; intros H; inv H; auto.
  - split.
    + intros H. apply bind_ok in H. destruct H as [y [Hy H]].
      apply bind_ok in H. destruct H as [ys [Hys H]]. inv H.
      constructor; auto. apply IH. exact Hys.
    + intros H. inv H. rewrite H2. cbn. apply IH in H4. rewrite H4. reflexivity.
Qed.

(* ---------- list helpers ---------- *)

Lemma Forall2_Forall_r {A B} (R : A -> B -> Prop) (Q : A -> Prop) (T : B -> Prop) l l' :
  Forall2 R l l' -> Forall Q l -> (forall a b, Q a -> R a b -> T b) -> Forall T l'.
Proof.
  intros H. induction H; intros HQ HT; constructor; inv HQ; eauto.
Qed.

Lemma Forall2_combine {A B C} (R1 : A -> B -> Prop) (R2 : A -> C -> Prop) l lb lc :
  Forall2 R1 l lb -> Forall2 R2 l lc ->
  Forall2 (fun a d => R1 a (fst d) /\ R2 a (snd d)) l (combine lb lc).
Proof.
  intros H. revert lc. induction H; intros lc H2; inv H2; cbn; constructor; auto.
Qed.

Lemma Forall2_same {A B} (f : B -> A) (R : A -> B -> Prop) l :
  Forall (fun d => R (f d) d) l -> Forall2 R (map f l) l.
Proof. induction 1; cbn; constructor; auto. Qed.

Lemma combine_fst_snd {A B} (l : list (A * B)) : combine (map fst l) (map snd l) = l.
Proof. induction l as [|[a b] t IH]; cbn; congruence. Qed.

Lemma Forall_perm {A} (P : A -> Prop) l l' : Permutation l l' -> Forall P l -> Forall P l'.
Proof.
  intros Hp H. rewrite Forall_forall in *. intros x Hx. apply H.
  eapply Permutation_in; [apply Permutation_sym; eauto|auto].
Qed.

Lemma Forall2_length' {A B} (R : A -> B -> Prop) l l' : Forall2 R l l' -> List.length l = List.length l'.
Proof. induction 1; cbn; auto. Qed.

(* ---------- headers ---------- *)

Lemma set_style_style h a : h_style (set_style h a) = a. Proof. reflexivity. Qed.
Lemma set_style_tag h a : h_tag (set_style h a) = h_tag h. Proof. reflexivity. Qed.
Lemma set_tag_tag h t : h_tag (set_tag h t) = t. Proof. reflexivity. Qed.
Lemma set_tag_style h t : h_style (set_tag h t) = h_style h. Proof. reflexivity. Qed.
Lemma set_style_twice h a b : set_style (set_style h a) b = set_style h b. Proof. reflexivity. Qed.
Lemma set_tag_twice h a b : set_tag (set_tag h a) b = set_tag h b. Proof. reflexivity. Qed.
Lemma set_style_same h : set_style h (h_style h) = h. Proof. destruct h; reflexivity. Qed.
Lemma set_tag_same h : set_tag h (h_tag h) = h. Proof. destruct h; reflexivity. Qed.

(* no OpenAPI type maps to the null tag (table generated from compatibility.go) *)
Lemma Gen_type_to_tag_not_null :
  forallb (fun p => negb (String.eqb (snd p) node_tag_null)) type_to_tag = true.
Proof. vm_compute. reflexivity. Qed.

Lemma type_to_tag_not_null t tg : assoc_str t type_to_tag = Some tg -> String.eqb tg node_tag_null = false.
Proof.
  pose proof Gen_type_to_tag_not_null as G. revert G.
  induction type_to_tag as [|[k x] l IH]; cbn; [discriminate|].
  rewrite andb_true_iff. intros [G1 G2].
  destruct (String.eqb t k).
  - intros H; inv H. destruct (String.eqb tg node_tag_null); auto; discriminate.
  - auto.
Qed.

Section WithOracle.
  Variable nonstr : string -> bool.
  Variable hastype : string -> string -> bool.

  (* ---------- FormatNonStringStyle ---------- *)

  Lemma fmt_nonstring_tail_idem t h :
    fmt_nonstring_tail t (fmt_nonstring_tail t h) = fmt_nonstring_tail t h.
  Proof.
    unfold fmt_nonstring_tail.
    destruct (String.eqb (h_tag h) node_tag_null) eqn:E.
    - rewrite set_style_tag, E. reflexivity.
    - destruct (assoc_str t type_to_tag) as [tg|] eqn:A.
      + rewrite set_tag_tag, (type_to_tag_not_null _ _ A). reflexivity.
      + rewrite E. reflexivity.
  Qed.

  Lemma fmt_nonstring_tail_quoted t h :
    String.eqb (h_tag h) node_tag_null = false ->
    style_quoted (h_style (fmt_nonstring_tail t h)) = style_quoted (h_style h).
  Proof.
    intros E. unfold fmt_nonstring_tail. rewrite E.
    destruct (assoc_str t type_to_tag); reflexivity.
  Qed.

  Lemma fmt_nonstring_tail_null t h :
    String.eqb (h_tag h) node_tag_null = true -> fmt_nonstring_tail t h = set_style h 0%N.
  Proof. intros E. unfold fmt_nonstring_tail. rewrite E. reflexivity. Qed.

  Lemma fmt_nonstring_tail_tag_null t h :
    String.eqb (h_tag (fmt_nonstring_tail t h)) node_tag_null = String.eqb (h_tag h) node_tag_null.
  Proof.
    unfold fmt_nonstring_tail. destruct (String.eqb (h_tag h) node_tag_null) eqn:E; auto.
    destruct (assoc_str t type_to_tag) as [tg|] eqn:A; auto.
    rewrite set_tag_tag. apply (type_to_tag_not_null _ _ A).
  Qed.

  Lemma style_quoted_double : style_quoted style_double = true. Proof. reflexivity. Qed.
  Lemma style_quoted_zero : style_quoted 0%N = false. Proof. reflexivity. Qed.

  Lemma fmt_nonstring_idem types format h v :
    fmt_nonstring nonstr hastype types format (fmt_nonstring nonstr hastype types format h v) v =
    fmt_nonstring nonstr hastype types format h v.
  Proof.
    unfold fmt_nonstring.
    destruct types as [|t [|t2 ts]]; auto.
    destruct (nonstr v); cbn [negb]; auto.
    destruct (String.eqb t "string" && negb (String.eqb format "int-or-string")) eqn:Es.
    - (* string *)
      set (h1 := if style_quoted (h_style h) then h else set_style h style_double).
      assert (Q1 : style_quoted (h_style h1) = true).
      { subst h1. destruct (style_quoted (h_style h)) eqn:Q; auto. }
      destruct (String.eqb (h_tag h1) node_tag_null) eqn:En.
      + rewrite (fmt_nonstring_tail_null t h1 En). rewrite set_style_style, style_quoted_zero.
        rewrite fmt_nonstring_tail_null by (rewrite !set_style_tag; exact En).
        reflexivity.
      + rewrite (fmt_nonstring_tail_quoted t h1 En), Q1. apply fmt_nonstring_tail_idem.
    - destruct (String.eqb t "boolean" || String.eqb t "integer" || String.eqb t "number") eqn:Eb; auto.
      destruct (hastype v t); cbn [negb]; auto.
      set (h1 := if style_quoted (h_style h) then set_style h 0%N else h).
      assert (Q1 : style_quoted (h_style h1) = false).
      { subst h1. destruct (style_quoted (h_style h)) eqn:Q; auto. }
      destruct (String.eqb (h_tag h1) node_tag_null) eqn:En.
      + rewrite (fmt_nonstring_tail_null t h1 En). rewrite set_style_style, style_quoted_zero.
        rewrite fmt_nonstring_tail_null by (rewrite !set_style_tag; exact En).
        reflexivity.
      + rewrite (fmt_nonstring_tail_quoted t h1 En), Q1. apply fmt_nonstring_tail_idem.
  Qed.

  Lemma fmt_scalar_idem s h v :
    fmt_scalar nonstr hastype s (fmt_scalar nonstr hastype s h v) v = fmt_scalar nonstr hastype s h v.
  Proof. destruct s; cbn; auto. apply fmt_nonstring_idem. Qed.

  (* ---------- fmt_node: equations and characterisations ---------- *)

  Section WithSort.
    Variable srt : sorter.
    Variables kind api : string.

    Notation fmt := (fmt_node nonstr hastype srt kind api).
    Notation fpairs := (fmt_pairs nonstr hastype srt kind api).
    Notation felems := (fmt_elems nonstr hastype srt kind api).

    Lemma fmt_map_eq s p h kvs :
      fmt s p (CMap h kvs) =
      do d <- fpairs s p kvs; Ok (CMap h (map snd (srt _ (lt_fst less_key) d))).
    Proof.
      cbn [fmt_node].
      match goal with |- bind ?a _ = bind ?b _ => replace a with b; [reflexivity|] end.
      induction kvs as [|kv t IH]; cbn [fmt_pairs]; [reflexivity|].
      rewrite IH. reflexivity.
    Qed.

    Lemma fmt_seq_eq s p h es :
      fmt s p (CSeq h es) =
      do es' <- felems (sch_elems s) p es;
      match sort_field kind api p with
      | None => Ok (CSeq h es')
      | Some f =>
          do ks <- seq_keys f es;
          Ok (CSeq h (map snd (srt _ (lt_fst String.ltb) (combine ks es'))))
      end.
    Proof.
      cbn [fmt_node].
      match goal with |- bind ?a _ = bind ?b _ => replace a with b; [reflexivity|] end.
      induction es as [|e t IH]; cbn [fmt_elems]; [reflexivity|].
      rewrite IH. reflexivity.
    Qed.

    Definition pair_rel (s : sch) (p : string) (kv : cnode * cnode) (d : string * (cnode * cnode)) : Prop :=
      fst d = cvalue (fst kv) /\
      fmt SNil p (fst kv) = Ok (fst (snd d)) /\
      fmt (sch_field s (cvalue (fst kv))) (p ++ "." ++ cvalue (fst kv)) (snd kv) = Ok (snd (snd d)).

    Lemma fpairs_ok s p kvs D : fpairs s p kvs = Ok D <-> Forall2 (pair_rel s p) kvs D.
    Proof.
      revert D. induction kvs as [|kv t IH]; intros D; cbn [fmt_pairs].
      - split; intros H; inv H; auto.
      - split.
        + intros H. apply bind_ok in H. destruct H as [k' [Hk H]].
          apply bind_ok in H. destruct H as [v' [Hv H]].
          apply bind_ok in H. destruct H as [t' [Ht H]]. inv H.
          constructor; [|apply IH; exact Ht]. repeat split; auto.
        + intros H. inv H. destruct H2 as [H1 [H2 H3]]. destruct y as [k [k' v']]. cbn in *. subst k.
          rewrite H2. cbn. rewrite H3. cbn. apply IH in H4. rewrite H4. reflexivity.
    Qed.

    Lemma felems_ok s p es E : felems s p es = Ok E <-> Forall2 (fun e e' => fmt s p e = Ok e') es E.
    Proof.
      revert E. induction es as [|e t IH]; intros E; cbn [fmt_elems].
      - split; intros H; inv H; auto.
      - split.
        + intros H. apply bind_ok in H. destruct H as [e' [He H]].
          apply bind_ok in H. destruct H as [t' [Ht H]]. inv H.
          constructor; auto. apply IH. exact Ht.
        + intros H. inv H. rewrite H2. cbn. apply IH in H4. rewrite H4. reflexivity.
    Qed.

    (* formatting never changes Node.Value *)
    Lemma fmt_cvalue n s p n' : fmt s p n = Ok n' -> cvalue n' = cvalue n.
    Proof.
      destruct n as [h v|h kvs|h es|h v]; intros H.
      - cbn in H. inv H. reflexivity.
      - rewrite fmt_map_eq in H. apply bind_ok in H. destruct H as [d [_ H]]. inv H. reflexivity.
      - rewrite fmt_seq_eq in H. apply bind_ok in H. destruct H as [es' [_ H]].
        destruct (sort_field kind api p).
        + apply bind_ok in H. destruct H as [ks [_ H]]. inv H. reflexivity.
        + inv H. reflexivity.
      - cbn in H. inv H. reflexivity.
    Qed.

    (* ---------- idempotence, generic in the sort and in the side condition ---------- *)
    Section Idem.
      Hypothesis HS1 : S1 srt.
      Variable ok : string -> cnode -> bool.
      Hypothesis ok_map : forall p h kvs, ok p (CMap h kvs) = true ->
        Forall (fun kv => ok p (fst kv) = true /\ ok (p ++ "." ++ cvalue (fst kv)) (snd kv) = true) kvs.
      Hypothesis ok_seq : forall p h es, ok p (CSeq h es) = true -> Forall (fun e => ok p e = true) es.
      (* the sort key Less reads from an element is not changed by formatting the element *)
      Hypothesis ok_key : forall p h es f, ok p (CSeq h es) = true -> sort_field kind api p = Some f ->
        forall e, In e es -> forall s e' k, fmt s p e = Ok e' -> seq_key f e = Ok k -> seq_key f e' = Ok k.

      Lemma seq_keys_second f es K E (S : list (string * cnode)) :
        seq_keys f es = Ok K ->
        List.length E = List.length es ->
        Permutation S (combine K E) ->
        ((2 <=? List.length es)%nat = true -> Forall (fun d => seq_key f (snd d) = Ok (fst d)) (combine K E)) ->
        seq_keys f (map snd S) = Ok (map fst S).
      Proof.
        intros HK HL HP HF. unfold seq_keys in *.
        assert (LK : List.length K = List.length es).
        { destruct (2 <=? List.length es)%nat.
          - apply mapM_ok in HK. symmetry. eapply Forall2_length'; eauto.
          - inv HK. apply map_length. }
        assert (LS : List.length (map snd S) = List.length es).
        { rewrite map_length, (Permutation_length HP), combine_length. lia. }
        rewrite LS. destruct (2 <=? List.length es)%nat.
        - apply mapM_ok. specialize (HF eq_refl).
          assert (HF' : Forall (fun d => seq_key f (snd d) = Ok (fst d)) S).
          { eapply Forall_perm; [apply Permutation_sym; exact HP|exact HF]. }
          clear - HF'. induction S as [|d t IH]; cbn; [constructor|]. inv HF'. constructor; auto.
        - inv HK. f_equal.
          assert (HA : Forall (fun d : string * cnode => fst d = "") S).
          { eapply Forall_perm; [apply Permutation_sym; exact HP|].
            clear. revert E. induction es as [|e t IH]; intros [|x E]; cbn; constructor; auto. }
          clear - HA. induction S as [|d t IH]; cbn; auto. inv HA. rewrite IH; auto. f_equal. auto.
      Qed.

      Theorem fmt_idem_gen : forall n s p n',
        ok p n = true -> fmt s p n = Ok n' -> fmt s p n' = Ok n'.
      Proof.
        induction n as [h v|h v|h kvs IH|h es IH] using cnode_ind'; intros s p n' Hok H.
        - cbn in H. inv H. cbn. rewrite fmt_scalar_idem. reflexivity.
        - cbn in H. inv H. reflexivity.
        - (* mapping *)
          rewrite fmt_map_eq in H. apply bind_ok in H. destruct H as [D [HD H]]. inv H.
          destruct (HS1 _ less_key less_key_strict_total D) as [HP [HSo HFix]].
          set (S := srt _ (lt_fst less_key) D) in *.
          rewrite fmt_map_eq.
          assert (HS : fpairs s p (map snd S) = Ok S).
          { apply fpairs_ok. apply Forall2_same.
            eapply Forall_perm; [apply Permutation_sym; exact HP|].
            apply fpairs_ok in HD.
            pose proof (ok_map _ _ _ Hok) as Hoks.
            assert (HQ : Forall (fun kv =>
                        (ok p (fst kv) = true /\ ok (p ++ "." ++ cvalue (fst kv)) (snd kv) = true) /\
                        ((forall s p n', ok p (fst kv) = true -> fmt s p (fst kv) = Ok n' -> fmt s p n' = Ok n') /\
                         (forall s p n', ok p (snd kv) = true -> fmt s p (snd kv) = Ok n' -> fmt s p n' = Ok n'))) kvs).
            { rewrite Forall_forall in *. intros kv Hin. split; [auto|]. apply (IH kv Hin). }
            eapply Forall2_Forall_r; [exact HD|exact HQ|].
            intros kv d [[Ok1 Ok2] [IH1 IH2]] [R1 [R2 R3]].
            pose proof (fmt_cvalue _ _ _ _ R2) as Cv.
            unfold pair_rel. rewrite Cv. repeat split; auto. }
          rewrite HS. cbn. rewrite (proj2 (proj2 (HS1 _ less_key less_key_strict_total S))); auto.
        - (* sequence *)
          rewrite fmt_seq_eq in H. apply bind_ok in H. destruct H as [E [HE H]].
          apply felems_ok in HE.
          pose proof (ok_seq _ _ _ Hok) as Hoks.
          assert (HEE : Forall (fun e' => fmt (sch_elems s) p e' = Ok e') E).
          { assert (HQ : Forall (fun e => ok p e = true /\
                         (forall s p n', ok p e = true -> fmt s p e = Ok n' -> fmt s p n' = Ok n')) es).
            { rewrite Forall_forall in *. intros e Hin. split; [auto|]. apply (IH e Hin). }
            eapply Forall2_Forall_r; [exact HE|exact HQ|].
            intros e e' [O I] R. exact (I _ _ _ O R). }
          destruct (sort_field kind api p) as [f|] eqn:SF.
          + apply bind_ok in H. destruct H as [K [HK H]]. inv H.
            destruct (HS1 _ String.ltb ltb_strict_total (combine K E)) as [HP [HSo HFix]].
            set (S := srt _ (lt_fst String.ltb) (combine K E)) in *.
            rewrite fmt_seq_eq, SF.
            assert (LE : List.length E = List.length es) by (symmetry; eapply Forall2_length'; eauto).
            assert (HS : felems (sch_elems s) p (map snd S) = Ok (map snd S)).
            { apply felems_ok.
              assert (HA : Forall (fun d : string * cnode => fmt (sch_elems s) p (snd d) = Ok (snd d)) S).
              { eapply Forall_perm; [apply Permutation_sym; exact HP|].
                clear - HEE. revert K. induction HEE; intros [|k K]; cbn; constructor; auto. }
              clear - HA. induction S as [|d t IHS]; cbn; [constructor|]. inv HA. constructor; auto. }
            rewrite HS. cbn.
            assert (HKS : seq_keys f (map snd S) = Ok (map fst S)).
            { eapply seq_keys_second; eauto. intros E2.
              unfold seq_keys in HK. rewrite E2 in HK. apply mapM_ok in HK.
              pose proof (Forall2_combine _ _ _ _ _ HK HE) as HC.
              assert (HQ : Forall (fun e => forall s e' k,
                             fmt s p e = Ok e' -> seq_key f e = Ok k -> seq_key f e' = Ok k) es).
              { rewrite Forall_forall. intros e Hin. eapply ok_key; eauto. }
              eapply Forall2_Forall_r; [exact HC|exact HQ|].
              intros e d Q [R1 R2]. eapply Q; eauto. }
            rewrite HKS. cbn. rewrite combine_fst_snd.
            rewrite (proj2 (proj2 (HS1 _ String.ltb ltb_strict_total S))); auto.
          + inv H. rewrite fmt_seq_eq, SF.
            assert (HS : felems (sch_elems s) p E = Ok E).
            { apply felems_ok. clear - HEE. induction HEE; constructor; auto. }
            rewrite HS. reflexivity.
      Qed.
    End Idem.
  End WithSort.
End WithOracle.

(* ---------- the sort key of an element ---------- *)

Definition kv_strs (kvs : list (cnode * cnode)) : list (string * string) :=
  map (fun kv => (cvalue (fst kv), cvalue (snd kv))) kvs.

Definition last_val (f : string) (l : list (string * string)) (acc : string) : string :=
  fold_left (fun acc kv => if String.eqb (fst kv) f then snd kv else acc) l acc.

Lemma scan_map f kvs acc :
  scan_field f (flat_map (fun kv : cnode * cnode => [fst kv; snd kv]) kvs) acc =
  Ok (last_val f (kv_strs kvs) acc).
Proof.
  revert acc. induction kvs as [|kv t IH]; intros acc; cbn; auto.
  rewrite IH. reflexivity.
Qed.

Lemma last_val_filter f l acc :
  last_val f l acc = last_val f (filter (fun d => String.eqb (fst d) f) l) acc.
Proof.
  revert acc. induction l as [|x t IH]; intros acc; cbn; auto.
  destruct (String.eqb (fst x) f) eqn:E; cbn; rewrite ?E; apply IH.
Qed.

Lemma seq_key_map f h kvs :
  String.eqb f "" = false ->
  seq_key f (CMap h kvs) = Ok (last_val f (filter (fun d => String.eqb (fst d) f) (kv_strs kvs)) "").
Proof.
  intros E. unfold seq_key. rewrite E. cbn [content]. rewrite scan_map, last_val_filter. reflexivity.
Qed.

Lemma filter_map_key {A} (g : string * A -> string * string) f (l : list (string * A)) :
  Forall (fun d => fst (g d) = fst d) l ->
  filter (fun d => String.eqb (fst d) f) (map g l) =
  map g (filter (fun d => String.eqb (fst d) f) l).
Proof.
  induction 1 as [|d t Hd Ht IH]; cbn; auto.
  rewrite Hd. destruct (String.eqb (fst d) f); cbn; rewrite IH; reflexivity.
Qed.

Lemma scan_field_total f l acc : exists k, scan_field f l acc = Ok k.
Proof.
  assert (G : forall n l acc, (List.length l <= n)%nat -> exists k, scan_field f l acc = Ok k).
  { induction n as [|n IH]; intros l0 acc0 L.
    - destruct l0; [cbn; eauto|cbn in L; lia].
    - destruct l0 as [|k [|v r]]; cbn; eauto. apply IH. cbn in L. lia. }
  eapply G; eauto.
Qed.

(* since /repo d64b8e2 the sort key of every element is defined *)
Lemma seq_key_ok f e : exists k, seq_key f e = Ok k.
Proof.
  unfold seq_key. destruct (String.eqb f ""); [eauto|]. destruct e; eauto. apply scan_field_total.
Qed.

(* ---------- wf_keys: unfolding ---------- *)

Lemma nodup_strs_NoDup l : nodup_strs l = true -> NoDup l.
Proof.
  induction l as [|x t IH]; cbn; intros H; constructor.
  - apply andb_true_iff in H. destruct H as [H _]. intros Hin.
    assert (str_in x t = true).
    { clear - Hin. induction t as [|y t IH]; cbn; [contradiction|].
      destruct Hin as [->|Hin]; [rewrite String.eqb_refl; auto|]. rewrite IH; auto. apply orb_true_r. }
    rewrite H0 in H. discriminate.
  - apply IH. apply andb_true_iff in H. apply H.
Qed.

Lemma wf_keys_map h kvs :
  wf_keys (CMap h kvs) = true ->
  NoDup (key_values kvs) /\ Forall (fun kv => wf_keys (fst kv) = true /\ wf_keys (snd kv) = true) kvs.
Proof.
  cbn [wf_keys]. intros H. apply andb_true_iff in H. destruct H as [H1 H2]. split.
  - apply nodup_strs_NoDup. exact H1.
  - clear H1. induction kvs as [|kv t IH]; constructor.
    + apply andb_true_iff in H2. destruct H2 as [H _]. apply andb_true_iff in H. exact H.
    + apply IH. apply andb_true_iff in H2. apply H2.
Qed.

Lemma wf_keys_seq h es : wf_keys (CSeq h es) = true -> Forall (fun e => wf_keys e = true) es.
Proof.
  cbn [wf_keys]. induction es as [|e t IH]; intros H; constructor.
  - apply andb_true_iff in H. apply H.
  - apply IH. apply andb_true_iff in H. apply H.
Qed.

Section Instances.
  Variable nonstr : string -> bool.
  Variable hastype : string -> string -> bool.
  Variables kind api : string.

  (* ---------- the formatter never panics (all nodes, any sort function) ---------- *)
  Theorem fmt_no_panic srt : forall n s p,
    exists n', fmt_node nonstr hastype srt kind api s p n = Ok n'.
  Proof.
    induction n as [h v|h v|h kvs IH|h es IH] using cnode_ind'; intros s p.
    - cbn. eauto.
    - cbn. eauto.
    - rewrite fmt_map_eq.
      assert (HD : exists D, fmt_pairs nonstr hastype srt kind api s p kvs = Ok D).
      { induction kvs as [|kv t IHt]; cbn [fmt_pairs]; [eauto|].
        inversion IH as [|? ? [I1 I2] IH']; subst.
        destruct (I1 SNil p) as [k' Hk]. rewrite Hk. cbn [bind].
        destruct (I2 (sch_field s (cvalue (fst kv))) (p ++ "." ++ cvalue (fst kv))) as [v' Hv].
        rewrite Hv. cbn [bind].
        destruct (IHt IH') as [D HD]. rewrite HD. cbn [bind]. eauto. }
      destruct HD as [D HD]. rewrite HD. cbn [bind]. eauto.
    - rewrite fmt_seq_eq.
      assert (HE : exists E, fmt_elems nonstr hastype srt kind api (sch_elems s) p es = Ok E).
      { clear - IH. induction es as [|e t IHt]; cbn [fmt_elems]; [eauto|].
        inversion IH as [|? ? I1 IH']; subst.
        destruct (I1 (sch_elems s) p) as [e' He]. rewrite He. cbn [bind].
        destruct (IHt IH') as [E HE]. rewrite HE. cbn [bind]. eauto. }
      destruct HE as [E HE]. rewrite HE. cbn [bind].
      destruct (sort_field kind api p) as [f|] eqn:SF; [|eauto].
      assert (HK : exists K, seq_keys f es = Ok K).
      { unfold seq_keys. destruct (2 <=? List.length es)%nat; [|eauto].
        clear. induction es as [|e t [K HK]]; cbn; [eauto|].
        destruct (seq_key_ok f e) as [k Hk]. rewrite Hk. cbn [bind]. rewrite HK. cbn [bind]. eauto. }
      destruct HK as [K HK]. rewrite HK. cbn [bind]. eauto.
  Qed.

  (* ---------- the sort key of a mapping element survives formatting when the sort keeps the
     relative order of the entries carrying the sort field ---------- *)
  Lemma map_elem_keeps_key srt s p h0 kvs e' f k :
    String.eqb f "" = false ->
    (forall D, Forall2 (pair_rel nonstr hastype srt kind api s p) kvs D ->
       Permutation (srt _ (lt_fst less_key) D) D /\
       filter (fun d => String.eqb (fst d) f) (srt _ (lt_fst less_key) D) =
       filter (fun d => String.eqb (fst d) f) D) ->
    fmt_node nonstr hastype srt kind api s p (CMap h0 kvs) = Ok e' ->
    seq_key f (CMap h0 kvs) = Ok k -> seq_key f e' = Ok k.
  Proof.
    intros Ef Hst Hf Hk.
    rewrite fmt_map_eq in Hf. apply bind_ok in Hf. destruct Hf as [D [HD Hf]]. inv Hf.
    rewrite seq_key_map in * by exact Ef. rewrite <- Hk. f_equal. f_equal.
    apply fpairs_ok in HD. destruct (Hst D HD) as [HP HF].
    set (g := fun d : string * (cnode * cnode) => (cvalue (fst (snd d)), cvalue (snd (snd d)))).
    assert (HG : Forall (fun d => fst (g d) = fst d) D).
    { eapply Forall2_Forall_r with (Q := fun _ => True); [exact HD| |].
      - rewrite Forall_forall. auto.
      - intros kv d _ [R1 [R2 R3]]. subst g. cbn. rewrite R1.
        apply (fmt_cvalue _ _ _ _ _ _ _ _ _ R2). }
    assert (HM : map g D = kv_strs kvs).
    { clear - HD. induction HD as [|kv d t D' [R1 [R2 R3]] _ IH]; cbn; auto.
      rewrite IH. f_equal. subst g. cbn.
      rewrite (fmt_cvalue _ _ _ _ _ _ _ _ _ R2), (fmt_cvalue _ _ _ _ _ _ _ _ _ R3). reflexivity. }
    unfold kv_strs at 1. rewrite map_map.
    change (map (fun x : string * (cnode * cnode) => (cvalue (fst (snd x)), cvalue (snd (snd x))))
                (srt _ (lt_fst less_key) D)) with (map g (srt _ (lt_fst less_key) D)).
    rewrite filter_map_key.
    - rewrite HF. rewrite <- filter_map_key by exact HG. rewrite HM. reflexivity.
    - eapply Forall_perm; [apply Permutation_sym; exact HP|exact HG].
  Qed.

  Lemma elem_keeps_key srt (cond : cnode -> Prop) :
    (forall s p h0 kvs f, cond (CMap h0 kvs) ->
       forall D, Forall2 (pair_rel nonstr hastype srt kind api s p) kvs D ->
         Permutation (srt _ (lt_fst less_key) D) D /\
         filter (fun d => String.eqb (fst d) f) (srt _ (lt_fst less_key) D) =
         filter (fun d => String.eqb (fst d) f) D) ->
    forall f e, cond e ->
    forall s p e' k,
      fmt_node nonstr hastype srt kind api s p e = Ok e' -> seq_key f e = Ok k -> seq_key f e' = Ok k.
  Proof.
    intros Hst f e Hc s p e' k Hf Hk.
    destruct (String.eqb f "") eqn:Ef.
    - unfold seq_key in *. rewrite Ef in *. rewrite (fmt_cvalue _ _ _ _ _ _ _ _ _ Hf). exact Hk.
    - destruct e as [h0 v|h0 kvs|h0 es0|h0 v].
      + cbn in Hf. inv Hf. exact Hk.
      + eapply map_elem_keeps_key; eauto.
      + (* a nested sequence is not a keyed element: its key is "" before and after *)
        rewrite fmt_seq_eq in Hf. apply bind_ok in Hf. destruct Hf as [es' [_ Hf]].
        unfold seq_key in *. rewrite Ef in *.
        destruct (sort_field kind api p).
        * apply bind_ok in Hf. destruct Hf as [ks [_ Hf]]. inv Hf. exact Hk.
        * inv Hf. exact Hk.
      + cbn in Hf. inv Hf. exact Hk.
  Qed.

  (* ---------- idempotence with the stable sort (sort.Stable): every node ---------- *)
  Theorem fmt_idem_isort : forall n s p n',
    fmt_node nonstr hastype isort kind api s p n = Ok n' -> fmt_node nonstr hastype isort kind api s p n' = Ok n'.
  Proof.
    intros n s p n'.
    apply (fmt_idem_gen nonstr hastype isort kind api isort_S1 (fun _ _ => true)); auto.
    - intros p0 h kvs _. rewrite Forall_forall. auto.
    - intros p0 h es _. rewrite Forall_forall. auto.
    - intros p0 h es f _ SF e Hin s0 e' k.
      apply (elem_keeps_key isort (fun _ => True)); auto.
      intros s1 p1 h0 kvs f0 _ D _. unfold isort. split.
      + apply isort_perm.
      + apply (isort_filter less_key less_key_strict_total).
  Qed.

  (* ---------- idempotence with ANY sort meeting (S1), for documents with unique keys ---------- *)
  Lemma filter_key_le1 {B} f (l : list (string * B)) :
    NoDup (map fst l) -> (List.length (filter (fun d => String.eqb (fst d) f) l) <= 1)%nat.
  Proof.
    induction l as [|x t IH]; cbn; intros H; [lia|]. inv H.
    destruct (String.eqb (fst x) f) eqn:E; [|auto].
    apply String.eqb_eq in E. cbn.
    assert (filter (fun d : string * B => String.eqb (fst d) f) t = []).
    { clear - H2 E. induction t as [|y t IH]; cbn in *; auto.
      destruct (String.eqb (fst y) f) eqn:Ey.
      - apply String.eqb_eq in Ey. exfalso. apply H2. left. congruence.
      - apply IH. intros Hin. apply H2. right. exact Hin. }
    rewrite H. cbn. lia.
  Qed.

  Lemma perm_filter {A} (q : A -> bool) l l' : Permutation l l' -> Permutation (filter q l) (filter q l').
  Proof.
    induction 1; cbn; auto.
    - destruct (q x); auto.
    - destruct (q x), (q y); auto. apply perm_swap.
    - etransitivity; eauto.
  Qed.

  Lemma perm_filter_unique {B} f (l l' : list (string * B)) :
    NoDup (map fst l) -> Permutation l' l ->
    filter (fun d => String.eqb (fst d) f) l' = filter (fun d => String.eqb (fst d) f) l.
  Proof.
    intros Hnd Hp.
    pose proof (filter_key_le1 f l Hnd) as L.
    pose proof (perm_filter (fun d : string * B => String.eqb (fst d) f) _ _ Hp) as P.
    destruct (filter (fun d : string * B => String.eqb (fst d) f) l) as [|a [|b r]]; cbn in L; try lia.
    - apply Permutation_sym, Permutation_nil in P. exact P.
    - apply Permutation_sym, Permutation_length_1_inv in P. exact P.
  Qed.

  Theorem fmt_idem_S1 srt : S1 srt -> forall n s p n',
    wf_keys n = true ->
    fmt_node nonstr hastype srt kind api s p n = Ok n' -> fmt_node nonstr hastype srt kind api s p n' = Ok n'.
  Proof.
    intros HS1 n s p n' W. apply (fmt_idem_gen nonstr hastype srt kind api HS1 (fun _ n => wf_keys n)); auto.
    - intros p0 h kvs H. apply wf_keys_map in H. destruct H as [_ H]. exact H.
    - intros p0 h es H. apply wf_keys_seq in H. exact H.
    - intros p0 h es f H SF e Hin s0 e' k.
      apply (elem_keeps_key srt (fun e => wf_keys e = true)).
      + intros s1 p1 h0 kvs f0 Wk D HD.
        destruct (HS1 _ less_key less_key_strict_total D) as [HP _]. split; [exact HP|].
        apply perm_filter_unique; [|exact HP].
        apply wf_keys_map in Wk. destruct Wk as [Nd _].
        assert (map fst D = key_values kvs).
        { clear - HD. unfold key_values. induction HD as [|kv d t D' [R1 _] _ IH]; cbn; congruence. }
        rewrite H0. exact Nd.
      + apply wf_keys_seq in H. rewrite Forall_forall in H. auto.
  Qed.
End Instances.

(* ---------- more list helpers ---------- *)

Lemma Forall2_perm_r {A B} (R : A -> B -> Prop) l1 l2 l2' :
  Forall2 R l1 l2 -> Permutation l2 l2' -> exists l1', Permutation l1 l1' /\ Forall2 R l1' l2'.
Proof.
  intros HF HP. revert l1 HF. induction HP; intros l1 HF.
  - inversion HF; subst. exists []. auto.
  - inversion HF as [|a b la lb Hab Hrest]; subst.
    destruct (IHHP _ Hrest) as [m [P F]]. exists (a :: m). auto.
  - inversion HF as [|a b la lb Hab Hrest]; subst.
    inversion Hrest as [|a2 b2 la2 lb2 Hab2 Hrest2]; subst.
    exists (a2 :: a :: la2). split; [apply perm_swap|]. auto.
  - destruct (IHHP1 _ HF) as [m [P F]]. destruct (IHHP2 _ F) as [m' [P' F']].
    exists m'. split; auto. etransitivity; eauto.
Qed.

Lemma Forall2_combine_r {A B K} (R : A -> B -> Prop) (l : list A) (E : list B) (ks : list K) :
  Forall2 R l E -> List.length ks = List.length E ->
  Forall2 (fun a d => R a (snd d)) l (combine ks E).
Proof.
  intros H. revert ks. induction H; intros [|k ks] L; cbn in *; try discriminate; constructor; auto.
Qed.

Lemma Forall2_map_r {A B C} (R : A -> C -> Prop) (g : B -> C) l l' :
  Forall2 (fun a b => R a (g b)) l l' -> Forall2 R l (map g l').
Proof. induction 1; cbn; constructor; auto. Qed.

Lemma Forall2_and_Forall {A B} (R : A -> B -> Prop) (Q : A -> Prop) (T : A -> B -> Prop) l l' :
  Forall2 R l l' -> Forall Q l -> (forall a b, Q a -> R a b -> T a b) -> Forall2 T l l'.
Proof. intros H. induction H; intros HQ HT; constructor; inv HQ; eauto. Qed.

Lemma flat_map_Forall2_perm {A B C} (f : A -> list C) (g : B -> list C) l1 l2 :
  Forall2 (fun a b => Permutation (f a) (g b)) l1 l2 -> Permutation (flat_map f l1) (flat_map g l2).
Proof. induction 1; cbn; auto. apply Permutation_app; auto. Qed.

Lemma seq_keys_length f es K : seq_keys f es = Ok K -> List.length K = List.length es.
Proof.
  unfold seq_keys. destruct (2 <=? List.length es)%nat; intros H.
  - apply mapM_ok in H. symmetry. eapply Forall2_length'; eauto.
  - inv H. apply map_length.
Qed.

(* ---------- what formatting may do to a document ---------- *)

Section Shuffle.
  Variables kind api : string.
  Variable Rs : hdr -> hdr -> Prop.       (* what may happen to the header of a scalar *)

  (* [shuffled p n n']: n' is n with the pairs of every mapping permuted (a key keeps its own value),
     the elements of the whitelisted lists permuted, every other list in its order, nothing added
     or dropped; comments, anchors, tags and styles travel with their node. *)
  Inductive shuffled : string -> cnode -> cnode -> Prop :=
  | sh_scalar p h h' v : Rs h h' -> shuffled p (CScalar h v) (CScalar h' v)
  | sh_alias p h v : shuffled p (CAlias h v) (CAlias h v)
  | sh_map p h kvs mid kvs' :
      Permutation kvs mid ->
      Forall2 (fun kv kv' => shuffled p (fst kv) (fst kv') /\
                             shuffled (p ++ "." ++ cvalue (fst kv)) (snd kv) (snd kv')) mid kvs' ->
      shuffled p (CMap h kvs) (CMap h kvs')
  | sh_seq p h es mid es' :
      Permutation es mid ->
      (sort_field kind api p = None -> mid = es) ->
      Forall2 (shuffled p) mid es' ->
      shuffled p (CSeq h es) (CSeq h es').

  Variable nonstr : string -> bool.
  Variable hastype : string -> string -> bool.
  Variable srt : sorter.
  Hypothesis HS1 : S1 srt.
  Variable Q : sch -> Prop.               (* the schemas considered *)
  Hypothesis Q_nil : Q SNil.
  Hypothesis Q_field : forall s name, Q s -> Q (sch_field s name).
  Hypothesis Q_elems : forall s, Q s -> Q (sch_elems s).
  Hypothesis Rs_fmt : forall s h v, Q s -> Rs h (fmt_scalar nonstr hastype s h v).

  Theorem fmt_shuffled : forall n s p n',
    Q s -> fmt_node nonstr hastype srt kind api s p n = Ok n' -> shuffled p n n'.
  Proof.
    induction n as [h v|h v|h kvs IH|h es IH] using cnode_ind'; intros s p n' HQ H.
    - cbn in H. inv H. constructor. auto.
    - cbn in H. inv H. constructor.
    - rewrite fmt_map_eq in H. apply bind_ok in H. destruct H as [D [HD H]]. inv H.
      apply fpairs_ok in HD.
      destruct (HS1 _ less_key less_key_strict_total D) as [HP _].
      assert (HR : Forall2 (fun kv d => shuffled p (fst kv) (fst (snd d)) /\
                     shuffled (p ++ "." ++ cvalue (fst kv)) (snd kv) (snd (snd d))) kvs D).
      { eapply Forall2_and_Forall; [exact HD|exact IH|].
        intros kv d [I1 I2] [R1 [R2 R3]].
        split; [exact (I1 _ _ _ Q_nil R2)|exact (I2 _ _ _ (Q_field _ _ HQ) R3)]. }
      destruct (Forall2_perm_r _ _ _ _ HR (Permutation_sym HP)) as [mid [PM FM]].
      econstructor; [exact PM|]. apply Forall2_map_r. exact FM.
    - rewrite fmt_seq_eq in H. apply bind_ok in H. destruct H as [E [HE H]].
      apply felems_ok in HE.
      assert (HR : Forall2 (shuffled p) es E).
      { eapply Forall2_and_Forall; [exact HE|exact IH|]. intros e e' I R. exact (I _ _ _ (Q_elems _ HQ) R). }
      destruct (sort_field kind api p) as [f|] eqn:SF.
      + apply bind_ok in H. destruct H as [K [HK H]]. inv H.
        destruct (HS1 _ String.ltb ltb_strict_total (combine K E)) as [HP _].
        assert (LK : List.length K = List.length E).
        { rewrite (seq_keys_length _ _ _ HK). eapply Forall2_length'; eauto. }
        pose proof (Forall2_combine_r _ _ _ K HR LK) as HC.
        destruct (Forall2_perm_r _ _ _ _ HC (Permutation_sym HP)) as [mid [PM FM]].
        econstructor; [exact PM|intros X; congruence|]. apply Forall2_map_r. exact FM.
      + inv H. econstructor; [apply Permutation_refl|auto|exact HR].
  Qed.
End Shuffle.

(* without a schema scalars are untouched; with one only Style and Tag of a scalar may change *)
Definition hdr_sim (h h' : hdr) : Prop :=
  h_head h = h_head h' /\ h_line h = h_line h' /\ h_foot h = h_foot h' /\ h_anchor h = h_anchor h'.

Lemma hdr_sim_refl h : hdr_sim h h.
Proof. repeat split. Qed.

Lemma fmt_scalar_sim nonstr hastype s h v : hdr_sim h (fmt_scalar nonstr hastype s h v).
Proof.
  destruct s as [|types format fs el]; cbn; [apply hdr_sim_refl|].
  unfold fmt_nonstring. destruct types as [|t [|t2 ts]]; try apply hdr_sim_refl.
  destruct (negb (nonstr v)); [apply hdr_sim_refl|].
  assert (T : forall t h0, hdr_sim h h0 -> hdr_sim h (fmt_nonstring_tail t h0)).
  { intros t0 h0 S0. unfold fmt_nonstring_tail.
    destruct (String.eqb (h_tag h0) node_tag_null); [exact S0|].
    destruct (assoc_str t0 type_to_tag); exact S0. }
  destruct (String.eqb t "string" && negb (String.eqb format "int-or-string")).
  - apply T. destruct (style_quoted (h_style h)); unfold hdr_sim; cbn; auto.
  - destruct (String.eqb t "boolean" || String.eqb t "integer" || String.eqb t "number");
      [|apply hdr_sim_refl].
    destruct (negb (hastype v t)); [apply hdr_sim_refl|].
    apply T. destruct (style_quoted (h_style h)); unfold hdr_sim; cbn; auto.
Qed.

Theorem fmt_value_preserved_noschema nonstr hastype srt kind api :
  S1 srt -> forall n p n',
  fmt_node nonstr hastype srt kind api SNil p n = Ok n' -> shuffled kind api eq p n n'.
Proof.
  intros HS1 n p n'.
  apply (fmt_shuffled kind api eq nonstr hastype srt HS1 (fun s => s = SNil)); auto.
  - intros s name ->. reflexivity.
  - intros s ->. reflexivity.
  - intros s h v ->. reflexivity.
Qed.

Theorem fmt_value_preserved nonstr hastype srt kind api :
  S1 srt -> forall n s p n',
  fmt_node nonstr hastype srt kind api s p n = Ok n' -> shuffled kind api hdr_sim p n n'.
Proof.
  intros HS1 n s p n'.
  apply (fmt_shuffled kind api hdr_sim nonstr hastype srt HS1 (fun _ => True)); auto.
  intros. apply fmt_scalar_sim.
Qed.

(* ---------- comments ---------- *)

Theorem fmt_comments nonstr hastype srt kind api : S1 srt -> forall n s p n',
  fmt_node nonstr hastype srt kind api s p n = Ok n' -> Permutation (comments n') (comments n).
Proof.
  intros HS1.
  induction n as [h v|h v|h kvs IH|h es IH] using cnode_ind'; intros s p n' H.
  - cbn in H. inv H. cbn. destruct (fmt_scalar_sim nonstr hastype s h v) as [A [B [C _]]].
    unfold hdr_comments. rewrite <- A, <- B, <- C. apply Permutation_refl.
  - cbn in H. inv H. apply Permutation_refl.
  - rewrite fmt_map_eq in H. apply bind_ok in H. destruct H as [D [HD H]]. inv H.
    apply fpairs_ok in HD.
    destruct (HS1 _ less_key less_key_strict_total D) as [HP _].
    cbn [comments]. apply Permutation_app_head.
    set (c2 := fun kv : cnode * cnode => (comments (fst kv) ++ comments (snd kv))%list).
    transitivity (flat_map c2 (map snd D)).
    + apply Permutation_flat_map. apply Permutation_map. exact HP.
    + rewrite flat_map_concat_map, map_map, <- flat_map_concat_map.
      apply Permutation_sym. apply flat_map_Forall2_perm.
      eapply Forall2_and_Forall; [exact HD|exact IH|].
      intros kv d [I1 I2] [R1 [R2 R3]]. subst c2. cbn.
      apply Permutation_sym. apply Permutation_app; [exact (I1 _ _ _ R2)|exact (I2 _ _ _ R3)].
  - rewrite fmt_seq_eq in H. apply bind_ok in H. destruct H as [E [HE H]].
    apply felems_ok in HE.
    assert (HR : Permutation (flat_map comments E) (flat_map comments es)).
    { apply Permutation_sym. apply flat_map_Forall2_perm.
      eapply Forall2_and_Forall; [exact HE|exact IH|].
      intros e e' I R. apply Permutation_sym. exact (I _ _ _ R). }
    destruct (sort_field kind api p) as [f|] eqn:SF.
    + apply bind_ok in H. destruct H as [K [HK H]]. inv H.
      destruct (HS1 _ String.ltb ltb_strict_total (combine K E)) as [HP _].
      cbn [comments]. apply Permutation_app_head.
      transitivity (flat_map comments (map snd (combine K E))).
      * apply Permutation_flat_map. apply Permutation_map. exact HP.
      * assert (LK : List.length K = List.length E).
        { rewrite (seq_keys_length _ _ _ HK). eapply Forall2_length'; eauto. }
        assert (map snd (combine K E) = E).
        { clear - LK. revert E LK. induction K as [|k K IHK]; intros [|e E] L; cbn in *; try discriminate; auto.
          f_equal. apply IHK. lia. }
        rewrite H. exact HR.
    + inv H. cbn [comments]. apply Permutation_app_head. exact HR.
Qed.

(* ---------- decidable equality helper (for the refutations) ---------- *)

Lemma hdr_eqb_refl h : hdr_eqb h h = true.
Proof.
  unfold hdr_eqb. rewrite !String.eqb_refl, N.eqb_refl. reflexivity.
Qed.

Lemma cnode_eqb_refl : forall n, cnode_eqb n n = true.
Proof.
  induction n as [h v|h v|h kvs IH|h es IH] using cnode_ind'; cbn [cnode_eqb].
  - rewrite hdr_eqb_refl, String.eqb_refl. reflexivity.
  - rewrite hdr_eqb_refl, String.eqb_refl. reflexivity.
  - rewrite hdr_eqb_refl. cbn [andb].
    induction IH as [|kv t [H1 H2] _ IHt]; auto. rewrite H1, H2, IHt. reflexivity.
  - rewrite hdr_eqb_refl. cbn [andb].
    induction IH as [|e t H1 _ IHt]; auto. rewrite H1, IHt. reflexivity.
Qed.

Lemma cnode_neq a b : cnode_eqb a b = false -> a <> b.
Proof. intros H E. subst b. rewrite cnode_eqb_refl in H. discriminate. Qed.

(* ---------- witnesses (the same documents are replayed on the implementation: corpus/C20) ---------- *)

Definition hd0 : hdr := mkHdr "" "" "" "" "" 0.
Definition ws (v : string) : cnode := CScalar hd0 v.
Definition wm (kvs : list (string * cnode)) : cnode := CMap hd0 (map (fun kv => (ws (fst kv), snd kv)) kvs).
Definition wq (es : list cnode) : cnode := CSeq hd0 es.

Definition wit_deployment (containers : cnode) : cnode :=
  wm [("apiVersion", ws "apps/v1"); ("kind", ws "Deployment");
      ("spec", wm [("template", wm [("spec", wm [("containers", containers)])])])].

(* containers: [ {name: a}, [ {name: b}, name, v ] ]  — a list inside the keyed whitelisted list *)
Definition wit_nested_seq : cnode :=
  wit_deployment (wq [wm [("name", ws "a")]; wq [wm [("name", ws "b")]; ws "name"; ws "v"]]).

(* containers: [ [name], [name] ] *)
Definition wit_panic : cnode := wit_deployment (wq [wq [ws "name"]; wq [ws "name"]]).

(* containers: [ {name: c, zz: 1, name: a}, {name: b} ]  — the sort field twice in one element *)
Definition wit_dup_sortfield : cnode :=
  wit_deployment (wq [wm [("name", ws "c"); ("zz", ws "1"); ("name", ws "a")]; wm [("name", ws "b")]]).

(* regression (repair "keyed elements are mappings"): the document whose nested list made formatting
   unstable is now formatted to a fixed point in one pass *)
Example wit_nested_seq_now_idempotent : forall nonstr hastype, exists n1,
  filter_doc nonstr hastype isort SNil wit_nested_seq = Ok n1 /\ filter_doc nonstr hastype isort SNil n1 = Ok n1 /\
  n1 <> wit_nested_seq.
Proof.
  intros nonstr hastype. eexists. split; [vm_compute; reflexivity|]. split; [vm_compute; reflexivity|].
  apply cnode_neq. vm_compute. reflexivity.
Qed.

(* regression for /repo d64b8e2: the document that used to panic (an odd-length sequence ending in the
   sort field inside the keyed list) is formatted, and formatting is stable on it *)
Example wit_panic_now_ok : forall nonstr hastype, exists n1,
  filter_doc nonstr hastype isort SNil wit_panic = Ok n1 /\ filter_doc nonstr hastype isort SNil n1 = Ok n1.
Proof.
  intros nonstr hastype. eexists. split; vm_compute; reflexivity.
Qed.

(* regression (repair "sort.Stable"): why the sort has to be stable.  With a sort that meets (S1) but is
   not stable — sort.Sort beyond 12 elements — a duplicate sort field breaks idempotence ... *)
Example unstable_sort_breaks_idempotence : forall nonstr hastype, exists srt, S1 srt /\ exists n1 n2,
  filter_doc nonstr hastype srt SNil wit_dup_sortfield = Ok n1 /\ filter_doc nonstr hastype srt SNil n1 = Ok n2 /\ n1 <> n2.
Proof.
  intros nonstr hastype. exists rsort. split; [apply rsort_S1|].
  eexists. eexists.
  split; [vm_compute; reflexivity|].
  split; [vm_compute; reflexivity|].
  apply cnode_neq. vm_compute. reflexivity.
Qed.

(* ... and with the stable sort the same document is a fixed point after one pass *)
Example wit_dup_sortfield_now_idempotent : forall nonstr hastype, exists n1,
  filter_doc nonstr hastype isort SNil wit_dup_sortfield = Ok n1 /\ filter_doc nonstr hastype isort SNil n1 = Ok n1.
Proof.
  intros nonstr hastype. eexists. split; vm_compute; reflexivity.
Qed.

(* the hypotheses of the positive theorems are met by a document that really gets reordered *)
Definition wit_ordinary : cnode :=
  wm [("zeta", ws "1"); ("kind", ws "Deployment");
      ("spec", wm [("template", wm [("spec", wm [("containers",
          wq [wm [("name", ws "b"); ("image", ws "x")]; wm [("image", ws "y"); ("name", ws "a")]])])])]);
      ("apiVersion", ws "apps/v1"); ("alpha", ws "2")].

Example wit_ordinary_nonvacuous : forall nonstr hastype,
  wf_keys wit_ordinary = true /\
  exists n1, filter_doc nonstr hastype isort SNil wit_ordinary = Ok n1 /\ n1 <> wit_ordinary.
Proof.
  intros nonstr hastype. split; [vm_compute; reflexivity|].
  eexists. split; [vm_compute; reflexivity|]. apply cnode_neq. vm_compute. reflexivity.
Qed.

(* ---------- Less is a strict total order on field names ---------- *)

Theorem less_key_order :
  (forall a, less_key a a = false) /\
  (forall a b c, less_key a b = true -> less_key b c = true -> less_key a c = true) /\
  (forall a b, less_key a b = true -> less_key b a = false) /\
  (forall a b, a <> b -> less_key a b = true \/ less_key b a = true).
Proof.
  pose proof less_key_strict_total as H. repeat split.
  - apply (st_irrefl _ H).
  - apply (st_trans _ H).
  - apply (st_asym _ H).
  - intros a b Hab. destruct (less_key a b) eqn:E1; auto. destruct (less_key b a) eqn:E2; auto.
    exfalso. apply Hab. apply (st_total _ H); auto.
Qed.

(* known names come before unknown ones, and unknown ones are in byte order *)
Theorem less_key_shape a b :
  (field_order a <> None -> field_order b = None -> less_key a b = true) /\
  (field_order a = None -> field_order b = None -> less_key a b = String.ltb a b).
Proof.
  unfold less_key, less_rank. split.
  - intros Ha Hb. destruct (field_order a); [|congruence]. rewrite Hb. reflexivity.
  - intros Ha Hb. rewrite Ha, Hb. reflexivity.
Qed.

(* ---------- FormatNonStringStyle ---------- *)

Section SchemaQuote.
  Variable nonstr : string -> bool.
  Variable hastype : string -> string -> bool.
  Variables (h : hdr) (v : string).

  Definition is_num_type (t : string) : Prop := t = "boolean" \/ t = "integer" \/ t = "number".

  Lemma num_type_eqs t : is_num_type t ->
    String.eqb t "string" = false /\
    (String.eqb t "boolean" || String.eqb t "integer" || String.eqb t "number") = true.
  Proof. intros [->|[->| ->]]; split; reflexivity. Qed.

  (* text that YAML 1.1 reads as a string is never touched *)
  Lemma sq_untouched types format : nonstr v = false -> fmt_nonstring nonstr hastype types format h v = h.
  Proof. intros N. unfold fmt_nonstring. destruct types as [|t [|t2 ts]]; auto. rewrite N. reflexivity. Qed.

  (* string-typed position, text that YAML 1.1 would read as a non-string: quoted and tagged !!str *)
  Lemma sq_string format :
    nonstr v = true -> String.eqb format "int-or-string" = false ->
    String.eqb (h_tag h) node_tag_null = false ->
    style_quoted (h_style (fmt_nonstring nonstr hastype ["string"] format h v)) = true /\
    h_tag (fmt_nonstring nonstr hastype ["string"] format h v) = "!!str".
  Proof.
    intros N F T. unfold fmt_nonstring. rewrite N, F. cbn [negb andb String.eqb Ascii.eqb Bool.eqb].
    set (h1 := if style_quoted (h_style h) then h else set_style h style_double).
    assert (T1 : String.eqb (h_tag h1) node_tag_null = false) by (subst h1; destruct (style_quoted (h_style h)); auto).
    split.
    - rewrite (fmt_nonstring_tail_quoted _ _ T1). subst h1. destruct (style_quoted (h_style h)) eqn:Q; auto.
    - unfold fmt_nonstring_tail. rewrite T1. vm_compute assoc_str. reflexivity.
  Qed.

  (* boolean / integer / number position and a value OF THAT TYPE: never left quoted, tagged with the type *)
  Lemma sq_number t format tg :
    nonstr v = true -> is_num_type t -> hastype v t = true -> assoc_str t type_to_tag = Some tg ->
    String.eqb (h_tag h) node_tag_null = false ->
    style_quoted (h_style (fmt_nonstring nonstr hastype [t] format h v)) = false /\
    h_tag (fmt_nonstring nonstr hastype [t] format h v) = tg.
  Proof.
    intros N Ht HT A T. destruct (num_type_eqs t Ht) as [E E2].
    unfold fmt_nonstring. rewrite N, E, E2, HT. cbn [negb andb].
    set (h1 := if style_quoted (h_style h) then set_style h 0%N else h).
    assert (T1 : String.eqb (h_tag h1) node_tag_null = false) by (subst h1; destruct (style_quoted (h_style h)); auto).
    split.
    - rewrite (fmt_nonstring_tail_quoted _ _ T1). subst h1. destruct (style_quoted (h_style h)) eqn:Q; auto.
    - unfold fmt_nonstring_tail. rewrite T1, A. reflexivity.
  Qed.

  (* ... and a value that is NOT of the schema's type is left exactly as written (repair "does not tag
     a scalar with a schema type its value does not have"): `replicas: true` stays `true` *)
  Lemma sq_mistyped t format :
    is_num_type t -> hastype v t = false -> fmt_nonstring nonstr hastype [t] format h v = h.
  Proof.
    intros Ht HT. destruct (num_type_eqs t Ht) as [E E2].
    unfold fmt_nonstring. destruct (nonstr v); cbn [negb]; auto. rewrite E, E2, HT. reflexivity.
  Qed.

  (* a null stays an unquoted null *)
  Lemma sq_null t format :
    nonstr v = true -> String.eqb (h_tag h) node_tag_null = true ->
    (t = "string" /\ String.eqb format "int-or-string" = false \/ is_num_type t /\ hastype v t = true) ->
    h_style (fmt_nonstring nonstr hastype [t] format h v) = 0%N /\
    h_tag (fmt_nonstring nonstr hastype [t] format h v) = h_tag h.
  Proof.
    intros N T [[-> F]|[Ht HT]]; unfold fmt_nonstring; rewrite N; cbn [negb].
    - rewrite F. cbn [negb andb String.eqb Ascii.eqb Bool.eqb].
      rewrite fmt_nonstring_tail_null by (destruct (style_quoted (h_style h)); auto).
      destruct (style_quoted (h_style h)); split; reflexivity.
    - destruct (num_type_eqs t Ht) as [E E2]. rewrite E, E2, HT. cbn [negb andb].
      rewrite fmt_nonstring_tail_null by (destruct (style_quoted (h_style h)); auto).
      destruct (style_quoted (h_style h)); split; reflexivity.
  Qed.

  (* a string stays a string at a string-typed position *)
  Lemma sq_string_stays format :
    style_quoted (h_style h) = true \/ nonstr v = false ->
    String.eqb (h_tag h) node_tag_null = false ->
    style_quoted (h_style (fmt_nonstring nonstr hastype ["string"] format h v)) = true \/ nonstr v = false.
  Proof.
    intros [Q|N] T; [left|right; exact N].
    unfold fmt_nonstring. destruct (nonstr v); cbn [negb]; auto.
    destruct (String.eqb format "int-or-string"); cbn [negb andb String.eqb Ascii.eqb Bool.eqb orb]; auto.
    rewrite Q. rewrite (fmt_nonstring_tail_quoted _ _ T). exact Q.
  Qed.

  (* the tag afterwards is the tag before, or the tag of a type the value really has *)
  Lemma sq_tag_sound types format :
    h_tag (fmt_nonstring nonstr hastype types format h v) = h_tag h \/
    (exists t, types = [t] /\ assoc_str t type_to_tag = Some (h_tag (fmt_nonstring nonstr hastype types format h v)) /\
               (t = "string" \/ hastype v t = true)).
  Proof.
    unfold fmt_nonstring. destruct types as [|t [|t2 ts]]; auto.
    destruct (negb (nonstr v)); auto.
    assert (TT : forall h0, h_tag h0 = h_tag h ->
              h_tag (fmt_nonstring_tail t h0) = h_tag h \/ assoc_str t type_to_tag = Some (h_tag (fmt_nonstring_tail t h0))).
    { intros h0 E0. unfold fmt_nonstring_tail. destruct (String.eqb (h_tag h0) node_tag_null); [left; exact E0|].
      destruct (assoc_str t type_to_tag) eqn:A; [right; reflexivity|left; exact E0]. }
    destruct (String.eqb t "string" && negb (String.eqb format "int-or-string")) eqn:Es.
    - apply andb_true_iff in Es. destruct Es as [Es _]. apply String.eqb_eq in Es.
      destruct (TT (if style_quoted (h_style h) then h else set_style h style_double)) as [L|R];
        [destruct (style_quoted (h_style h)); reflexivity|left; exact L|].
      right. exists t. auto.
    - destruct (String.eqb t "boolean" || String.eqb t "integer" || String.eqb t "number"); auto.
      destruct (hastype v t) eqn:HT; cbn [negb]; auto.
      destruct (TT (if style_quoted (h_style h) then set_style h 0%N else h)) as [L|R];
        [destruct (style_quoted (h_style h)); reflexivity|left; exact L|].
      right. exists t. auto.
  Qed.
End SchemaQuote.

(* regression (repair of schema/mismatched-scalar-retagged): `true` at an integer-typed position keeps
   its tag and style — before the repair it was tagged !!int *)
Example wit_mistyped_scalar_untouched :
  let h := mkHdr "" "" "" "" "!!bool" 0 in
  fmt_nonstring (fun _ => true) (fun v t => String.eqb v "true" && String.eqb t "boolean") ["integer"] "" h "true" = h.
Proof. vm_compute. reflexivity. Qed.

(* ---------- the opt-out annotation, and documents without type information ---------- *)

Theorem filter_doc_optout nonstr hastype srt s n v :
  lookup_fields ["metadata"; "annotations"; fmt_annotation] n = Ok (Some v) ->
  cvalue v = fmt_strategy_none ->
  filter_doc nonstr hastype srt s n = Ok n.
Proof.
  intros L V. unfold filter_doc, get_strategy. rewrite L. cbn [bind]. rewrite V.
  vm_compute (String.eqb fmt_strategy_none fmt_strategy_standard).
  rewrite String.eqb_refl. reflexivity.
Qed.

Theorem filter_doc_untyped nonstr hastype srt s n :
  get_strategy n = Ok StStandard ->
  get_field "kind" n = Ok None \/ (exists k, get_field "kind" n = Ok (Some k)) /\ get_field "apiVersion" n = Ok None ->
  filter_doc nonstr hastype srt s n = Ok n.
Proof.
  intros G [K|[[k K] A]]; unfold filter_doc; rewrite G; cbn [bind]; rewrite K; cbn [bind]; auto.
  rewrite A. reflexivity.
Qed.

(* ---------- canonical form: documents that differ only in the order of their fields ---------- *)

(* [mperm a b]: b is a with the pairs of its mappings (recursively) in another order; lists keep
   their order *)
Inductive mperm : cnode -> cnode -> Prop :=
| mp_scalar h v : mperm (CScalar h v) (CScalar h v)
| mp_alias h v : mperm (CAlias h v) (CAlias h v)
| mp_map h kvs mid kvs' :
    Permutation kvs mid ->
    Forall2 (fun a b => mperm (fst a) (fst b) /\ mperm (snd a) (snd b)) mid kvs' ->
    mperm (CMap h kvs) (CMap h kvs')
| mp_seq h es es' : Forall2 mperm es es' -> mperm (CSeq h es) (CSeq h es').

Lemma mperm_cvalue a b : mperm a b -> cvalue a = cvalue b.
Proof. destruct 1; reflexivity. Qed.

Lemma scan_field_cvalue f l l' acc :
  Forall2 (fun a b => cvalue a = cvalue b) l l' -> scan_field f l acc = scan_field f l' acc.
Proof.
  assert (G : forall n l l' acc, (List.length l <= n)%nat ->
            Forall2 (fun a b => cvalue a = cvalue b) l l' -> scan_field f l acc = scan_field f l' acc).
  { induction n as [|n IH]; intros l0 l0' acc0 L H.
    - destruct l0; [|cbn in L; lia]. inversion H; subst. reflexivity.
    - inversion H as [|k k' r r' Hk Hr]; subst; [reflexivity|].
      inversion Hr as [|v v' r2 r2' Hv Hr2]; subst; cbn.
      + reflexivity.
      + rewrite Hk, Hv. apply IH; [cbn in L; lia|exact Hr2]. }
  intros H. eapply G; eauto.
Qed.

Lemma perm_NoDup_map {A B} (g : A -> B) l l' : Permutation l l' -> NoDup (map g l) -> NoDup (map g l').
Proof. intros P. apply Permutation_NoDup. apply Permutation_map. exact P. Qed.

Lemma mperm_seq_key f a b : mperm a b -> wf_keys a = true -> seq_key f a = seq_key f b.
Proof.
  intros M W. destruct (String.eqb f "") eqn:Ef.
  - unfold seq_key. rewrite Ef. rewrite (mperm_cvalue _ _ M). reflexivity.
  - destruct M as [h v|h v|h kvs mid kvs' P F|h es es' F]; auto.
    + rewrite !seq_key_map by exact Ef. f_equal. f_equal.
      apply wf_keys_map in W. destruct W as [Nd _].
      assert (E1 : kv_strs kvs' = kv_strs mid).
      { clear - F. unfold kv_strs. induction F as [|a b t t' [M1 M2] _ IH]; cbn; auto.
        rewrite IH, (mperm_cvalue _ _ M1), (mperm_cvalue _ _ M2). reflexivity. }
      rewrite E1. apply perm_filter_unique.
      * unfold kv_strs. rewrite map_map. cbn.
        eapply perm_NoDup_map; [exact P|exact Nd].
      * unfold kv_strs. apply Permutation_map. exact P.
Qed.

Lemma Forall2_perm_l {A B} (R : A -> B -> Prop) l1 l1' l2 :
  Forall2 R l1 l2 -> Permutation l1 l1' -> exists l2', Permutation l2 l2' /\ Forall2 R l1' l2'.
Proof.
  intros HF HP. revert l2 HF. induction HP; intros l2 HF.
  - inversion HF; subst. exists []. auto.
  - inversion HF as [|a b la lb Hab Hrest]; subst.
    destruct (IHHP _ Hrest) as [m [P F]]. exists (b :: m). auto.
  - inversion HF as [|a b la lb Hab Hrest]; subst.
    inversion Hrest as [|a2 b2 la2 lb2 Hab2 Hrest2]; subst.
    exists (b2 :: b :: lb2). split; [apply perm_swap|]. auto.
  - destruct (IHHP1 _ HF) as [m [P F]]. destruct (IHHP2 _ F) as [m' [P' F']].
    exists m'. split; auto. etransitivity; eauto.
Qed.

Lemma S1_perm_unique srt : S1 srt ->
  forall (B : Type) cmp, strict_total cmp -> forall l l' : list (string * B),
    NoDup (map fst l) -> Permutation l l' -> srt _ (lt_fst cmp) l = srt _ (lt_fst cmp) l'.
Proof.
  intros H B cmp ST l l' Hnd HP.
  destruct (H B cmp ST l) as [P [S _]]. destruct (H B cmp ST l') as [P' [S' _]].
  apply (sorted_perm_unique cmp ST); auto.
  - rewrite P, HP. symmetry. exact P'.
  - eapply perm_NoDup_map; [apply Permutation_sym; exact P|exact Hnd].
Qed.

Section Canonical.
  Variable nonstr : string -> bool.
  Variable hastype : string -> string -> bool.
  Variable srt : sorter.
  Variables kind api : string.
  Hypothesis HS1 : S1 srt.

  Theorem fmt_canonical : forall n1 n2 s p a b,
    mperm n1 n2 -> wf_keys n1 = true ->
    fmt_node nonstr hastype srt kind api s p n1 = Ok a -> fmt_node nonstr hastype srt kind api s p n2 = Ok b -> a = b.
  Proof.
    induction n1 as [h v|h v|h kvs IH|h es IH] using cnode_ind'; intros n2 s p a b M W Ha Hb.
    - inv M. congruence.
    - inv M. congruence.
    - inversion M as [| |? ? mid kvs' H1 H3|]; subst. rewrite fmt_map_eq in Ha, Hb.
      apply bind_ok in Ha. destruct Ha as [D1 [HD1 Ha]]. inv Ha.
      apply bind_ok in Hb. destruct Hb as [D2 [HD2 Hb]]. inv Hb.
      apply fpairs_ok in HD1, HD2.
      apply wf_keys_map in W. destruct W as [Nd Wf].
      destruct (Forall2_perm_l _ _ _ _ HD1 H1) as [Dm [PD FDm]].
      assert (IHm : Forall (fun kv =>
                 (wf_keys (fst kv) = true /\ wf_keys (snd kv) = true) /\
                 (forall n2 s p a b, mperm (fst kv) n2 -> wf_keys (fst kv) = true ->
                    fmt_node nonstr hastype srt kind api s p (fst kv) = Ok a ->
                    fmt_node nonstr hastype srt kind api s p n2 = Ok b -> a = b) /\
                 (forall n2 s p a b, mperm (snd kv) n2 -> wf_keys (snd kv) = true ->
                    fmt_node nonstr hastype srt kind api s p (snd kv) = Ok a ->
                    fmt_node nonstr hastype srt kind api s p n2 = Ok b -> a = b)) mid).
      { eapply Forall_perm; [exact H1|]. rewrite Forall_forall in *. intros kv Hin. split; [auto|apply (IH kv Hin)]. }
      assert (EQ : Dm = D2).
      { clear - FDm HD2 H3 IHm. revert Dm D2 FDm HD2 IHm.
        induction H3 as [|x y t t' [M1 M2] _ IHF]; intros Dm D2 FDm HD2 IHm.
        - inversion FDm; subst. inversion HD2; subst. reflexivity.
        - inversion FDm as [|? d1 ? Dm' [A1 [A2 A3]] FDm']; subst.
          inversion HD2 as [|? d2 ? D2' [B1 [B2 B3]] HD2']; subst.
          inversion IHm as [|? ? [[W1 W2] [I1 I2]] IHm']; subst.
          f_equal; [|eapply IHF; eauto].
          destruct d1 as [k1 [x1 v1]], d2 as [k2 [x2 v2]]. cbn in *. subst k1 k2.
          pose proof (mperm_cvalue _ _ M1) as Cv. rewrite <- Cv in *.
          rewrite (I1 _ _ _ _ _ M1 W1 A2 B2), (I2 _ _ _ _ _ M2 W2 A3 B3). reflexivity. }
      subst D2. f_equal. f_equal.
      apply (S1_perm_unique srt HS1 _ less_key less_key_strict_total); auto.
      assert (map fst D1 = key_values kvs).
      { clear - HD1. unfold key_values. induction HD1 as [|kv d t D' [R1 _] _ IHd]; cbn; congruence. }
      rewrite H. exact Nd.
    - inversion M as [| | |? ? es' F]; subst. rewrite fmt_seq_eq in Ha, Hb.
      apply bind_ok in Ha. destruct Ha as [E1 [HE1 Ha]].
      apply bind_ok in Hb. destruct Hb as [E2 [HE2 Hb]].
      apply felems_ok in HE1, HE2.
      pose proof (wf_keys_seq _ _ W) as Wf.
      assert (EQ : E1 = E2).
      { clear - HE1 HE2 F IH Wf. revert E1 E2 HE1 HE2 IH Wf.
        induction F as [|x y t t' M _ IHF]; intros E1 E2 HE1 HE2 IH Wf.
        - inversion HE1; subst. inversion HE2; subst. reflexivity.
        - inversion HE1 as [|? e1 ? E1' A1 HE1']; subst.
          inversion HE2 as [|? e2 ? E2' B1 HE2']; subst.
          inversion IH as [|? ? I1 IH']; subst. inversion Wf as [|? ? W1 Wf']; subst.
          f_equal; [|eapply IHF; eauto].
          exact (I1 _ _ _ _ _ M W1 A1 B1). }
      subst E2.
      destruct (sort_field kind api p) as [f|] eqn:SF; [|congruence].
      assert (KEQ : seq_keys f es = seq_keys f es').
      { unfold seq_keys. rewrite (Forall2_length' _ _ _ F).
        destruct (2 <=? List.length es')%nat.
        - clear - F Wf. induction F as [|x y t t' M _ IHF]; cbn; auto.
          inversion Wf as [|? ? W1 Wf']; subst.
          rewrite (mperm_seq_key f _ _ M W1), IHF; auto.
        - clear - F. induction F; cbn; congruence. }
      rewrite KEQ in Ha. congruence.
  Qed.
End Canonical.

(* non-vacuity: two different orderings of the same fields *)
Example mperm_example :
  mperm (wm [("zeta", ws "1"); ("kind", ws "K"); ("apiVersion", ws "v1")])
        (wm [("apiVersion", ws "v1"); ("zeta", ws "1"); ("kind", ws "K")]).
Proof.
  unfold wm. cbn [map fst snd].
  eapply mp_map with (mid := [(ws "apiVersion", ws "v1"); (ws "zeta", ws "1"); (ws "kind", ws "K")]).
  - apply Permutation_sym. apply (Permutation_cons_app [_; _] []). cbn. apply Permutation_refl.
  - repeat constructor.
Qed.

(* ---------- obligations over the generated tables ---------- *)

(* the whitelist of sorted lists has one entry per path (first-match lookup = Go's map lookup) *)
Lemma Gen_wl_fields_functional : nodup_strs (map fst wl_fields) = true.
Proof. vm_compute. reflexivity. Qed.

(* the constants the model compares annotation values with are distinct *)
Lemma Gen_fmt_strategies_distinct : String.eqb fmt_strategy_none fmt_strategy_standard = false.
Proof. vm_compute. reflexivity. Qed.

(* ---------- the whole filter: FormatFilter.Filter on a document and on a stream ---------- *)

Lemma find_pair_filter name kvs :
  find_pair name kvs =
  match filter (fun kv : cnode * cnode => String.eqb (cvalue (fst kv)) name) kvs with
  | [] => None
  | kv :: _ => Some (snd kv)
  end.
Proof.
  induction kvs as [|kv t IH]; cbn; auto.
  destruct (String.eqb (cvalue (fst kv)) name); auto.
Qed.

Section Doc.
  Variable nonstr : string -> bool.
  Variable hastype : string -> string -> bool.
  Variable srt : sorter.
  Variables kind api : string.

  (* [x'] is the formatted [x] (at some schema and path) *)
  Definition fmt_of (x x' : cnode) : Prop :=
    exists s p, fmt_node nonstr hastype srt kind api s p x = Ok x'.

  (* the sort keeps the relative order of the entries of each key (stable sort, or unique keys) *)
  Definition keeps_order (n : cnode) : Prop :=
    forall h kvs, n = CMap h kvs -> forall s p D name,
      Forall2 (pair_rel nonstr hastype srt kind api s p) kvs D ->
      Permutation (srt _ (lt_fst less_key) D) D /\
      filter (fun d => String.eqb (fst d) name) (srt _ (lt_fst less_key) D) =
      filter (fun d => String.eqb (fst d) name) D.

  Lemma fmt_null_tag n s p n' :
    fmt_node nonstr hastype srt kind api s p n = Ok n' -> is_null_tag n' = is_null_tag n.
  Proof.
    destruct n as [h v|h kvs|h es|h v]; intros H.
    - cbn in H. inv H. unfold is_null_tag. cbn [chdr].
      destruct s as [|types format fs el]; cbn; auto.
      unfold fmt_nonstring. destruct types as [|t [|t2 ts]]; auto.
      destruct (negb (nonstr v)); auto.
      destruct (String.eqb t "string" && negb (String.eqb format "int-or-string")).
      + rewrite fmt_nonstring_tail_tag_null. destruct (style_quoted (h_style h)); reflexivity.
      + destruct (String.eqb t "boolean" || String.eqb t "integer" || String.eqb t "number"); auto.
        destruct (negb (hastype v t)); auto.
        rewrite fmt_nonstring_tail_tag_null. destruct (style_quoted (h_style h)); reflexivity.
    - rewrite fmt_map_eq in H. apply bind_ok in H. destruct H as [d [_ H]]. inv H. reflexivity.
    - rewrite fmt_seq_eq in H. apply bind_ok in H. destruct H as [es' [_ H]].
      destruct (sort_field kind api p).
      + apply bind_ok in H. destruct H as [ks [_ H]]. inv H. reflexivity.
      + inv H. reflexivity.
    - cbn in H. inv H. reflexivity.
  Qed.

  Lemma filter_Forall2 {A B} (R : A -> B -> Prop) (qa : A -> bool) (qb : B -> bool) l l' :
    Forall2 (fun a b => R a b /\ qa a = qb b) l l' -> Forall2 R (filter qa l) (filter qb l').
  Proof.
    induction 1 as [|a b t t' [HR Hq] _ IH]; cbn; [constructor|].
    rewrite Hq. destruct (qb b); auto.
  Qed.

  Lemma get_field_fmt name n s p n' :
    keeps_order n ->
    fmt_node nonstr hastype srt kind api s p n = Ok n' ->
    match get_field name n with
    | Ok (Some x) => exists x', get_field name n' = Ok (Some x') /\ fmt_of x x'
    | r => get_field name n' = r
    end.
  Proof.
    intros KO H. unfold get_field. rewrite (fmt_null_tag _ _ _ _ H).
    destruct (is_null_tag n); auto.
    destruct n as [h v|h kvs|h es|h v].
    - cbn in H. inv H. reflexivity.
    - rewrite fmt_map_eq in H. apply bind_ok in H. destruct H as [D [HD H]]. inv H.
      apply fpairs_ok in HD. destruct (KO _ _ eq_refl s p D name HD) as [HP HF].
      rewrite !find_pair_filter.
      set (S := srt _ (lt_fst less_key) D) in *.
      assert (HG : Forall (fun d : string * (cnode * cnode) => cvalue (fst (snd d)) = fst d) D).
      { eapply Forall2_Forall_r with (Q := fun _ => True); [exact HD| |].
        - rewrite Forall_forall. auto.
        - intros kv d _ [R1 [R2 R3]]. rewrite R1. apply (fmt_cvalue _ _ _ _ _ _ _ _ _ R2). }
      assert (E1 : filter (fun kv : cnode * cnode => String.eqb (cvalue (fst kv)) name) (map snd S) =
                   map snd (filter (fun d => String.eqb (fst d) name) S)).
      { assert (HGS : Forall (fun d : string * (cnode * cnode) => cvalue (fst (snd d)) = fst d) S)
          by (eapply Forall_perm; [apply Permutation_sym; exact HP|exact HG]).
        clear - HGS. induction HGS as [|d t Hd _ IH]; cbn; auto.
        rewrite Hd. destruct (String.eqb (fst d) name); cbn; rewrite IH; reflexivity. }
      rewrite E1, HF.
      assert (F2 : Forall2 (pair_rel nonstr hastype srt kind api s p)
                     (filter (fun kv : cnode * cnode => String.eqb (cvalue (fst kv)) name) kvs)
                     (filter (fun d => String.eqb (fst d) name) D)).
      { apply filter_Forall2. eapply Forall2_and_Forall with (Q := fun _ => True); [exact HD| |].
        - rewrite Forall_forall. auto.
        - intros kv d _ R. split; auto. destruct R as [R1 _]. rewrite R1. reflexivity. }
      destruct F2 as [|kv d t t' [R1 [R2 R3]] _]; cbn; auto.
      eexists. split; [reflexivity|]. eexists. eexists. exact R3.
    - rewrite fmt_seq_eq in H. apply bind_ok in H. destruct H as [es' [_ H]].
      destruct (sort_field kind api p).
      + apply bind_ok in H. destruct H as [ks [_ H]]. inv H. reflexivity.
      + inv H. reflexivity.
    - cbn in H. inv H. reflexivity.
  Qed.
End Doc.

Lemma find_pair_in name kvs x : find_pair name kvs = Some x -> exists kv, In kv kvs /\ snd kv = x.
Proof.
  induction kvs as [|kv t IH]; cbn; [discriminate|].
  destruct (String.eqb (cvalue (fst kv)) name).
  - intros H; inv H. exists kv. auto.
  - intros H. destruct (IH H) as [kv' [Hin E]]. exists kv'. auto.
Qed.

Section DocIdem.
  Variable nonstr : string -> bool.
  Variable hastype : string -> string -> bool.
  Variable srt : sorter.
  Variable good : cnode -> Prop.
  Hypothesis good_keeps : forall kind api n, good n -> keeps_order nonstr hastype srt kind api n.
  Hypothesis good_sub : forall h kvs, good (CMap h kvs) -> forall kv, In kv kvs -> good (snd kv).
  Hypothesis idem : forall kind api n s p n', good n ->
    fmt_node nonstr hastype srt kind api s p n = Ok n' -> fmt_node nonstr hastype srt kind api s p n' = Ok n'.

  Lemma get_field_good name n x : good n -> get_field name n = Ok (Some x) -> good x.
  Proof.
    unfold get_field. destruct (is_null_tag n); [discriminate|].
    destruct n as [h v|h kvs|h es|h v]; try discriminate.
    intros G H. inv H. destruct (find_pair_in _ _ _ H1) as [kv [Hin E]]. subst x. eapply good_sub; eauto.
  Qed.

  Lemma lookup_fields_fmt kind api : forall ps n n',
    good n -> fmt_of nonstr hastype srt kind api n n' ->
    match lookup_fields ps n with
    | Ok (Some x) => exists x', lookup_fields ps n' = Ok (Some x') /\ fmt_of nonstr hastype srt kind api x x'
    | r => lookup_fields ps n' = r
    end.
  Proof.
    induction ps as [|q ps IH]; intros n n' G [s [p F]]; cbn [lookup_fields].
    - eexists. split; [reflexivity|]. exists s, p. exact F.
    - pose proof (get_field_fmt nonstr hastype srt kind api q n s p n' (good_keeps kind api n G) F) as GF.
      destruct (get_field q n) as [[x|]| | |] eqn:E; cbn [bind].
      + destruct GF as [x' [E' FO]]. rewrite E'. cbn [bind].
        apply IH; auto. eapply get_field_good; eauto.
      + rewrite GF. reflexivity.
      + rewrite GF. reflexivity.
      + rewrite GF. reflexivity.
      + rewrite GF. reflexivity.
  Qed.

  Lemma fmt_of_cvalue kind api x x' : fmt_of nonstr hastype srt kind api x x' -> cvalue x' = cvalue x.
  Proof. intros [s [p F]]. eapply fmt_cvalue; eauto. Qed.

  Lemma get_strategy_fmt kind api n n' :
    good n -> fmt_of nonstr hastype srt kind api n n' -> get_strategy n' = get_strategy n.
  Proof.
    intros G F. unfold get_strategy.
    pose proof (lookup_fields_fmt kind api ["metadata"; "annotations"; fmt_annotation] n n' G F) as L.
    destruct (lookup_fields ["metadata"; "annotations"; fmt_annotation] n) as [[x|]| | |].
    - destruct L as [x' [E FO]]. rewrite E. cbn [bind]. rewrite (fmt_of_cvalue _ _ _ _ FO). reflexivity.
    - rewrite L. reflexivity.
    - rewrite L. reflexivity.
    - rewrite L. reflexivity.
    - rewrite L. reflexivity.
  Qed.

  Theorem filter_doc_idem s n n' :
    good n ->
    filter_doc nonstr hastype srt s n = Ok n' -> filter_doc nonstr hastype srt s n' = Ok n'.
  Proof.
    intros G H. unfold filter_doc in H.
    destruct (get_strategy n) as [st| | |] eqn:ES; cbn [bind] in H; try discriminate.
    destruct st.
    2:{ inv H. unfold filter_doc. rewrite ES. reflexivity. }
    destruct (get_field "kind" n) as [[kn|]| | |] eqn:EK; cbn [bind] in H; try discriminate.
    2:{ inv H. unfold filter_doc. rewrite ES. cbn [bind]. rewrite EK. reflexivity. }
    destruct (get_field "apiVersion" n) as [[an|]| | |] eqn:EA; cbn [bind] in H; try discriminate.
    2:{ inv H. unfold filter_doc. rewrite ES. cbn [bind]. rewrite EK. cbn [bind]. rewrite EA. reflexivity. }
    set (kind := cvalue kn) in *. set (api := cvalue an) in *.
    assert (FO : fmt_of nonstr hastype srt kind api n n') by (exists s, ""; exact H).
    unfold filter_doc. rewrite (get_strategy_fmt kind api n n' G FO), ES. cbn [bind].
    pose proof (get_field_fmt nonstr hastype srt kind api "kind" n s "" n' (good_keeps kind api n G) H) as GK.
    rewrite EK in GK. destruct GK as [kn' [EK' FK]]. rewrite EK'. cbn [bind].
    pose proof (get_field_fmt nonstr hastype srt kind api "apiVersion" n s "" n' (good_keeps kind api n G) H) as GA.
    rewrite EA in GA. destruct GA as [an' [EA' FA]]. rewrite EA'. cbn [bind].
    rewrite (fmt_of_cvalue _ _ _ _ FK), (fmt_of_cvalue _ _ _ _ FA).
    eapply idem; eauto.
  Qed.

  Theorem filter_stream_idem docs outs :
    Forall (fun d => good (fst d)) docs ->
    filter_stream nonstr hastype srt docs = Ok outs ->
    filter_stream nonstr hastype srt (combine outs (map snd docs)) = Ok outs.
  Proof.
    unfold filter_stream. intros HG H. apply mapM_ok in H. apply mapM_ok.
    induction H as [|d o t t' Hd _ IH]; cbn; [constructor|].
    inv HG. constructor; auto. cbn. eapply filter_doc_idem; eauto.
  Qed.
End DocIdem.

(* stable sort: every stream *)
Theorem filter_stream_idem_isort nonstr hastype docs outs :
  filter_stream nonstr hastype isort docs = Ok outs ->
  filter_stream nonstr hastype isort (combine outs (map snd docs)) = Ok outs.
Proof.
  apply (filter_stream_idem nonstr hastype isort (fun _ => True)).
  - intros kind api n _ h kvs _ s p D name HD. unfold isort. split.
    + apply isort_perm.
    + apply (isort_filter less_key less_key_strict_total).
  - auto.
  - intros kind api n s p n' _. apply fmt_idem_isort.
  - rewrite Forall_forall. auto.
Qed.

(* any (S1) sort: documents with unique keys *)
Theorem filter_stream_idem_S1 nonstr hastype srt docs outs : S1 srt ->
  Forall (fun d => wf_keys (fst d) = true) docs ->
  filter_stream nonstr hastype srt docs = Ok outs ->
  filter_stream nonstr hastype srt (combine outs (map snd docs)) = Ok outs.
Proof.
  intros HS1 HG. apply (filter_stream_idem nonstr hastype srt (fun n => wf_keys n = true)).
  - intros kind api n W h kvs -> s p D name HD.
    destruct (HS1 _ less_key less_key_strict_total D) as [HP _]. split; [exact HP|].
    apply perm_filter_unique; [|exact HP].
    apply wf_keys_map in W. destruct W as [Nd _].
    assert (map fst D = key_values kvs).
    { clear - HD. unfold key_values. induction HD as [|kv d t D' [R1 _] _ IH]; cbn; congruence. }
    rewrite H. exact Nd.
  - intros h kvs W kv Hin. apply wf_keys_map in W. destruct W as [_ W].
    rewrite Forall_forall in W. apply (W kv Hin).
  - intros kind api n s p n' W. apply fmt_idem_S1; auto.
  - exact HG.
Qed.

(* ---------- independence of the sort algorithm when all sort keys are distinct ---------- *)

Lemma NoDup_fst_combine {B} (K : list string) (E : list B) : NoDup K -> NoDup (map fst (combine K E)).
Proof.
  intros H. revert E. induction H as [|k K Hn Hd IH]; intros [|e E]; cbn; try constructor; auto.
  intros Hin. apply Hn. clear - Hin. revert E Hin.
  induction K as [|k' K IH]; intros [|e E] Hin; cbn in *; try contradiction.
  destruct Hin as [->|Hin]; [left; auto|right; eapply IH; eauto].
Qed.

Section SortIndependent.
  Variable nonstr : string -> bool.
  Variable hastype : string -> string -> bool.
  Variables srt srt' : sorter.
  Variables kind api : string.
  Hypothesis H1 : S1 srt.
  Hypothesis H2 : S1 srt'.

  Theorem fmt_sort_independent : forall n s p,
    distinct_sortkeys kind api p n = true ->
    fmt_node nonstr hastype srt kind api s p n = fmt_node nonstr hastype srt' kind api s p n.
  Proof.
    induction n as [h v|h v|h kvs IH|h es IH] using cnode_ind'; intros s p HD; auto.
    - rewrite !fmt_map_eq. cbn [distinct_sortkeys] in HD. apply andb_true_iff in HD. destruct HD as [Nd HD].
      assert (EP : fmt_pairs nonstr hastype srt kind api s p kvs = fmt_pairs nonstr hastype srt' kind api s p kvs).
      { clear Nd. induction kvs as [|kv t IHt]; cbn [fmt_pairs]; auto.
        inversion IH as [|? ? [I1 I2] IH']; subst.
        apply andb_true_iff in HD. destruct HD as [HD HD3]. apply andb_true_iff in HD. destruct HD as [HD1 HD2].
        rewrite (I1 SNil p HD1), (I2 _ _ HD2), (IHt IH' HD3). reflexivity. }
      rewrite EP. destruct (fmt_pairs nonstr hastype srt' kind api s p kvs) as [D| | |] eqn:ED; auto.
      cbn [bind]. f_equal. f_equal. f_equal.
      apply (S1_unique srt srt' H1 H2 _ less_key less_key_strict_total).
      apply fpairs_ok in ED.
      assert (map fst D = key_values kvs).
      { clear - ED. unfold key_values. induction ED as [|kv d t D' [R1 _] _ IHd]; cbn; congruence. }
      rewrite H. apply nodup_strs_NoDup. exact Nd.
    - rewrite !fmt_seq_eq. cbn [distinct_sortkeys] in HD. apply andb_true_iff in HD. destruct HD as [HK HD].
      assert (EE : forall s0, fmt_elems nonstr hastype srt kind api s0 p es = fmt_elems nonstr hastype srt' kind api s0 p es).
      { intros s0. clear HK. induction es as [|e t IHt]; cbn [fmt_elems]; auto.
        inversion IH as [|? ? I1 IH']; subst.
        apply andb_true_iff in HD. destruct HD as [HD1 HD2].
        rewrite (I1 _ _ HD1), (IHt IH' HD2). reflexivity. }
      rewrite EE. destruct (fmt_elems nonstr hastype srt' kind api (sch_elems s) p es) as [E| | |]; auto.
      cbn [bind]. destruct (sort_field kind api p) as [f|]; auto.
      destruct (seq_keys f es) as [K| | |]; auto.
      cbn [bind]. f_equal. f_equal. f_equal.
      apply (S1_unique srt srt' H1 H2 _ String.ltb ltb_strict_total).
      apply NoDup_fst_combine. apply nodup_strs_NoDup. exact HK.
  Qed.
End SortIndependent.

(* ---------- anchors ---------- *)

(* data: { b: &x hello, a: *x }  — sorting the fields puts the alias in front of its anchor *)
Definition wit_alias : cnode :=
  wm [("apiVersion", ws "v1"); ("kind", ws "ConfigMap");
      ("data", wm [("b", CScalar (mkHdr "" "" "" "x" "" 0) "hello"); ("a", CAlias hd0 "x")])].

Theorem fmt_anchor_order_refuted : forall nonstr hastype, exists n n',
  wf_keys n = true /\ anchors_ok n = true /\
  filter_doc nonstr hastype isort SNil n = Ok n' /\ anchors_ok n' = false.
Proof.
  intros nonstr hastype. exists wit_alias. eexists.
  split; [vm_compute; reflexivity|]. split; [vm_compute; reflexivity|].
  split; [vm_compute; reflexivity|]. vm_compute. reflexivity.
Qed.

(* ---------- the generated tables are the pinned reference tables (Yaml/FmtTablesRef.v) ---------- *)

Lemma Gen_fmt_whitelist_eq_ref :
  wl_kinds = ref_wl_kinds /\ wl_apis = ref_wl_apis /\ wl_fields = ref_wl_fields.
Proof. repeat split; reflexivity. Qed.

Lemma Gen_field_order_eq_ref : field_sort_order = ref_field_sort_order.
Proof. reflexivity. Qed.

Lemma Gen_type_to_tag_eq_ref : type_to_tag = ref_type_to_tag.
Proof. reflexivity. Qed.

(* ---------- the output is in canonical order ---------- *)

Lemma sorted_sortedb_keys {B} cmp (S : list (string * B)) :
  sorted cmp S -> sortedb cmp (map fst S) = true.
Proof.
  induction 1 as [|x t Hs IH Hall]; cbn; auto.
  rewrite IH, andb_true_r. rewrite forallb_forall. intros y Hy.
  apply in_map_iff in Hy. destruct Hy as [d [<- Hd]].
  rewrite Forall_forall in Hall. specialize (Hall d Hd). unfold le_fst in Hall. rewrite Hall. reflexivity.
Qed.

Lemma sortedb_short {A} (lt : A -> A -> bool) l : (List.length l < 2)%nat -> sortedb lt l = true.
Proof. destruct l as [|x [|y t]]; cbn; auto; lia. Qed.

Section OutputSorted.
  Variable nonstr : string -> bool.
  Variable hastype : string -> string -> bool.
  Variables kind api : string.

  Lemma isort_elem_keeps_key f e s p e' k :
    fmt_node nonstr hastype isort kind api s p e = Ok e' -> seq_key f e = Ok k -> seq_key f e' = Ok k.
  Proof.
    apply (elem_keeps_key nonstr hastype kind api isort (fun _ => True)); auto.
    intros s1 p1 h0 kvs f0 _ D _. unfold isort. split.
    - apply isort_perm.
    - apply (isort_filter less_key less_key_strict_total).
  Qed.

  Theorem fmt_output_sorted : forall n s p n',
    fmt_node nonstr hastype isort kind api s p n = Ok n' -> canon_sorted kind api p n' = true.
  Proof.
    induction n as [h v|h v|h kvs IH|h es IH] using cnode_ind'; intros s p n' H.
    - cbn in H. inv H. reflexivity.
    - cbn in H. inv H. reflexivity.
    - rewrite fmt_map_eq in H. apply bind_ok in H. destruct H as [D [HD H]]. inv H.
      apply fpairs_ok in HD.
      destruct (isort_S1 _ less_key less_key_strict_total D) as [HP [HSo _]].
      set (S := isort _ (lt_fst less_key) D) in *.
      assert (HQ : Forall (fun d : string * (cnode * cnode) =>
                     cvalue (fst (snd d)) = fst d /\
                     canon_sorted kind api p (fst (snd d)) = true /\
                     canon_sorted kind api (p ++ "." ++ fst d) (snd (snd d)) = true) S).
      { eapply Forall_perm; [apply Permutation_sym; exact HP|].
        eapply Forall2_Forall_r; [exact HD|exact IH|].
        intros kv d [I1 I2] [R1 [R2 R3]].
        rewrite R1. split; [apply (fmt_cvalue _ _ _ _ _ _ _ _ _ R2)|]. split; [exact (I1 _ _ _ R2)|exact (I2 _ _ _ R3)]. }
      cbn [canon_sorted]. apply andb_true_iff. split.
      + replace (key_values (map snd S)) with (map fst S); [apply sorted_sortedb_keys; exact HSo|].
        unfold key_values. rewrite map_map. clear - HQ.
        induction HQ as [|d t [E _] _ IHt]; cbn; auto. rewrite E, IHt. reflexivity.
      + clear - HQ. induction HQ as [|d t [E [C1 C2]] _ IHt]; cbn [map]; auto.
        rewrite C1, E, C2, IHt. reflexivity.
    - rewrite fmt_seq_eq in H. apply bind_ok in H. destruct H as [E [HE H]].
      apply felems_ok in HE.
      assert (HC : Forall (fun e' => canon_sorted kind api p e' = true) E).
      { eapply Forall2_Forall_r; [exact HE|exact IH|]. intros e e' I R. exact (I _ _ _ R). }
      assert (GO : forall l, Forall (fun e' => canon_sorted kind api p e' = true) l ->
                 (fix go (l : list cnode) : bool :=
                    match l with [] => true | e :: t => canon_sorted kind api p e && go t end) l = true).
      { induction 1 as [|x t Hx _ IHt]; auto. rewrite Hx, IHt. reflexivity. }
      destruct (sort_field kind api p) as [f|] eqn:SF.
      + apply bind_ok in H. destruct H as [K [HK H]]. inv H.
        destruct (isort_S1 _ String.ltb ltb_strict_total (combine K E)) as [HP [HSo _]].
        set (S := isort _ (lt_fst String.ltb) (combine K E)) in *.
        cbn [canon_sorted]. rewrite SF. apply andb_true_iff. split.
        * assert (LE : List.length E = List.length es) by (symmetry; eapply Forall2_length'; eauto).
          assert (LK : List.length K = List.length es) by (eapply seq_keys_length; eauto).
          assert (LS : List.length (map snd S) = List.length es).
          { rewrite map_length, (Permutation_length HP), combine_length. lia. }
          unfold seq_keys in HK. destruct (2 <=? List.length es)%nat eqn:E2.
          -- apply mapM_ok in HK.
             pose proof (Forall2_combine _ _ _ _ _ HK HE) as HCm.
             assert (HF : Forall (fun d : string * cnode => seq_key f (snd d) = Ok (fst d)) S).
             { eapply Forall_perm; [apply Permutation_sym; exact HP|].
               eapply Forall2_Forall_r with (Q := fun _ => True); [exact HCm| |].
               - rewrite Forall_forall. auto.
               - intros e d _ [R1 R2]. eapply isort_elem_keeps_key; eauto. }
             assert (HM : mapM (seq_key f) (map snd S) = Ok (map fst S)).
             { apply mapM_ok. clear - HF. induction HF as [|d t Hd _ IHt]; cbn; constructor; auto. }
             rewrite HM. apply sorted_sortedb_keys. exact HSo.
          -- apply Nat.leb_gt in E2.
             assert (HT : exists K', mapM (seq_key f) (map snd S) = Ok K').
             { clear. induction (map snd S) as [|e t [K' HK']]; cbn; [eauto|].
               destruct (seq_key_ok f e) as [k Hk]. rewrite Hk, HK'. cbn. eauto. }
             destruct HT as [K' HK']. rewrite HK'. apply sortedb_short.
             apply mapM_ok in HK'. rewrite <- (Forall2_length' _ _ _ HK'). lia.
        * apply GO. eapply Forall_perm with (l := E).
          -- assert (PE : Permutation (map snd S) (map snd (combine K E))) by (apply Permutation_map; exact HP).
             assert (LK : List.length K = List.length E).
             { rewrite (seq_keys_length _ _ _ HK). eapply Forall2_length'; eauto. }
             assert (ME : map snd (combine K E) = E).
             { clear - LK. revert E LK. induction K as [|k K IHK]; intros [|e E] L; cbn in *; try discriminate; auto.
               f_equal. apply IHK. lia. }
             rewrite ME in PE. apply Permutation_sym. exact PE.
          -- exact HC.
      + inv H. cbn [canon_sorted]. rewrite SF. cbn [andb]. apply GO. exact HC.
  Qed.
End OutputSorted.

(* ---------- the alias-free fragment: formatting cannot make a document unparsable through anchors ---------- *)

Lemma alias_free_map h kvs :
  alias_free (CMap h kvs) = true <-> Forall (fun kv => alias_free (fst kv) = true /\ alias_free (snd kv) = true) kvs.
Proof.
  cbn [alias_free]. induction kvs as [|kv t IH]; [split; auto|].
  rewrite !andb_true_iff, IH. split.
  - intros [[A B] C]. constructor; auto.
  - intros H. inv H. destruct H2. auto.
Qed.

Lemma alias_free_seq h es : alias_free (CSeq h es) = true <-> Forall (fun e => alias_free e = true) es.
Proof.
  cbn [alias_free]. induction es as [|e t IH]; [split; auto|].
  rewrite andb_true_iff, IH. split.
  - intros [A B]. constructor; auto.
  - intros H. inv H. auto.
Qed.

Lemma alias_free_scan : forall n seen, alias_free n = true -> exists seen', anchors_scan n seen = Some seen'.
Proof.
  induction n as [h v|h v|h kvs IH|h es IH] using cnode_ind'; intros seen AF.
  - cbn. eauto.
  - discriminate.
  - apply alias_free_map in AF. cbn [anchors_scan].
    generalize (if String.eqb (h_anchor (chdr (CMap h kvs))) "" then seen else h_anchor (chdr (CMap h kvs)) :: seen).
    induction kvs as [|kv t IHt]; intros sn; [eauto|].
    inversion IH as [|? ? [I1 I2] IH']; subst. inversion AF as [|? ? [A1 A2] AF']; subst.
    destruct (I1 sn A1) as [s1 E1]. rewrite E1. destruct (I2 s1 A2) as [s2 E2]. rewrite E2.
    apply IHt; auto.
  - apply alias_free_seq in AF. cbn [anchors_scan].
    generalize (if String.eqb (h_anchor (chdr (CSeq h es))) "" then seen else h_anchor (chdr (CSeq h es)) :: seen).
    induction es as [|e t IHt]; intros sn; [eauto|].
    inversion IH as [|? ? I1 IH']; subst. inversion AF as [|? ? A1 AF']; subst.
    destruct (I1 sn A1) as [s1 E1]. rewrite E1. apply IHt; auto.
Qed.

Theorem fmt_alias_free nonstr hastype srt kind api : S1 srt -> forall n s p n',
  alias_free n = true -> fmt_node nonstr hastype srt kind api s p n = Ok n' ->
  alias_free n' = true /\ anchors_ok n' = true.
Proof.
  intros HS1.
  assert (G : forall n s p n', alias_free n = true ->
            fmt_node nonstr hastype srt kind api s p n = Ok n' -> alias_free n' = true).
  { induction n as [h v|h v|h kvs IH|h es IH] using cnode_ind'; intros s p n' AF H.
    - cbn in H. inv H. reflexivity.
    - discriminate.
    - rewrite fmt_map_eq in H. apply bind_ok in H. destruct H as [D [HD H]]. inv H.
      apply fpairs_ok in HD. apply alias_free_map in AF.
      destruct (HS1 _ less_key less_key_strict_total D) as [HP _].
      apply alias_free_map. apply Forall_forall. intros kv Hin.
      apply in_map_iff in Hin. destruct Hin as [d [<- Hd]].
      apply (Permutation_in _ HP) in Hd.
      assert (HQ : Forall (fun d : string * (cnode * cnode) =>
                     alias_free (fst (snd d)) = true /\ alias_free (snd (snd d)) = true) D).
      { assert (HA : Forall (fun kv => (alias_free (fst kv) = true /\ alias_free (snd kv) = true) /\
                         ((forall s p n', alias_free (fst kv) = true ->
                             fmt_node nonstr hastype srt kind api s p (fst kv) = Ok n' -> alias_free n' = true) /\
                          (forall s p n', alias_free (snd kv) = true ->
                             fmt_node nonstr hastype srt kind api s p (snd kv) = Ok n' -> alias_free n' = true))) kvs).
        { rewrite Forall_forall in *. intros kv Hkv. split; [auto|apply (IH kv Hkv)]. }
        eapply Forall2_Forall_r; [exact HD|exact HA|].
        intros kv d0 [[A1 A2] [I1 I2]] [R1 [R2 R3]]. split; [exact (I1 _ _ _ A1 R2)|exact (I2 _ _ _ A2 R3)]. }
      rewrite Forall_forall in HQ. apply HQ. exact Hd.
    - rewrite fmt_seq_eq in H. apply bind_ok in H. destruct H as [E [HE H]].
      apply felems_ok in HE. apply alias_free_seq in AF.
      assert (HC : Forall (fun e' => alias_free e' = true) E).
      { assert (HA : Forall (fun e => alias_free e = true /\
                         (forall s p n', alias_free e = true ->
                            fmt_node nonstr hastype srt kind api s p e = Ok n' -> alias_free n' = true)) es).
        { rewrite Forall_forall in *. intros e He. split; [auto|apply (IH e He)]. }
        eapply Forall2_Forall_r; [exact HE|exact HA|]. intros e e' [A I] R. exact (I _ _ _ A R). }
      destruct (sort_field kind api p) as [f|].
      + apply bind_ok in H. destruct H as [K [HK H]]. inv H.
        destruct (HS1 _ String.ltb ltb_strict_total (combine K E)) as [HP _].
        apply alias_free_seq. apply Forall_forall. intros e Hin.
        apply in_map_iff in Hin. destruct Hin as [d [<- Hd]].
        apply (Permutation_in _ HP) in Hd. destruct d as [k0 e0]. apply in_combine_r in Hd.
        rewrite Forall_forall in HC. cbn. auto.
      + inv H. apply alias_free_seq. exact HC. }
  intros n s p n' AF H. pose proof (G n s p n' AF H) as A. split; auto.
  unfold anchors_ok. destruct (alias_free_scan n' [] A) as [s' E]. rewrite E. reflexivity.
Qed.

(* ---------- YAML 1.1 resolution inside the model (Yaml/Resolve11.v) ---------- *)

Section SchemaQuoteResolved.
  Variable o1 : string -> bool.               (* residual oracles, consulted outside the fragment only *)
  Variable o2 : string -> string -> bool.
  Variables (h : hdr) (v : string) (r : rtag).
  Hypothesis HR : resolve11 v = Some r.

  Notation fns := (fmt_nonstring (nonstr_m o1) (hastype_m o2)).

  (* a text that YAML 1.1 resolves to a string is never touched, whatever the schema says *)
  Lemma sqr_string_untouched types format : r = RStr -> fns types format h v = h.
  Proof. intros ->. apply sq_untouched. rewrite (nonstr_m_resolved _ _ _ HR). reflexivity. Qed.

  (* a non-string text at a string-typed position is quoted and tagged !!str *)
  Lemma sqr_quoted format :
    r <> RStr -> String.eqb format "int-or-string" = false -> String.eqb (h_tag h) node_tag_null = false ->
    style_quoted (h_style (fns ["string"] format h v)) = true /\ h_tag (fns ["string"] format h v) = "!!str".
  Proof.
    intros N F T. apply sq_string; auto. rewrite (nonstr_m_resolved _ _ _ HR). destruct r; auto; congruence.
  Qed.

  (* at a boolean / integer / number position: unquoted and tagged when the text has that type,
     untouched otherwise *)
  Lemma sqr_typed t format tg :
    is_num_type t -> rtag_has_type r t = true -> assoc_str t type_to_tag = Some tg ->
    String.eqb (h_tag h) node_tag_null = false ->
    style_quoted (h_style (fns [t] format h v)) = false /\ h_tag (fns [t] format h v) = tg.
  Proof.
    intros Ht HT A T. apply sq_number; auto.
    - rewrite (nonstr_m_resolved _ _ _ HR). destruct r; auto; destruct Ht as [->|[->| ->]]; discriminate.
    - rewrite (hastype_m_resolved _ _ _ _ HR). exact HT.
  Qed.

  Lemma sqr_mistyped t format : is_num_type t -> rtag_has_type r t = false -> fns [t] format h v = h.
  Proof. intros Ht HT. apply sq_mistyped; auto. rewrite (hastype_m_resolved _ _ _ _ HR). exact HT. Qed.
End SchemaQuoteResolved.

(* concrete instances, whatever the residual oracles answer *)
Example resolve11_examples :
  map resolve11 ["yes"; "On"; "yEs"; "~"; "010"; "08"; "0x1F"; "0o7"; "1_000"; "1e3"; ".5"; "-.inf"; "1.2.3"; "web"; "-x"] =
  [Some RBool; Some RBool; Some RStr; Some RNull; Some RInt; Some RFloat; Some RInt; Some RInt; Some RInt;
   Some RFloat; Some RFloat; Some RFloat; Some RStr; Some RStr; Some RStr] /\
  map resolve11 ["2001-01-01"; "a b"; "a: b"; "1e100"; "-"; ""] = [None; None; None; None; None; None].
Proof. split; vm_compute; reflexivity. Qed.

Example schema_quote_examples : forall o1 o2,
  let plain := mkHdr "" "" "" "" "!!str" 0 in
  let quoted := mkHdr "" "" "" "" "!!str" 2 in
  (* label value `on` (string position): quoted *)
  fmt_nonstring (nonstr_m o1) (hastype_m o2) ["string"] "" (mkHdr "" "" "" "" "!!bool" 0) "on" =
    mkHdr "" "" "" "" "!!str" 2 /\
  (* replicas: "3" (integer position): unquoted, !!int *)
  fmt_nonstring (nonstr_m o1) (hastype_m o2) ["integer"] "int32" quoted "3" = mkHdr "" "" "" "" "!!int" 0 /\
  (* replicas: "true" (integer position): left as written *)
  fmt_nonstring (nonstr_m o1) (hastype_m o2) ["integer"] "int32" quoted "true" = quoted /\
  (* image: nginx : untouched *)
  fmt_nonstring (nonstr_m o1) (hastype_m o2) ["string"] "" plain "nginx" = plain.
Proof. intros o1 o2. repeat split; vm_compute; reflexivity. Qed.

(* ---------- the reparse law on the alias-free fragment, for FormatFilter.Filter ---------- *)

Theorem filter_doc_reparse nonstr hastype srt : S1 srt -> forall s n n',
  alias_free n = true -> filter_doc nonstr hastype srt s n = Ok n' ->
  alias_free n' = true /\ anchors_ok n' = true.
Proof.
  intros HS1 s n n' AF H.
  assert (Same : alias_free n = true /\ anchors_ok n = true).
  { split; auto. unfold anchors_ok. destruct (alias_free_scan n [] AF) as [s' E]. rewrite E. reflexivity. }
  unfold filter_doc in H.
  destruct (get_strategy n) as [st| | |]; cbn [bind] in H; try discriminate.
  destruct st; [|inv H; exact Same].
  destruct (get_field "kind" n) as [[kn|]| | |]; cbn [bind] in H; try discriminate; [|inv H; exact Same].
  destruct (get_field "apiVersion" n) as [[an|]| | |]; cbn [bind] in H; try discriminate; [|inv H; exact Same].
  eapply fmt_alias_free; eauto.
Qed.

(* non-vacuity: a document with an anchor but no alias is alias-free, gets reordered, and stays parsable *)
Definition wit_anchor_only : cnode :=
  wm [("zeta", CScalar (mkHdr "" "" "" "x" "" 0) "1"); ("kind", ws "K"); ("apiVersion", ws "v1"); ("alpha", ws "2")].

Example wit_anchor_only_reparse : forall nonstr hastype, exists n',
  alias_free wit_anchor_only = true /\
  filter_doc nonstr hastype isort SNil wit_anchor_only = Ok n' /\ n' <> wit_anchor_only /\
  anchors_ok n' = true.
Proof.
  intros nonstr hastype. eexists. split; [vm_compute; reflexivity|]. split; [vm_compute; reflexivity|].
  split; [apply cnode_neq; vm_compute; reflexivity|vm_compute; reflexivity].
Qed.
