(* kio.ByteReader.Read followed by kio.ByteWriter.Write at TEXT level, as far as kustomize's own code goes:
   splitting (Yaml/Split.v), the newline re-appended to every chunk but the last, skipping of chunks that hold no
   document, the index annotations (Yaml/Annot.v), the writer's clearing, and the "---" line the encoder puts
   before every document but the first.  go-yaml's decoder and encoder are PARAMETERS:
     dec : one chunk -> its document root (None: empty / null document, skipped by the reader)
     enc : one document -> its text, "\n"-terminated.
   Not modelled: unwrapping of a single List / ResourceList document, Sort, WrappingKind, JSON output, seqindent
   derivation (PreserveSeqIndent is off by default).  Definitions only; proofs are in Yaml/StreamProofs.v. *)
From KV Require Export Yaml.Split Yaml.Annot.

Definition enc_sep : string := String dash (String dash (String dash (String nl ""))).   (* "---\n" *)

(* d1 ++ "---\n" ++ d2 ++ ... *)
Fixpoint join_docs (ds : list string) : string :=
  match ds with
  | [] => EmptyString
  | [d] => d
  | d :: t => d ++ enc_sep ++ join_docs t
  end.

Section Stream.
  Variable nonstr : string -> bool.
  Variable dec : string -> res (option node).
  Variable enc : node -> string.

  (* ByteReader.Read over the chunks: the index counts the documents kept *)
  Fixpoint read_chunks (idx : N) (cs : list string) : res (list node) :=
    match cs with
    | [] => Ok []
    | c :: t =>
        do d <- dec c;
        match d with
        | None => read_chunks idx t
        | Some n => do n1 <- read_set nonstr idx n; do r <- read_chunks (idx + 1)%N t; Ok (n1 :: r)
        end
    end.

  Definition read_stream (s : string) : res (list node) :=
    do cs <- reader_chunks s; read_chunks 0%N cs.

  (* ByteWriter.Write (default options): clear, then encode every node *)
  Fixpoint write_docs (ns : list node) : res (list string) :=
    match ns with
    | [] => Ok []
    | n :: t => do n1 <- write_clear n; do r <- write_docs t; Ok (enc n1 :: r)
    end.

  Definition write_stream (ns : list node) : res string :=
    do ds <- write_docs ns; Ok (join_docs ds).

  Definition rt_stream (s : string) : res string :=
    do ns <- read_stream s; write_stream ns.

  (* no carriage return: CR-LF normalisation leaves the text alone *)
  Fixpoint no_cr (s : string) : bool :=
    match s with
    | EmptyString => true
    | String c s' => negb (Ascii.eqb c cr) && no_cr s'
    end.

  (* A document on which the emitter is stable, stated as what the text-level argument needs of the two
     external functions (this is what `emit_stable` has to guarantee for a fragment of YAML):
     - the resource is well-formed and already settled (no empty annotations / metadata map);
     - decoding its encoding gives it back;
     - its encoding is a body followed by "\n", without CR, and the body contains no separator candidate
       ("\n---" up to an end of line) and does not end inside one. *)
  Definition stable_doc (n : node) : Prop :=
    res_wf reader_keys n /\
    clear_empty_annotations n = Ok n /\
    dec (enc n) = Ok (Some n) /\
    exists body, enc n = (body ++ String nl "")%string /\ plain_doc body = true /\ no_cr (enc n) = true.
End Stream.
