(* C04 frame law through keyed lists (one merge key): an element of a keyed target list whose key value the
   patch list does not mention is walked with an absent patch and stays in the result list under its key.
   The list functions of the walker (ElementSetter, ElementMatcher, elementValues, appendListNode) are first
   brought to plain list functions on lists of "good" elements. *)
From KV Require Import Yaml.Walk Yaml.WalkProofs Yaml.WalkFields Yaml.WalkShape Yaml.SortUniq
     Yaml.Merge2 Yaml.Merge2Proofs Yaml.Merge2Frame Yaml.Merge2Idem.
Local Open Scope string_scope.
Local Open Scope list_scope.

Lemma NoDup_app_single0 {A} (l : list A) x : NoDup l -> ~ In x l -> NoDup (l ++ [x]).
Proof.
  induction l as [|y t IH]; intros Hnd Hx; cbn; [constructor; auto; constructor|].
  inversion Hnd as [|? ? Hy Ht]; subst. constructor.
  - rewrite in_app_iff. cbn. intros [H|[H|[]]]; auto. subst. apply Hx. left; auto.
  - apply IH; auto. intros H. apply Hx. right; auto.
Qed.

Section Elems.
  Variable k : string.

  (* the key value of an element *)
  Definition kv (e : node) : string :=
    match e with
    | Map kvs => match find_field k kvs with Some x => node_value x | None => "" end
    | _ => ""
    end.

  (* a good element: a mapping with pairwise different keys, no "$patch" key, and a non-null, non-empty scalar
     under the merge key *)
  Definition gel (e : node) : bool :=
    match e with
    | Map kvs =>
        nodup_keys (keys kvs) && negb (str_in smp_key (keys kvs)) &&
        match find_field k kvs with
        | Some (Scalar t s x) => negb (is_null (Scalar t s x)) && negb (String.eqb x "")
        | _ => false
        end
    | _ => false
    end.
  Definition goodl (es : list node) : bool := forallb gel es.

  Definition lookup (v : string) (es : list node) : option node := find (fun e => String.eqb (kv e) v) es.

  Lemma gel_inv e : gel e = true ->
    exists kvs t s x, e = Map kvs /\ nodupk kvs /\ find_field smp_key kvs = None /\
                      find_field k kvs = Some (Scalar t s x) /\ is_null (Scalar t s x) = false /\ x <> "" /\ kv e = x.
  Proof.
    destruct e as [| kvs |]; try discriminate. cbn [gel]. intros H.
    apply Bool.andb_true_iff in H. destruct H as [H H3]. apply Bool.andb_true_iff in H. destruct H as [H1 H2].
    destruct (find_field k kvs) as [[t s x| |]|] eqn:F; try discriminate.
    apply Bool.andb_true_iff in H3. destruct H3 as [Hn Hx].
    apply Bool.negb_true_iff in Hn, Hx, H2. apply String.eqb_neq in Hx.
    exists kvs, t, s, x. repeat split; auto.
    - apply nodup_keys_NoDup; auto.
    - rewrite find_in_keys in H2. destruct (find_field smp_key kvs); [discriminate|reflexivity].
    - cbn [kv]. rewrite F. reflexivity.
  Qed.

  Lemma gel_kv_nonempty e : gel e = true -> kv e <> "".
  Proof. intros H. destruct (gel_inv _ H) as [kvs [t [s [x [-> [_ [_ [_ [_ [Hx E]]]]]]]]]]. rewrite E. exact Hx. Qed.

  Lemma goodl_in es e : goodl es = true -> In e es -> gel e = true.
  Proof. unfold goodl. rewrite forallb_forall. auto. Qed.

  Lemma lookup_in v es e : lookup v es = Some e -> In e es /\ kv e = v.
  Proof. unfold lookup. intros H. apply find_some in H. destruct H as [H1 H2]. apply String.eqb_eq in H2. auto. Qed.

  Hypothesis Hk : k <> "".

  (* ---- ElementSetter on good lists ---- *)
  Lemma es_match_good v e : gel e = true -> v <> "" -> es_match [k] [v] false e = Ok (String.eqb (kv e) v).
  Proof.
    intros H Hv. destruct (gel_inv _ H) as [kvs [t [s [x [-> [_ [_ [F [Hn [Hx E]]]]]]]]]].
    cbn [es_match]. unfold field_match. cbn [is_null]. apply String.eqb_neq in Hk. rewrite Hk.
    rewrite F. apply String.eqb_neq in Hv. rewrite Hv. cbn [orb bind node_value].
    cbn [kv]. rewrite F. cbn [node_value]. destruct (String.eqb x v); reflexivity.
  Qed.

  Definition eset (x : node) (v : string) (es : list node) : list node :=
    if existsb (fun e => String.eqb (kv e) v) es
    then map (fun e => if String.eqb (kv e) v then x else e) es
    else es ++ [x].

  Lemma gel_not_dead e : gel e = true -> is_null e || is_empty_map e = false /\ is_map e = true.
  Proof.
    intros H. destruct (gel_inv _ H) as [kvs [t [s [x [-> [_ [_ [F _]]]]]]]].
    destruct kvs; [discriminate|]. split; reflexivity.
  Qed.

  Lemma element_set_some x v es :
    goodl es = true -> v <> "" -> is_null x = false ->
    element_set (Some x) [k] [v] es = Ok (eset x v es).
  Proof.
    intros Hg Hv Hx. unfold element_set.
    assert (Hms : negb (String.eqb k "") && negb (String.eqb v "") = true).
    { apply String.eqb_neq in Hk, Hv. rewrite Hk, Hv. reflexivity. }
    rewrite Hms.
    match goal with |- bind (?G es) _ = _ => set (go := G) end.
    assert (Hgo : go es = Ok (map (fun e => if String.eqb (kv e) v then x else e) es,
                             existsb (fun e => String.eqb (kv e) v) es)).
    { clear Hms. induction es as [|e t IH]; [reflexivity|].
      cbn [goodl forallb] in Hg. apply Bool.andb_true_iff in Hg. destruct Hg as [He Ht].
      destruct (gel_not_dead _ He) as [Hd Hm].
      unfold go. fold go. rewrite Hd, Hm. cbn [negb andb].
      rewrite (es_match_good v e He Hv). cbn [bind]. rewrite (IH Ht). cbn [bind fst snd map existsb].
      destruct (String.eqb (kv e) v); reflexivity. }
    rewrite Hgo. cbn [bind fst snd]. rewrite Hx. unfold eset.
    destruct (existsb (fun e => String.eqb (kv e) v) es) eqn:E; [reflexivity|].
    f_equal. f_equal.
    clear -E. induction es as [|e t IH]; [reflexivity|]. cbn in E |- *.
    apply Bool.orb_false_iff in E. destruct E as [E1 E2]. rewrite E1. f_equal. auto.
  Qed.

  Lemma element_set_none v es :
    goodl es = true -> v <> "" ->
    element_set None [k] [v] es = Ok (filter (fun e => negb (String.eqb (kv e) v)) es).
  Proof.
    intros Hg Hv. unfold element_set.
    assert (Hms : negb (String.eqb k "") && negb (String.eqb v "") = true).
    { apply String.eqb_neq in Hk, Hv. rewrite Hk, Hv. reflexivity. }
    rewrite Hms.
    match goal with |- bind (?G es) _ = _ => set (go := G) end.
    assert (Hgo : go es = Ok (filter (fun e => negb (String.eqb (kv e) v)) es,
                             existsb (fun e => String.eqb (kv e) v) es)).
    { clear Hms. induction es as [|e t IH]; [reflexivity|].
      cbn [goodl forallb] in Hg. apply Bool.andb_true_iff in Hg. destruct Hg as [He Ht].
      destruct (gel_not_dead _ He) as [Hd Hm].
      unfold go. fold go. rewrite Hd, Hm. cbn [negb andb].
      rewrite (es_match_good v e He Hv). cbn [bind]. rewrite (IH Ht). cbn [bind fst snd filter existsb].
      destruct (String.eqb (kv e) v); reflexivity. }
    rewrite Hgo. reflexivity.
  Qed.

  (* ---- ElementMatcher on good lists ---- *)
  Lemma find_index_nth {A} (P : A -> bool) l :
    match find_index P l with Some i => nth_error l i | None => None end = find P l.
  Proof.
    induction l as [|x t IH]; [reflexivity|]. cbn. destruct (P x); [reflexivity|].
    destruct (find_index P t); cbn in *; auto.
  Qed.

  Lemma find_index_ext_in {A} (P Q : A -> bool) l :
    (forall x, In x l -> P x = Q x) -> find_index P l = find_index Q l.
  Proof.
    induction l as [|x t IH]; intros H; [reflexivity|]. cbn.
    rewrite (H x (or_introl eq_refl)), IH; auto. intros; apply H; right; auto.
  Qed.

  Lemma element_find_good v es :
    goodl es = true -> element_find [k] [v] es = find_index (fun e => String.eqb (kv e) v) es.
  Proof.
    intros Hg. unfold element_find. apply String.eqb_neq in Hk. rewrite Hk. cbn [List.length Nat.eqb negb].
    apply find_index_ext_in. intros e He.
    destruct (gel_inv _ (goodl_in _ _ Hg He)) as [kvs [t [s [x [-> [_ [_ [F _]]]]]]]].
    cbn [all_match kv]. rewrite F. rewrite Bool.andb_true_r. reflexivity.
  Qed.

  Lemma elem_at_good v es :
    goodl es = true -> elem_at (Some (Seq es)) (element_find [k] [v] es) = lookup v es.
  Proof.
    intros Hg. rewrite element_find_good by auto. unfold elem_at, lookup.
    rewrite <- find_index_nth. destruct (find_index _ es); reflexivity.
  Qed.

  (* ---- lookups through the plain list functions ---- *)
  Lemma lookup_eset_same x v es : kv x = v -> lookup v (eset x v es) = Some x.
  Proof.
    intros Hx. unfold eset, lookup.
    destruct (existsb (fun e => String.eqb (kv e) v) es) eqn:E.
    - induction es as [|e t IH]; [discriminate|]. cbn in E |- *.
      destruct (String.eqb (kv e) v) eqn:Ee.
      + rewrite Hx, String.eqb_refl. reflexivity.
      + rewrite Ee. cbn in E. auto.
    - induction es as [|e t IH]; cbn.
      + rewrite Hx, String.eqb_refl. reflexivity.
      + cbn in E. apply Bool.orb_false_iff in E. destruct E as [E1 E2]. rewrite E1. auto.
  Qed.

  Lemma lookup_eset_other x v v0 es : kv x = v -> v <> v0 -> lookup v0 (eset x v es) = lookup v0 es.
  Proof.
    intros Hx Hne. unfold eset, lookup.
    assert (Hx0 : String.eqb (kv x) v0 = false) by (apply String.eqb_neq; congruence).
    destruct (existsb (fun e => String.eqb (kv e) v) es).
    - induction es as [|e t IH]; [reflexivity|]. cbn.
      destruct (String.eqb (kv e) v) eqn:Ee.
      + rewrite Hx0. apply String.eqb_eq in Ee.
        assert (E0 : String.eqb (kv e) v0 = false) by (apply String.eqb_neq; congruence).
        rewrite E0. exact IH.
      + destruct (String.eqb (kv e) v0); auto.
    - induction es as [|e t IH]; cbn.
      + rewrite Hx0. reflexivity.
      + destruct (String.eqb (kv e) v0); auto.
  Qed.

  Lemma lookup_filter_other v v0 es :
    v <> v0 -> lookup v0 (filter (fun e => negb (String.eqb (kv e) v)) es) = lookup v0 es.
  Proof.
    intros Hne. unfold lookup. induction es as [|e t IH]; [reflexivity|]. cbn.
    destruct (String.eqb (kv e) v) eqn:Ee; cbn.
    - apply String.eqb_eq in Ee.
      assert (E0 : String.eqb (kv e) v0 = false) by (apply String.eqb_neq; congruence).
      rewrite E0. exact IH.
    - destruct (String.eqb (kv e) v0); auto.
  Qed.

  Lemma goodl_eset x v es : goodl es = true -> gel x = true -> goodl (eset x v es) = true.
  Proof.
    intros Hg Hx. unfold eset, goodl in *. destruct (existsb _ es).
    - rewrite forallb_forall in *. intros e He. apply in_map_iff in He. destruct He as [e0 [E He]].
      destruct (String.eqb (kv e0) v); subst; auto.
    - rewrite forallb_app, Hg. cbn. rewrite Hx. reflexivity.
  Qed.

  Lemma goodl_filter P es : goodl es = true -> goodl (filter P es) = true.
  Proof.
    unfold goodl. rewrite !forallb_forall. intros H e He. apply filter_In in He. destruct He. auto.
  Qed.

  Lemma goodl_replace i x es : goodl es = true -> gel x = true -> goodl (replace_nth i x es) = true.
  Proof.
    intros Hg Hx. unfold goodl in *. rewrite forallb_forall in *. intros e He.
    revert i He. induction es as [|e0 t IH]; intros [|i] He; cbn in He; try contradiction.
    - destruct He as [<-|He]; auto. apply Hg. right; auto.
    - destruct He as [<-|He]; [apply Hg; left; auto|].
      apply (IH (fun y Hy => Hg y (or_intror Hy)) i He).
  Qed.

  (* replacing the first element with key v by one with key v *)
  Lemma lookup_replace_other v v0 x es i :
    find_index (fun e => String.eqb (kv e) v) es = Some i -> kv x = v -> v <> v0 ->
    lookup v0 (replace_nth i x es) = lookup v0 es.
  Proof.
    intros Hi Hx Hne. unfold lookup.
    assert (Hx0 : String.eqb (kv x) v0 = false) by (apply String.eqb_neq; congruence).
    revert i Hi. induction es as [|e t IH]; intros i Hi; [discriminate|]. cbn in Hi.
    destruct (String.eqb (kv e) v) eqn:Ee.
    - inv Hi. cbn. rewrite Hx0. apply String.eqb_eq in Ee.
      assert (E0 : String.eqb (kv e) v0 = false) by (apply String.eqb_neq; congruence).
      rewrite E0. reflexivity.
    - destruct (find_index _ t) as [j|]; [|discriminate]. inv Hi. cbn.
      destruct (String.eqb (kv e) v0); auto.
  Qed.

  Lemma lookup_replace_same v x es i :
    find_index (fun e => String.eqb (kv e) v) es = Some i -> kv x = v ->
    lookup v (replace_nth i x es) = Some x.
  Proof.
    intros Hi Hx. subst v. unfold lookup. revert i Hi. induction es as [|e t IH]; intros i Hi; [discriminate|]. cbn in Hi.
    destruct (String.eqb (kv e) (kv x)) eqn:Ee.
    - inv Hi. cbn. rewrite String.eqb_refl. reflexivity.
    - destruct (find_index _ t) as [j|]; [|discriminate]. inv Hi. cbn. rewrite Ee. auto.
  Qed.
  (* ---- key lists ---- *)
  Lemma map_kv_replace v x es i :
    find_index (fun e => String.eqb (kv e) v) es = Some i -> kv x = v ->
    map kv (replace_nth i x es) = map kv es.
  Proof.
    intros Hi Hx. revert i Hi. induction es as [|e t IH]; intros i Hi; [discriminate|]. cbn in Hi.
    destruct (String.eqb (kv e) v) eqn:Ee.
    - injection Hi as <-. cbn. apply String.eqb_eq in Ee. congruence.
    - destruct (find_index _ t) as [j|]; [|discriminate]. injection Hi as <-. cbn. f_equal. auto.
  Qed.

  Lemma NoDup_map_filter {A B} (g : A -> B) P l : NoDup (map g l) -> NoDup (map g (filter P l)).
  Proof.
    induction l as [|a t IH]; cbn; auto. intros H. inversion H as [|? ? Hn Hd]; subst.
    destruct (P a); cbn; auto. constructor; auto.
    intros Hi. apply Hn. apply in_map_iff in Hi. destruct Hi as [b [E Hb]]. apply filter_In in Hb.
    apply in_map_iff. exists b. tauto.
  Qed.

  Lemma NoDup_eset x v es : NoDup (map kv es) -> kv x = v -> NoDup (map kv (eset x v es)).
  Proof.
    intros Hnd Hx. unfold eset. destruct (existsb (fun e => String.eqb (kv e) v) es) eqn:E.
    - rewrite map_map.
      rewrite (map_ext_in _ kv); auto. intros e He. destruct (String.eqb (kv e) v) eqn:Ee; auto.
      apply String.eqb_eq in Ee. congruence.
    - rewrite map_app. cbn. apply NoDup_app_single0; auto.
      intros Hi. apply in_map_iff in Hi. destruct Hi as [e [Ee He]].
      assert (existsb (fun e => String.eqb (kv e) v) es = true).
      { apply existsb_exists. exists e. split; auto. apply String.eqb_eq. congruence. }
      congruence.
  Qed.

  Lemma lookup_unique v x es : NoDup (map kv es) -> lookup v es = Some x -> forall e, In e es -> kv e = v -> e = x.
  Proof.
    unfold lookup. induction es as [|a t IH]; cbn; [discriminate|]. intros Hnd Hl e He Hk0.
    inversion Hnd as [|? ? Hn Hd]; subst.
    destruct (String.eqb (kv a) (kv e)) eqn:Ea.
    - injection Hl as <-. destruct He as [->|He]; auto.
      exfalso. apply Hn. apply String.eqb_eq in Ea. rewrite Ea. apply in_map; auto.
    - destruct He as [->|He]; [rewrite String.eqb_refl in Ea; discriminate|]. eapply IH; eauto.
  Qed.

  Lemma lookup_of_in es e : NoDup (map kv es) -> In e es -> lookup (kv e) es = Some e.
  Proof.
    unfold lookup. induction es as [|a t IH]; cbn; [contradiction|]. intros Hnd He.
    inversion Hnd as [|? ? Hn Hd]; subst.
    destruct He as [->|He]; [rewrite String.eqb_refl; reflexivity|].
    destruct (String.eqb (kv a) (kv e)) eqn:Ea; auto.
    exfalso. apply Hn. apply String.eqb_eq in Ea. rewrite Ea. apply in_map; auto.
  Qed.

  Lemma lookup_none_iff v es : lookup v es = None <-> ~ In v (map kv es).
  Proof.
    unfold lookup. split.
    - intros H Hi. apply in_map_iff in Hi. destruct Hi as [e [E He]].
      eapply find_none in H; eauto. cbn in H. rewrite E, String.eqb_refl in H. discriminate.
    - intros H. destruct (find _ es) as [e|] eqn:F; auto. apply find_some in F. destruct F as [F1 F2].
      exfalso. apply H. apply String.eqb_eq in F2. rewrite <- F2. apply in_map; auto.
  Qed.
End Elems.

Lemma NoDup_nodup_keys l : NoDup l -> nodup_keys l = true.
Proof.
  induction 1 as [|x t Hn Hd IH]; [reflexivity|]. cbn. rewrite IH.
  apply str_in_false in Hn. rewrite Hn. reflexivity.
Qed.

(* ---------- the walk of one element keeps it a good element with the same key value ---------- *)
Section ElemWalk.
  Context {Sc : Type}.
  Variable sch : schema Sc.
  Variable opts : wopts.
  Variable nonstr : string -> bool.
  Variable k : string.

  Notation W := (walk sch opts nonstr merger).

  Lemma gel_result kvs' t s x :
    nodupk kvs' -> find_field smp_key kvs' = None -> find_field k kvs' = Some (Scalar t s x) ->
    is_null (Scalar t s x) = false -> x <> "" ->
    gel k (Map kvs') = true /\ kv k (Map kvs') = x.
  Proof.
    intros Hnd Hs F Hn Hx. cbn [gel kv]. rewrite F. cbn [node_value]. split; auto.
    rewrite (NoDup_nodup_keys _ Hnd). rewrite find_in_keys, Hs. rewrite Hn.
    apply String.eqb_neq in Hx. rewrite Hx. reflexivity.
  Qed.

  Lemma elem_walk_good f sc eo po r v :
    (forall e, eo = Some e -> gel k e = true /\ kv k e = v) ->
    (forall p, po = Some p -> gel k p = true /\ kv k p = v) ->
    eo <> None \/ po <> None ->
    W f sc None [eo; po] = Ok r ->
    exists w, r = Some w /\ gel k (w_node w) = true /\ kv k (w_node w) = v /\ (eo <> None -> w_inplace w = true).
  Proof.
    intros He Hp Hsome H. destruct f as [|f]; [discriminate|].
    destruct eo as [e|].
    - (* the target has the element *)
      destruct (He e eq_refl) as [Hge Hkv].
      destruct (gel_inv k _ Hge) as [tk [t [s [x [-> [Hnd [Hsm [F [Hn [Hx Ekv]]]]]]]]]].
      assert (Ev : v = x) by congruence. clear Hkv Ekv. subst v.
      assert (Hpl : plain_patch po).
      { destruct po as [p|]; [|exact I]. destruct (Hp p eq_refl) as [Hgp _].
        destruct (gel_inv k _ Hgp) as [pk [? [? [? [-> [_ [Hsp _]]]]]]]. exact Hsp. }
      rewrite level_merge in H by exact Hpl.
      match type of H with bind ?X _ = _ => destruct X as [d| | |] eqn:Ew; cbn in H; try discriminate end.
      inv H.
      destruct (walk_fields_map sch nonstr _ _ _ _ _ (nodup_sort_uniq _) _ _ Hnd Ew) as [kvs' [-> [Hnd' [Hout Hin]]]].
      eexists. split; [reflexivity|]. cbn [w_node].
      destruct (Hin k (in_field_names_dest _ _ _ _ F)) as [rk [Hrk Hfk]].
      rewrite F in Hrk, Hfk. unfold fvs, set_nth in Hrk. cbn [map replace_nth field_of] in Hrk.
      assert (Hs' : find_field smp_key kvs' = None).
      { rewrite Hout; auto. intros Hi. apply in_field_names in Hi. destruct Hi as [kvs0 [Hs0 Hk0]].
        destruct Hs0 as [E|[E|[]]].
        - inv E. apply find_field_none_iff in Hsm. contradiction.
        - subst po. destruct (Hp _ eq_refl) as [Hgp _].
          destruct (gel_inv k _ Hgp) as [pk [? [? [? [Ep [_ [Hsp _]]]]]]]. inv Ep.
          apply find_field_none_iff in Hsp. contradiction. }
      destruct po as [p|].
      + destruct (Hp p eq_refl) as [Hgp Hkvp].
        destruct (gel_inv k _ Hgp) as [pk [pt [ps [px [-> [_ [_ [Fp [Hnp [Hxp Ekvp]]]]]]]]]].
        assert (Ev : x = px) by congruence. clear Hkvp Ekvp.
        cbn [field_of] in Hrk. rewrite Fp in Hrk.
        destruct f as [|f]; [discriminate|].
        destruct (scalar_patch sch opts nonstr f _ None _ _ _ _ _ (or_introl eq_refl) Hnp Hrk) as [sX HsX].
        rewrite HsX in Hfk.
        assert (Hn' : is_null (Scalar pt sX px) = false) by (destruct pt; cbn in Hnp |- *; congruence).
        destruct (gel_result kvs' pt sX px Hnd' Hs' Hfk Hn' Hxp) as [G1 G2]. split; [auto|split; [congruence|intros; try reflexivity; congruence]].
      + cbn [field_of] in Hrk. destruct f as [|f]; [discriminate|].
        rewrite (walk_scalar_unmentioned sch opts nonstr f _ t s x Hn) in Hrk. inv Hrk.
        cbn [fval w_node w_keep w_inplace] in Hfk. rewrite Hn in Hfk. cbn [andb] in Hfk.
        destruct (quote11_scalar nonstr t s x) as [s' Eq]. rewrite Eq in Hfk.
        assert (Hn' : is_null (Scalar t s' x) = false) by (destruct t; cbn in Hn |- *; congruence).
        destruct (gel_result kvs' t s' x Hnd' Hs' Hfk Hn' Hx) as [G1 G2]. split; [auto|split; [congruence|intros; reflexivity]].
    - (* only the patch has it: the element is added *)
      destruct po as [p|]; [|destruct Hsome; congruence].
      destruct (Hp p eq_refl) as [Hgp Hkvp].
      destruct (gel_inv k _ Hgp) as [pk [pt [ps [px [-> [Hnd [Hsp [Fp [Hnp [Hxp Ekvp]]]]]]]]]].
      assert (Ev : v = px) by congruence. clear Hkvp Ekvp. subst v.
      rewrite level_add in H by auto.
      match type of H with bind ?X _ = _ => destruct X as [d| | |] eqn:Ew; cbn in H; try discriminate end.
      inv H.
      destruct (walk_fields_map sch nonstr _ _ _ _ _ (nodup_sort_uniq _) _ _ Hnd Ew) as [kvs' [-> [Hnd' [Hout Hin]]]].
      eexists. split; [reflexivity|]. cbn [w_node].
      destruct (Hin k (in_field_names_dest _ _ _ _ Fp)) as [rk [Hrk Hfk]].
      rewrite Fp in Hrk, Hfk. unfold fvs, set_nth in Hrk. cbn [map replace_nth field_of] in Hrk.
      assert (Hs' : find_field smp_key kvs' = None).
      { rewrite Hout; auto. intros Hi. apply in_field_names in Hi. destruct Hi as [kvs0 [Hs0 Hk0]].
        destruct Hs0 as [E|[E|[]]]; inv E; apply find_field_none_iff in Hsp; contradiction. }
      destruct f as [|f]; [discriminate|].
      destruct (scalar_patch sch opts nonstr f _ (Some 1) _ _ _ _ _ (or_intror eq_refl) Hnp Hrk) as [sX HsX].
      rewrite HsX in Hfk.
      assert (Hn' : is_null (Scalar pt sX px) = false) by (destruct pt; cbn in Hnp |- *; congruence).
      destruct (gel_result kvs' pt sX px Hnd' Hs' Hfk Hn' Hxp) as [G1 G2]. split; [auto|split; [congruence|intros; try reflexivity; congruence]].
  Qed.
End ElemWalk.

(* ---------- folds in the res monad: prefixes ---------- *)
Lemma fold_res_stuck {A B} (F : A -> B -> res A) l x :
  (forall a, x <> Ok a) -> fold_left (fun (acc : res A) b => do a <- acc; F a b) l x = x.
Proof.
  intros Hx. induction l as [|b t IH]; [reflexivity|]. cbn.
  destruct x as [a| | |]; [exfalso; eapply Hx; eauto| | |]; cbn; exact IH.
Qed.

Lemma fold_res_split {A B} (F : A -> B -> res A) l1 l2 a a' :
  fold_left (fun (acc : res A) b => do a <- acc; F a b) (l1 ++ l2) (Ok a) = Ok a' ->
  exists a1, fold_left (fun (acc : res A) b => do a <- acc; F a b) l1 (Ok a) = Ok a1 /\
             fold_left (fun (acc : res A) b => do a <- acc; F a b) l2 (Ok a1) = Ok a'.
Proof.
  rewrite fold_left_app. intros H.
  destruct (fold_left _ l1 (Ok a)) as [a1| | |] eqn:E; [eauto| | |];
    rewrite fold_res_stuck in H by (intros; discriminate); discriminate.
Qed.

Lemma fold_res_inv_in {A B} (P : A -> Prop) (F : A -> B -> res A) l :
  (forall a b a', In b l -> P a -> F a b = Ok a' -> P a') ->
  forall a a', P a -> fold_left (fun (acc : res A) b => do a <- acc; F a b) l (Ok a) = Ok a' -> P a'.
Proof.
  induction l as [|b t IH]; intros HF a a' Ha H; cbn in H; [inv H; auto|].
  destruct (F a b) as [a1| | |] eqn:E; try (rewrite fold_res_stuck in H by (intros; discriminate); discriminate).
  eapply (IH (fun a0 b0 a0' Hin => HF a0 b0 a0' (or_intror Hin))); [|exact H].
  eapply HF; eauto. left; auto.
Qed.

(* ---------- elementValues on good lists ---------- *)
Lemma strs_eqb_eq a : forall b, strs_eqb a b = true <-> a = b.
Proof.
  induction a as [|x a IH]; intros [|y b]; cbn; split; intros H; try discriminate; auto.
  - apply Bool.andb_true_iff in H. destruct H as [H1 H2]. apply String.eqb_eq in H1. apply IH in H2. subst. auto.
  - inv H. rewrite String.eqb_refl. apply IH. auto.
Qed.

Lemma strs_in_iff x l : strs_in x l = true <-> In x l.
Proof.
  induction l as [|y t IH]; cbn; [split; [discriminate|tauto]|].
  rewrite Bool.orb_true_iff, strs_eqb_eq, IH. split; intros [H|H]; auto.
Qed.

Lemma NoDup_app_single {A} (l : list A) x : NoDup l -> ~ In x l -> NoDup (l ++ [x]).
Proof.
  induction l as [|y t IH]; intros Hnd Hx; cbn; [constructor; auto; constructor|].
  inversion Hnd as [|? ? Hy Ht]; subst. constructor.
  - rewrite in_app_iff. cbn. intros [H|[H|[]]]; auto. subst. apply Hx. left; auto.
  - apply IH; auto. intros H. apply Hx. right; auto.
Qed.

Section Values.
  Variable k : string.

  Definition vstep (acc : list (list string)) (e : node) : list (list string) :=
    if strs_in [kv k e] acc then acc else acc ++ [[kv k e]].

  Lemma vstep_spec acc es :
    NoDup acc ->
    NoDup (fold_left vstep es acc) /\
    (forall x, In x (fold_left vstep es acc) <-> In x acc \/ exists e, In e es /\ x = [kv k e]).
  Proof.
    revert acc. induction es as [|e t IH]; intros acc Hnd; cbn [fold_left].
    - split; auto. intros x. split; auto. intros [H|[e [[] _]]]; auto.
    - assert (Hnd' : NoDup (vstep acc e)).
      { unfold vstep. destruct (strs_in [kv k e] acc) eqn:E; auto.
        apply NoDup_app_single; auto. intros Hi. apply strs_in_iff in Hi. congruence. }
      destruct (IH _ Hnd') as [H1 H2]. split; auto.
      intros x. rewrite H2. unfold vstep. destruct (strs_in [kv k e] acc) eqn:E.
      + apply strs_in_iff in E. split.
        * intros [H|[e' [He' Hx]]]; auto. right. exists e'. split; auto. right; auto.
        * intros [H|[e' [[<-|He'] Hx]]]; auto; [subst; auto|]. right. exists e'. auto.
      + rewrite in_app_iff. cbn [In]. split.
        * intros [[H|[H|[]]]|[e' [He' Hx]]]; auto.
          -- right. exists e. split; [left; auto|auto].
          -- right. exists e'. split; [right; auto|auto].
        * intros [H|[e' [[<-|He'] Hx]]]; auto. right. exists e'. auto.
  Qed.

  Lemma inner_values_good acc es :
    goodl k es = true ->
    fold_left (fun (acc : list (list string)) (e : node) =>
                 let vals := map (fun k => elem_key_value k e) [k] in
                 match vals with
                 | [] => acc
                 | _ => if strs_in vals acc then acc else acc ++ [vals]
                 end) es acc = fold_left vstep es acc.
  Proof.
    revert acc. induction es as [|e t IH]; intros acc Hg; [reflexivity|].
    cbn [goodl forallb] in Hg. apply Bool.andb_true_iff in Hg. destruct Hg as [He Ht].
    cbn [fold_left map]. rewrite <- IH by auto. f_equal.
    destruct (gel_inv k _ He) as [kvs [t0 [s [x [-> [_ [_ [F [Hn _]]]]]]]]].
    unfold vstep. cbn [elem_key_value kv]. rewrite F.
    assert (Hne : nil_or_empty (Scalar t0 s x) = false) by (destruct t0; cbn in Hn |- *; congruence).
    rewrite Hne. reflexivity.
  Qed.
End Values.

(* ---------- one step of setAssociativeSequenceElements on good lists ---------- *)
Definition plist (po : option node) : option (list node) :=
  match po with None => Some [] | Some (Seq P) => Some P | Some _ => None end.

Section ListLevel.
  Context {Sc : Type}.
  Variable sch : schema Sc.
  Variable opts : wopts.
  Variable nonstr : string -> bool.
  Variable k : string.
  Hypothesis Hk : k <> "".

  Notation W := (walk sch opts nonstr merger).

  Lemma walk_none2 f esc r : W f esc None [None; None] = Ok r -> r = None.
  Proof.
    destruct f as [|f]; [discriminate|]. cbn. unfold walk_map. cbn. intros H. inv H. reflexivity.
  Qed.

  Lemma valid_key_set_single vl v : In [v] vl -> v <> "" -> valid_key_set vl [k] = [k].
  Proof.
    intros Hi Hv. unfold valid_key_set. cbn [filter].
    assert (E : existsb (fun vals => existsb (fun kv0 => String.eqb (fst kv0) k && negb (String.eqb (snd kv0) ""))
                                             (combine [k] vals)) vl = true).
    { apply existsb_exists. exists [v]. split; auto. cbn. rewrite String.eqb_refl.
      apply String.eqb_neq in Hv. rewrite Hv. reflexivity. }
    rewrite E. reflexivity.
  Qed.

  Lemma validate_keys_single vl v : valid_key_set vl [k] = [k] -> validate_keys vl [v] [k] = ([k], [v]).
  Proof.
    intros H. unfold validate_keys. rewrite H. cbn. rewrite String.eqb_refl. cbn.
    rewrite Bool.orb_true_r. reflexivity.
  Qed.

  Definition live_state (des items : list node) (v : string) (w : wres) : astate :=
    ((if w_inplace w then
        match find_index (fun e => String.eqb (kv k e) v) des with
        | Some i => replace_nth i (w_node w) des
        | None => des
        end
      else des), eset k (w_node w) v items, [k]).

  Lemma assoc_step_spec f esc T po P vl des items vk v st' :
    plist po = Some P -> goodl k P = true -> goodl k des = true -> goodl k items = true ->
    v <> "" -> valid_key_set vl [k] = [k] ->
    assoc_step nonstr (W f) esc None [Some (Seq T); po] vl [k] (des, items, vk) [v] = Ok st' ->
    exists r, W f esc None [lookup k v des; lookup k v P] = Ok r /\
      ((is_dead r = true /\ st' = (filter (fun e => negb (String.eqb (kv k e) v)) des, items, [k])) \/
       (exists w, r = Some w /\ st' = live_state des items v w /\
                  gel k (w_node w) = true /\ kv k (w_node w) = v /\
                  (lookup k v des <> None -> w_inplace w = true))).
  Proof.
    intros Hpl HgP Hgd Hgi Hv Hvs H. unfold assoc_step in H.
    rewrite (validate_keys_single vl v Hvs) in H.
    rewrite (validate_keys_single [[v]] v (valid_key_set_single [[v]] v (or_introl eq_refl) Hv)) in H.
    change (cur_srcs None (Seq des) [Some (Seq T); po]) with [Some (Seq des); po] in H.
    cbn [map combine fst snd] in H.
    assert (E1 : elem_at (Some (Seq des)) (elem_index [k] [v] (Some (Seq des))) = lookup k v des).
    { cbn [elem_index]. apply elem_at_good; auto. }
    assert (E2 : elem_at po (elem_index [k] [v] po) = lookup k v P).
    { destruct po as [[| |P0]|]; try discriminate; inv Hpl.
      - cbn [elem_index]. apply elem_at_good; auto.
      - reflexivity. }
    rewrite E1, E2 in H.
    destruct (W f esc None [lookup k v des; lookup k v P]) as [r| | |] eqn:Er; cbn [bind] in H; try discriminate.
    exists r. split; auto.
    destruct (is_dead r) eqn:Ed.
    - left. split; auto. unfold delete_elem in H. cbn [fold_left bind] in H.
      rewrite (element_set_none k Hk v des Hgd Hv) in H. cbn [bind] in H. inv H. reflexivity.
    - right.
      assert (Hsome : lookup k v des <> None \/ lookup k v P <> None).
      { destruct (lookup k v des) eqn:L1; [left; congruence|].
        destruct (lookup k v P) eqn:L2; [right; congruence|].
        apply walk_none2 in Er. subst r. discriminate. }
      destruct (elem_walk_good sch opts nonstr k f esc (lookup k v des) (lookup k v P) r v) as [w [-> [Hgw [Hkw Hin]]]]; auto.
      { intros e L. apply lookup_in in L. destruct L as [Li Lk]. split; auto. exact (goodl_in k des e Hgd Li). }
      { intros p L. apply lookup_in in L. destruct L as [Li Lk]. split; auto. exact (goodl_in k P p HgP Li). }
      exists w. split; auto.
      destruct (gel_inv k _ Hgw) as [kvs' [t [s [x [Ew [_ [_ [F [Hn [Hx _]]]]]]]]]].
      assert (Hens : ensure_keys nonstr [k] [v] (w_node w) = Ok (w_node w)).
      { unfold ensure_keys. cbn [combine fold_left bind fst snd]. rewrite Ew. cbn [has_field]. rewrite F. reflexivity. }
      rewrite Hens in H. cbn [bind] in H.
      rewrite (element_set_some k Hk (w_node w) v items Hgi Hv) in H by (rewrite Ew; reflexivity).
      cbn [bind] in H. injection H as Hst. subst st'. unfold live_state. cbn [hd elem_index].
      rewrite (element_find_good k Hk v des Hgd). split; auto.
  Qed.

  (* ---- the loop: what every step keeps, what the step of an unmentioned key value does ---- *)
  Definition Inv (st : astate) : Prop :=
    goodl k (fst (fst st)) = true /\ goodl k (snd (fst st)) = true /\
    NoDup (map (kv k) (fst (fst st))) /\ NoDup (map (kv k) (snd (fst st))).

  Lemma step_other f esc T po P vl st v v0 st' :
    plist po = Some P -> goodl k P = true -> valid_key_set vl [k] = [k] ->
    Inv st -> v <> "" -> v <> v0 ->
    assoc_step nonstr (W f) esc None [Some (Seq T); po] vl [k] st [v] = Ok st' ->
    Inv st' /\ lookup k v0 (fst (fst st')) = lookup k v0 (fst (fst st)) /\
    lookup k v0 (snd (fst st')) = lookup k v0 (snd (fst st)) /\ snd st' = [k].
  Proof.
    intros Hpl HgP Hvs HI Hv Hne H. destruct st as [[des items] vk]. destruct HI as [Hgd [Hgi [Hnd Hni]]].
    cbn [fst snd] in *.
    destruct (assoc_step_spec f esc T po P vl des items vk v st' Hpl HgP Hgd Hgi Hv Hvs H) as [r [Hr [[Hd ->]|[w [-> [-> [Hgw [Hkw Hin]]]]]]]].
    - cbn [fst snd]. split; [|split; [|split]]; auto.
      + split; [apply goodl_filter; auto|]. split; auto. split; auto. apply NoDup_map_filter; auto.
      + apply lookup_filter_other; auto.
    - unfold live_state. cbn [fst snd].
      assert (Hdes : goodl k (if w_inplace w then match find_index (fun e => String.eqb (kv k e) v) des with
                                                      | Some i => replace_nth i (w_node w) des | None => des end else des) = true /\
                     NoDup (map (kv k) (if w_inplace w then match find_index (fun e => String.eqb (kv k e) v) des with
                                                      | Some i => replace_nth i (w_node w) des | None => des end else des)) /\
                     lookup k v0 (if w_inplace w then match find_index (fun e => String.eqb (kv k e) v) des with
                                                      | Some i => replace_nth i (w_node w) des | None => des end else des) = lookup k v0 des).
      { destruct (w_inplace w); auto. destruct (find_index _ des) as [i|] eqn:Ei; auto. cbn beta iota.
        split; [apply goodl_replace; auto|]. split.
        - rewrite (map_kv_replace k v _ des i Ei Hkw). auto.
        - apply (lookup_replace_other k v v0 _ des i Ei Hkw Hne). }
      destruct Hdes as [D1 [D2 D3]].
      split; [|split; [|split]]; auto.
      + split; auto. split; [apply goodl_eset; auto|]. split; auto. apply NoDup_eset; auto.
      + apply lookup_eset_other; auto.
  Qed.

  Lemma loop_other f esc T po P vl v0 tl :
    plist po = Some P -> goodl k P = true -> valid_key_set vl [k] = [k] ->
    (forall x, In x tl -> exists v, x = [v] /\ v <> "" /\ v <> v0) ->
    forall st st',
      Inv st ->
      assoc_loop nonstr (W f) esc None [Some (Seq T); po] vl [k] tl st = Ok st' ->
      Inv st' /\ lookup k v0 (fst (fst st')) = lookup k v0 (fst (fst st)) /\
      lookup k v0 (snd (fst st')) = lookup k v0 (snd (fst st)) /\ (tl <> [] -> snd st' = [k]).
  Proof.
    intros Hpl HgP Hvs. unfold assoc_loop.
    induction tl as [|x t IH]; intros Hall st st' HI H.
    - cbn in H. inv H. repeat split; auto; try apply HI. congruence.
    - cbn [fold_left] in H. cbn [bind] in H.
      destruct (Hall x (or_introl eq_refl)) as [v [-> [Hv Hne]]].
      destruct (assoc_step nonstr (W f) esc None [Some (Seq T); po] vl [k] st [v]) as [st1| | |] eqn:E1;
        try (rewrite fold_res_stuck in H by (intros; discriminate); discriminate).
      destruct (step_other f esc T po P vl st v v0 st1 Hpl HgP Hvs HI Hv Hne E1) as [HI1 [L1 [L2 K1]]].
      destruct (IH (fun y Hy => Hall y (or_intror Hy)) st1 st' HI1 H) as [HI' [L1' [L2' K']]].
      split; auto. split; [congruence|]. split; [congruence|]. intros _.
      destruct t as [|y t']; [cbn in H; inv H; auto|apply K'; discriminate].
  Qed.

  Lemma step_self f esc T po P vl st v0 e0 st' :
    plist po = Some P -> goodl k P = true -> valid_key_set vl [k] = [k] ->
    Inv st -> v0 <> "" ->
    lookup k v0 (fst (fst st)) = Some e0 -> lookup k v0 P = None ->
    assoc_step nonstr (W f) esc None [Some (Seq T); po] vl [k] st [v0] = Ok st' ->
    exists w0, W f esc None [Some e0; None] = Ok (Some w0) /\
               Inv st' /\ lookup k v0 (fst (fst st')) = Some (w_node w0) /\
               lookup k v0 (snd (fst st')) = Some (w_node w0) /\ snd st' = [k].
  Proof.
    intros Hpl HgP Hvs HI Hv L0 LP H. destruct st as [[des items] vk]. destruct HI as [Hgd [Hgi [Hnd Hni]]].
    cbn [fst snd] in *.
    destruct (assoc_step_spec f esc T po P vl des items vk v0 st' Hpl HgP Hgd Hgi Hv Hvs H) as [r [Hr [[Hd ->]|[w [-> [-> [Hgw [Hkw Hin]]]]]]]].
    - (* cannot be dead *)
      exfalso. rewrite L0, LP in Hr.
      destruct (elem_walk_good sch opts nonstr k f esc (Some e0) None r v0) as [w [-> [Hgw _]]]; auto.
      + intros e E. inv E. apply lookup_in in L0. destruct L0 as [Li Lk]. split; auto. exact (goodl_in k des e Hgd Li).
      + intros p E. discriminate.
      + left; discriminate.
      + destruct (gel_inv k _ Hgw) as [kvs' [t [s [x [Ew [_ [_ [F _]]]]]]]].
        cbn [is_dead] in Hd. rewrite Ew in Hd. destruct kvs'; [discriminate|]. discriminate.
    - rewrite L0, LP in Hr. exists w. split; auto.
      assert (Hip : w_inplace w = true) by (apply Hin; rewrite L0; discriminate).
      unfold live_state. rewrite Hip. cbn [fst snd].
      destruct (find_index (fun e => String.eqb (kv k e) v0) des) as [i|] eqn:Ei.
      2:{ exfalso. pose proof (find_index_nth (fun e => String.eqb (kv k e) v0) des) as Hf.
          rewrite Ei in Hf. unfold lookup in L0. congruence. }
      cbn beta iota. unfold Inv. cbn [fst snd]. split; [|split; [|split]]; auto.
      + split; [apply goodl_replace; auto|]. split; [apply goodl_eset; auto|]. split.
        * rewrite (map_kv_replace k v0 _ des i Ei Hkw). auto.
        * apply NoDup_eset; auto.
      + apply (lookup_replace_same k v0 _ des i Ei Hkw).
      + apply lookup_eset_same; auto.
  Qed.

  (* ---- appendListNode on good lists ---- *)
  Lemma append_good src : forall dst,
    goodl k dst = true -> goodl k src = true ->
    append_list_node dst src [k] = Ok (fold_left (fun acc e => eset k e (kv k e) acc) src dst).
  Proof.
    unfold append_list_node.
    match goal with |- forall dst, _ -> _ -> fold_left ?G0 _ _ = _ => set (G := G0) end.
    assert (Hstep : forall dst e, goodl k dst = true -> gel k e = true ->
                                  G (Ok dst) e = Ok (eset k e (kv k e) dst)).
    { intros dst e Hd He. unfold G. cbn [bind].
      destruct (gel_inv k _ He) as [kvs [t0 [s [x [-> [_ [_ [F [Hn [Hx Ekv]]]]]]]]]].
      assert (Hk' : String.eqb k "" = false) by (apply String.eqb_neq; auto). rewrite Hk'.
      cbn [fold_left bind get_field_rnode is_null]. rewrite F.
      cbn [fst snd app List.length Nat.ltb Nat.leb bind node_value].
      rewrite (element_set_some k Hk (Map kvs) x dst Hd Hx eq_refl). rewrite Ekv. reflexivity. }
    induction src as [|e t IH]; intros dst Hd Hs; [reflexivity|].
    cbn [goodl forallb] in Hs. apply Bool.andb_true_iff in Hs. destruct Hs as [He Ht].
    change (fold_left G (e :: t) (Ok dst)) with (fold_left G t (G (Ok dst) e)).
    rewrite (Hstep dst e Hd He). cbn [fold_left]. apply IH; auto. apply goodl_eset; auto.
  Qed.

  Lemma fold_eset_lookup v0 x src : forall dst,
    (forall e, In e src -> kv k e = v0 -> e = x) -> kv k x = v0 -> lookup k v0 dst = Some x ->
    lookup k v0 (fold_left (fun acc e => eset k e (kv k e) acc) src dst) = Some x.
  Proof.
    induction src as [|e t IH]; intros dst Hu Hx L; [exact L|]. cbn [fold_left].
    apply IH; auto; [intros e' He'; apply Hu; right; auto|].
    destruct (string_dec (kv k e) v0) as [E|E].
    - rewrite (Hu e (or_introl eq_refl) E). rewrite Hx. apply lookup_eset_same; auto.
    - rewrite lookup_eset_other; auto.
  Qed.

  (* ---- elementValues of the two lists ---- *)
  Lemma values_spec T po P :
    plist po = Some P -> goodl k T = true -> goodl k P = true ->
    NoDup (element_values opts [k] [Some (Seq T); po]) /\
    (forall x, In x (element_values opts [k] [Some (Seq T); po]) <->
               exists e, (In e T \/ In e P) /\ x = [kv k e]).
  Proof.
    intros Hpl HgT HgP. unfold element_values, src_order.
    match goal with |- NoDup (fold_left ?G0 _ _) /\ _ => set (G := G0) end.
    assert (Hone : forall acc es, goodl k es = true -> G acc (Some (Seq es)) = fold_left (vstep k) es acc).
    { intros acc es Hg. unfold G. change (elems_of (Seq es)) with es. apply inner_values_good; auto. }
    assert (Hnone : forall acc, G acc None = acc) by reflexivity.
    destruct po as [[| |P0]|]; try discriminate; inv Hpl.
    - (* the patch has the list *)
      destruct (o_prepend opts); cbn [rotate1 app].
      + change (fold_left G [Some (Seq P); Some (Seq T)] []) with (G (G [] (Some (Seq P))) (Some (Seq T))).
        rewrite (Hone [] P HgP). rewrite (Hone _ T HgT).
        destruct (vstep_spec k [] P (NoDup_nil _)) as [N1 M1].
        destruct (vstep_spec k _ T N1) as [N2 M2]. split; auto.
        intros x. rewrite M2, M1. cbn [In]. split.
        * intros [[[]|[e [He ->]]]|[e [He ->]]]; exists e; auto.
        * intros [e [[He|He] ->]]; [right|left; right]; exists e; auto.
      + change (fold_left G [Some (Seq T); Some (Seq P)] []) with (G (G [] (Some (Seq T))) (Some (Seq P))).
        rewrite (Hone [] T HgT). rewrite (Hone _ P HgP).
        destruct (vstep_spec k [] T (NoDup_nil _)) as [N1 M1].
        destruct (vstep_spec k _ P N1) as [N2 M2]. split; auto.
        intros x. rewrite M2, M1. cbn [In]. split.
        * intros [[[]|[e [He ->]]]|[e [He ->]]]; exists e; auto.
        * intros [e [[He|He] ->]]; [left; right|right]; exists e; auto.
    - (* the patch does not mention the list *)
      assert (E : fold_left G (if o_prepend opts then rotate1 [Some (Seq T); None] else [Some (Seq T); None]) []
                  = fold_left (vstep k) T []).
      { destruct (o_prepend opts); cbn [rotate1 app].
        - change (fold_left G [None; Some (Seq T)] []) with (G (G [] None) (Some (Seq T))).
          rewrite Hnone. apply Hone; auto.
        - change (fold_left G [Some (Seq T); None] []) with (G (G [] (Some (Seq T))) None).
          rewrite Hnone. apply Hone; auto. }
      rewrite E. destruct (vstep_spec k [] T (NoDup_nil _)) as [N1 M1]. split; auto.
      intros x. rewrite M1. cbn [In]. split.
      + intros [[]|[e [He ->]]]. exists e. auto.
      + intros [e [[He|[]] ->]]. right. exists e. auto.
  Qed.

  (* ---- the keyed list as a whole ---- *)
  (* the merge key(s) walkAssociativeSequence works with: from the schema, else inferred from the elements *)
  Definition aseq_keys (sc1 : option Sc) (cur : list (option node)) : res (list string) :=
    let sk := match sc1 with Some s => sc_pskl sch s | None => ("", []) end in
    if String.eqb (fst sk) "" && match snd sk with [] => true | _ => false end then
      do k0 <- element_key opts cur; Ok [k0]
    else Ok (snd sk).
  Definition elem_schema (sc1 : option Sc) : option Sc :=
    match sc1 with Some s => sc_elems sch s | None => None end.

  Lemma visit_list_plain T po P :
    plist po = Some P -> goodl k P = true ->
    m2_visit_list true [Some (Seq T); po] = Ok ([Some (Seq T); po], VDest).
  Proof.
    intros Hpl HgP. unfold m2_visit_list. cbn [negb dest_of origin_of o_null is_null].
    destruct po as [[| |P0]|]; try discriminate; inv Hpl; cbn [tagged_null is_null determine_smp].
    - assert (E : element_by_key smp_key P = None).
      { unfold element_by_key. destruct (find (has_field smp_key) P) as [e|] eqn:F; auto.
        apply find_some in F. destruct F as [Fi Fh].
        destruct (gel_inv k _ (goodl_in k P e HgP Fi)) as [kvs [? [? [? [-> [_ [Hs _]]]]]]].
        cbn [has_field] in Fh. rewrite Hs in Fh. discriminate. }
      rewrite E. reflexivity.
    - reflexivity.
  Qed.

  Lemma keyed_level f sc T po P e0 r :
    plist po = Some P -> goodl k T = true -> goodl k P = true -> NoDup (map (kv k) T) ->
    is_associative sch opts (get_schema sch sc [Some (Seq T); po]) [Some (Seq T); po] = true ->
    aseq_keys (get_schema sch sc [Some (Seq T); po]) [Some (Seq T); po] = Ok [k] ->
    In e0 T -> lookup k (kv k e0) P = None ->
    W (S f) sc None [Some (Seq T); po] = Ok r ->
    exists w out w0,
      r = Some w /\ w_node w = Seq out /\
      W f (elem_schema (get_schema sch sc [Some (Seq T); po])) None [Some e0; None] = Ok (Some w0) /\
      lookup k (kv k e0) out = Some (w_node w0).
  Proof.
    intros Hpl HgT HgP HndT Hassoc Hkeys He0 HLP H.
    set (v0 := kv k e0) in *.
    assert (Hv0 : v0 <> "") by (apply gel_kv_nonempty; exact (goodl_in k T e0 HgT He0)).
    cbn [walk] in H.
    assert (Hfk : first_kind [Some (Seq T); po] = Some KSeq) by reflexivity. rewrite Hfk in H.
    assert (Hav : all_valid KSeq [Some (Seq T); po] = true).
    { destruct po as [[| |P0]|]; try discriminate; reflexivity. }
    rewrite Hav, Hassoc in H. unfold walk_aseq in H. cbn [v_list merger] in H.
    rewrite (visit_list_plain T po P Hpl HgP) in H.
    cbn [bind fst snd sync_from_alias resolve nth_error] in H.
    change (cur_srcs None (Seq T) [Some (Seq T); po]) with [Some (Seq T); po] in H.
    fold (aseq_keys (get_schema sch sc [Some (Seq T); po]) [Some (Seq T); po]) in H.
    rewrite Hkeys in H. cbn [bind] in H.
    destruct (values_spec T po P Hpl HgT HgP) as [Hndv Hmem].
    set (vl := element_values opts [k] [Some (Seq T); po]) in *.
    assert (Hsa : set_assoc sch opts nonstr (W f) (get_schema sch sc [Some (Seq T); po]) None [Some (Seq T); po] vl [k]
                            (Seq T) true false = Ok r).
    { destruct vl; exact H. }
    clear H. unfold set_assoc in Hsa. cbn [List.length Nat.ltb Nat.leb] in Hsa.
    fold (elem_schema (get_schema sch sc [Some (Seq T); po])) in Hsa.
    set (esc := elem_schema (get_schema sch sc [Some (Seq T); po])) in *.
    destruct (assoc_loop nonstr (W f) esc None [Some (Seq T); po] vl [k] vl (T, [], [])) as [st| | |] eqn:El;
      cbn [bind] in Hsa; try discriminate.
    (* the tuples *)
    assert (Hin0 : In [v0] vl) by (apply Hmem; exists e0; auto).
    assert (Htup : forall x, In x vl -> exists v, x = [v] /\ v <> "").
    { intros x Hx. apply Hmem in Hx. destruct Hx as [e [He ->]]. eexists. split; [reflexivity|].
      apply gel_kv_nonempty. destruct He as [He|He]; [exact (goodl_in k T e HgT He)|exact (goodl_in k P e HgP He)]. }
    assert (Hvs : valid_key_set vl [k] = [k]) by (apply (valid_key_set_single vl v0); auto).
    destruct (in_split _ _ Hin0) as [pre [post Evl]].
    assert (Hpre : forall x, In x pre -> exists v, x = [v] /\ v <> "" /\ v <> v0).
    { intros x Hx. destruct (Htup x) as [v [-> Hv]]; [rewrite Evl; apply in_or_app; auto|].
      exists v. repeat split; auto. intros ->. rewrite Evl in Hndv. apply NoDup_remove_2 in Hndv.
      apply Hndv. apply in_or_app. auto. }
    assert (Hpost : forall x, In x post -> exists v, x = [v] /\ v <> "" /\ v <> v0).
    { intros x Hx. destruct (Htup x) as [v [-> Hv]]; [rewrite Evl; apply in_or_app; right; right; auto|].
      exists v. repeat split; auto. intros ->. rewrite Evl in Hndv. apply NoDup_remove_2 in Hndv.
      apply Hndv. apply in_or_app. auto. }
    (* the loop, in three parts *)
    assert (El' : assoc_loop nonstr (W f) esc None [Some (Seq T); po] vl [k] (pre ++ [v0] :: post) (T, [], []) = Ok st)
      by (rewrite <- Evl; exact El).
    unfold assoc_loop in El'.
    apply fold_res_split in El'. destruct El' as [st1 [El1 El2]].
    cbn [fold_left] in El2. cbn [bind] in El2.
    destruct (assoc_step nonstr (W f) esc None [Some (Seq T); po] vl [k] st1 [v0]) as [st2| | |] eqn:Es;
      try (rewrite fold_res_stuck in El2 by (intros; discriminate); discriminate).
    assert (HI0 : Inv (T, [], [])).
    { unfold Inv. cbn [fst snd]. repeat split; auto. constructor. }
    destruct (loop_other f esc T po P vl v0 pre Hpl HgP Hvs Hpre _ _ HI0 El1) as [HI1 [L1 [_ _]]].
    cbn [fst snd] in L1.
    assert (LT : lookup k v0 T = Some e0) by (apply lookup_of_in; auto).
    rewrite LT in L1.
    destruct (step_self f esc T po P vl st1 v0 e0 st2 Hpl HgP Hvs HI1 Hv0 L1 HLP Es)
      as [w0 [Hw0 [HI2 [Ld2 [Li2 K2]]]]].
    destruct (loop_other f esc T po P vl v0 post Hpl HgP Hvs Hpost _ _ HI2 El2) as [HI3 [Ld3 [Li3 K3]]].
    rewrite Ld2 in Ld3. rewrite Li2 in Li3.
    assert (Kst : snd st = [k]).
    { destruct post as [|y post']; [cbn in El2; inv El2; auto|apply K3; discriminate]. }
    destruct st as [[des items] vk]. cbn [fst snd] in *. subst vk.
    destruct HI3 as [Hgd [Hgi [Hndd Hndi]]]. cbn [fst snd] in *.
    assert (Hkw0 : kv k (w_node w0) = v0).
    { apply lookup_in in Ld3. tauto. }
    assert (Hvl : vl <> []) by (rewrite Evl; destruct pre; discriminate).
    destruct vl as [|x0 vl']; [congruence|].
    destruct (o_prepend opts).
    - rewrite (append_good des items Hgi Hgd) in Hsa. cbn [bind fst snd] in Hsa. inv Hsa.
      eexists. eexists. exists w0. split; [reflexivity|]. split; [reflexivity|]. split; [exact Hw0|].
      apply fold_eset_lookup; auto. intros e He Hke. exact (lookup_unique k v0 _ des Hndd Ld3 e He Hke).
    - rewrite (append_good items des Hgd Hgi) in Hsa. cbn [bind fst snd] in Hsa. inv Hsa.
      eexists. eexists. exists w0. split; [reflexivity|]. split; [reflexivity|]. split; [exact Hw0|].
      apply fold_eset_lookup; auto. intros e He Hke. exact (lookup_unique k v0 _ items Hndi Li3 e He Hke).
  Qed.
End ListLevel.

(* ---------- paths through mappings and keyed lists ---------- *)
Inductive pstep := PK (key : string) | PE (k v : string).

Fixpoint getpe (q : list pstep) (n : node) : option node :=
  match q with
  | [] => Some n
  | PK key :: r => match dfield key n with Some x => getpe r x | None => None end
  | PE k v :: r =>
      match n with
      | Seq es => match lookup k v es with Some e => getpe r e | None => None end
      | _ => None
      end
  end.

Section FramePath.
  Context {Sc : Type}.
  Variable sch : schema Sc.
  Variable opts : wopts.
  Variable nonstr : string -> bool.

  Notation W := (walk sch opts nonstr merger).

  (* [frame_okb sc t p q]: what target [t] and patch [p] have to look like along path [q] (walker schema [sc]):
     - at a mapping step: the target is a mapping with pairwise different keys, the patch is absent there or a mapping
       without a "$patch" directive;
     - at a list step (key k, value v): the target is a list of good elements with pairwise different key values, the
       patch is absent there or a list of good elements (good: [gel], which excludes directive elements), the walker
       treats the list as associative with the single merge key k (from the schema or by inference), and the patch
       list has no element with key value v;
     - at the end: the patch is absent. *)
  Fixpoint frame_okb (sc : option Sc) (t : node) (p : option node) (q : list pstep) {struct q} : bool :=
    match q with
    | [] => match p with None => true | Some _ => false end
    | PK key :: r =>
        match t with
        | Map tk =>
            nodup_keys (keys tk) &&
            match p with
            | None => true
            | Some (Map pk) => negb (str_in smp_key (keys pk))
            | Some _ => false
            end &&
            match find_field key tk with
            | Some x => frame_okb (child_schema sch (get_schema sch sc [Some t; p]) key) x (field_of key p) r
            | None => true
            end
        | _ => false
        end
    | PE k v :: r =>
        match t with
        | Seq T =>
            match plist p with
            | Some P =>
                negb (String.eqb k "") && goodl k T && goodl k P && nodup_keys (map (kv k) T) &&
                is_associative sch opts (get_schema sch sc [Some t; p]) [Some t; p] &&
                match aseq_keys sch opts (get_schema sch sc [Some t; p]) [Some t; p] with
                | Ok [k'] => String.eqb k' k
                | _ => false
                end &&
                match lookup k v P with None => true | Some _ => false end &&
                match lookup k v T with
                | Some e0 => frame_okb (elem_schema sch (get_schema sch sc [Some t; p])) e0 None r
                | None => true
                end
            | None => false
            end
        | _ => false
        end
    end.

  Definition leafval (q : list pstep) (v : node) : node :=
    match q with [] => v | _ => quote11 nonstr v end.

  Lemma fval_nonscalar w x :
    is_scalar (w_node w) = false -> fval nonstr (Some w) (Some x) = Some (w_node w).
  Proof.
    intros H. unfold fval. destruct (w_node w) as [| kvs | es]; try discriminate; cbn [is_null andb];
      destruct (w_inplace w); reflexivity.
  Qed.

  Lemma frame_path q : forall f sc t p r0 v,
      W f sc None [Some t; p] = Ok r0 ->
      frame_okb sc t p q = true ->
      getpe q t = Some v -> is_scalar v = true -> is_null v = false ->
      exists w, r0 = Some w /\ getpe q (w_node w) = Some (leafval q v) /\
                (q = [] -> w = mkW v false true) /\ (q <> [] -> is_scalar (w_node w) = false).
  Proof.
    induction q as [|st r IH]; intros f sc t p r0 v H Hok Hg Hsv Hnv.
    - cbn in Hg. inv Hg. cbn [frame_okb] in Hok. destruct p; [discriminate|].
      destruct f as [|f]; [discriminate|]. destruct v as [tv sv xv| |]; try discriminate.
      rewrite (walk_scalar_unmentioned sch opts nonstr f sc tv sv xv Hnv) in H. inv H.
      eexists. split; [reflexivity|]. split; [reflexivity|]. split; [reflexivity|congruence].
    - destruct st as [key|k v0].
      + (* through a mapping *)
        destruct t as [| tk |]; try discriminate. cbn [frame_okb] in Hok.
        apply Bool.andb_true_iff in Hok. destruct Hok as [Hok Hsub]. apply Bool.andb_true_iff in Hok. destruct Hok as [Hnk Hp].
        apply nodup_keys_NoDup in Hnk.
        assert (Hpl : plain_patch p).
        { destruct p as [[| pk |]|]; try discriminate; cbn; auto.
          apply Bool.negb_true_iff in Hp. rewrite find_in_keys in Hp. destruct (find_field smp_key pk); [discriminate|reflexivity]. }
        destruct f as [|f]; [discriminate|].
        rewrite level_merge in H by exact Hpl.
        match type of H with bind ?X _ = _ => destruct X as [d| | |] eqn:Ew; cbn in H; try discriminate end.
        inv H.
        destruct (walk_fields_map sch nonstr _ _ _ _ _ (nodup_sort_uniq _) _ _ Hnk Ew) as [kvs' [-> [Hnd' [_ Hin]]]].
        eexists. split; [reflexivity|]. cbn [w_node]. split; [|split; [discriminate|reflexivity]].
        cbn [getpe dfield] in Hg |- *. destruct (find_field key tk) as [x|] eqn:Fx; [|discriminate].
        destruct (Hin key (in_field_names_dest _ _ _ _ Fx)) as [rk [Hrk Hfk]].
        rewrite Fx in Hrk, Hfk. unfold fvs, set_nth in Hrk. cbn [map replace_nth field_of] in Hrk.
        fold (field_of key p) in Hrk. rewrite Hfk.
        destruct (IH _ _ _ _ _ _ Hrk Hsub Hg Hsv Hnv) as [w' [-> [Hg' [Hnil Hns]]]].
        destruct r as [|st' r'].
        * rewrite (Hnil eq_refl). cbn in Hg. inv Hg. cbn [fval w_node w_keep w_inplace leafval getpe].
          rewrite Hnv. reflexivity.
        * rewrite fval_nonscalar by (apply Hns; discriminate). exact Hg'.
      + (* through a keyed list *)
        destruct t as [| | T]; try discriminate. cbn [frame_okb] in Hok.
        destruct (plist p) as [P|] eqn:Hpl; [|discriminate].
        repeat (apply Bool.andb_true_iff in Hok; destruct Hok as [Hok ?]).
        match goal with Hx : negb (String.eqb k "") = true |- _ => rename Hx into Hk0 end.
        apply Bool.negb_true_iff in Hk0. apply String.eqb_neq in Hk0.
        destruct (aseq_keys sch opts (get_schema sch sc [Some (Seq T); p]) [Some (Seq T); p]) as [[|k' [|? ?]]| | |] eqn:Hkeys;
          try discriminate.
        match goal with Hx : String.eqb k' k = true |- _ => apply String.eqb_eq in Hx; subst k' end.
        destruct (lookup k v0 P) eqn:HLP; [discriminate|].
        cbn [getpe] in Hg. destruct (lookup k v0 T) as [e0|] eqn:HLT; [|discriminate].
        destruct (lookup_in k _ _ _ HLT) as [He0 Hkv0]. subst v0.
        destruct f as [|f]; [discriminate|].
        match goal with Hx : nodup_keys (map (kv k) T) = true |- _ => apply nodup_keys_NoDup in Hx; rename Hx into HndT end.
        destruct (keyed_level sch opts nonstr k Hk0 f sc T p P e0 r0 Hpl) as [w [out [w0 [-> [Eout [Hw0 Lout]]]]]]; auto.
        exists w. split; [reflexivity|]. split; [|split; [discriminate|rewrite Eout; reflexivity]].
        rewrite Eout. cbn [getpe]. rewrite Lout.
        match goal with Hx : frame_okb _ e0 None r = true |- _ => rename Hx into Hsub end.
        destruct (IH _ _ _ _ _ _ Hw0 Hsub Hg Hsv Hnv) as [w' [Ew' [Hg' [Hnil Hns]]]]. inv Ew'.
        destruct r as [|st' r'].
        * exfalso. cbn in Hg. inv Hg.
          destruct (gel_inv k _ (goodl_in k T v ltac:(assumption) He0)) as [kvs [? [? [? [-> _]]]]]. discriminate.
        * exact Hg'.
  Qed.

  (* merge2: a scalar of the target that the patch does not mention is still there, also below elements of keyed lists
     that the patch does not mention *)
  Theorem merge2_frame_keyed q t p r v :
    q <> [] ->
    merge2 sch opts nonstr p (Some t) = Ok (Some r) ->
    frame_okb None t p q = true ->
    getpe q t = Some v -> is_scalar v = true -> is_null v = false ->
    getpe q r = Some (quote11 nonstr v).
  Proof.
    intros Hq H Hok Hg Hsv Hnv. unfold merge2, walk_top in H.
    destruct (walk sch opts nonstr merger (fuel_of [Some t; p]) None None [Some t; p]) as [ro| | |] eqn:E;
      cbn in H; try discriminate.
    destruct (frame_path q _ _ _ _ _ _ E Hok Hg Hsv Hnv) as [w [-> [Hg' _]]]. cbn in H. inv H.
    rewrite Hg'. destruct q; [congruence|reflexivity].
  Qed.
End FramePath.

(* ---------- non-vacuity ---------- *)
From KV Require Import Yaml.Merge2Examples Corr.SchemaTable.

(* a Pod (spec.containers keyed by name through the schema, kustomize's options): the patch changes container a and
   adds container c; the cpu limit of container b, three mappings below the unmentioned element, stays *)
Definition fk_t : node :=
  pod [("containers", Seq [Map [("name", Scalar TStr SPlain "a"); ("image", Scalar TStr SPlain "a:1")];
                           Map [("name", Scalar TStr SPlain "b"); ("image", Scalar TStr SPlain "b:1");
                                ("resources", Map [("limits", Map [("cpu", Scalar TStr SDouble "1")])])]]);
       ("nodeName", Scalar TStr SPlain "n1")].
Definition fk_p : node :=
  pod [("containers", Seq [Map [("name", Scalar TStr SPlain "a"); ("image", Scalar TStr SPlain "a:2")];
                           Map [("name", Scalar TStr SPlain "c"); ("image", Scalar TStr SPlain "c:1")]])].
Definition fk_q : list pstep :=
  [PK "spec"; PK "containers"; PE "name" "b"; PK "resources"; PK "limits"; PK "cpu"].
Example frame_keyed_example :
  frame_okb (tree_schema pod_schema) kopts None fk_t (Some fk_p) fk_q = true /\
  getpe fk_q fk_t = Some (Scalar TStr SDouble "1") /\
  exists r, kmerge fk_p fk_t = Ok (Some r) /\ node_eqb r fk_t = false /\
            getpe fk_q r = Some (Scalar TStr SDouble "1").
Proof. split; [reflexivity|]. split; [reflexivity|]. eexists. split; [vm_compute; reflexivity|]. split; reflexivity. Qed.

(* a custom resource without schema, merge key inferred from the elements (InferAssociativeLists) *)
Definition fi_opts : wopts :=
  mkOpts true true ["mountPath"; "devicePath"; "ip"; "type"; "topologyKey"; "name"; "containerPort"].
Definition fi_cr (spec : list (string * node)) : node :=
  Map [("apiVersion", Scalar TStr SPlain "example.com/v1"); ("kind", Scalar TStr SPlain "Foo"); ("spec", Map spec)].
Definition fi_t : node :=
  fi_cr [("items", Seq [Map [("name", Scalar TStr SPlain "a"); ("v", Scalar TInt SPlain "1")];
                        Map [("name", Scalar TStr SPlain "b"); ("v", Scalar TInt SPlain "2")]])].
Definition fi_p : node :=
  fi_cr [("items", Seq [Map [("name", Scalar TStr SPlain "a"); ("v", Scalar TInt SPlain "5")]])].
Definition fi_q : list pstep := [PK "spec"; PK "items"; PE "name" "b"; PK "v"].
Example frame_keyed_inferred_example :
  frame_okb schemaless fi_opts None fi_t (Some fi_p) fi_q = true /\
  exists r, merge2 schemaless fi_opts (fun _ => false) (Some fi_p) (Some fi_t) = Ok (Some r) /\
            node_eqb r fi_t = false /\ getpe fi_q r = Some (Scalar TInt SPlain "2").
Proof. split; [reflexivity|]. eexists. split; [vm_compute; reflexivity|]. split; reflexivity. Qed.
