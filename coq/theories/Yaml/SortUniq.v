(* [sort_uniq] (sets.String + sort.Strings): membership and absence of duplicates. *)
From Coq Require Import OrderedTypeEx Sorted.
From KV Require Import Yaml.Walk.
Local Open Scope list_scope.

Definition slt (a b : string) : Prop := String.compare a b = Lt.

Lemma slt_trans a b c : slt a b -> slt b c -> slt a c.
Proof.
  unfold slt. intros H1 H2.
  apply String_as_OT.cmp_lt in H1. apply String_as_OT.cmp_lt in H2. apply String_as_OT.cmp_lt.
  eapply String_as_OT.lt_trans; eauto.
Qed.

Lemma slt_irrefl a : ~ slt a a.
Proof.
  unfold slt. intros H. apply String_as_OT.cmp_lt in H.
  apply String_as_OT.lt_not_eq in H. apply H. reflexivity.
Qed.

Lemma compare_gt_lt a b : String.compare a b = Gt -> slt b a.
Proof. unfold slt. intros H. rewrite String.compare_antisym, H. reflexivity. Qed.

Lemma in_ins_sorted x y l : In y (ins_sorted x l) <-> y = x \/ In y l.
Proof.
  induction l as [|z t IH]; cbn.
  - split; [intros [H|[]]; auto|intros [H|[]]; auto].
  - destruct (String.compare x z) eqn:E; cbn.
    + apply String.compare_eq_iff in E. subst. intuition.
    + intuition.
    + rewrite IH. intuition.
Qed.

Lemma ssorted_ins x l : StronglySorted slt l -> StronglySorted slt (ins_sorted x l).
Proof.
  induction 1 as [|z t Ht IH Hz]; cbn.
  - constructor; constructor.
  - destruct (String.compare x z) eqn:E.
    + constructor; auto.
    + constructor; [constructor; auto|]. constructor; auto.
      eapply Forall_impl; [|exact Hz]. intros a Ha. eapply slt_trans; eauto.
    + constructor; auto. apply Forall_forall. intros y Hy. apply in_ins_sorted in Hy.
      destruct Hy as [->|Hy]; [apply compare_gt_lt; auto|]. rewrite Forall_forall in Hz; auto.
Qed.

Lemma ssorted_nodup l : StronglySorted slt l -> NoDup l.
Proof.
  induction 1 as [|z t Ht IH Hz]; constructor; auto.
  intros Hin. rewrite Forall_forall in Hz. eapply slt_irrefl; eauto.
Qed.

Lemma ssorted_sort_uniq l : StronglySorted slt (sort_uniq l).
Proof. induction l; cbn; [constructor|apply ssorted_ins; auto]. Qed.

Lemma in_sort_uniq y l : In y (sort_uniq l) <-> In y l.
Proof. induction l as [|x t IH]; cbn; [tauto|]. rewrite in_ins_sorted, IH. intuition. Qed.

Lemma nodup_sort_uniq l : NoDup (sort_uniq l).
Proof. apply ssorted_nodup, ssorted_sort_uniq. Qed.
