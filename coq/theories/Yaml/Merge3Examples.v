(* Witnesses (vm_compute on the faithful model) of the merge laws that fail for kyaml merge3 as it is;
   each is confirmed on the implementation by the oracles of harness/c15.go (findings.d/C15.txt). *)
From KV Require Import Yaml.Merge3 Yaml.Merge2Frame Yaml.Merge3Proofs.
Local Open Scope list_scope.
Local Open Scope string_scope.

Definition iopts : wopts := mkOpts true false ["name"].        (* inference on, keyed by name *)
Definition m3 (l o u : node) : res (option node) :=
  merge3 schemaless iopts (fun _ => false) (Some l) (Some o) (Some u).

Definition i1 := Scalar TInt SPlain "1".

(* merge3(l,o,o) <> l : a mapping missing locally, unchanged upstream, comes back as {} *)
Definition l1_l := Map [("a", i1)].
Definition l1_o := Map [("a", i1); ("m", Map [("x", i1)])].
Lemma local_when_upstream_unchanged_refuted :
  exists l o r, m3 l o o = Ok (Some r) /\ node_eqb r l = false /\ r = Map [("a", i1); ("m", Map [])].
Proof. exists l1_l, l1_o. eexists. split; [vm_compute; reflexivity|]. split; reflexivity. Qed.

(* merge3(o,o,u) <> u : a mapping removed upstream leaves {} *)
Lemma updated_when_local_unchanged_refuted :
  exists o u r, m3 o o u = Ok (Some r) /\ node_eqb r u = false /\ r = Map [("a", i1); ("m", Map [])].
Proof. exists l1_o, l1_l. eexists. split; [vm_compute; reflexivity|]. split; reflexivity. Qed.

(* merge3(d,d,d) <> d : an explicit null is dropped *)
Definition l3_d := Map [("a", Scalar TNull SPlain "null")].
Lemma all_equal_refuted :
  exists d r, m3 d d d = Ok (Some r) /\ node_eqb r d = false /\ r = Map [].
Proof. exists l3_d. eexists. split; [vm_compute; reflexivity|]. split; reflexivity. Qed.

(* merge3(o,o,u) <> u : a type-only change upstream (1 -> "1") is ignored *)
Definition ty_o := Map [("f", i1)].
Definition ty_u := Map [("f", Scalar TStr SDouble "1")].
Lemma type_only_change_ignored : m3 ty_o ty_o ty_u = Ok (Some ty_o).
Proof. vm_compute. reflexivity. Qed.

(* one-sided edit: a number written over a quoted string inherits the quotes (emitted as the string "2") *)
Definition qu_o := Map [("k", Scalar TStr SDouble "true")].
Definition qu_u := Map [("k", Scalar TInt SPlain "2")].
Lemma scalar_keeps_local_quoting : m3 qu_o qu_o qu_u = Ok (Some (Map [("k", Scalar TInt SDouble "2")])).
Proof. vm_compute. reflexivity. Qed.

(* inference on, a document with an empty list: FIXED in /repo (schema.IsAssociative skips empty lists) *)
Definition el_d := Map [("f", Seq [])].
Lemma empty_list_merges : m3 el_d el_d el_d = Ok (Some el_d).
Proof. vm_compute. reflexivity. Qed.

(* a keyed list missing locally comes back as [] *)
Definition kl_o := Map [("a", i1); ("f", Seq [Map [("name", Scalar TStr SPlain "e1"); ("v", i1)]])].
Lemma keyed_list_comes_back_empty : m3 l1_l kl_o kl_o = Ok (Some (Map [("a", i1); ("f", Seq [])])).
Proof. vm_compute. reflexivity. Qed.

(* non-vacuity of merge3_local_kept: a non-trivial triple meets its hypotheses *)
Definition nv_l := Map [("a", Scalar TInt SPlain "2"); ("m", Map [("x", i1); ("y", Scalar TStr SPlain "new")])].
Definition nv_o := Map [("a", i1); ("m", Map [("x", i1)])].
Example local_kept_example :
  exists r, merge3 schemaless kustomize_opts (fun _ => false) (Some nv_l) (Some nv_o) (Some nv_o) = Ok (Some r) /\
            getp ["m"; "y"] r = Some (Scalar TStr SPlain "new") /\ getp ["a"] r = Some (Scalar TInt SPlain "2").
Proof. eexists. split; [vm_compute; reflexivity|]. split; reflexivity. Qed.

(* non-vacuity of merge3_updated_arrives: a field changed, a field added and a mapping added upstream *)
Definition nu_o := Map [("a", i1); ("m", Map [("x", i1)])].
Definition nu_u := Map [("a", Scalar TInt SPlain "2"); ("m", Map [("x", i1); ("y", Scalar TStr SPlain "new")]);
                        ("n", Map [("z", Scalar TBool SPlain "true")])].
Example updated_arrives_example :
  exists r, merge3 schemaless kustomize_opts (fun _ => false) (Some nu_o) (Some nu_o) (Some nu_u) = Ok (Some r) /\
            ok_along (Some nu_o) ["n"; "z"] /\ ok_along (Some nu_o) ["a"] /\
            getp ["a"] r = Some (Scalar TInt SPlain "2") /\
            getp ["m"; "y"] r = Some (Scalar TStr SPlain "new") /\
            getp ["n"; "z"] r = Some (Scalar TBool SPlain "true").
Proof.
  eexists. split; [vm_compute; reflexivity|].
  cbn. repeat split; try (repeat constructor; cbn; intuition congruence).
Qed.
