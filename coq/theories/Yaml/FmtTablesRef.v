(* C20 — PINNED reference copy of the tables of kyaml/yaml/order.go and compatibility.go as they were
   when the property was established (committed by hand, never regenerated).

   The translators regenerate Gen/FieldOrder.v and Gen/FmtWhitelist.v from /repo on every run and the
   model follows them; that alone would let a changed table pass silently, because model and
   implementation change together.  The obligations Gen_fmt_whitelist_eq_ref / Gen_field_order_eq_ref /
   Gen_type_to_tag_eq_ref (Yaml/FmtProofs.v, re-exported in Props/C20.v) compare the generated tables
   with this copy, so that any edit of a table is reported and has to be accepted deliberately by
   updating this file:
   * a row of the whitelists widens the set of lists whose ORDER the formatter may change — the
     property only allows "the few documented order-insensitive lists", i.e. exactly ref_wl_fields for
     ref_wl_kinds x ref_wl_apis (the value oracle of the harness normalises these lists only);
   * a row of field_sort_order only changes the order of mapping keys (value-neutral), it is pinned
     as well so that the canonical order itself does not drift unnoticed. *)
From KV Require Import Base.Prelude.
Open Scope string_scope.

Definition ref_field_sort_order : list string := [
  "name";
  "generateName";
  "namespace";
  "clusterName";
  "apiVersion";
  "kind";
  "metadata";
  "type";
  "labels";
  "annotations";
  "spec";
  "status";
  "stringData";
  "data";
  "binaryData";
  "parallelism";
  "completions";
  "activeDeadlineSeconds";
  "backoffLimit";
  "replicas";
  "selector";
  "manualSelector";
  "template";
  "ttlSecondsAfterFinished";
  "volumeClaimTemplates";
  "service";
  "serviceName";
  "podManagementPolicy";
  "updateStrategy";
  "strategy";
  "minReadySeconds";
  "revision";
  "revisionHistoryLimit";
  "paused";
  "progressDeadlineSeconds";
  "restartPolicy";
  "terminationGracePeriodSeconds";
  "activeDeadlineSeconds";
  "dnsPolicy";
  "serviceAccountName";
  "serviceAccount";
  "automountServiceAccountToken";
  "nodeName";
  "hostNetwork";
  "hostPID";
  "hostIPC";
  "shareProcessNamespace";
  "hostname";
  "subdomain";
  "schedulerName";
  "priorityClassName";
  "priority";
  "runtimeClassName";
  "enableServiceLinks";
  "nodeSelector";
  "hostAliases";
  "initContainers";
  "containers";
  "volumes";
  "securityContext";
  "imagePullSecrets";
  "affinity";
  "tolerations";
  "dnsConfig";
  "readinessGates";
  "image";
  "command";
  "args";
  "workingDir";
  "ports";
  "envFrom";
  "env";
  "resources";
  "volumeMounts";
  "volumeDevices";
  "livenessProbe";
  "readinessProbe";
  "lifecycle";
  "terminationMessagePath";
  "terminationMessagePolicy";
  "imagePullPolicy";
  "securityContext";
  "stdin";
  "stdinOnce";
  "tty";
  "clusterIP";
  "externalIPs";
  "loadBalancerIP";
  "loadBalancerSourceRanges";
  "externalName";
  "externalTrafficPolicy";
  "sessionAffinity";
  "protocol";
  "port";
  "targetPort";
  "hostPort";
  "containerPort";
  "hostIP";
  "readOnly";
  "mountPath";
  "subPath";
  "subPathExpr";
  "mountPropagation";
  "value";
  "valueFrom";
  "fieldRef";
  "resourceFieldRef";
  "configMapKeyRef";
  "secretKeyRef";
  "prefix";
  "configMapRef";
  "secretRef"
].

Definition ref_wl_kinds : list string := [
  "CronJob";
  "DaemonSet";
  "Deployment";
  "Job";
  "ReplicaSet";
  "StatefulSet";
  "ValidatingWebhookConfiguration"
].

Definition ref_wl_apis : list string := [
  "apps/v1";
  "apps/v1beta1";
  "apps/v1beta2";
  "batch/v1";
  "batch/v1beta1";
  "extensions/v1beta1";
  "v1";
  "admissionregistration.k8s.io/v1"
].

Definition ref_wl_fields : list (string * string) := [
  (".spec.template.spec.containers", "name");
  (".webhooks.rules.operations", "")
].

Definition ref_type_to_tag : list (string * string) := [
  ("string", "!!str");
  ("integer", "!!int");
  ("boolean", "!!bool");
  ("number", "!!float")
].

