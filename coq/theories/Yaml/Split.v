(* kyaml/kio/byteio_reader.go: splitDocuments and the CR-LF normalisation done by ByteReader.Read.
   Definitions only; proofs are in Yaml/SplitProofs.v.

   Go finds the separators with regexp `\n---.*\n` (FindAllStringIndex: leftmost, non-overlapping;
   `.` does not match a newline).  A separator therefore is: a newline, three dashes, the rest of
   that line, and the newline ending it.  The newline that ends a separator is consumed, so a "---"
   line directly after a separator — like a "---" on the first line of the stream — is not
   preceded by an available newline and stays *content*.  A candidate whose line never ends
   (no newline up to the end of the input) is not a separator, and nothing after it can be one.

   The model scans the string once, in two modes. *)
From KV Require Export Base.Prelude.

Definition nl : ascii := ascii_of_N 10.
Definition cr : ascii := ascii_of_N 13.
Definition dash : ascii := "-"%char.
Definition hash : ascii := "#"%char.

(* the check applied to the text after "---": strings.TrimSpace(line ++ "\n") is empty or starts with '#'.
   Only the white space before the first other character matters.  strings.TrimSpace trims the Unicode
   White_Space code points; in UTF-8: the ASCII ones, U+0085 (C2 85), U+00A0 (C2 A0), U+1680 (E1 9A 80),
   U+2000..U+200A (E2 80 80..8A), U+2028, U+2029 (E2 80 A8/A9), U+202F (E2 80 AF), U+205F (E2 81 9F),
   U+3000 (E3 80 80).  A byte that does not start a valid encoding is not white space. *)
Definition byte_is (c : ascii) (n : N) : bool := (N_of_ascii c =? n)%N.

Fixpoint sep_line_ok (line : string) : bool :=
  match line with
  | EmptyString => true
  | String c rest =>
      if is_space c then sep_line_ok rest
      else
        match rest with
        | String c2 rest2 =>
            if byte_is c 194 && (byte_is c2 133 || byte_is c2 160) then sep_line_ok rest2
            else
              match rest2 with
              | String c3 rest3 =>
                  let n2 := N_of_ascii c2 in
                  let n3 := N_of_ascii c3 in
                  if (byte_is c 225 && byte_is c2 154 && byte_is c3 128)
                     || (byte_is c 226 && byte_is c2 128 &&
                         (((128 <=? n3)%N && (n3 <=? 138)%N) || byte_is c3 168 || byte_is c3 169 || byte_is c3 175))
                     || (byte_is c 226 && byte_is c2 129 && byte_is c3 159)
                     || (byte_is c 227 && byte_is c2 128 && byte_is c3 128)
                  then sep_line_ok rest3
                  else Ascii.eqb c hash
              | EmptyString => Ascii.eqb c hash
              end
        | EmptyString => Ascii.eqb c hash
        end
  end.

Inductive smode :=
| MDoc                       (* inside a document *)
| MNl (dashes : nat)         (* after a newline and 0, 1 or 2 dashes: a separator may be starting *)
| MSep (line_rev : string).  (* after "\n---": reading the rest of the separator line (reversed) *)

Fixpoint dashes (k : nat) : string :=
  match k with O => EmptyString | S k' => String dash (dashes k') end.

(* the text held back while a separator may be starting *)
Definition pending (k : nat) : string := String nl (dashes k).

Definition sep_text (line : string) : string :=
  String nl (String dash (String dash (String dash (line ++ String nl "")))).

(* push a string onto a reversed accumulator *)
Definition push_rev (t acc_rev : string) : string := str_rev_acc t acc_rev.

(* end of input: the text held back goes to the last document *)
Definition flush (acc_rev : string) (m : smode) : string :=
  match m with
  | MDoc => str_rev acc_rev
  | MNl k => str_rev (push_rev (pending k) acc_rev)
  (* the line never ends: not a separator, the text belongs to the current document *)
  | MSep line_rev => str_rev (push_rev (pending 3) acc_rev) ++ str_rev line_rev
  end.

(* One pass over the input, one byte per step.
   result: documents and the separators between them, both in order. *)
Fixpoint split_go (s : string) (acc_rev : string) (m : smode) (docs_rev seps_rev : list string)
  : res (list string * list string) :=
  match s with
  | EmptyString => Ok (rev (flush acc_rev m :: docs_rev), rev seps_rev)
  | String c s' =>
      match m with
      | MDoc =>
          if Ascii.eqb c nl then split_go s' acc_rev (MNl 0) docs_rev seps_rev
          else split_go s' (String c acc_rev) MDoc docs_rev seps_rev
      | MNl k =>
          if Ascii.eqb c dash then
            match k with
            | S (S _) => split_go s' acc_rev (MSep EmptyString) docs_rev seps_rev
            | _ => split_go s' acc_rev (MNl (S k)) docs_rev seps_rev
            end
          else if Ascii.eqb c nl then split_go s' (push_rev (pending k) acc_rev) (MNl 0) docs_rev seps_rev
          else split_go s' (String c (push_rev (pending k) acc_rev)) MDoc docs_rev seps_rev
      | MSep line_rev =>
          if Ascii.eqb c nl then
            let line := str_rev line_rev in
            if sep_line_ok line
            then split_go s' EmptyString MDoc (str_rev acc_rev :: docs_rev) (sep_text line :: seps_rev)
            else Err                                    (* invalid document separator *)
          else split_go s' acc_rev (MSep (String c line_rev)) docs_rev seps_rev
      end
  end.

(* splitDocuments, with the separators it cut out *)
Definition split_documents_full (s : string) : res (list string * list string) :=
  match s with
  | EmptyString => Ok ([], [])
  | _ => split_go s EmptyString MDoc [] []
  end.

Definition split_documents (s : string) : res (list string) :=
  match split_documents_full s with
  | Ok (ds, _) => Ok ds
  | Err => Err
  | Panic => Panic
  | Diverge => Diverge
  end.

(* strings.ReplaceAll(s, "\r\n", "\n") *)
Fixpoint crlf_norm (s : string) : string :=
  match s with
  | EmptyString => EmptyString
  | String c s' =>
      if Ascii.eqb c cr then
        match s' with
        | String d s'' => if Ascii.eqb d nl then String nl (crlf_norm s'') else String c (crlf_norm s')
        | EmptyString => String c EmptyString
        end
      else String c (crlf_norm s')
  end.

(* what ByteReader.Read hands to the YAML decoder: every document but the last gets its "\n" back *)
Fixpoint restore_newlines (ds : list string) : list string :=
  match ds with
  | [] => []
  | [d] => [d]
  | d :: t => (d ++ String nl "") :: restore_newlines t
  end.

Definition reader_chunks (input : string) : res (list string) :=
  match split_documents (crlf_norm input) with
  | Ok ds => Ok (restore_newlines ds)
  | Err => Err
  | Panic => Panic
  | Diverge => Diverge
  end.

(* number of newlines a chunk ends with (what a keep-chomped block scalar at its end observes) *)
Fixpoint leading_nl (s : string) : N :=
  match s with
  | String c s' => if Ascii.eqb c nl then (1 + leading_nl s')%N else 0%N
  | EmptyString => 0%N
  end.
Definition trailing_nl (s : string) : N := leading_nl (str_rev s).

(* ---- vocabulary of the theorems ---- *)

(* d1 ++ sep1 ++ d2 ++ sep2 ++ ... ++ dn *)
Fixpoint interleave (ds seps : list string) : string :=
  match ds, seps with
  | d :: ds', sp :: seps' => d ++ sp ++ interleave ds' seps'
  | d :: _, [] => d
  | [], _ => EmptyString
  end.

(* the text consumed so far that is not yet part of a finished document *)
Definition consumed (acc_rev : string) (m : smode) : string :=
  str_rev acc_rev ++
  match m with
  | MDoc => EmptyString
  | MNl k => pending k
  | MSep line_rev => pending 3 ++ str_rev line_rev
  end.

(* the mode the scanner is in after reading a text in which no separator candidate ("\n---" up to the
   end of its line) completes; None as soon as one does *)
Fixpoint mode_after (s : string) (m : smode) : option smode :=
  match s with
  | EmptyString => Some m
  | String c s' =>
      match m with
      | MDoc => if Ascii.eqb c nl then mode_after s' (MNl 0) else mode_after s' MDoc
      | MNl k =>
          if Ascii.eqb c dash then
            match k with
            | S (S _) => mode_after s' (MSep EmptyString)
            | _ => mode_after s' (MNl (S k))
            end
          else if Ascii.eqb c nl then mode_after s' (MNl 0)
          else mode_after s' MDoc
      | MSep line_rev => if Ascii.eqb c nl then None else mode_after s' (MSep (String c line_rev))
      end
  end.

(* a document text: no separator candidate completes inside it and it does not end in the middle of one *)
Definition plain_doc (d : string) : bool :=
  match mode_after d MDoc with
  | Some MDoc | Some (MNl _) => true
  | _ => false
  end.

Definition mode_ok (m : smode) : Prop :=
  match m with MNl k => k <= 2 | _ => True end.

Definition doc_sep : string := String nl (String dash (String dash (String dash (String nl "")))).
