(* Model of kyaml/yaml/walk (Walker.Walk, walkMap, walkScalar, walkAssociativeSequence,
   walkNonAssociativeSequence, setAssociativeSequenceElements, appendListNode, validateKeys,
   mergeValues, elementKey/Values/PrimitiveValues/ValueList), of yaml/schema.IsAssociative and of the
   list helpers of kyaml/yaml/fns.go the walker uses (ElementSetter, ElementMatcher, FieldMatcher).

   The walker is modelled ONCE, generically in the number of sources and in the visitor
   (merge2: [dest; patch], merge3: [dest; original; updated]).

   Go mutates the destination through pointers. The model is functional; the two places where
   pointer identity is observable are kept explicit:
   - a visitor answers with a *pointer* ([vres]: nil / the Dest pointer / the pointer of source i /
     a freshly made node); when the answer is the pointer of source i, Dest and source i are
     the same object from then on ([alias = Some i]) and stay equal below;
   - the walk of a keyed-list element says whether its result is the Dest element itself,
     updated in place ([w_inplace]); only then does the destination list see the update before
     appendListNode runs (this is what makes "$patch: replace" on an element a no-op in
     prepend mode).
   Recursion (sorted union of field names, elements looked up by key) is not structural: explicit
   fuel, [Diverge] when it runs out; Yaml/WalkProofs.v proves that fuel above the depth of the
   sources never diverges.
   Comments, key styles and the flow/block style of maps and sequences are not modelled. *)
From KV Require Export Yaml.Fns.
Local Open Scope list_scope.

(* ---------- sets.String + sort.Strings: the sorted list without duplicates ---------- *)
Fixpoint ins_sorted (x : string) (l : list string) : list string :=
  match l with
  | [] => [x]
  | y :: t =>
      match String.compare x y with
      | Lt => x :: l
      | Eq => l
      | Gt => y :: ins_sorted x t
      end
  end.
Definition sort_uniq (l : list string) : list string := fold_right ins_sorted [] l.

Fixpoint strs_eqb (a b : list string) : bool :=
  match a, b with
  | [], [] => true
  | x :: a', y :: b' => String.eqb x y && strs_eqb a' b'
  | _, _ => false
  end.
Fixpoint strs_in (x : list string) (l : list (list string)) : bool :=
  match l with [] => false | y :: t => strs_eqb x y || strs_in x t end.

(* ---------- schema: what the walker asks of openapi.ResourceSchema ----------
   [Sc] is a handle for a resolved schema node. *)
Record schema (Sc : Type) := mkSchema {
  sc_root : string -> string -> option Sc;      (* SchemaForResourceType{Kind, APIVersion} *)
  sc_field : Sc -> string -> option Sc;         (* ResourceSchema.Field *)
  sc_elems : Sc -> option Sc;                   (* ResourceSchema.Elements *)
  sc_pskl : Sc -> string * list string          (* PatchStrategyAndKeyList; its strategy is also PatchStrategyAndKey's *)
}.
Arguments sc_root {Sc}. Arguments sc_field {Sc}. Arguments sc_elems {Sc}. Arguments sc_pskl {Sc}.

Record wopts := mkOpts {
  o_infer : bool;                 (* Walker.InferAssociativeLists *)
  o_prepend : bool;               (* MergeOptions.ListIncreaseDirection == MergeOptionsListPrepend *)
  o_assoc_keys : list string      (* yaml.AssociativeSequenceKeys *)
}.

(* ---------- small predicates of kyaml/yaml ---------- *)
Definition o_null (s : option node) : bool :=        (* IsMissingOrNull *)
  match s with None => true | Some n => is_null n end.
Definition is_empty_map (n : node) : bool := match n with Map [] => true | _ => false end.
Definition nil_or_empty (n : node) : bool :=         (* IsYNodeNilOrEmpty on a present node *)
  match n with
  | Scalar TNull _ _ => true
  | Map [] => true
  | Seq [] => true
  | _ => false
  end.
Definition kind_of (n : node) : kind :=
  match n with Scalar _ _ _ => KScalar | Map _ => KMap | Seq _ => KSeq end.
Definition kind_eqb (a b : kind) : bool :=
  match a, b with KScalar, KScalar | KMap, KMap | KSeq, KSeq => true | _, _ => false end.

(* Walker.Kind: kind of the first non-null source; None = 0 *)
Fixpoint first_kind (srcs : list (option node)) : option kind :=
  match srcs with
  | [] => None
  | s :: t => if o_null s then first_kind t
              else match s with Some n => Some (kind_of n) | None => None end
  end.
(* ErrorIfAnyInvalidAndNonNull *)
Definition all_valid (k : kind) (srcs : list (option node)) : bool :=
  forallb (fun s => match s with
                    | None => true
                    | Some n => is_null n || kind_eqb (kind_of n) k
                    end) srcs.

(* value of field [key] in an element, "" when absent or empty (ElementValuesList) *)
Definition elem_key_value (key : string) (e : node) : string :=
  match e with
  | Map kvs => match find_field key kvs with
               | Some v => if nil_or_empty v then "" else node_value v
               | None => ""
               end
  | _ => ""
  end.
Definition elems_of (n : node) : list node := match n with Seq es => es | _ => [] end.

(* RNode.Field(key) != nil *)
Definition has_field (key : string) (e : node) : bool :=
  match e with Map kvs => match find_field key kvs with Some _ => true | None => false end | _ => false end.

(* RNode.GetAssociativeKey: first key of AssociativeSequenceKeys that ALL elements carry *)
Fixpoint assoc_key_of (ks : list string) (es : list node) : string :=
  match ks with
  | [] => ""
  | k :: t => if forallb (has_field k) es then k else assoc_key_of t es
  end.

(* ---------- FieldMatcher{Name, StringValue} as used by ElementSetter: found? ---------- *)
Definition field_match (name sv : string) (e : node) : res bool :=
  if is_null e then Ok false
  else if String.eqb name "" then
         match e with
         | Scalar _ _ v => Ok (String.eqb v sv)
         | _ => Err
         end
       else match e with
            | Map kvs =>
                match find_field name kvs with
                | Some x => Ok (String.eqb sv "" || String.eqb (node_value x) sv)
                | None => Ok false
                end
            | _ => Err
            end.

(* the loop over e.Keys in ElementSetter.Filter: val keeps its last value when j >= len(Values) *)
Fixpoint es_match (ks vs : list string) (prev : bool) (e : node) : res bool :=
  match ks with
  | [] => Ok true
  | k :: ks' =>
      match vs with
      | v :: vs' =>
          do b <- field_match k v e;
          if b then es_match ks' vs' true e else Ok false
      | [] => if prev then es_match ks' [] true e else Ok false
      end
  end.

(* ElementSetter{Element: elem, Keys: ks, Values: vs}.Filter on the Content of a sequence *)
Definition element_set (elem : option node) (ks vs : list string) (es : list node) : res (list node) :=
  let ks := match ks with [] => [""] | _ => ks end in
  let mapping_setter :=
    match ks, vs with
    | k :: _, v :: _ => negb (String.eqb k "") && negb (String.eqb v "")
    | _, _ => false
    end in
  do r <- (fix go (l : list node) : res (list node * bool) :=
             match l with
             | [] => Ok ([], false)
             | e :: t =>
                 if is_null e || is_empty_map e then go t
                 else if negb (is_map e) && mapping_setter then
                        do r <- go t; Ok (e :: fst r, snd r)
                 else
                   do b <- es_match ks vs false e;
                   do r <- go t;
                   if b then
                     match elem with
                     | None => Ok (fst r, true)
                     | Some x => Ok (x :: fst r, true)
                     end
                   else match vs with
                        | [] => Ok (fst r, snd r)
                        | _ => Ok (e :: fst r, snd r)
                        end
             end) es;
  match elem with
  | None => Ok (fst r)
  | Some x => if is_null x then Ok (fst r)
              else if snd r then Ok (fst r) else Ok (fst r ++ [x])
  end.

(* ElementMatcher{Keys, Values}.Filter (MatchAnyValue = false, no Create) through RNode.ElementList:
   index of the first matching element; errors are swallowed by ElementList *)
Fixpoint all_match (ks vs : list string) (kvs : list (string * node)) : bool :=
  match ks, vs with
  | k :: ks', v :: vs' =>
      match find_field k kvs with
      | Some x => String.eqb (node_value x) v && all_match ks' vs' kvs
      | None => false
      end
  | _, _ => true
  end.
Definition element_find (ks vs : list string) (es : list node) : option nat :=
  let ks := match ks with [] => [""] | _ => ks end in
  let vs := match vs with [] => [""] | _ => vs end in
  match ks with
  | k0 :: _ =>
      if String.eqb k0 "" then
        find_index (fun e => String.eqb (node_value e) (hd "" vs)) es
      else if negb (Nat.eqb (List.length ks) (List.length vs)) then
             (* error as soon as a mapping (or null) element is inspected; nil otherwise: both are nil for ElementList *)
             None
           else find_index (fun e => match e with Map kvs => all_match ks vs kvs | _ => false end) es
  | [] => None
  end.

(* ElementMatcher{Keys: [key], MatchAnyValue: true}: first mapping element that has the field *)
Definition element_by_key (key : string) (es : list node) : option node :=
  find (has_field key) es.

(* ---------- validateKeys / mergeValues / match (associative_sequence.go) ---------- *)
Definition valid_key_set (values_list : list (list string)) (ks : list string) : list string :=
  filter (fun k =>
            existsb (fun vals =>
                       existsb (fun kv => String.eqb (fst kv) k && negb (String.eqb (snd kv) ""))
                               (combine ks vals)) values_list) ks.

Definition validate_keys (values_list : list (list string)) (values ks : list string)
  : list string * list string :=
  let set := valid_key_set values_list ks in
  match set with
  | [] => (ks, values)
  | _ =>
      (filter (fun k => str_in k set) ks,
       map snd (filter (fun kv => negb (String.eqb (snd kv) "") || str_in (fst kv) set) (combine ks values)))
  end.

(* match(values1, values2) *)
Fixpoint mv_match (a b : list string) (common : bool) (acc : list string) : option (bool * list string) :=
  match a, b with
  | x :: a', y :: b' =>
      if String.eqb x y then mv_match a' b' true (acc ++ [x])
      else if negb (String.eqb x "") && negb (String.eqb y "") then None
      else mv_match a' b' common (acc ++ [if String.eqb x "" then y else x])
  | _, _ => Some (common, acc)
  end.
Definition values_match (a b : list string) : option (list string) :=
  if Nat.eqb (List.length a) (List.length b) then
    match mv_match a b false [] with
    | Some (true, r) => Some r
    | _ => None
    end
  else None.

(* mergeValues: the double loop updates the slice in place; values1 is read once per outer iteration *)
Definition merge_values (vl : list (list string)) : list (list string) :=
  let n := List.length vl in
  fold_left
    (fun (cur : list (list string)) (i : nat) =>
       match nth_error cur i with
       | None => cur
       | Some v1 =>
           fold_left
             (fun (cur : list (list string)) (j : nat) =>
                match nth_error cur j with
                | None => cur
                | Some v2 =>
                    match values_match v1 v2 with
                    | Some r => replace_nth j r (replace_nth i r cur)
                    | None => cur
                    end
                end) (seq 0 n) cur
       end) (seq 0 n) vl.

(* ---------- visitors ---------- *)
Inductive vres :=
| VNil                              (* nil *)
| VDest                             (* the Dest pointer *)
| VSrc (i : nat)                    (* the pointer of source i *)
| VNew (n : node) (keep : bool).    (* a node made by the visitor; keep = RNode.ShouldKeep *)

(* A visitor may rewrite its sources (merge2 removes "$patch" directives from the patch). *)
Record visitor := mkVisitor {
  v_map : list (option node) -> res (list (option node) * vres);
  v_scalar : list (option node) -> res vres;
  v_list : bool -> list (option node) -> res (list (option node) * vres)   (* true = AssociativeList *)
}.

Record wres := mkW {
  w_node : node;
  w_keep : bool;        (* ShouldKeep of the returned RNode *)
  w_inplace : bool      (* the returned pointer is the Dest pointer that was passed in *)
}.

Definition set_nth {A} (i : nat) (x : A) (l : list A) : list A := replace_nth i x l.

Definition opt_nat_is (a : option nat) (i : nat) : bool :=
  match a with Some j => Nat.eqb i j | None => false end.

(* keep Dest and its alias equal: after a visitor call the alias (the patch) is authoritative *)
Definition sync_from_alias (alias : option nat) (srcs : list (option node)) : list (option node) :=
  match alias with
  | Some j => match nth_error srcs j with
              | Some s => set_nth 0 s srcs
              | None => srcs
              end
  | None => srcs
  end.
(* sources as seen now: Dest is [d]; so is its alias *)
Definition cur_srcs (alias : option nat) (d : node) (srcs : list (option node)) : list (option node) :=
  let s := set_nth 0 (Some d) srcs in
  match alias with Some j => set_nth j (Some d) s | None => s end.

(* pointer answer -> node, ShouldKeep, "is the incoming Dest pointer", alias of the new Dest *)
Definition resolve (alias : option nat) (srcs : list (option node)) (r : vres)
  : option (node * bool * bool * option nat) :=
  match r with
  | VNil => None
  | VDest => match nth_error srcs 0 with
             | Some (Some d) => Some (d, false, true, alias)
             | _ => None
             end
  | VSrc i => match nth_error srcs i with
              | Some (Some n) => Some (n, false, Nat.eqb i 0 || opt_nat_is alias i,
                                       if Nat.eqb i 0 then alias else Some i)
              | _ => None
              end
  | VNew n k => Some (n, k, false, None)
  end.

Definition finish (alias : option nat) (srcs : list (option node)) (r : vres) : option wres :=
  match resolve alias srcs r with
  | Some (n, k, ip, _) => Some (mkW n k ip)
  | None => None
  end.

Definition field_of (key : string) (s : option node) : option node :=
  match s with Some (Map kvs) => find_field key kvs | _ => None end.

Definition field_names (srcs : list (option node)) : list string :=
  sort_uniq (flat_map (fun s => match s with Some (Map kvs) => keys kvs | _ => [] end) srcs).

Definition rotate1 {A} (l : list A) : list A :=
  match l with [] => [] | x :: t => t ++ [x] end.

Definition depth_o (s : option node) : nat := match s with Some n => depth n | None => 0 end.
Definition fuel_of (srcs : list (option node)) : nat :=
  S (fold_right (fun s a => depth_o s + a) 0 srcs).

Section Walker.
  Context {Sc : Type}.
  Variable sch : schema Sc.
  Variable opts : wopts.
  Variable nonstr : string -> bool.       (* yaml.IsValueNonString, as in Yaml/Fns.v *)
  Variable vis : visitor.

  Definition rec_t := option Sc -> option nat -> list (option node) -> res (option wres).

  (* ---- Walker.GetSchema (no field-meta comments in the model) ---- *)
  Definition meta_str (key : string) (n : node) : string :=
    match n with
    | Map kvs => match find_field key kvs with
                 | Some v => if nil_or_empty v then "" else
                               if is_null v then "" else node_value v
                 | None => ""
                 end
    | _ => ""
    end.
  Fixpoint schema_from_meta (srcs : list (option node)) : option Sc :=
    match srcs with
    | [] => None
    | s :: t =>
        match s with
        | Some n =>
            if is_null n then schema_from_meta t
            else
              let k := meta_str "kind" n in
              let av := meta_str "apiVersion" n in
              if String.eqb k "" || String.eqb av "" then schema_from_meta t
              else match sc_root sch k av with
                   | Some x => Some x
                   | None => schema_from_meta t
                   end
        | None => schema_from_meta t
        end
    end.
  Definition get_schema (sc : option Sc) (srcs : list (option node)) : option Sc :=
    match sc with Some _ => sc | None => schema_from_meta srcs end.

  (* ---- schema.IsAssociative ---- *)
  Definition has_merge_strategy (strategy : string) : bool :=
    str_in "merge" (split_on ","%char strategy).
  Definition is_associative (sc : option Sc) (srcs : list (option node)) : bool :=
    match sc with
    | Some s => has_merge_strategy (fst (sc_pskl sch s))
    | None =>
        o_infer opts &&
        existsb (fun s => match s with
                          | Some n => negb (is_null n) &&
                                      (* an empty list has no element to infer a key from: it is skipped *)
                                      negb (match elems_of n with [] => true | _ => false end) &&
                                      negb (String.eqb (assoc_key_of (o_assoc_keys opts) (elems_of n)) "")
                          | None => false
                          end) srcs
    end.

  (* ---- FieldSetter{Name: key, Value: val} as walkMap calls it ----
     When the value IS the node already stored under the key (the child walk answered with the Dest
     pointer), the forced quoting of YAML-1.1-ambiguous strings sticks ("keep the style of the existing
     field" copies the style onto itself); otherwise the existing field's style wins, as in [set_field]. *)
  Definition set_field_w (key : string) (r : option wres) (d : node) : res node :=
    match r with
    | None => clear_field key d
    | Some w =>
        if w_inplace w && negb (is_null (w_node w) && negb (w_keep w)) then
          match d with
          | Map kvs =>
              match find_field key kvs with
              | Some _ => Ok (Map (set_first key (quote11 nonstr (w_node w)) kvs))
              | None => set_field nonstr key (Some (w_node w)) (w_keep w) d
              end
          | _ => set_field nonstr key (Some (w_node w)) (w_keep w) d
          end
        else set_field nonstr key (Some (w_node w)) (w_keep w) d
    end.

  (* ---- walkMap ---- *)
  Definition child_schema (sc : option Sc) (key : string) : option Sc :=
    match sc with Some s => sc_field sch s key | None => None end.

  (* the loop over fieldNames(): walk the field in every source, set the result on dest *)
  Fixpoint walk_fields (rec : rec_t) (sc : option Sc) (alias : option nat) (srcs : list (option node))
           (names : list string) (d : node) : res node :=
    match names with
    | [] => Ok d
    | key :: rest =>
        let fv := map (field_of key) (cur_srcs alias d srcs) in
        do r <- rec (child_schema sc key) alias fv;
        do d' <- set_field_w key r d;
        walk_fields rec sc alias srcs rest d'
    end.

  Definition walk_map (rec : rec_t) (sc : option Sc) (alias : option nat) (srcs : list (option node))
    : res (option wres) :=
    do vr <- v_map vis srcs;
    let srcs1 := sync_from_alias alias (fst vr) in
    match resolve alias srcs1 (snd vr) with
    | None => Ok None
    | Some (d0, keep, inpl, alias') =>
        do d <- walk_fields rec sc alias' srcs1 (field_names (cur_srcs alias' d0 srcs1)) d0;
        Ok (Some (mkW d keep inpl))
    end.

  (* ---- elementKey ---- *)
  Definition element_key (srcs : list (option node)) : res string :=
    do k <- fold_left
              (fun (acc : res string) (s : option node) =>
                 do key <- acc;
                 match s with
                 | Some n =>
                     match elems_of n with
                     | [] => Ok key
                     | es =>
                         let nk := assoc_key_of (o_assoc_keys opts) es in
                         if negb (String.eqb key "") && negb (String.eqb key nk) then Err else Ok nk
                     end
                 | None => Ok key
                 end) srcs (Ok "");
    if String.eqb k "" then Err else Ok k.

  Definition src_order (srcs : list (option node)) : list (option node) :=
    if o_prepend opts then rotate1 srcs else srcs.

  (* ---- elementValues ---- *)
  Definition element_values (ks : list string) (srcs : list (option node)) : list (list string) :=
    fold_left
      (fun (acc : list (list string)) (s : option node) =>
         match s with
         | Some n =>
             fold_left
               (fun (acc : list (list string)) (e : node) =>
                  let vals := map (fun k => elem_key_value k e) ks in
                  match vals with
                  | [] => acc
                  | _ => if strs_in vals acc then acc else acc ++ [vals]
                  end) (elems_of n) acc
         | None => acc
         end) (src_order srcs) [].

  (* ---- elementPrimitiveValues ---- *)
  Definition element_primitive_values (srcs : list (option node)) : list (list string) :=
    fold_left
      (fun (acc : list (list string)) (s : option node) =>
         match s with
         | Some n =>
             fold_left
               (fun (acc : list (list string)) (e : node) =>
                  let v := [node_value e] in
                  if strs_in v acc then acc else acc ++ [v]) (elems_of n) acc
         | None => acc
         end) (src_order srcs) [].

  (* ---- elementValueList: per source, the index of the element matching (keys, values) ---- *)
  Definition elem_index (ks vs : list string) (s : option node) : option nat :=
    match s with
    | Some (Seq es) => element_find ks vs es
    | _ => None
    end.
  Definition elem_at (s : option node) (i : option nat) : option node :=
    match s, i with
    | Some (Seq es), Some i => nth_error es i
    | _, _ => None
    end.

  (* ---- appendListNode(dst, src, keys) on the Content lists ---- *)
  Definition get_field_rnode (key : string) (e : node) : res (option node) :=   (* tmpNode.Pipe(Get(key)) *)
    if is_null e then Ok None
    else match e with
         | Map kvs => Ok (find_field key kvs)
         | _ => Err
         end.

  Definition append_list_node (dst src : list node) (ks : list string) : res (list node) :=
    fold_left
      (fun (acc : res (list node)) (e : node) =>
         do dst <- acc;
         match ks with
         | [] => Panic                                   (* keys[0] on an empty slice *)
         | k0 :: _ =>
             if String.eqb k0 "" then element_set (Some e) [""] [node_value e] dst
             else
               do st <- fold_left
                          (fun (acc : res (list node * list string)) (key : string) =>
                             do st <- acc;
                             do vn <- get_field_rnode key e;
                             match vn with
                             | None => Ok (fst st ++ [e], snd st)          (* Append(elem); continue *)
                             | Some x => Ok (fst st, snd st ++ [node_value x])
                             end) ks (Ok (dst, []));
               do dst1 <- (if Nat.ltb 1 (List.length ks) then element_set None ks (snd st) (fst st)
                           else Ok (fst st));
               element_set (Some e) ks (snd st) dst1
         end) src (Ok dst).

  (* ---- setAssociativeSequenceElements ---- *)
  Definition is_dead (r : option wres) : bool :=          (* IsMissingOrNull(val) || IsEmptyMap(val) *)
    match r with
    | None => true
    | Some w => is_null (w_node w) || is_empty_map (w_node w)
    end.

  (* "make sure the key is set on the field" *)
  Definition ensure_keys (vk vv : list string) (val : node) : res node :=
    fold_left
      (fun (acc : res node) (kv : string * string) =>
         do val <- acc;
         if negb (has_field (fst kv) val) && negb (String.eqb (snd kv) "") then
           if String.eqb (fst kv) "" then set_scalar (Some (Scalar TNone SPlain (snd kv))) val
           else set_field nonstr (fst kv) (Some (Scalar TNone SPlain (snd kv))) false val
         else Ok val) (combine vk vv) (Ok val).

  (* delete the element from dest: once per valid key *)
  Definition delete_elem (vk vv : list string) (des : list node) : res (list node) :=
    fold_left (fun (acc : res (list node)) (_ : string) =>
                 do l <- acc; element_set None vk vv l) vk (Ok des).

  (* state of the loop over valuesList: dest elements, itemsToBeAdded, the last validKeys *)
  Definition astate := (list node * list node * list string)%type.

  Definition assoc_step (rec : rec_t) (esc : option Sc) (alias : option nat) (srcs : list (option node))
             (vl : list (list string)) (ks : list string) (st : astate) (values : list string) : res astate :=
    let '(des, items, vk_last) := st in
    match values with
    | [] => Ok st
    | _ =>
        let (vk, vv) := validate_keys vl values ks in
        (* elementValueList validates once more against this tuple alone *)
        let (ek, ev) := validate_keys [vv] vv vk in
        let cur := cur_srcs alias (Seq des) srcs in
        let idxs := map (elem_index ek ev) cur in
        let fv := map (fun si => elem_at (fst si) (snd si)) (combine cur idxs) in
        do r <- rec esc alias fv;
        if is_dead r then
          (* the element is removed with the keys validated against its own tuple, as it was looked up *)
          do des' <- delete_elem ek ev des;
          Ok (des', items, vk)
        else
          match r with
          | None => Ok st (* unreachable: dead *)
          | Some w =>
              do val <- ensure_keys vk vv (w_node w);
              let des' := if w_inplace w then
                            match hd None idxs with
                            | Some i => replace_nth i val des
                            | None => des
                            end
                          else des in
              do items' <- element_set (Some val) vk vv items;
              Ok (des', items', vk)
          end
    end.

  Definition assoc_loop (rec : rec_t) (esc : option Sc) (alias : option nat) (srcs : list (option node))
             (vl : list (list string)) (ks : list string) (todo : list (list string)) (st : astate) : res astate :=
    fold_left (fun (acc : res astate) (values : list string) =>
                 do st <- acc; assoc_step rec esc alias srcs vl ks st values) todo (Ok st).

  Definition set_assoc (rec : rec_t) (sc : option Sc) (alias : option nat)
             (srcs : list (option node)) (values_list : list (list string)) (ks : list string)
             (d : node) (inpl : bool) (keep : bool) : res (option wres) :=
    match d with
    | Seq des0 =>
        let esc := match sc with Some s => sc_elems sch s | None => None end in
        let vl := if Nat.ltb 1 (List.length ks) then merge_values values_list else values_list in
        do st <- assoc_loop rec esc alias srcs vl ks vl (des0, [], []);
        let '(des, items, vk_last) := st in
        do out <- match vl with
                  | [] => Ok (des, inpl)
                  | _ => if o_prepend opts then
                           do l <- append_list_node items des vk_last; Ok (l, false)
                         else
                           do l <- append_list_node des items vk_last; Ok (l, inpl)
                  end;
        Ok (Some (mkW (Seq (fst out)) keep (snd out)))
    | _ => if is_null d then Ok None else Err
    end.

  (* ---- walkAssociativeSequence ---- *)
  Definition walk_aseq (rec : rec_t) (sc : option Sc) (alias : option nat) (srcs : list (option node))
    : res (option wres) :=
    do vr <- v_list vis true srcs;
    let srcs1 := sync_from_alias alias (fst vr) in
    match resolve alias srcs1 (snd vr) with
    | None => Ok None
    | Some (d0, keep, inpl, alias') =>
        let cur := cur_srcs alias' d0 srcs1 in
        let sk := match sc with Some s => sc_pskl sch s | None => ("", []) end in
        do ks <- (if String.eqb (fst sk) "" && match snd sk with [] => true | _ => false end then
                    do k <- element_key cur; Ok [k]
                  else Ok (snd sk));
        let values := element_values ks cur in
        match values, ks with
        | [], [] => set_assoc rec sc alias' cur (element_primitive_values cur) [""] d0 inpl keep
        | _, _ => set_assoc rec sc alias' cur values ks d0 inpl keep
        end
    end.

  (* ---- Walker.Walk ---- *)
  Fixpoint walk (fuel : nat) (sc : option Sc) (alias : option nat) (srcs : list (option node))
    : res (option wres) :=
    match fuel with
    | O => Diverge
    | S f =>
        let sc := get_schema sc srcs in
        match first_kind srcs with
        | None => walk_map (walk f) sc alias srcs
        | Some KMap =>
            if all_valid KMap srcs then walk_map (walk f) sc alias srcs else Err
        | Some KSeq =>
            if all_valid KSeq srcs then
              if is_associative sc srcs then walk_aseq (walk f) sc alias srcs
              else do vr <- v_list vis false srcs;
                   Ok (finish alias (sync_from_alias alias (fst vr)) (snd vr))
            else Err
        | Some KScalar =>
            if all_valid KScalar srcs then
              do r <- v_scalar vis srcs; Ok (finish alias srcs r)
            else Err
        end
    end.

  (* Walker{Sources: srcs}.Walk() at the canonical fuel *)
  Definition walk_top (srcs : list (option node)) : res (option node) :=
    do r <- walk (fuel_of srcs) None None srcs;
    Ok (option_map w_node r).
End Walker.
