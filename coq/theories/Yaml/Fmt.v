(* Model of the canonical formatter:
     kyaml/kio/filters/fmtr.go   FormatFilter.Filter, getFormattingStrategy, formatter.fmtNode,
                                 sortedMapContents, sortedSeqContents
     kyaml/yaml/order.go         FieldOrder (from Gen.FieldOrder), whitelists (from Gen.FmtWhitelist)
     kyaml/yaml/compatibility.go FormatNonStringStyle
     kyaml/kio/byteio_writer.go  the annotation clean-up ByteWriter.Write performs before encoding
   Definitions only; proofs are in Yaml/FmtProofs.v.

   Go mutates *yaml.Node trees in place and only ever (a) permutes the Content slice of a mapping
   (pairwise) or of a sequence, (b) rewrites Style and Tag of a scalar.  The model therefore works on
   [cnode], a yaml.Node with everything the encoder looks at: comments, anchor, tag, style, value.
   Positions (Line/Column) are dropped.  A mapping is a list of (key node, value node) pairs in
   Content order; an odd-length mapping Content cannot come out of the parser and is not modelled.

   External behaviour enters as parameters:
     nonstr : yaml.IsValueNonString (go-yaml v2 resolution of a plain scalar)
     srt    : sort.Sort for a given Less   (hypothesis (S1) in the proofs; [isort] is the concrete
              stable insertion sort Go itself uses for n <= 12)
     sch    : the OpenAPI schema, as the finite tree of answers ResourceSchema.Field / .Elements give
              along the document (built per case by the harness from the real schema). *)
From KV Require Export Base.Prelude.
From KV Require Export Gen.FieldOrder Gen.FmtWhitelist.

(* ---------- nodes with comments ---------- *)

Record hdr := mkHdr {
  h_head : string;      (* HeadComment *)
  h_line : string;      (* LineComment *)
  h_foot : string;      (* FootComment *)
  h_anchor : string;    (* Anchor *)
  h_tag : string;       (* Tag, as stored on the node ("!!str", "!!int", "", "!custom" ...) *)
  h_style : N           (* Style bit mask: Tagged=1 Double=2 Single=4 Literal=8 Folded=16 Flow=32 *)
}.

Inductive cnode : Type :=
| CScalar (h : hdr) (v : string)
| CMap (h : hdr) (kvs : list (cnode * cnode))
| CSeq (h : hdr) (es : list cnode)
| CAlias (h : hdr) (v : string).          (* AliasNode: Value = name of the anchor, no Content *)

Definition chdr (n : cnode) : hdr :=
  match n with CScalar h _ | CMap h _ | CSeq h _ | CAlias h _ => h end.

(* yaml.Node.Value *)
Definition cvalue (n : cnode) : string :=
  match n with CScalar _ v | CAlias _ v => v | _ => "" end.

(* yaml.Node.Content, flattened the way go-yaml stores it *)
Definition content (n : cnode) : list cnode :=
  match n with
  | CMap _ kvs => flat_map (fun kv => [fst kv; snd kv]) kvs
  | CSeq _ es => es
  | _ => []
  end.

Definition set_style (h : hdr) (s : N) : hdr :=
  mkHdr (h_head h) (h_line h) (h_foot h) (h_anchor h) (h_tag h) s.
Definition set_tag (h : hdr) (t : string) : hdr :=
  mkHdr (h_head h) (h_line h) (h_foot h) (h_anchor h) t (h_style h).

Fixpoint assoc_str {A} (k : string) (l : list (string * A)) : option A :=
  match l with
  | [] => None
  | (k', x) :: t => if String.eqb k k' then Some x else assoc_str k t
  end.

(* ---------- yaml.FieldOrder: fo[f] = i + 1 in a range loop, so the LAST index wins ---------- *)

Fixpoint rank_from (i : N) (l : list string) (name : string) (acc : option N) : option N :=
  match l with
  | [] => acc
  | x :: t => rank_from (i + 1)%N t name (if String.eqb x name then Some (i + 1)%N else acc)
  end.

Definition rank_in (l : list string) (name : string) : option N := rank_from 0%N l name None.

Definition field_order (name : string) : option N := rank_in field_sort_order name.

(* sortedMapContents.Less on the two field names *)
Definition less_rank (ri rj : option N) (a b : string) : bool :=
  match ri, rj with
  | Some i, Some j => (i <? j)%N
  | Some _, None => true
  | None, Some _ => false
  | None, None => String.ltb a b
  end.

Definition less_key (a b : string) : bool := less_rank (field_order a) (field_order b) a b.

(* ---------- sorting ---------- *)

(* sort.Sort(x) seen as a function of the Less relation and the sequence *)
Definition sorter := forall A : Type, (A -> A -> bool) -> list A -> list A.

(* stable insertion sort (what sort.Sort runs for at most 12 elements) *)
Fixpoint insert_sorted {A} (lt : A -> A -> bool) (x : A) (l : list A) : list A :=
  match l with
  | [] => [x]
  | y :: t => if lt y x then y :: insert_sorted lt x t else x :: y :: t
  end.

Fixpoint isort_list {A} (lt : A -> A -> bool) (l : list A) : list A :=
  match l with
  | [] => []
  | x :: t => insert_sorted lt x (isort_list lt t)
  end.

Definition isort : sorter := fun A lt l => isort_list lt l.

Definition lt_fst {B} (lt : string -> string -> bool) (a b : string * B) : bool := lt (fst a) (fst b).

(* ---------- OpenAPI schema as seen along the document ---------- *)

Inductive sch : Type :=
| SNil                                                     (* nil *ResourceSchema *)
| SSch (types : list string) (format : string)             (* Schema.Type, Schema.Format *)
       (fields : list (string * sch))                      (* answers of Field(name); absent = nil *)
       (elems : sch).                                      (* answer of Elements() *)

Definition sch_field (s : sch) (name : string) : sch :=
  match s with
  | SNil => SNil
  | SSch _ _ fs _ => match assoc_str name fs with Some x => x | None => SNil end
  end.

Definition sch_elems (s : sch) : sch :=
  match s with SNil => SNil | SSch _ _ _ e => e end.

(* go-yaml Style bits *)
Definition style_double : N := 2.
Definition style_single : N := 4.

Definition style_quoted (s : N) : bool :=
  negb (N.land s style_double =? 0)%N || negb (N.land s style_single =? 0)%N.

Section Fmt.
  Variable nonstr : string -> bool.
  (* the value, read as an unquoted YAML 1.1 scalar, is of the OpenAPI type t (compatibility.go valueHasType) *)
  Variable hastype : string -> string -> bool.

  (* yaml.FormatNonStringStyle(node, schema) on a scalar node *)
  Definition fmt_nonstring_tail (t : string) (h : hdr) : hdr :=
    if String.eqb (h_tag h) node_tag_null then set_style h 0%N
    else match assoc_str t type_to_tag with
         | Some tg => set_tag h tg
         | None => h
         end.

  Definition fmt_nonstring (types : list string) (format : string) (h : hdr) (v : string) : hdr :=
    match types with
    | [t] =>
        if negb (nonstr v) then h
        else if String.eqb t "string" && negb (String.eqb format "int-or-string") then
               fmt_nonstring_tail t (if style_quoted (h_style h) then h else set_style h style_double)
        else if String.eqb t "boolean" || String.eqb t "integer" || String.eqb t "number" then
               (* a value that is not of the schema's type is left exactly as written *)
               if negb (hastype v t) then h
               else fmt_nonstring_tail t (if style_quoted (h_style h) then set_style h 0%N else h)
        else h
    | _ => h
    end.

  Definition fmt_scalar (s : sch) (h : hdr) (v : string) : hdr :=
    match s with
    | SNil => h
    | SSch types format _ _ => fmt_nonstring types format h v
    end.

  (* sortedSeqContents.Less reads, for each of the two elements, the Value of the node following the
     LAST even-indexed Content entry whose Value is the sort field AND that has a successor
     (`Content[a].Value == sortField && a+1 < len(Content)`, /repo commit d64b8e2; before that commit
     the last entry of an odd-length Content — only a sequence can have one — was indexed out of
     range and the formatter panicked).  The result type stays [res] for uniformity with the other
     model functions; the function never fails (FmtProofs.scan_field_total). *)
  Fixpoint scan_field (f : string) (l : list cnode) (acc : string) : res string :=
    match l with
    | [] => Ok acc
    | k :: rest =>
        match rest with
        | [] => Ok acc
        | v :: rest' => scan_field f rest' (if String.eqb (cvalue k) f then cvalue v else acc)
        end
    end.

  (* the sort key of an element: its Value in a primitive list; in a keyed list the value of its
     sort field when the element is a mapping, "" for any other element (a scalar, an alias, a nested
     sequence: `if s.Content[i].Kind != yaml.MappingNode { break }`) *)
  Definition seq_key (f : string) (e : cnode) : res string :=
    if String.eqb f "" then Ok (cvalue e)
    else match e with
         | CMap _ _ => scan_field f (content e) ""
         | _ => Ok ""
         end.

  (* every element takes part in at least one Less call as soon as there are two of them *)
  Definition seq_keys (f : string) (es : list cnode) : res (list string) :=
    if (2 <=? List.length es)%nat then mapM (seq_key f) es
    else Ok (map (fun _ => "") es).

  Section WithSort.
    Variable srt : sorter.
    Variables kind api : string.       (* formatter.kind, formatter.apiVersion *)

    Definition wl_on : bool := str_in kind wl_kinds && str_in api wl_apis.

    (* the sort field when the sequence at [path] is to be sorted *)
    Definition sort_field (path : string) : option string :=
      if wl_on then assoc_str path wl_fields else None.

    (* formatter.fmtNode(n, path, schema) with f.process == nil.
       Go sorts a node's Content first and recurses afterwards; the sort only reads keys that the
       recursion does not change for a mapping, and for a sequence the keys are taken here from the
       elements BEFORE they are formatted, exactly as Go does.  Since d64b8e2 no branch returns
       anything but [Ok] (FmtProofs.fmt_no_panic). *)
    Fixpoint fmt_node (s : sch) (path : string) (n : cnode) {struct n} : res cnode :=
      match n with
      | CScalar h v => Ok (CScalar (fmt_scalar s h v) v)
      | CAlias _ _ => Ok n
      | CMap h kvs =>
          do d <- (fix go (l : list (cnode * cnode)) : res (list (string * (cnode * cnode))) :=
                     match l with
                     | [] => Ok []
                     | kv :: t =>
                         do k' <- fmt_node SNil path (fst kv);
                         do v' <- fmt_node (sch_field s (cvalue (fst kv)))
                                           (path ++ "." ++ cvalue (fst kv)) (snd kv);
                         do t' <- go t;
                         Ok ((cvalue (fst kv), (k', v')) :: t')
                     end) kvs;
          Ok (CMap h (map snd (srt _ (lt_fst less_key) d)))
      | CSeq h es =>
          do es' <- (fix go (l : list cnode) : res (list cnode) :=
                       match l with
                       | [] => Ok []
                       | e :: t =>
                           do e' <- fmt_node (sch_elems s) path e;
                           do t' <- go t;
                           Ok (e' :: t')
                       end) es;
          match sort_field path with
          | None => Ok (CSeq h es')
          | Some f =>
              do ks <- seq_keys f es;
              Ok (CSeq h (map snd (srt _ (lt_fst String.ltb) (combine ks es'))))
          end
      end.

    (* the same recursion over lists, as top-level functions (used by the proofs) *)
    Fixpoint fmt_pairs (s : sch) (path : string) (l : list (cnode * cnode))
      : res (list (string * (cnode * cnode))) :=
      match l with
      | [] => Ok []
      | kv :: t =>
          do k' <- fmt_node SNil path (fst kv);
          do v' <- fmt_node (sch_field s (cvalue (fst kv))) (path ++ "." ++ cvalue (fst kv)) (snd kv);
          do t' <- fmt_pairs s path t;
          Ok ((cvalue (fst kv), (k', v')) :: t')
      end.

    Fixpoint fmt_elems (s : sch) (path : string) (l : list cnode) : res (list cnode) :=
      match l with
      | [] => Ok []
      | e :: t =>
          do e' <- fmt_node s path e;
          do t' <- fmt_elems s path t;
          Ok (e' :: t')
      end.
  End WithSort.

  (* ---------- FormatFilter.Filter on one document ---------- *)

  Definition is_null_tag (n : cnode) : bool := String.eqb (h_tag (chdr n)) node_tag_null.

  Fixpoint find_pair (name : string) (kvs : list (cnode * cnode)) : option cnode :=
    match kvs with
    | [] => None
    | kv :: t => if String.eqb (cvalue (fst kv)) name then Some (snd kv) else find_pair name t
    end.

  (* rn.Pipe(yaml.Get(name)) : FieldMatcher{Name: name} *)
  Definition get_field (name : string) (n : cnode) : res (option cnode) :=
    if is_null_tag n then Ok None
    else match n with
         | CMap _ kvs => Ok (find_pair name kvs)
         | _ => Err
         end.

  (* rn.Pipe(yaml.Lookup(p1, p2, ...)) for plain field names *)
  Fixpoint lookup_fields (ps : list string) (n : cnode) : res (option cnode) :=
    match ps with
    | [] => Ok (Some n)
    | p :: ps' =>
        do r <- get_field p n;
        match r with
        | None => Ok None
        | Some x => lookup_fields ps' x
        end
    end.

  Inductive strategy := StStandard | StNone.

  Definition get_strategy (n : cnode) : res strategy :=
    do r <- lookup_fields ["metadata"; "annotations"; fmt_annotation] n;
    match r with
    | None => Ok StStandard
    | Some v =>
        if String.eqb (cvalue v) fmt_strategy_standard then Ok StStandard
        else if String.eqb (cvalue v) fmt_strategy_none then Ok StNone
        else Err
    end.

  (* one iteration of the loop in FormatFilter.Filter; [s] is what SchemaForResourceType returned
     (SNil when UseSchema is false or the type is unknown) *)
  Definition filter_doc (srt : sorter) (s : sch) (n : cnode) : res cnode :=
    do st <- get_strategy n;
    match st with
    | StNone => Ok n
    | StStandard =>
        do k <- get_field "kind" n;
        match k with
        | None => Ok n
        | Some kn =>
            do a <- get_field "apiVersion" n;
            match a with
            | None => Ok n
            | Some an => fmt_node srt (cvalue kn) (cvalue an) s "" n
            end
        end
    end.

  Definition filter_stream (srt : sorter) (docs : list (cnode * sch)) : res (list cnode) :=
    mapM (fun d => filter_doc srt (snd d) (fst d)) docs.
End Fmt.

(* ---------- ByteWriter.Write: annotation clean-up before encoding ---------- *)

Definition content_empty (n : cnode) : bool :=
  match n with CMap _ (_ :: _) | CSeq _ (_ :: _) => false | _ => true end.

(* FieldClearer{Name, IfEmpty} on the Content of a mapping *)
Fixpoint clear_pair (name : string) (if_empty : bool) (kvs : list (cnode * cnode))
  : list (cnode * cnode) :=
  match kvs with
  | [] => []
  | kv :: t =>
      if String.eqb (cvalue (fst kv)) name && (negb if_empty || content_empty (snd kv))
      then t else kv :: clear_pair name if_empty t
  end.

Definition field_clear (name : string) (if_empty : bool) (n : cnode) : res cnode :=
  if is_null_tag n then Ok n
  else match n with
       | CMap h kvs => Ok (CMap h (clear_pair name if_empty kvs))
       | _ => Err
       end.

(* rn.Pipe(Get(name), f) where f mutates the node it is given *)
Fixpoint upd_pair (name : string) (f : cnode -> res cnode) (kvs : list (cnode * cnode))
  : res (list (cnode * cnode)) :=
  match kvs with
  | [] => Ok []
  | kv :: t =>
      if String.eqb (cvalue (fst kv)) name then do v' <- f (snd kv); Ok ((fst kv, v') :: t)
      else do t' <- upd_pair name f t; Ok (kv :: t')
  end.

Definition with_field (name : string) (f : cnode -> res cnode) (n : cnode) : res cnode :=
  if is_null_tag n then Ok n
  else match n with
       | CMap h kvs => do kvs' <- upd_pair name f kvs; Ok (CMap h kvs')
       | _ => Err
       end.

(* yaml.ClearAnnotation(key) *)
Definition clear_annotation (key : string) (n : cnode) : res cnode :=
  with_field "metadata" (with_field "annotations" (field_clear key false)) n.

(* yaml.ClearEmptyAnnotations *)
Definition clear_empty_annotations (n : cnode) : res cnode :=
  do n1 <- with_field "metadata" (field_clear "annotations" true) n;
  field_clear "metadata" true n1.

Fixpoint clear_annotations (keys : list string) (n : cnode) : res cnode :=
  match keys with
  | [] => Ok n
  | k :: t => do n' <- clear_annotation k n; clear_annotations t n'
  end.

Definition writer_clean (n : cnode) : res cnode :=
  do n1 <- clear_annotations reader_annotations n;
  clear_empty_annotations n1.

(* ---------- observables ---------- *)

Definition hdr_comments (h : hdr) : list string := [h_head h; h_line h; h_foot h].

(* every comment string of the tree (empty strings included: the count is fixed per node) *)
Fixpoint comments (n : cnode) : list string :=
  match n with
  | CScalar h _ | CAlias h _ => hdr_comments h
  | CMap h kvs =>
      (hdr_comments h ++ flat_map (fun kv => (comments (fst kv) ++ comments (snd kv))%list) kvs)%list
  | CSeq h es => (hdr_comments h ++ flat_map comments es)%list
  end.

Definition hdr_eqb (a b : hdr) : bool :=
  String.eqb (h_head a) (h_head b) && String.eqb (h_line a) (h_line b) &&
  String.eqb (h_foot a) (h_foot b) && String.eqb (h_anchor a) (h_anchor b) &&
  String.eqb (h_tag a) (h_tag b) && (h_style a =? h_style b)%N.

Fixpoint cnode_eqb (a b : cnode) {struct a} : bool :=
  match a, b with
  | CScalar h v, CScalar h' v' => hdr_eqb h h' && String.eqb v v'
  | CAlias h v, CAlias h' v' => hdr_eqb h h' && String.eqb v v'
  | CMap h kvs, CMap h' kvs' =>
      hdr_eqb h h' &&
      (fix go (l l' : list (cnode * cnode)) : bool :=
         match l, l' with
         | [], [] => true
         | kv :: t, kv' :: t' =>
             cnode_eqb (fst kv) (fst kv') && cnode_eqb (snd kv) (snd kv') && go t t'
         | _, _ => false
         end) kvs kvs'
  | CSeq h es, CSeq h' es' =>
      hdr_eqb h h' &&
      (fix go (l l' : list cnode) : bool :=
         match l, l' with
         | [], [] => true
         | x :: t, x' :: t' => cnode_eqb x x' && go t t'
         | _, _ => false
         end) es es'
  | _, _ => false
  end.

(* ---------- predicates used as hypotheses of the theorems (and as domain tests) ---------- *)

Fixpoint nodup_strs (l : list string) : bool :=
  match l with
  | [] => true
  | x :: t => negb (str_in x t) && nodup_strs t
  end.

Definition key_values (kvs : list (cnode * cnode)) : list string := map (fun kv => cvalue (fst kv)) kvs.

(* every mapping has pairwise distinct keys (what YAML requires of a mapping) *)
Fixpoint wf_keys (n : cnode) : bool :=
  match n with
  | CScalar _ _ | CAlias _ _ => true
  | CMap _ kvs =>
      nodup_strs (key_values kvs) &&
      (fix go (l : list (cnode * cnode)) : bool :=
         match l with
         | [] => true
         | kv :: t => wf_keys (fst kv) && wf_keys (snd kv) && go t
         end) kvs
  | CSeq _ es =>
      (fix go (l : list cnode) : bool :=
         match l with
         | [] => true
         | e :: t => wf_keys e && go t
         end) es
  end.

(* all sort keys are pairwise distinct: the keys of every mapping, and the sort keys of the elements
   of every whitelisted list — then the comparison is total on the data and the result of sorting
   does not depend on the algorithm *)
Fixpoint distinct_sortkeys (kind api : string) (path : string) (n : cnode) {struct n} : bool :=
  match n with
  | CScalar _ _ | CAlias _ _ => true
  | CMap _ kvs =>
      nodup_strs (key_values kvs) &&
      (fix go (l : list (cnode * cnode)) : bool :=
         match l with
         | [] => true
         | kv :: t =>
             distinct_sortkeys kind api path (fst kv) &&
             distinct_sortkeys kind api (path ++ "." ++ cvalue (fst kv)) (snd kv) && go t
         end) kvs
  | CSeq _ es =>
      match sort_field kind api path with
      | Some f => match seq_keys f es with Ok K => nodup_strs K | _ => true end
      | None => true
      end &&
      (fix go (l : list cnode) : bool :=
         match l with
         | [] => true
         | e :: t => distinct_sortkeys kind api path e && go t
         end) es
  end.

(* every alias comes, in document order, after the node that defines its anchor (what a YAML
   parser requires); [anchors_scan n seen] = the anchors defined once n has been read, None when an
   alias refers to an anchor not yet seen *)
Fixpoint anchors_scan (n : cnode) (seen : list string) {struct n} : option (list string) :=
  let seen' := if String.eqb (h_anchor (chdr n)) "" then seen else h_anchor (chdr n) :: seen in
  match n with
  | CScalar _ _ => Some seen'
  | CAlias _ v => if str_in v seen then Some seen else None
  | CMap _ kvs =>
      (fix go (l : list (cnode * cnode)) (sn : list string) : option (list string) :=
         match l with
         | [] => Some sn
         | kv :: t =>
             match anchors_scan (fst kv) sn with
             | None => None
             | Some s1 => match anchors_scan (snd kv) s1 with
                          | None => None
                          | Some s2 => go t s2
                          end
             end
         end) kvs seen'
  | CSeq _ es =>
      (fix go (l : list cnode) (sn : list string) : option (list string) :=
         match l with
         | [] => Some sn
         | e :: t => match anchors_scan e sn with
                     | None => None
                     | Some s1 => go t s1
                     end
         end) es seen'
  end.

(* the alias-free fragment: no AliasNode anywhere (anchors may be present) *)
Fixpoint alias_free (n : cnode) : bool :=
  match n with
  | CScalar _ _ => true
  | CAlias _ _ => false
  | CMap _ kvs =>
      (fix go (l : list (cnode * cnode)) : bool :=
         match l with
         | [] => true
         | kv :: t => alias_free (fst kv) && alias_free (snd kv) && go t
         end) kvs
  | CSeq _ es =>
      (fix go (l : list cnode) : bool :=
         match l with
         | [] => true
         | e :: t => alias_free e && go t
         end) es
  end.

Definition anchors_ok (n : cnode) : bool :=
  match anchors_scan n [] with Some _ => true | None => false end.

(* ---------- canonical order (what a formatted document looks like) ---------- *)

(* no later entry is smaller than an earlier one *)
Fixpoint sortedb {A} (lt : A -> A -> bool) (l : list A) : bool :=
  match l with
  | [] => true
  | x :: t => forallb (fun y => negb (lt y x)) t && sortedb lt t
  end.

(* every mapping is in field order (sortedMapContents.Less) and every whitelisted list is ordered by
   the sort keys of its elements (sortedSeqContents.Less) *)
Fixpoint canon_sorted (kind api : string) (path : string) (n : cnode) {struct n} : bool :=
  match n with
  | CScalar _ _ | CAlias _ _ => true
  | CMap _ kvs =>
      sortedb less_key (key_values kvs) &&
      (fix go (l : list (cnode * cnode)) : bool :=
         match l with
         | [] => true
         | kv :: t =>
             canon_sorted kind api path (fst kv) &&
             canon_sorted kind api (path ++ "." ++ cvalue (fst kv)) (snd kv) && go t
         end) kvs
  | CSeq _ es =>
      match sort_field kind api path with
      | Some f => match mapM (seq_key f) es with Ok K => sortedb String.ltb K | _ => false end
      | None => true
      end &&
      (fix go (l : list cnode) : bool :=
         match l with
         | [] => true
         | e :: t => canon_sorted kind api path e && go t
         end) es
  end.

(* ---------- induction principle for the nested inductive ---------- *)
Section CnodeInd.
  Variable P : cnode -> Prop.
  Hypothesis Hs : forall h v, P (CScalar h v).
  Hypothesis Ha : forall h v, P (CAlias h v).
  Hypothesis Hm : forall h kvs, Forall (fun kv => P (fst kv) /\ P (snd kv)) kvs -> P (CMap h kvs).
  Hypothesis Hq : forall h es, Forall P es -> P (CSeq h es).

  Fixpoint cnode_ind' (n : cnode) : P n :=
    match n with
    | CScalar h v => Hs h v
    | CAlias h v => Ha h v
    | CMap h kvs =>
        Hm h kvs ((fix go (l : list (cnode * cnode)) : Forall (fun kv => P (fst kv) /\ P (snd kv)) l :=
                     match l with
                     | [] => Forall_nil _
                     | kv :: t => Forall_cons kv (conj (cnode_ind' (fst kv)) (cnode_ind' (snd kv))) (go t)
                     end) kvs)
    | CSeq h es =>
        Hq h es ((fix go (l : list cnode) : Forall P l :=
                    match l with
                    | [] => Forall_nil _
                    | e :: t => Forall_cons e (cnode_ind' e) (go t)
                    end) es)
    end.
End CnodeInd.
