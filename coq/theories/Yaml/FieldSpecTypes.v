(* types.FieldSpec: the record the generated tables (Gen/FieldSpecs.v) are made of *)
From KV Require Export Base.Prelude.

Record fieldspec := mkFs {
  fs_group : string;
  fs_version : string;
  fs_kind : string;
  fs_path : string;
  fs_create : bool
}.
