(* PathMatcher WITH Create only adds: whatever the document held at an address that is not
   comparable with (at, above or below) an address the matcher returns is still there afterwards. *)
From KV Require Import Base.Regex Yaml.Match Yaml.MatchProofs Yaml.MatchCreateProofs.

Ltac inv H := inversion H; subst; clear H.

(* two addresses are comparable when one is a prefix of the other *)
Fixpoint comparable (a h : addr) : bool :=
  match a, h with
  | [], _ | _, [] => true
  | i :: a', j :: h' => Nat.eqb i j && comparable a' h'
  end.

Definition no_empty (path : list string) : bool := forallb (fun p => negb (String.eqb p "")) path.

Definition has_at (hits : list hit) : Prop := exists a, In (HAt a) hits.
Definition no_at (hits : list hit) : Prop := forall a, ~ In (HAt a) hits.

Lemma in_map_push i a hits : In (HAt a) hits -> In (HAt (i :: a)) (map (push i) hits).
Proof. intros H. apply in_map_iff. exists (HAt a). auto. Qed.

Lemma in_map_push_inv i b hits : In (HAt b) (map (push i) hits) -> exists a, b = i :: a /\ In (HAt a) hits.
Proof.
  intros H. apply in_map_iff in H. destruct H as ([a|x] & E & Hin); cbn in E; inv E. eauto.
Qed.

Lemma no_at_push i hits : no_at (map (push i) hits) -> no_at hits.
Proof. intros H a Hin. apply (H (i :: a)). apply in_map_push; auto. Qed.

Lemma has_at_push i hits : has_at hits -> has_at (map (push i) hits).
Proof. intros (a & H). exists (i :: a). apply in_map_push; auto. Qed.

Lemma no_at_detach d hits : no_at (detach d hits).
Proof.
  intros a H. unfold detach in H. apply in_map_iff in H. destruct H as ([b|x] & E & _); discriminate.
Qed.

Lemma no_at_app h1 h2 : no_at (h1 ++ h2) -> no_at h1 /\ no_at h2.
Proof. intros H; split; intros a Hin; apply (H a); apply in_or_app; auto. Qed.

(* ---------- visit_elems ---------- *)
Lemma visit_elems_idx f : forall es i es' hs,
  visit_elems f i es = Ok (es', hs) ->
  forall b, In (HAt b) hs -> exists j a, b = (i + j) :: a /\ j < List.length es.
Proof.
  induction es as [|e t IH]; intros i es' hs H b Hb; cbn in H.
  - inv H. destruct Hb.
  - destruct (f e) as [[e1 h1]| | |] eqn:Fe; cbn in H; try discriminate.
    destruct (visit_elems f (S i) t) as [[t1 h2]| | |] eqn:V; cbn in H; inv H.
    apply in_app_or in Hb. destruct Hb as [Hb|Hb].
    + apply in_map_push_inv in Hb. destruct Hb as (a & -> & _). exists 0, a. rewrite Nat.add_0_r. cbn. split; auto; lia.
    + destruct (IH _ _ _ V b Hb) as (j & a & -> & Hj). exists (S j), a. cbn. split; [f_equal; lia|lia].
Qed.

Lemma visit_elems_inv f : forall es i es' hs,
  visit_elems f i es = Ok (es', hs) ->
  List.length es' = List.length es /\
  forall j e, nth_error es j = Some e ->
    exists e' h, f e = Ok (e', h) /\ nth_error es' j = Some e' /\
                 (forall b, In (HAt b) h -> In (HAt ((i + j) :: b)) hs) /\
                 (forall b, In (HAt ((i + j) :: b)) hs -> In (HAt b) h).
Proof.
  induction es as [|e t IH]; intros i es' hs H; cbn in H.
  - inv H. split; auto. intros [|j] e Hn; discriminate.
  - destruct (f e) as [[e1 h1]| | |] eqn:Fe; cbn in H; try discriminate.
    destruct (visit_elems f (S i) t) as [[t1 h2]| | |] eqn:V; cbn in H; inv H.
    destruct (IH _ _ _ V) as [L N]. split; [cbn; congruence|].
    intros [|j] e0 Hn; cbn in Hn.
    + inv Hn. exists e1, h1. rewrite Nat.add_0_r. repeat split; auto.
      * intros b Hb. apply in_or_app. left. apply in_map_push; auto.
      * intros b Hb. apply in_app_or in Hb. destruct Hb as [Hb|Hb].
        -- apply in_map_push_inv in Hb. destruct Hb as (a & E & Ha). inv E. auto.
        -- destruct (visit_elems_idx _ _ _ _ _ V _ Hb) as (j & a & E & _). inv E. lia.
    + destruct (N j e0 Hn) as (e' & h & Fe0 & Hn' & A & B).
      exists e', h. replace (i + S j) with (S i + j) by lia. repeat split; auto.
      * intros b Hb. apply in_or_app. right. auto.
      * intros b Hb. apply in_app_or in Hb. destruct Hb as [Hb|Hb]; auto.
        apply in_map_push_inv in Hb. destruct Hb as (a & E & _). inv E. lia.
Qed.

(* elements that keep their content when they return nothing of the document keep the list *)
Lemma visit_elems_same f : forall es i es' hs,
  (forall e e' h, In e es -> f e = Ok (e', h) -> no_at h -> e' = e) ->
  visit_elems f i es = Ok (es', hs) -> no_at hs -> es' = es.
Proof.
  induction es as [|e t IH]; intros i es' hs Hf H Hno; cbn in H.
  - inv H; auto.
  - destruct (f e) as [[e1 h1]| | |] eqn:Fe; cbn in H; try discriminate.
    destruct (visit_elems f (S i) t) as [[t1 h2]| | |] eqn:V; cbn in H; inv H.
    apply no_at_app in Hno. destruct Hno as [N1 N2]. f_equal.
    + eapply Hf; eauto. left; auto. eapply no_at_push; eauto.
    + eapply IH; eauto. intros; eapply Hf; eauto. right; auto.
Qed.

Lemma visit_elems_last_at f : forall l i x l' hs,
  visit_elems f i (l ++ [x]) = Ok (l', hs) ->
  (forall x' h, f x = Ok (x', h) -> has_at h) -> has_at hs.
Proof.
  induction l as [|a t IH]; intros i x l' hs H Hx; cbn in H.
  - destruct (f x) as [[x1 h1]| | |] eqn:Fx; cbn in H; inv H.
    destruct (Hx _ _ eq_refl) as (b & Hb). exists (i :: b). rewrite app_nil_r. apply in_map_push; auto.
  - destruct (f a) as [[a1 h1]| | |]; cbn in H; try discriminate.
    destruct (visit_elems f (S i) (t ++ [x])) as [[t1 h2]| | |] eqn:V; cbn in H; inv H.
    destruct (IH _ _ _ _ V Hx) as (b & Hb). exists b. apply in_or_app; auto.
Qed.

(* ---------- doSeq's retry ---------- *)
Lemma visit_elems_last_ok f : forall l i x l' hs,
  visit_elems f i (l ++ [x]) = Ok (l', hs) -> exists x' h, f x = Ok (x', h).
Proof.
  induction l as [|a t IH]; intros i x l' hs H; cbn in H.
  - destruct (f x) as [[x1 h1]| | |]; cbn in H; inv H. eauto.
  - destruct (f a) as [[a1 h1]| | |]; cbn in H; try discriminate.
    destruct (visit_elems f (S i) (t ++ [x])) as [[t1 h2]| | |] eqn:V; cbn in H; inv H. eauto.
Qed.

Lemma retry_after_append visit new_elem f l es' hits :
  (forall x h, visit new_elem = Ok (x, h) -> has_at h \/ (x = new_elem /\ h = [])) ->
  (visit new_elem = Ok (new_elem, []) -> forall e, In e l -> visit e = Ok (e, [])) ->
  retry_loop visit new_elem true true f (l ++ [new_elem]) = Ok (es', hits) -> has_at hits.
Proof.
  intros H1 H2 R. destruct f as [|f]; cbn in R; [discriminate|].
  destruct (visit_elems visit 0 (l ++ [new_elem])) as [[es1 h1]| | |] eqn:V; cbn in R; try discriminate.
  destruct (visit_elems_last_ok _ _ _ _ _ _ V) as (x & h & Fx).
  destruct (H1 _ _ Fx) as [Hat|[-> ->]].
  - assert (has_at h1).
    { eapply visit_elems_last_at; eauto. intros x' h' E. rewrite Fx in E. inv E. auto. }
    destruct h1 as [|h0 ht]; [destruct H as (b & [])|]. inv R. auto.
  - exfalso.
    rewrite visit_elems_nohit in V.
    + inv V. cbn in R. discriminate.
    + intros e He. apply in_app_or in He. destruct He as [He|[<-|[]]]; auto.
Qed.

Section Frame.
  Variable parse : string -> option re.
  Variable enc : node -> string.
  Variable nonstr : string -> bool.
  Variable k : kind.

  Notation pmc := (pm parse enc nonstr (Some k)).

  Lemma no_empty_cons p rest : no_empty (p :: rest) = true -> String.eqb p "" = false /\ no_empty rest = true.
  Proof. cbn. intros H. apply andb_prop in H. destruct H as [H1 H2]. apply negb_true_iff in H1. auto. Qed.

  Lemma classify_field_nonempty p name : String.eqb p "" = false -> classify_pm p = PPField name -> String.eqb name "" = false.
  Proof.
    unfold classify_pm. intros Hp H.
    destruct (atoi p) as [[neg m]|]; [destruct (neg && negb (m =? 0)%N); [|discriminate]|];
      destruct (is_list_index p); try discriminate; destruct (String.eqb p "*"); try discriminate; inv H; auto.
  Qed.

  (* what the appended element's visit can answer *)
  Definition visit_one (fuel : nat) (rest : list string) (fld v : string) (e : node) : res (node * list hit) :=
    do r <- elem_regex parse v;
    if String.eqb fld "" then (if matches r (enc e) then Ok (e, [HAt []]) else Ok (e, []))
    else match e with
         | Map kvs => match find_field fld kvs with
                      | Some x => if matches r (enc x) then pmc fuel rest e else Ok (e, [])
                      | None => Ok (e, [])
                      end
         | _ => Ok (e, [])
         end.

  (* started on created material, with no empty path part: some node OF THE DOCUMENT is returned *)
  Lemma create_has_at : forall fuel path n, ok_start path n -> no_empty path = true ->
    forall n' hits, pmc fuel path n = Ok (n', hits) -> has_at hits.
  Proof.
    intros fuel. induction path as [|p rest IH]; intros n St Ne n' hits H; cbn [pm] in H.
    - inv H. exists []. left; auto.
    - apply no_empty_cons in Ne. destruct Ne as [Np Ne].
      destruct (classify_pm p) as [i|raw| |name] eqn:Cp.
      + destruct St as [W|[-> _]].
        * destruct n as [t s v|kvs|es]; try (cbn in W; discriminate W).
          -- rewrite (wfree_not_null _ W) in H. discriminate.
          -- discriminate.
        * cbn [List.length] in H. destruct (Nat.eqb 0 i) eqn:E0; cbn [andb is_create] in H.
          -- destruct (pmc fuel rest _) as [[e' h]| | |] eqn:P; cbn in H; inv H.
             apply has_at_push. eapply IH; eauto. apply fresh_ok_start'.
          -- destruct i; [discriminate|]. cbn in H. discriminate.
      + destruct (split_index_name_value raw) as [[fld v]|]; [|discriminate].
        destruct St as [W|[-> _]].
        * destruct n as [t s v0|kvs|es]; try (cbn in W; discriminate W).
          -- rewrite (wfree_not_null _ W) in H. discriminate.
          -- discriminate.
        * change (retry_loop _ (pm_new_elem fld v) (is_create (Some k)) false fuel [])
            with (retry_loop (visit_one fuel rest fld v) (pm_new_elem fld v) true false fuel []) in H.
          destruct (retry_loop (visit_one fuel rest fld v) (pm_new_elem fld v) true false fuel []) as [[es1 h1]| | |] eqn:R;
            cbn in H; inv H.
          destruct fuel as [|f]; cbn in R; [discriminate|].
          eapply (retry_after_append _ _ f [] es1 hits); [| |exact R].
          -- intros x h Hx. unfold visit_one in Hx. rewrite elem_regex_text in Hx.
             destruct (parse v) as [r|]; cbn in Hx; [|discriminate].
             unfold pm_new_elem in *. destruct (String.eqb fld "") eqn:Ef.
             ++ destruct (matches r _); inv Hx; [left; exists []; left; auto|right; auto].
             ++ cbn [find_field] in Hx. rewrite String.eqb_refl in Hx.
                destruct (matches r _); [|inv Hx; right; auto].
                left. eapply IH; eauto. left. reflexivity.
          -- intros _ e [].
      + destruct St as [W|[-> Nw]].
        * destruct n as [t s v|kvs|es]; try (cbn in W; discriminate W).
          -- rewrite (wfree_not_null _ W) in H. discriminate.
          -- discriminate.
        * cbn in Nw. rewrite Cp in Nw. discriminate.
      + rewrite (classify_field_nonempty _ _ Np Cp) in H.
        destruct St as [W|[-> _]]; [|discriminate].
        destruct n as [t s v|kvs|es]; try (cbn in W; discriminate W).
        * rewrite (wfree_not_null _ W) in H. discriminate.
        * destruct (find_field name kvs) as [y|] eqn:F.
          -- destruct (pmc fuel rest y) as [[y' h]| | |] eqn:P; cbn in H; inv H.
             apply has_at_push. eapply IH; eauto. left. eapply wfree_find; eauto.
          -- cbn [is_create] in H.
             destruct (pmc fuel rest _) as [[y' h]| | |] eqn:P; cbn in H; inv H.
             apply has_at_push. eapply IH; eauto. apply fresh_ok_start.
  Qed.

  (* ---------- list surgery ---------- *)
  Lemma nth_replace_same {A} (l : list A) : forall j x y, nth_error l j = Some y -> nth_error (replace_nth j x l) j = Some x.
  Proof. induction l as [|z t IHl]; intros [|j] x y H; cbn in *; try discriminate; eauto. Qed.
  Lemma nth_replace_other {A} (l : list A) : forall i j x, i <> j -> nth_error (replace_nth j x l) i = nth_error l i.
  Proof. induction l as [|y t IHl]; intros [|i] [|j] x H; cbn; auto; try congruence. Qed.

  Lemma set_first_nth name v : forall kvs x,
    find_field name kvs = Some x ->
    let idx := index_of_key name kvs in
    (exists k0, nth_error kvs idx = Some (k0, x) /\ nth_error (set_first name v kvs) idx = Some (k0, v)) /\
    (forall i, i <> idx -> nth_error (set_first name v kvs) i = nth_error kvs i).
  Proof.
    unfold index_of_key. induction kvs as [|[k0 y] t IHl]; cbn; intros x H; [discriminate|].
    destruct (String.eqb k0 name) eqn:E.
    - inv H. cbn. split; [exists k0; auto|]. intros [|i] Hi; cbn; auto; congruence.
    - destruct (IHl x H) as [(k1 & A & B) C]. cbn.
      destruct (find_index (fun kv : string * node => fst kv =? name) t) as [j|] eqn:FI; cbn in *.
      + split; [exists k1; auto|]. intros [|i] Hi; cbn; auto; try (apply C; congruence).
      + exfalso. clear -H E FI. revert H FI. induction t as [|[k2 z] t' IHt]; cbn; [discriminate|].
        destruct (String.eqb k2 name); [discriminate|]. intros H FI.
        destruct (find_index (fun kv : string * node => fst kv =? name) t'); [discriminate|]. auto.
  Qed.

  Lemma visit_elems_nil f : forall es i es',
    visit_elems f i es = Ok (es', []) -> forall e, In e es -> exists e', f e = Ok (e', []).
  Proof.
    induction es as [|e t IHl]; intros i es' H e0 Hin; [destruct Hin|]. cbn in H.
    destruct (f e) as [[e1 h1]| | |] eqn:Fe; cbn in H; try discriminate.
    destruct (visit_elems f (S i) t) as [[t1 h2]| | |] eqn:V; cbn in H; try discriminate.
    injection H as E1 E2. apply app_eq_nil in E2. destruct E2 as [A B]. subst h2.
    destruct Hin as [<-|Hin]; [|eapply IHl; eauto].
    destruct h1; [eauto|discriminate].
  Qed.

  (* the appended element's visit: what retry_after_append needs *)
  Lemma visit_new_answers fuel rest fld v :
    no_empty rest = true ->
    forall x h, visit_one fuel rest fld v (pm_new_elem fld v) = Ok (x, h) ->
      has_at h \/ (x = pm_new_elem fld v /\ h = []).
  Proof.
    intros Ne x h Hx. unfold visit_one in Hx. rewrite elem_regex_text in Hx.
    destruct (parse v) as [r|]; cbn in Hx; [|discriminate].
    unfold pm_new_elem in *. destruct (String.eqb fld "") eqn:Ef.
    - destruct (matches r _); inv Hx; [left; exists []; left; auto|right; auto].
    - cbn [find_field] in Hx. rewrite String.eqb_refl in Hx.
      destruct (matches r _); [|inv Hx; right; auto].
      left. eapply create_has_at; eauto. left. reflexivity.
  Qed.

  (* nothing of the document returned => the document is unchanged *)
  Lemma create_same : forall fuel path n n' hits,
    no_empty path = true -> pmc fuel path n = Ok (n', hits) -> no_at hits -> n' = n.
  Proof.
    intros fuel. induction path as [|p rest IH]; intros n n' hits Ne H Hno; cbn [pm] in H.
    - inv H. exfalso. apply (Hno []). left; auto.
    - apply no_empty_cons in Ne. destruct Ne as [Np Ne].
      destruct (classify_pm p) as [i|raw| |name] eqn:Cp.
      + destruct n as [t s v|kvs|es].
        * destruct (is_null _); [|discriminate].
          destruct (Nat.eqb i 0 && is_create (Some k)); [|discriminate].
          destruct (pmc fuel rest _) as [[e' h]| | |]; cbn in H; inv H. auto.
        * discriminate.
        * destruct (Nat.eqb (List.length es) i && is_create (Some k)).
          -- destruct (pmc fuel rest _) as [[e' h]| | |] eqn:P; cbn in H; inv H.
             exfalso. apply no_at_push in Hno.
             destruct (create_has_at fuel rest _ (fresh_ok_start' rest _) Ne _ _ P) as (b & Hb). apply (Hno b); auto.
          -- destruct (nth_error es i) as [e|] eqn:F; [|discriminate].
             destruct (pmc fuel rest e) as [[e' h]| | |] eqn:P; cbn in H; inv H.
             apply no_at_push in Hno. rewrite (IH _ _ _ Ne P Hno). rewrite replace_nth_same; auto.
      + destruct (split_index_name_value raw) as [[fld v]|]; [|discriminate].
        destruct n as [t s v0|kvs|es].
        * destruct (is_null _); [|discriminate].
          destruct (retry_loop _ _ _ _ _) as [[es1 h1]| | |]; cbn in H; inv H. auto.
        * discriminate.
        * change (retry_loop _ (pm_new_elem fld v) (is_create (Some k)) false fuel es)
            with (retry_loop (visit_one fuel rest fld v) (pm_new_elem fld v) true false fuel es) in H.
          destruct (retry_loop (visit_one fuel rest fld v) (pm_new_elem fld v) true false fuel es) as [[es1 h1]| | |] eqn:R;
            cbn in H; inv H. f_equal.
          assert (Vsame : forall e e' h, visit_one fuel rest fld v e = Ok (e', h) -> no_at h -> e' = e).
          { intros e e' h Hv Hn. unfold visit_one in Hv.
            destruct (elem_regex parse v) as [r| | |]; cbn in Hv; try discriminate.
            destruct (String.eqb fld "").
            - destruct (matches r (enc e)); inv Hv; auto.
            - destruct e as [t s v0|kvs|es0]; try (inv Hv; auto; fail).
              destruct (find_field fld kvs) as [x|]; [|inv Hv; auto].
              destruct (matches r (enc x)); [|inv Hv; auto]. eapply IH; eauto. }
          destruct fuel as [|f]; cbn in R; [discriminate|].
          destruct (visit_elems (visit_one (S f) rest fld v) 0 es) as [[e1 g1]| | |] eqn:V; cbn in R; try discriminate.
          destruct g1 as [|g0 gt].
          -- assert (e1 = es) by (eapply visit_elems_same; eauto; intros a []). subst e1.
             exfalso.
             destruct (retry_after_append (visit_one (S f) rest fld v) (pm_new_elem fld v) f es es1 hits) as (b & Hb); [| |exact R|apply (Hno b); auto].
             ++ apply visit_new_answers; auto.
             ++ intros _ e He. destruct (visit_elems_nil _ _ _ _ V e He) as (e' & Fe).
                rewrite Fe. f_equal. f_equal. eapply Vsame; eauto. intros a [].
          -- inv R. eapply visit_elems_same; eauto.
      + destruct n as [t s v|kvs|es].
        * destruct (is_null _); inv H; auto.
        * discriminate.
        * destruct (visit_elems (pmc fuel rest) 0 es) as [[es1 h1]| | |] eqn:V; cbn in H; inv H.
          f_equal. eapply visit_elems_same; eauto.
      + rewrite (classify_field_nonempty _ _ Np Cp) in H.
        destruct n as [t s v|kvs|es].
        * destruct (is_null _); [|discriminate]. cbn [is_create] in H.
          destruct (pmc fuel rest _) as [[y' h]| | |]; cbn in H; inv H. auto.
        * destruct (find_field name kvs) as [y|] eqn:F.
          -- destruct (pmc fuel rest y) as [[y' h]| | |] eqn:P; cbn in H; inv H.
             apply no_at_push in Hno. rewrite (IH _ _ _ Ne P Hno). rewrite set_first_same; auto.
          -- cbn [is_create] in H.
             destruct (pmc fuel rest _) as [[y' h]| | |] eqn:P; cbn in H; inv H.
             exfalso. apply no_at_push in Hno.
             destruct (create_has_at fuel rest _ (fresh_ok_start nonstr rest _) Ne _ _ P) as (b & Hb). apply (Hno b); auto.
        * discriminate.
  Qed.

  (* "what was at an address not comparable with a returned address is still there" *)
  Definition keeps (n n' : node) (hits : list hit) : Prop :=
    forall a x, get_at a n = Some x -> (forall h, In (HAt h) hits -> comparable a h = false) -> get_at a n' = Some x.

  Lemma retry_keeps visit new_elem :
    (forall e e' h, visit e = Ok (e', h) -> keeps e e' h) ->
    forall f app es es' hits, retry_loop visit new_elem true app f es = Ok (es', hits) ->
    forall i c a' x, nth_error es i = Some c -> get_at a' c = Some x ->
      (forall h, In (HAt h) hits -> comparable (i :: a') h = false) ->
      exists c', nth_error es' i = Some c' /\ get_at a' c' = Some x.
  Proof.
    intros Vk. induction f as [|f IHf]; intros app es es' hits R i c a' x Hn Hg Hc; cbn in R; [discriminate|].
    destruct (visit_elems visit 0 es) as [[e1 g1]| | |] eqn:V; cbn in R; try discriminate.
    destruct (visit_elems_inv _ _ _ _ _ V) as [L N].
    destruct (N i c Hn) as (c1 & h & Fc & Hn1 & A & B). cbn in A, B.
    destruct g1 as [|g0 gt].
    - (* nothing returned: the element is kept entirely; then the retry on the extended list *)
      assert (K : get_at a' c1 = Some x).
      { eapply (Vk _ _ _ Fc); eauto. intros b Hb. destruct (A b Hb). }
      destruct app; cbn in R; try discriminate;
        (eapply (IHf _ _ _ _ R i c1 a' x); eauto;
         rewrite nth_error_app1; auto; apply nth_error_Some; congruence).
    - inv R. exists c1. split; auto. eapply (Vk _ _ _ Fc); eauto.
      intros b Hb. specialize (Hc _ (A b Hb)). cbn in Hc. rewrite Nat.eqb_refl in Hc. auto.
  Qed.

  Theorem create_keeps : forall fuel path n n' hits,
    no_empty path = true -> pmc fuel path n = Ok (n', hits) -> keeps n n' hits.
  Proof.
    intros fuel. induction path as [|p rest IH]; intros n n' hits Ne H a x Hg Hc.
    - cbn in H. inv H. auto.
    - destruct a as [|i a'].
      { (* the root: nothing of the document was returned, so it is unchanged *)
        rewrite (create_same _ _ _ _ _ Ne H); auto. intros b Hb. specialize (Hc b Hb). destruct b; discriminate. }
      cbn [pm] in H. apply no_empty_cons in Ne. destruct Ne as [Np Ne].
      destruct (classify_pm p) as [j|raw| |name] eqn:Cp.
      + destruct n as [t s v|kvs|es]; try (cbn in Hg; discriminate Hg).
        * discriminate.
        * cbn in Hg. destruct (nth_error es i) as [c|] eqn:Hn; [|discriminate].
          destruct (Nat.eqb (List.length es) j && is_create (Some k)).
          -- destruct (pmc fuel rest _) as [[e' h]| | |]; cbn in H; inv H. cbn.
             rewrite nth_error_app1; [rewrite Hn; auto|]. apply nth_error_Some. congruence.
          -- destruct (nth_error es j) as [e|] eqn:F; [|discriminate].
             destruct (pmc fuel rest e) as [[e' h]| | |] eqn:P; cbn in H; inv H. cbn.
             destruct (Nat.eq_dec i j) as [->|Nij].
             ++ rewrite (nth_replace_same _ _ _ _ F). rewrite F in Hn. inv Hn.
                eapply (IH _ _ _ Ne P); eauto. intros b Hb.
                specialize (Hc _ (in_map_push j _ _ Hb)). cbn in Hc. rewrite Nat.eqb_refl in Hc. auto.
             ++ rewrite nth_replace_other; auto. rewrite Hn; auto.
      + destruct (split_index_name_value raw) as [[fld v]|]; [|discriminate].
        destruct n as [t s v0|kvs|es]; try (cbn in Hg; discriminate Hg).
        * discriminate.
        * cbn in Hg. destruct (nth_error es i) as [c|] eqn:Hn; [|discriminate].
          change (retry_loop _ (pm_new_elem fld v) (is_create (Some k)) false fuel es)
            with (retry_loop (visit_one fuel rest fld v) (pm_new_elem fld v) true false fuel es) in H.
          destruct (retry_loop (visit_one fuel rest fld v) (pm_new_elem fld v) true false fuel es) as [[es1 h1]| | |] eqn:R;
            cbn in H; inv H. cbn.
          destruct (retry_keeps (visit_one fuel rest fld v) (pm_new_elem fld v)) with
            (f := fuel) (app := false) (es := es) (es' := es1) (hits := hits) (i := i) (c := c) (a' := a') (x := x)
            as (c' & Hn' & Hg'); auto.
          { intros e e' h Hv. unfold visit_one in Hv.
            destruct (elem_regex parse v) as [r| | |]; cbn in Hv; try discriminate.
            destruct (String.eqb fld "").
            - destruct (matches r (enc e)); inv Hv; intros ? ? ? ?; auto.
            - destruct e as [t s v0|kvs|es0]; try (inv Hv; intros ? ? ? ?; auto; fail).
              destruct (find_field fld kvs) as [y|]; [|inv Hv; intros ? ? ? ?; auto].
              destruct (matches r (enc y)); [|inv Hv; intros ? ? ? ?; auto].
              eapply IH; eauto. }
          rewrite Hn'. auto.
      + destruct n as [t s v|kvs|es]; try (cbn in Hg; discriminate Hg).
        * discriminate.
        * cbn in Hg. destruct (nth_error es i) as [c|] eqn:Hn; [|discriminate].
          destruct (visit_elems (pmc fuel rest) 0 es) as [[es1 h1]| | |] eqn:V; cbn in H; inv H. cbn.
          destruct (visit_elems_inv _ _ _ _ _ V) as [L N].
          destruct (N i c Hn) as (c1 & h & Fc & Hn1 & A & B). cbn in A. rewrite Hn1.
          eapply (IH _ _ _ Ne Fc); eauto. intros b Hb.
          specialize (Hc _ (A b Hb)). cbn in Hc. rewrite Nat.eqb_refl in Hc. auto.
      + rewrite (classify_field_nonempty _ _ Np Cp) in H.
        destruct n as [t s v|kvs|es]; try (cbn in Hg; discriminate Hg).
        * cbn in Hg. destruct (nth_error kvs i) as [[k0 c]|] eqn:Hn; cbn in Hg; [|discriminate].
          destruct (find_field name kvs) as [y|] eqn:F.
          -- destruct (pmc fuel rest y) as [[y' h]| | |] eqn:P; cbn in H; inv H. cbn.
             destruct (set_first_nth name y' kvs y F) as [(k1 & A & B) C].
             destruct (Nat.eq_dec i (index_of_key name kvs)) as [->|Nij].
             ++ rewrite B. cbn. rewrite A in Hn. inv Hn.
                eapply (IH _ _ _ Ne P); eauto. intros b Hb.
                specialize (Hc _ (in_map_push _ _ _ Hb)). cbn in Hc. rewrite Nat.eqb_refl in Hc. auto.
             ++ rewrite C; auto. rewrite Hn. cbn. auto.
          -- cbn [is_create] in H.
             destruct (pmc fuel rest _) as [[y' h]| | |]; cbn in H; inv H. cbn.
             rewrite nth_error_app1; [rewrite Hn; cbn; auto|]. apply nth_error_Some. congruence.
        * discriminate.
  Qed.
End Frame.
