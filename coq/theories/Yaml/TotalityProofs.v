(* C12: totality (no Panic except one characterised case, no Diverge) of the modelled kyaml core:
   [walk] (PathGetter, Yaml/Fns.v) and [fs_filter] / [fs_apply] / [fsslice_apply] (fieldspec filter,
   Yaml/FieldSpec.v), for ALL documents (ill-typed ones included), all paths, all continuations.
   One lemma group per modelled function, so that further functions can be added alongside. *)
From KV Require Import Yaml.Fns Yaml.FieldSpec.

Ltac inv H := inversion H; subst; clear H.

(* ------------------------------------------------------------------------------------------ *)
(* bind and the two failure outcomes                                                           *)

Lemma bind_ok_panic {A B} (w : res A) (g : A -> B) :
  (do r <- w; Ok (g r)) = Panic <-> w = Panic.
Proof. destruct w; cbn; split; intros H; try discriminate; auto. Qed.

Lemma bind_ok_diverge {A B} (w : res A) (g : A -> B) :
  (do r <- w; Ok (g r)) = Diverge <-> w = Diverge.
Proof. destruct w; cbn; split; intros H; try discriminate; auto. Qed.

(* ------------------------------------------------------------------------------------------ *)
(* walk: where the traversal ends, independently of the continuation                           *)

Inductive reach_res :=
| RAt (x : node)      (* the continuation is applied to x *)
| RLastEmpty          (* a "-" part meets an empty sequence or a null node *)
| RStop.              (* path absent or malformed: the continuation is not applied *)

Fixpoint reach (cr : option kind) (ps : list part) (n : node) {struct ps} : reach_res :=
  match ps with
  | [] => RAt n
  | p :: ps' =>
      match p with
      | PKey name =>
          match n with
          | Map kvs =>
              match find_field name kvs with
              | Some x => reach cr ps' x
              | None =>
                  match cr with
                  | None => RStop
                  | Some leaf => reach cr ps' (empty_of (kind_before (hd_error ps') leaf))
                  end
              end
          | _ => RStop
          end
      | PIdx i =>
          match n with
          | Seq es => match nth_error es i with Some e => reach cr ps' e | None => RStop end
          | _ => RStop
          end
      | PLast =>
          match n with
          | Seq es =>
              match es with
              | [] => RLastEmpty
              | _ => match nth_error es (List.length es - 1) with
                     | Some e => reach cr ps' e
                     | None => RLastEmpty
                     end
              end
          | _ => if is_null n then RLastEmpty else RStop
          end
      | PSel nm v =>
          match n with
          | Seq es =>
              match find_index (sel_match nm v) es with
              | Some i => match nth_error es i with Some e => reach cr ps' e | None => RStop end
              | None => match cr with None => RStop | Some _ => reach cr ps' (sel_new nm v) end
              end
          | _ =>
              if is_null n
              then match cr with None => RStop | Some _ => reach cr ps' (sel_new nm v) end
              else RStop
          end
      | PBadSel | PNeg | PWild => RStop
      end
  end.

Section Walk.
  Context {A : Type}.
  Variable k : node -> res (node * A).

  (* walk panics exactly when the traversal meets "-" on an empty sequence / null node,
     or reaches a node on which the continuation itself panics *)
  Lemma walk_panic_iff cr ps : forall n,
    walk cr ps k n = Panic <->
    (reach cr ps n = RLastEmpty \/ exists x, reach cr ps n = RAt x /\ k x = Panic).
  Proof.
    induction ps as [|p ps IH]; intros n.
    - cbn. rewrite bind_ok_panic. split.
      + intros H. right. exists n. auto.
      + intros [H|[x [H1 H2]]]; [discriminate|]. inv H1. exact H2.
    - destruct p; cbn.
      + (* PKey *)
        destruct n as [t s v|kvs|es].
        * destruct (is_null _); split; try discriminate; intros [H|[x [H _]]]; discriminate.
        * destruct (find_field k0 kvs) as [x|].
          -- rewrite bind_ok_panic. apply IH.
          -- destruct cr as [leaf|].
             ++ rewrite bind_ok_panic. apply IH.
             ++ split; try discriminate; intros [H|[x [H _]]]; discriminate.
        * split; try discriminate; intros [H|[x [H _]]]; discriminate.
      + (* PIdx *)
        destruct n as [t s v|kvs|es].
        * destruct (is_null _); split; try discriminate; intros [H|[x [H _]]]; discriminate.
        * split; try discriminate; intros [H|[x [H _]]]; discriminate.
        * destruct (nth_error es i) as [e|].
          -- rewrite bind_ok_panic. apply IH.
          -- split; try discriminate; intros [H|[x [H _]]]; discriminate.
      + (* PLast *)
        destruct n as [t s v|kvs|es].
        * destruct (is_null _); split; auto; try discriminate; intros [H|[x [H _]]]; discriminate.
        * cbn. split; try discriminate; intros [H|[x [H _]]]; discriminate.
        * destruct es as [|e0 es']; [split; auto|].
          destruct (nth_error (e0 :: es') (List.length (e0 :: es') - 1)) as [e|].
          -- rewrite bind_ok_panic. apply IH.
          -- split; auto.
      + (* PSel *)
        destruct n as [t s v0|kvs|es].
        * destruct (is_null _).
          -- destruct cr as [leaf|].
             ++ rewrite bind_ok_panic. apply IH.
             ++ split; try discriminate; intros [H|[x [H _]]]; discriminate.
          -- split; try discriminate; intros [H|[x [H _]]]; discriminate.
        * cbn. split; try discriminate; intros [H|[x [H _]]]; discriminate.
        * destruct (find_index (sel_match nm v) es) as [i|].
          -- destruct (nth_error es i) as [e|].
             ++ rewrite bind_ok_panic. apply IH.
             ++ split; try discriminate; intros [H|[x [H _]]]; discriminate.
          -- destruct cr as [leaf|].
             ++ rewrite bind_ok_panic. apply IH.
             ++ split; try discriminate; intros [H|[x [H _]]]; discriminate.
      + split; try discriminate; intros [H|[x [H _]]]; discriminate.
      + split; try discriminate; intros [H|[x [H _]]]; discriminate.
      + split; try discriminate; intros [H|[x [H _]]]; discriminate.
  Qed.

  (* walk has no fuel: it can only "diverge" by handing on a Diverge of its continuation *)
  Lemma walk_diverge_iff cr ps : forall n,
    walk cr ps k n = Diverge <-> exists x, reach cr ps n = RAt x /\ k x = Diverge.
  Proof.
    induction ps as [|p ps IH]; intros n.
    - cbn. rewrite bind_ok_diverge. split.
      + intros H. exists n. auto.
      + intros [x [H1 H2]]. inv H1. exact H2.
    - destruct p; cbn.
      + destruct n as [t s v|kvs|es].
        * destruct (is_null _); split; try discriminate; intros [x [H _]]; discriminate.
        * destruct (find_field k0 kvs) as [x|].
          -- rewrite bind_ok_diverge. apply IH.
          -- destruct cr as [leaf|].
             ++ rewrite bind_ok_diverge. apply IH.
             ++ split; try discriminate; intros [x [H _]]; discriminate.
        * split; try discriminate; intros [x [H _]]; discriminate.
      + destruct n as [t s v|kvs|es].
        * destruct (is_null _); split; try discriminate; intros [x [H _]]; discriminate.
        * split; try discriminate; intros [x [H _]]; discriminate.
        * destruct (nth_error es i) as [e|].
          -- rewrite bind_ok_diverge. apply IH.
          -- split; try discriminate; intros [x [H _]]; discriminate.
      + destruct n as [t s v|kvs|es].
        * destruct (is_null _); split; try discriminate; intros [x [H _]]; discriminate.
        * cbn. split; try discriminate; intros [x [H _]]; discriminate.
        * destruct es as [|e0 es']; [split; try discriminate; intros [x [H _]]; discriminate|].
          destruct (nth_error (e0 :: es') (List.length (e0 :: es') - 1)) as [e|].
          -- rewrite bind_ok_diverge. apply IH.
          -- split; try discriminate; intros [x [H _]]; discriminate.
      + destruct n as [t s v0|kvs|es].
        * destruct (is_null _).
          -- destruct cr as [leaf|].
             ++ rewrite bind_ok_diverge. apply IH.
             ++ split; try discriminate; intros [x [H _]]; discriminate.
          -- split; try discriminate; intros [x [H _]]; discriminate.
        * cbn. split; try discriminate; intros [x [H _]]; discriminate.
        * destruct (find_index (sel_match nm v) es) as [i|].
          -- destruct (nth_error es i) as [e|].
             ++ rewrite bind_ok_diverge. apply IH.
             ++ split; try discriminate; intros [x [H _]]; discriminate.
          -- destruct cr as [leaf|].
             ++ rewrite bind_ok_diverge. apply IH.
             ++ split; try discriminate; intros [x [H _]]; discriminate.
      + split; try discriminate; intros [x [H _]]; discriminate.
      + split; try discriminate; intros [x [H _]]; discriminate.
      + split; try discriminate; intros [x [H _]]; discriminate.
  Qed.

  Lemma walk_never_diverges cr ps n :
    (forall x, k x <> Diverge) -> walk cr ps k n <> Diverge.
  Proof.
    intros Hk H. apply walk_diverge_iff in H. destruct H as [x [_ H]]. exact (Hk x H).
  Qed.

  Lemma walk_panic_only_last_on_empty cr ps n :
    (forall x, k x <> Panic) ->
    (walk cr ps k n = Panic <-> reach cr ps n = RLastEmpty).
  Proof.
    intros Hk. rewrite walk_panic_iff. split; auto.
    intros [H|[x [_ H]]]; auto. destruct (Hk x H).
  Qed.
End Walk.

(* ------------------------------------------------------------------------------------------ *)
(* RLastEmpty spelled out: some "-" in the path is applied to an empty sequence or a null node  *)

Definition empty_or_null (x : node) : Prop := x = Seq [] \/ is_null x = true.

Lemma nth_last_some {T} (e0 : T) es : exists e, nth_error (e0 :: es) (List.length (e0 :: es) - 1) = Some e.
Proof.
  assert (H : List.length (e0 :: es) - 1 < List.length (e0 :: es)) by (cbn; lia).
  apply nth_error_Some in H. destruct (nth_error _ _) as [e|]; [eauto|congruence].
Qed.

Lemma reach_last_empty_sound cr ps : forall n,
  reach cr ps n = RLastEmpty ->
  exists pre post, ps = (pre ++ PLast :: post)%list.
Proof.
  induction ps as [|p ps IH]; intros n H; [discriminate|].
  destruct p; cbn in H.
  - destruct n as [t s v|kvs|es]; try discriminate.
    destruct (find_field k kvs) as [x|].
    + apply IH in H. destruct H as [pre [post ->]]. exists (PKey k :: pre), post. reflexivity.
    + destruct cr; [|discriminate]. apply IH in H. destruct H as [pre [post ->]].
      exists (PKey k :: pre), post. reflexivity.
  - destruct n as [t s v|kvs|es]; try discriminate.
    destruct (nth_error es i); [|discriminate].
    apply IH in H. destruct H as [pre [post ->]]. exists (PIdx i :: pre), post. reflexivity.
  - exists [], ps. reflexivity.
  - destruct n as [t s v0|kvs|es]; try discriminate.
    + destruct (is_null _); [|discriminate]. destruct cr; [|discriminate].
      apply IH in H. destruct H as [pre [post ->]]. exists (PSel nm v :: pre), post. reflexivity.
    + destruct (find_index _ es) as [i|].
      * destruct (nth_error es i); [|discriminate].
        apply IH in H. destruct H as [pre [post ->]]. exists (PSel nm v :: pre), post. reflexivity.
      * destruct cr; [|discriminate].
        apply IH in H. destruct H as [pre [post ->]]. exists (PSel nm v :: pre), post. reflexivity.
  - discriminate.
  - discriminate.
  - discriminate.
Qed.

(* one step: "-" on a node *)
Lemma reach_last_step cr ps n :
  reach cr (PLast :: ps) n = RLastEmpty <->
  empty_or_null n \/
  (exists e0 es e, n = Seq (e0 :: es) /\ nth_error (e0 :: es) (List.length (e0 :: es) - 1) = Some e /\
                   reach cr ps e = RLastEmpty).
Proof.
  cbn [reach]. unfold empty_or_null. destruct n as [t s v|kvs|es].
  - destruct (is_null (Scalar t s v)) eqn:E.
    + split; intros _; [left; right; reflexivity|reflexivity].
    + split; [discriminate|].
      intros [[H|H]|[e0 [es [e [H _]]]]]; discriminate.
  - cbn. split; [discriminate|].
    intros [[H|H]|[e0 [es [e [H _]]]]]; discriminate.
  - destruct es as [|e0 es'].
    + split; intros _; [left; left; reflexivity|reflexivity].
    + destruct (nth_last_some e0 es') as [e He]. rewrite He. split.
      * intros H. right. exists e0, es', e. auto.
      * intros [[H|H]|[a [b [c [H1 [H2 H3]]]]]]; try discriminate.
        inv H1. rewrite He in H2. inv H2. exact H3.
Qed.

(* without creation the walk is compositional in the path *)
Lemma reach_none_app pre : forall post n,
  reach None ((pre ++ post)%list) n =
  match reach None pre n with RAt x => reach None post x | r => r end.
Proof.
  induction pre as [|p pre IH]; intros post n; [reflexivity|].
  destruct p; cbn.
  - destruct n as [t s v|kvs|es]; auto. destruct (find_field k kvs); auto.
  - destruct n as [t s v|kvs|es]; auto. destruct (nth_error es i); auto.
  - destruct n as [t s v|kvs|es]; auto.
    + destruct (is_null _); auto.
    + destruct es as [|e0 es']; auto. destruct (nth_error _ _); auto.
  - destruct n as [t s v0|kvs|es]; auto.
    + destruct (is_null _); auto.
    + destruct (find_index _ es) as [i|]; auto. destruct (nth_error es i); auto.
  - reflexivity.
  - reflexivity.
  - reflexivity.
Qed.

(* Lookup (no creation): RLastEmpty means precisely that some "-" of the path is applied to a
   node, reached by the parts before it, that is an empty sequence or null *)
Lemma reach_none_last_empty_iff ps : forall n,
  reach None ps n = RLastEmpty <->
  exists pre post x, ps = (pre ++ PLast :: post)%list /\ reach None pre n = RAt x /\ empty_or_null x.
Proof.
  intros n. split.
  - revert n. induction ps as [|p ps IH]; intros n H; [discriminate|].
    destruct p.
    + cbn in H. destruct n as [t s v|kvs|es]; try discriminate.
      destruct (find_field k kvs) as [x|] eqn:F; [|discriminate].
      apply IH in H. destruct H as [pre [post [y [-> [H1 H2]]]]].
      exists (PKey k :: pre), post, y. cbn. rewrite F. auto.
    + cbn in H. destruct n as [t s v|kvs|es]; try discriminate.
      destruct (nth_error es i) as [e|] eqn:F; [|discriminate].
      apply IH in H. destruct H as [pre [post [y [-> [H1 H2]]]]].
      exists (PIdx i :: pre), post, y. cbn. rewrite F. auto.
    + apply reach_last_step in H. destruct H as [H|[e0 [es [e [-> [He H]]]]]].
      * exists [], ps, n. auto.
      * apply IH in H. destruct H as [pre [post [y [-> [H1 H2]]]]].
        exists (PLast :: pre), post, y. split; [reflexivity|]. split; [|exact H2].
        cbn [reach]. rewrite He. exact H1.
    + cbn in H. destruct n as [t s v0|kvs|es]; try discriminate.
      * destruct (is_null _); discriminate.
      * destruct (find_index _ es) as [i|] eqn:F; [|discriminate].
        destruct (nth_error es i) as [e|] eqn:G; [|discriminate].
        apply IH in H. destruct H as [pre [post [y [-> [H1 H2]]]]].
        exists (PSel nm v :: pre), post, y. cbn. rewrite F, G. auto.
    + discriminate.
    + discriminate.
    + discriminate.
  - intros [pre [post [x [-> [H1 H2]]]]].
    rewrite reach_none_app, H1. apply reach_last_step. left. exact H2.
Qed.

(* ------------------------------------------------------------------------------------------ *)
(* fs_filter (fieldspec.Filter.filter / handleMap / handleSequence)                             *)

Lemma clean_path_single_len s : List.length (clean_path [s]) <= 1.
Proof. unfold clean_path. cbn. destruct (negb _); cbn; lia. Qed.

Lemma parse_path_single s : parse_path [s] = [] \/ exists p, parse_path [s] = [p].
Proof.
  unfold parse_path. pose proof (clean_path_single_len s) as H.
  destruct (clean_path [s]) as [|a [|b l]]; cbn in *; [left; auto|right; eauto|lia].
Qed.

(* a path of at most one part applied to a mapping never ends in "-"-on-empty *)
Lemma reach_single_on_map cr ps kvs :
  List.length ps <= 1 -> reach cr ps (Map kvs) <> RLastEmpty.
Proof.
  destruct ps as [|p [|q l]]; cbn; intros Hl; try lia; try discriminate.
  destruct p; cbn; try discriminate.
  - destruct (find_field k kvs); try discriminate. destruct cr; discriminate.
Qed.

Section FsFilter.
  Variable create_kind : option kind.
  Variable create_tag : tag.
  Variable set_value : node -> res node.

  Notation fsf := (fs_filter create_kind create_tag set_value).

  Lemma fs_filter_nil create obj : fsf create [] obj = set_value obj.
  Proof. reflexivity. Qed.

  (* the sequence traversal of handleSequence as a plain list function *)
  Fixpoint goes (f : node -> res node) (l : list node) : res (list node) :=
    match l with
    | [] => Ok []
    | e :: t => do e' <- f e; do t' <- goes f t; Ok (e' :: t')
    end.

  Lemma fs_filter_cons_seq create p rest es :
    fsf create (p :: rest) (Seq es) =
    do es' <- goes (fsf create (p :: rest)) es; Ok (Seq es').
  Proof.
    cbn. f_equal.
    induction es as [|e t IH]; cbn; [reflexivity|].
    rewrite <- IH. reflexivity.
  Qed.

  Lemma goes_bad (bad : forall X, res X -> Prop) f l :
    (forall X Y (w : res X) (g : X -> res Y), bad Y (bind w g) -> bad X w \/ exists a, w = Ok a /\ bad Y (g a)) ->
    (forall X (a : X), ~ bad X (Ok a)) ->
    Forall (fun e => ~ bad _ (f e)) l -> ~ bad _ (goes f l).
  Proof.
    intros Hb Hok. induction 1 as [|e t He Ht IH]; cbn.
    - apply Hok.
    - intros H. apply Hb in H. destruct H as [H|[a [_ H]]]; [exact (He H)|].
      apply Hb in H. destruct H as [H|[b [_ H]]]; [exact (IH H)|]. exact (Hok _ _ H).
  Qed.

  Definition is_panic X (r : res X) : Prop := r = Panic.
  Definition is_diverge X (r : res X) : Prop := r = Diverge.

  Lemma bind_panic_inv X Y (w : res X) (g : X -> res Y) :
    is_panic Y (bind w g) -> is_panic X w \/ exists a, w = Ok a /\ is_panic Y (g a).
  Proof. unfold is_panic. destruct w; cbn; intros H; try discriminate; eauto. Qed.

  Lemma bind_diverge_inv X Y (w : res X) (g : X -> res Y) :
    is_diverge Y (bind w g) -> is_diverge X w \/ exists a, w = Ok a /\ is_diverge Y (g a).
  Proof. unfold is_diverge. destruct w; cbn; intros H; try discriminate; eauto. Qed.

  (* the fieldspec filter never panics (whatever the document, path and create flag),
     provided SetValue does not *)
  Lemma fs_filter_no_panic :
    (forall n, set_value n <> Panic) ->
    forall create path obj, fsf create path obj <> Panic.
  Proof.
    intros Hsv create path. induction path as [|p rest IHp]; intros obj.
    - rewrite fs_filter_nil. apply Hsv.
    - induction obj as [t s v|kvs IHk|es IHe] using node_ind'.
      + cbn. destruct t; discriminate.
      + cbn. destruct (trim_suffix "[]" p =? "")%string; [discriminate|].
        intros H. apply bind_ok_panic in H. apply walk_panic_iff in H.
        destruct H as [H|[x [_ H]]].
        * revert H. apply reach_single_on_map. destruct (negb _); cbn; lia.
        * apply bind_ok_panic in H. exact (IHp _ H).
      + rewrite fs_filter_cons_seq. intros H. apply bind_ok_panic in H. revert H.
        apply (goes_bad is_panic); [exact bind_panic_inv|unfold is_panic; discriminate|exact IHe].
  Qed.

  Lemma fs_filter_no_diverge :
    (forall n, set_value n <> Diverge) ->
    forall create path obj, fsf create path obj <> Diverge.
  Proof.
    intros Hsv create path. induction path as [|p rest IHp]; intros obj.
    - rewrite fs_filter_nil. apply Hsv.
    - induction obj as [t s v|kvs IHk|es IHe] using node_ind'.
      + cbn. destruct t; discriminate.
      + cbn. destruct (trim_suffix "[]" p =? "")%string; [discriminate|].
        intros H. apply bind_ok_diverge in H. apply walk_diverge_iff in H.
        destruct H as [x [_ H]].
        apply bind_ok_diverge in H. exact (IHp _ H).
      + rewrite fs_filter_cons_seq. intros H. apply bind_ok_diverge in H. revert H.
        apply (goes_bad is_diverge); [exact bind_diverge_inv|unfold is_diverge; discriminate|exact IHe].
  Qed.

  Lemma fs_apply_no_panic :
    (forall n, set_value n <> Panic) ->
    forall fs obj, fs_apply create_kind create_tag set_value fs obj <> Panic.
  Proof.
    intros Hsv fs obj. unfold fs_apply. destruct (is_match_gvk fs obj); [|discriminate].
    apply fs_filter_no_panic; auto.
  Qed.

  Lemma fs_apply_no_diverge :
    (forall n, set_value n <> Diverge) ->
    forall fs obj, fs_apply create_kind create_tag set_value fs obj <> Diverge.
  Proof.
    intros Hsv fs obj. unfold fs_apply. destruct (is_match_gvk fs obj); [|discriminate].
    apply fs_filter_no_diverge; auto.
  Qed.

  Lemma fsslice_apply_no_panic :
    (forall n, set_value n <> Panic) ->
    forall l obj, fsslice_apply create_kind create_tag set_value l obj <> Panic.
  Proof.
    intros Hsv l. induction l as [|fs t IH]; intros obj; cbn; [discriminate|].
    destruct (fs_apply _ _ _ fs obj) eqn:E; cbn; try discriminate.
    - apply IH.
    - exfalso. revert E. apply fs_apply_no_panic; auto.
  Qed.

  Lemma fsslice_apply_no_diverge :
    (forall n, set_value n <> Diverge) ->
    forall l obj, fsslice_apply create_kind create_tag set_value l obj <> Diverge.
  Proof.
    intros Hsv l. induction l as [|fs t IH]; intros obj; cbn; [discriminate|].
    destruct (fs_apply _ _ _ fs obj) eqn:E; cbn; try discriminate.
    - apply IH.
    - exfalso. revert E. apply fs_apply_no_diverge; auto.
  Qed.
End FsFilter.

(* ------------------------------------------------------------------------------------------ *)
(* the setters used with the filter are total as well                                          *)

Lemma clear_field_total name n : clear_field name n <> Panic /\ clear_field name n <> Diverge.
Proof.
  unfold clear_field. destruct n as [t s v|kvs|es]; try (destruct (is_null _)); split; discriminate.
Qed.

Lemma set_field_total nonstr name v keep n :
  set_field nonstr name v keep n <> Panic /\ set_field nonstr name v keep n <> Diverge.
Proof.
  unfold set_field. destruct v as [v0|]; [|apply clear_field_total].
  destruct (is_null v0 && negb keep); [apply clear_field_total|].
  destruct n as [t s v|kvs|es].
  - destruct (is_null _); split; discriminate.
  - destruct (find_field name kvs); split; discriminate.
  - destruct (is_null _); split; discriminate.
Qed.

Lemma set_scalar_total v n : set_scalar v n <> Panic /\ set_scalar v n <> Diverge.
Proof.
  unfold set_scalar. destruct n as [t s x|kvs|es]; try (split; discriminate).
  destruct (is_null _); destruct v as [v0|]; try (split; discriminate);
    destruct (is_null v0); split; discriminate.
Qed.

(* ------------------------------------------------------------------------------------------ *)
(* consequences for the named operations                                                        *)

Lemma k_get_total x : k_get x <> Panic /\ k_get x <> Diverge.
Proof. split; discriminate. Qed.

Lemma lookup_panic_iff ps n : lookup ps n = Panic <-> reach None ps n = RLastEmpty.
Proof.
  unfold lookup. rewrite bind_ok_panic.
  apply walk_panic_only_last_on_empty. intros x. apply k_get_total.
Qed.

Lemma lookup_panic_spec ps n :
  lookup ps n = Panic <->
  exists pre post x, ps = (pre ++ PLast :: post)%list /\ lookup pre n = Ok (Some x) /\ empty_or_null x.
Proof.
  rewrite lookup_panic_iff, reach_none_last_empty_iff.
  assert (E : forall pre y, reach None pre n = RAt y <-> lookup pre n = Ok (Some y)).
  { intros pre. revert n. induction pre as [|p pre IH]; intros n y.
    - cbn. split; intros H; inv H; reflexivity.
    - unfold lookup in *. destruct p; cbn.
      + destruct n as [t s v|kvs|es]; try (destruct (is_null _)); try (split; discriminate).
        destruct (find_field k kvs) as [c|]; [|split; discriminate].
        rewrite IH. destruct (walk None pre k_get c) as [[d [r|]]| | |]; cbn; split; intros H; try discriminate; inv H; reflexivity.
      + destruct n as [t s v|kvs|es]; try (destruct (is_null _)); try (split; discriminate).
        destruct (nth_error es i) as [c|]; [|split; discriminate].
        rewrite IH. destruct (walk None pre k_get c) as [[d [r|]]| | |]; cbn; split; intros H; try discriminate; inv H; reflexivity.
      + destruct n as [t s v|kvs|es]; try (destruct (is_null _)); try (split; discriminate).
        destruct es as [|e0 es']; [split; discriminate|].
        destruct (nth_error _ _) as [c|]; [|split; discriminate].
        rewrite IH. destruct (walk None pre k_get c) as [[d [r|]]| | |]; cbn; split; intros H; try discriminate; inv H; reflexivity.
      + destruct n as [t s v0|kvs|es]; try (destruct (is_null _)); try (split; discriminate).
        destruct (find_index _ es) as [i|]; [|split; discriminate].
        destruct (nth_error es i) as [c|]; [|split; discriminate].
        rewrite IH. destruct (walk None pre k_get c) as [[d [r|]]| | |]; cbn; split; intros H; try discriminate; inv H; reflexivity.
      + split; discriminate.
      + split; discriminate.
      + split; discriminate. }
  split; intros [pre [post [x [H1 [H2 H3]]]]]; exists pre, post, x; (split; [exact H1|]); (split; [|exact H3]); apply E; exact H2.
Qed.

Lemma lookup_create_panic_iff leaf ps n :
  lookup_create leaf ps n = Panic <-> reach (Some leaf) ps n = RLastEmpty.
Proof.
  unfold lookup_create. apply walk_panic_only_last_on_empty. intros x. apply k_get_total.
Qed.

Lemma lookup_never_diverges ps n : lookup ps n <> Diverge.
Proof.
  unfold lookup. intros H. apply bind_ok_diverge in H. revert H.
  apply walk_never_diverges. intros x. apply k_get_total.
Qed.

(* a path without "-" never panics *)
Fixpoint no_last (ps : list part) : bool :=
  match ps with
  | [] => true
  | PLast :: _ => false
  | _ :: t => no_last t
  end.

Lemma no_last_app_false pre post : no_last ((pre ++ PLast :: post)%list) = false.
Proof. induction pre as [|p pre IH]; cbn; [reflexivity|]. destruct p; auto. Qed.

Lemma walk_no_last_no_panic {A} (k : node -> res (node * A)) cr ps n :
  no_last ps = true -> (forall x, k x <> Panic) -> walk cr ps k n <> Panic.
Proof.
  intros Hn Hk H. apply walk_panic_only_last_on_empty in H; auto.
  apply reach_last_empty_sound in H. destruct H as [pre [post ->]].
  rewrite no_last_app_false in Hn. discriminate.
Qed.

(* everything above, instantiated with the setters kustomize really passes to the filter: no hypothesis left *)
Lemma core_total_summary :
  (forall nonstr ck ct name v keep create path obj,
      let r := fs_filter ck ct (set_field nonstr name v keep) create path obj in r <> Panic /\ r <> Diverge) /\
  (forall ck ct v create path obj,
      let r := fs_filter ck ct (set_scalar v) create path obj in r <> Panic /\ r <> Diverge) /\
  (forall nonstr ck ct name v keep l obj,
      let r := fsslice_apply ck ct (set_field nonstr name v keep) l obj in r <> Panic /\ r <> Diverge) /\
  (forall ps n, lookup ps n <> Diverge /\ (no_last ps = true -> lookup ps n <> Panic)) /\
  (forall leaf ps n, lookup_create leaf ps n <> Diverge /\ (no_last ps = true -> lookup_create leaf ps n <> Panic)).
Proof.
  repeat split.
  - apply fs_filter_no_panic. intros n. apply set_field_total.
  - apply fs_filter_no_diverge. intros n. apply set_field_total.
  - apply fs_filter_no_panic. intros n. apply set_scalar_total.
  - apply fs_filter_no_diverge. intros n. apply set_scalar_total.
  - apply fsslice_apply_no_panic. intros n. apply set_field_total.
  - apply fsslice_apply_no_diverge. intros n. apply set_field_total.
  - apply lookup_never_diverges.
  - intros Hn H. unfold lookup in H. apply bind_ok_panic in H. revert H.
    apply walk_no_last_no_panic; auto. intros x. apply k_get_total.
  - unfold lookup_create. apply walk_never_diverges. intros x. apply k_get_total.
  - intros Hn. unfold lookup_create. apply walk_no_last_no_panic; auto. intros x. apply k_get_total.
Qed.

(* witnesses: the defect F7c *)
Lemma last_on_empty_witness :
  exists n, lookup [PKey "a"; PLast] n = Panic.
Proof. exists (Map [("a", Seq [])]). reflexivity. Qed.

Lemma last_on_null_witness :
  exists n, lookup [PKey "a"; PLast] n = Panic.
Proof. exists (Map [("a", Scalar TNull SPlain "null")]). reflexivity. Qed.

(* non-vacuity: the hypotheses of the filter theorems are met by the setters actually used *)
Example fs_filter_total_example :
  fs_filter (Some KMap) TNone (set_scalar (Some (Scalar TNone SPlain "v"))) true
            ["spec"; "-"; "x"] (Map [("spec", Seq [])]) <> Panic.
Proof.
  apply fs_filter_no_panic. intros n. apply set_scalar_total.
Qed.

(* path parts produced from strings: "a" then "-" is exactly the Go call yaml.Lookup("a", "-") *)
Example parse_lookup_a_dash : parse_path ["a"; "-"] = [PKey "a"; PLast].
Proof. reflexivity. Qed.
