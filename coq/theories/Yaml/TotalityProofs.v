(* C12: totality (no Panic except one characterised case, no Diverge) of the modelled kyaml core:
   [walk] (PathGetter, Yaml/Fns.v) and [fs_filter] / [fs_apply] / [fsslice_apply] (fieldspec filter,
   Yaml/FieldSpec.v), for ALL documents (ill-typed ones included), all paths, all continuations.
   One lemma group per modelled function, so that further functions can be added alongside. *)
From KV Require Import Yaml.Fns Yaml.FieldSpec.

Ltac inv H := inversion H; subst; clear H.

(* ------------------------------------------------------------------------------------------ *)
(* bind and the two failure outcomes                                                           *)

Lemma bind_ok_panic {A B} (w : res A) (g : A -> B) :
  (do r <- w; Ok (g r)) = Panic <-> w = Panic.
Proof. destruct w; cbn; split; intros H; try discriminate; auto. Qed.

Lemma bind_ok_diverge {A B} (w : res A) (g : A -> B) :
  (do r <- w; Ok (g r)) = Diverge <-> w = Diverge.
Proof. destruct w; cbn; split; intros H; try discriminate; auto. Qed.

(* ------------------------------------------------------------------------------------------ *)
(* walk: where the traversal ends, independently of the continuation                           *)

Inductive reach_res :=
| RAt (x : node)      (* the continuation is applied to x *)
| RStop.              (* path absent or malformed: the continuation is not applied *)

Fixpoint reach (cr : option kind) (ps : list part) (n : node) {struct ps} : reach_res :=
  match ps with
  | [] => RAt n
  | p :: ps' =>
      match p with
      | PKey name =>
          match n with
          | Map kvs =>
              match find_field name kvs with
              | Some x => reach cr ps' x
              | None =>
                  match cr with
                  | None => RStop
                  | Some leaf => reach cr ps' (empty_of (kind_before (hd_error ps') leaf))
                  end
              end
          | _ => RStop
          end
      | PIdx i =>
          match n with
          | Seq es => match nth_error es i with Some e => reach cr ps' e | None => RStop end
          | _ => RStop
          end
      | PLast =>
          match n with
          | Seq es =>
              match es with
              | [] => RStop
              | _ => match nth_error es (List.length es - 1) with
                     | Some e => reach cr ps' e
                     | None => RStop
                     end
              end
          | _ => RStop
          end
      | PSel nm v =>
          match n with
          | Seq es =>
              match find_index (sel_match nm v) es with
              | Some i => match nth_error es i with Some e => reach cr ps' e | None => RStop end
              | None => match cr with None => RStop | Some _ => reach cr ps' (sel_new nm v) end
              end
          | _ =>
              if is_null n
              then match cr with None => RStop | Some _ => reach cr ps' (sel_new nm v) end
              else RStop
          end
      | PBadSel | PNeg | PWild => RStop
      end
  end.

Lemma nth_last_some {T} (e0 : T) es : exists e, nth_error (e0 :: es) (List.length (e0 :: es) - 1) = Some e.
Proof.
  assert (H : List.length (e0 :: es) - 1 < List.length (e0 :: es)) by (cbn; lia).
  apply nth_error_Some in H. destruct (nth_error _ _) as [e|]; [eauto|congruence].
Qed.

Section Walk.
  Context {A : Type}.
  Variable k : node -> res (node * A).

  Ltac stop := split; [discriminate | intros [x [H _]]; discriminate].

  (* walk has no panic of its own (since fix 5cf7cc6 of ElementIndexer): it returns Panic exactly
     when it reaches a node on which the continuation panics *)
  Lemma walk_panic_iff cr ps : forall n,
    walk cr ps k n = Panic <-> exists x, reach cr ps n = RAt x /\ k x = Panic.
  Proof.
    induction ps as [|p ps IH]; intros n.
    - cbn. rewrite bind_ok_panic. split.
      + intros H. exists n. auto.
      + intros [x [H1 H2]]. inv H1. exact H2.
    - destruct p; cbn.
      + destruct n as [t s v|kvs|es].
        * destruct (is_null _); stop.
        * destruct (find_field k0 kvs) as [x|].
          -- rewrite bind_ok_panic. apply IH.
          -- destruct cr as [leaf|]; [rewrite bind_ok_panic; apply IH|stop].
        * stop.
      + destruct n as [t s v|kvs|es].
        * destruct (is_null _); stop.
        * stop.
        * destruct (nth_error es i) as [e|]; [rewrite bind_ok_panic; apply IH|stop].
      + destruct n as [t s v|kvs|es].
        * destruct (is_null _); stop.
        * cbn. stop.
        * destruct es as [|e0 es']; [stop|].
          destruct (nth_last_some e0 es') as [e He]. rewrite He.
          rewrite bind_ok_panic. apply IH.
      + destruct n as [t s v0|kvs|es].
        * destruct (is_null _); [|stop].
          destruct cr as [leaf|]; [rewrite bind_ok_panic; apply IH|stop].
        * cbn. stop.
        * destruct (find_index (sel_match nm v) es) as [i|].
          -- destruct (nth_error es i) as [e|]; [rewrite bind_ok_panic; apply IH|stop].
          -- destruct cr as [leaf|]; [rewrite bind_ok_panic; apply IH|stop].
      + stop.
      + stop.
      + stop.
  Qed.

  (* walk has no fuel: it can only "diverge" by handing on a Diverge of its continuation *)
  Lemma walk_diverge_iff cr ps : forall n,
    walk cr ps k n = Diverge <-> exists x, reach cr ps n = RAt x /\ k x = Diverge.
  Proof.
    induction ps as [|p ps IH]; intros n.
    - cbn. rewrite bind_ok_diverge. split.
      + intros H. exists n. auto.
      + intros [x [H1 H2]]. inv H1. exact H2.
    - destruct p; cbn.
      + destruct n as [t s v|kvs|es].
        * destruct (is_null _); stop.
        * destruct (find_field k0 kvs) as [x|].
          -- rewrite bind_ok_diverge. apply IH.
          -- destruct cr as [leaf|]; [rewrite bind_ok_diverge; apply IH|stop].
        * stop.
      + destruct n as [t s v|kvs|es].
        * destruct (is_null _); stop.
        * stop.
        * destruct (nth_error es i) as [e|]; [rewrite bind_ok_diverge; apply IH|stop].
      + destruct n as [t s v|kvs|es].
        * destruct (is_null _); stop.
        * cbn. stop.
        * destruct es as [|e0 es']; [stop|].
          destruct (nth_last_some e0 es') as [e He]. rewrite He.
          rewrite bind_ok_diverge. apply IH.
      + destruct n as [t s v0|kvs|es].
        * destruct (is_null _); [|stop].
          destruct cr as [leaf|]; [rewrite bind_ok_diverge; apply IH|stop].
        * cbn. stop.
        * destruct (find_index (sel_match nm v) es) as [i|].
          -- destruct (nth_error es i) as [e|]; [rewrite bind_ok_diverge; apply IH|stop].
          -- destruct cr as [leaf|]; [rewrite bind_ok_diverge; apply IH|stop].
      + stop.
      + stop.
      + stop.
  Qed.

  Lemma walk_never_diverges cr ps n :
    (forall x, k x <> Diverge) -> walk cr ps k n <> Diverge.
  Proof.
    intros Hk H. apply walk_diverge_iff in H. destruct H as [x [_ H]]. exact (Hk x H).
  Qed.

  Lemma walk_never_panics cr ps n :
    (forall x, k x <> Panic) -> walk cr ps k n <> Panic.
  Proof.
    intros Hk H. apply walk_panic_iff in H. destruct H as [x [_ H]]. exact (Hk x H).
  Qed.
End Walk.

(* ------------------------------------------------------------------------------------------ *)
(* fs_filter (fieldspec.Filter.filter / handleMap / handleSequence)                             *)

Lemma clean_path_single_len s : List.length (clean_path [s]) <= 1.
Proof. unfold clean_path. cbn. destruct (negb _); cbn; lia. Qed.

Lemma parse_path_single s : parse_path [s] = [] \/ exists p, parse_path [s] = [p].
Proof.
  unfold parse_path. pose proof (clean_path_single_len s) as H.
  destruct (clean_path [s]) as [|a [|b l]]; cbn in *; [left; auto|right; eauto|lia].
Qed.

Section FsFilter.
  Variable create_kind : option kind.
  Variable create_tag : tag.
  Variable set_value : node -> res node.

  Notation fsf := (fs_filter create_kind create_tag set_value).

  Lemma fs_filter_nil create obj : fsf create [] obj = set_value obj.
  Proof. reflexivity. Qed.

  (* the sequence traversal of handleSequence as a plain list function *)
  Fixpoint goes (f : node -> res node) (l : list node) : res (list node) :=
    match l with
    | [] => Ok []
    | e :: t => do e' <- f e; do t' <- goes f t; Ok (e' :: t')
    end.

  Lemma fs_filter_cons_seq create p rest es :
    fsf create (p :: rest) (Seq es) =
    do es' <- goes (fsf create (p :: rest)) es; Ok (Seq es').
  Proof.
    cbn. f_equal.
    induction es as [|e t IH]; cbn; [reflexivity|].
    rewrite <- IH. reflexivity.
  Qed.

  Lemma goes_bad (bad : forall X, res X -> Prop) f l :
    (forall X Y (w : res X) (g : X -> res Y), bad Y (bind w g) -> bad X w \/ exists a, w = Ok a /\ bad Y (g a)) ->
    (forall X (a : X), ~ bad X (Ok a)) ->
    Forall (fun e => ~ bad _ (f e)) l -> ~ bad _ (goes f l).
  Proof.
    intros Hb Hok. induction 1 as [|e t He Ht IH]; cbn.
    - apply Hok.
    - intros H. apply Hb in H. destruct H as [H|[a [_ H]]]; [exact (He H)|].
      apply Hb in H. destruct H as [H|[b [_ H]]]; [exact (IH H)|]. exact (Hok _ _ H).
  Qed.

  Definition is_panic X (r : res X) : Prop := r = Panic.
  Definition is_diverge X (r : res X) : Prop := r = Diverge.

  Lemma bind_panic_inv X Y (w : res X) (g : X -> res Y) :
    is_panic Y (bind w g) -> is_panic X w \/ exists a, w = Ok a /\ is_panic Y (g a).
  Proof. unfold is_panic. destruct w; cbn; intros H; try discriminate; eauto. Qed.

  Lemma bind_diverge_inv X Y (w : res X) (g : X -> res Y) :
    is_diverge Y (bind w g) -> is_diverge X w \/ exists a, w = Ok a /\ is_diverge Y (g a).
  Proof. unfold is_diverge. destruct w; cbn; intros H; try discriminate; eauto. Qed.

  (* the fieldspec filter never panics (whatever the document, path and create flag),
     provided SetValue does not *)
  Lemma fs_filter_no_panic :
    (forall n, set_value n <> Panic) ->
    forall create path obj, fsf create path obj <> Panic.
  Proof.
    intros Hsv create path. induction path as [|p rest IHp]; intros obj.
    - rewrite fs_filter_nil. apply Hsv.
    - induction obj as [t s v|kvs IHk|es IHe] using node_ind'.
      + cbn. destruct t; discriminate.
      + cbn. destruct (trim_suffix "[]" p =? "")%string; [discriminate|].
        intros H. apply bind_ok_panic in H. apply walk_panic_iff in H.
        destruct H as [x [_ H]].
        apply bind_ok_panic in H. exact (IHp _ H).
      + rewrite fs_filter_cons_seq. intros H. apply bind_ok_panic in H. revert H.
        apply (goes_bad is_panic); [exact bind_panic_inv|unfold is_panic; discriminate|exact IHe].
  Qed.

  Lemma fs_filter_no_diverge :
    (forall n, set_value n <> Diverge) ->
    forall create path obj, fsf create path obj <> Diverge.
  Proof.
    intros Hsv create path. induction path as [|p rest IHp]; intros obj.
    - rewrite fs_filter_nil. apply Hsv.
    - induction obj as [t s v|kvs IHk|es IHe] using node_ind'.
      + cbn. destruct t; discriminate.
      + cbn. destruct (trim_suffix "[]" p =? "")%string; [discriminate|].
        intros H. apply bind_ok_diverge in H. apply walk_diverge_iff in H.
        destruct H as [x [_ H]].
        apply bind_ok_diverge in H. exact (IHp _ H).
      + rewrite fs_filter_cons_seq. intros H. apply bind_ok_diverge in H. revert H.
        apply (goes_bad is_diverge); [exact bind_diverge_inv|unfold is_diverge; discriminate|exact IHe].
  Qed.

  Lemma fs_apply_no_panic :
    (forall n, set_value n <> Panic) ->
    forall fs obj, fs_apply create_kind create_tag set_value fs obj <> Panic.
  Proof.
    intros Hsv fs obj. unfold fs_apply. destruct (is_match_gvk fs obj); [|discriminate].
    apply fs_filter_no_panic; auto.
  Qed.

  Lemma fs_apply_no_diverge :
    (forall n, set_value n <> Diverge) ->
    forall fs obj, fs_apply create_kind create_tag set_value fs obj <> Diverge.
  Proof.
    intros Hsv fs obj. unfold fs_apply. destruct (is_match_gvk fs obj); [|discriminate].
    apply fs_filter_no_diverge; auto.
  Qed.

  Lemma fsslice_apply_no_panic :
    (forall n, set_value n <> Panic) ->
    forall l obj, fsslice_apply create_kind create_tag set_value l obj <> Panic.
  Proof.
    intros Hsv l. induction l as [|fs t IH]; intros obj; cbn; [discriminate|].
    destruct (fs_apply _ _ _ fs obj) eqn:E; cbn; try discriminate.
    - apply IH.
    - exfalso. revert E. apply fs_apply_no_panic; auto.
  Qed.

  Lemma fsslice_apply_no_diverge :
    (forall n, set_value n <> Diverge) ->
    forall l obj, fsslice_apply create_kind create_tag set_value l obj <> Diverge.
  Proof.
    intros Hsv l. induction l as [|fs t IH]; intros obj; cbn; [discriminate|].
    destruct (fs_apply _ _ _ fs obj) eqn:E; cbn; try discriminate.
    - apply IH.
    - exfalso. revert E. apply fs_apply_no_diverge; auto.
  Qed.
End FsFilter.

(* ------------------------------------------------------------------------------------------ *)
(* the setters used with the filter are total as well                                          *)

Lemma clear_field_total name n : clear_field name n <> Panic /\ clear_field name n <> Diverge.
Proof.
  unfold clear_field. destruct n as [t s v|kvs|es]; try (destruct (is_null _)); split; discriminate.
Qed.

Lemma set_field_total nonstr name v keep n :
  set_field nonstr name v keep n <> Panic /\ set_field nonstr name v keep n <> Diverge.
Proof.
  unfold set_field. destruct v as [v0|]; [|apply clear_field_total].
  destruct (is_null v0 && negb keep); [apply clear_field_total|].
  destruct n as [t s v|kvs|es].
  - destruct (is_null _); split; discriminate.
  - destruct (find_field name kvs); split; discriminate.
  - destruct (is_null _); split; discriminate.
Qed.

Lemma set_scalar_total v n : set_scalar v n <> Panic /\ set_scalar v n <> Diverge.
Proof.
  unfold set_scalar. destruct n as [t s x|kvs|es]; try (split; discriminate).
  destruct (is_null _); destruct v as [v0|]; try (split; discriminate);
    destruct (is_null v0); split; discriminate.
Qed.

(* ------------------------------------------------------------------------------------------ *)
(* consequences for the named operations                                                        *)

Lemma k_get_total x : k_get x <> Panic /\ k_get x <> Diverge.
Proof. split; discriminate. Qed.

Lemma lookup_never_panics ps n : lookup ps n <> Panic.
Proof.
  unfold lookup. intros H. apply bind_ok_panic in H. revert H.
  apply walk_never_panics. intros x. apply k_get_total.
Qed.

Lemma lookup_create_never_panics leaf ps n : lookup_create leaf ps n <> Panic.
Proof. unfold lookup_create. apply walk_never_panics. intros x. apply k_get_total. Qed.

Lemma lookup_never_diverges ps n : lookup ps n <> Diverge.
Proof.
  unfold lookup. intros H. apply bind_ok_diverge in H. revert H.
  apply walk_never_diverges. intros x. apply k_get_total.
Qed.

Lemma lookup_create_never_diverges leaf ps n : lookup_create leaf ps n <> Diverge.
Proof. unfold lookup_create. apply walk_never_diverges. intros x. apply k_get_total. Qed.

(* everything above, instantiated with the setters kustomize really passes to the filter: no hypothesis left *)
Lemma core_total_summary :
  (forall nonstr ck ct name v keep create path obj,
      let r := fs_filter ck ct (set_field nonstr name v keep) create path obj in r <> Panic /\ r <> Diverge) /\
  (forall ck ct v create path obj,
      let r := fs_filter ck ct (set_scalar v) create path obj in r <> Panic /\ r <> Diverge) /\
  (forall nonstr ck ct name v keep l obj,
      let r := fsslice_apply ck ct (set_field nonstr name v keep) l obj in r <> Panic /\ r <> Diverge) /\
  (forall ps n, lookup ps n <> Panic /\ lookup ps n <> Diverge) /\
  (forall leaf ps n, lookup_create leaf ps n <> Panic /\ lookup_create leaf ps n <> Diverge).
Proof.
  repeat split.
  - apply fs_filter_no_panic. intros n. apply set_field_total.
  - apply fs_filter_no_diverge. intros n. apply set_field_total.
  - apply fs_filter_no_panic. intros n. apply set_scalar_total.
  - apply fs_filter_no_diverge. intros n. apply set_scalar_total.
  - apply fsslice_apply_no_panic. intros n. apply set_field_total.
  - apply fsslice_apply_no_diverge. intros n. apply set_field_total.
  - apply lookup_never_panics.
  - apply lookup_never_diverges.
  - apply lookup_create_never_panics.
  - apply lookup_create_never_diverges.
Qed.

(* the former defect F7c (fixed by 5cf7cc6): "-" on an empty list or a null node finds nothing *)
Example last_on_empty_now_absent :
  lookup (parse_path ["a"; "-"]) (Map [("a", Seq [])]) = Ok None /\
  lookup (parse_path ["a"; "-"]) (Map [("a", Scalar TNull SPlain "null")]) = Ok None /\
  lookup (parse_path ["a"; "-"]) (Map [("a", Seq [Scalar TStr SPlain "x"])]) = Ok (Some (Scalar TStr SPlain "x")).
Proof. repeat split. Qed.

(* non-vacuity: the hypotheses of the filter theorems are met by the setters actually used *)
Example fs_filter_total_example :
  fs_filter (Some KMap) TNone (set_scalar (Some (Scalar TNone SPlain "v"))) true
            ["spec"; "-"; "x"] (Map [("spec", Seq [])]) <> Panic.
Proof.
  apply fs_filter_no_panic. intros n. apply set_scalar_total.
Qed.

(* path parts produced from strings: "a" then "-" is exactly the Go call yaml.Lookup("a", "-") *)
Example parse_lookup_a_dash : parse_path ["a"; "-"] = [PKey "a"; PLast].
Proof. reflexivity. Qed.
