(* Obligations over the GENERATED builtin field-spec tables (Gen/FieldSpecs.v, regenerated from
   /repo/api/internal/konfig/builtinpluginconsts on every run): the hypotheses of the C14 field-spec theorems
   hold for every row, so that the frame lemma (all rows) and the denotes theorem (non-creating rows)
   apply to the field specs kustomize actually uses. Editing a table in /repo re-checks these. *)
From KV Require Import Yaml.FieldSpec Yaml.FieldSpecSpec Yaml.FieldSpecProofs Gen.FieldSpecs.

Definition gen_all_fs : list fieldspec :=
  gen_name_prefix_fs ++ gen_name_suffix_fs ++ gen_common_labels_fs ++ gen_template_labels_fs ++
  gen_common_annotations_fs ++ gen_namespace_fs ++ gen_images_fs ++ gen_replicas_fs ++ gen_var_reference_fs.

(* every segment of every builtin path names a plain map key (possibly with a "[]" hint):
   hypothesis of fs_filter_frame / fs_apply_frame / fsslice_apply_frame *)
Lemma gen_fs_segments_ok : forallb (fun fs => forallb seg_ok (fs_segments fs)) gen_all_fs = true.
Proof. vm_compute. reflexivity. Qed.

(* every builtin field spec that does not create has plain segments only: hypothesis of fs_filter_denotes *)
Lemma gen_fs_nocreate_plain :
  forallb (fun fs => fs_create fs || forallb plain_seg (fs_segments fs)) gen_all_fs = true.
Proof. vm_compute. reflexivity. Qed.

(* the tables are not empty (the two obligations above are not vacuous) *)
Lemma gen_fs_nonempty :
  (10 <=? List.length gen_all_fs)%nat = true /\
  (1 <=? List.length (filter (fun fs => negb (fs_create fs)) gen_all_fs))%nat = true /\
  (1 <=? List.length (filter (fun fs => existsb seg_hint (fs_segments fs)) gen_all_fs))%nat = true.
Proof. vm_compute. repeat split. Qed.
