(* PathMatcher WITH Create, every path shape.
   Invariant about freshly created nodes: started on a node without sequences and nulls (what
   Create makes: empty scalars, mappings of such, the element doSeq appends) or on a fresh empty
   sequence entered by an index / list selector, the matcher never answers "nothing found":
   it returns at least one node, or fails.  Consequences: doSeq's create-and-retry stops after
   the element it appended is visited (totality under self_matching, any path, any document). *)
From KV Require Import Base.Regex Yaml.Match Yaml.MatchProofs Yaml.MatchTotalProofs.

Ltac inv H := inversion H; subst; clear H.

(* no sequence and no null anywhere *)
Fixpoint wfree (n : node) : bool :=
  match n with
  | Scalar t _ _ => negb (tag_eqb t TNull)
  | Map kvs => (fix go (l : list (string * node)) : bool :=
                  match l with [] => true | (_, x) :: t => wfree x && go t end) kvs
  | Seq _ => false
  end.

Lemma wfree_find name : forall kvs x, wfree (Map kvs) = true -> find_field name kvs = Some x -> wfree x = true.
Proof.
  induction kvs as [|[k v] t IH]; cbn; intros x W F; [discriminate|].
  apply andb_prop in W. destruct W as [W1 W2].
  destruct (String.eqb k name); [inv F; auto|]. apply IH; auto.
Qed.

Lemma wfree_not_null n : wfree n = true -> is_null n = false.
Proof. destruct n as [t s v| |]; cbn; auto. destruct t; cbn; auto; discriminate. Qed.

Definition not_wild (path : list string) : bool :=
  match path with
  | [] => true
  | p :: _ => match classify_pm p with PPWild => false | _ => true end
  end.

(* where Create-mode matching may start without ever answering "nothing" *)
Definition ok_start (path : list string) (n : node) : Prop :=
  wfree n = true \/ (n = Seq [] /\ not_wild path = true).

Lemma classify_star : classify_pm "*" = PPWild.
Proof. reflexivity. Qed.

Lemma is_list_index_not_wild p : is_list_index p = true -> classify_pm p <> PPWild.
Proof.
  unfold classify_pm. intros H. destruct (atoi p) as [[neg m]|].
  - destruct (neg && negb (m =? 0)%N); [rewrite H|]; discriminate.
  - rewrite H. discriminate.
Qed.

Lemma is_idx_number_not_wild p : is_idx_number p = true -> classify_pm p <> PPWild.
Proof.
  unfold is_idx_number, classify_pm. destruct (atoi p) as [[neg m]|]; [|discriminate].
  destruct (neg && negb (m =? 0)%N); cbn; [discriminate|discriminate].
Qed.

(* the node Create makes for a missing piece can start the rest of the path *)
Lemma fresh_ok_start nonstr rest leaf :
  ok_start rest (quote11 nonstr (empty_of (path_part_kind (hd "" rest) leaf))).
Proof.
  unfold ok_start, path_part_kind.
  destruct rest as [|p rest']; cbn [hd].
  - cbn. destruct leaf; cbn; auto; destruct (nonstr ""); cbn; auto.
  - destruct (is_list_index p) eqn:L.
    + right. split; auto. cbn. pose proof (is_list_index_not_wild p L).
      destruct (classify_pm p); auto; congruence.
    + destruct (is_idx_number p) eqn:I.
      * right. split; auto. cbn. pose proof (is_idx_number_not_wild p I).
        destruct (classify_pm p); auto; congruence.
      * destruct (String.eqb p "") eqn:E.
        -- apply String.eqb_eq in E; subst p. destruct leaf; cbn; auto; destruct (nonstr ""); cbn; auto.
        -- left. reflexivity.
Qed.

Lemma fresh_ok_start' rest leaf : ok_start rest (empty_of (path_part_kind (hd "" rest) leaf)).
Proof.
  pose proof (fresh_ok_start (fun _ => false) rest leaf) as H.
  destruct (path_part_kind (hd "" rest) leaf); cbn in *; auto.
Qed.

Lemma new_elem_wfree fld v : wfree (pm_new_elem fld v) = true.
Proof. unfold pm_new_elem. destruct (String.eqb fld ""); reflexivity. Qed.

(* "did not answer nothing" *)
Definition not_nothing {A} (r : res (A * list hit)) : Prop := forall x, r <> Ok (x, []).

Lemma not_nothing_push i r : not_nothing r ->
  forall f : node -> node, not_nothing (do x <- r; Ok (f (fst x), map (push i) (snd x))).
Proof.
  intros H f x. destruct r as [[y h]| | |]; cbn; try discriminate.
  intros E. inv E. destruct h; [apply (H y); auto|discriminate].
Qed.

Lemma retry_not_nothing visit new_elem : forall f es,
  not_nothing (retry_loop visit new_elem true f es).
Proof.
  induction f as [|f IH]; intros es x; cbn; [discriminate|].
  destruct (visit_elems visit 0 es) as [[es1 h1]| | |]; cbn; try discriminate.
  destruct h1; [apply IH|]. intros E. inv E.
Qed.

Section Create.
  Variable parse : string -> option re.
  Variable enc : node -> string.
  Variable nonstr : string -> bool.
  Variable k : kind.

  Notation pmc := (pm parse enc nonstr (Some k)).

  (* the invariant *)
  Lemma create_not_nothing : forall fuel path n, ok_start path n -> not_nothing (pmc fuel path n).
  Proof.
    intros fuel. induction path as [|p rest IH]; intros n St; cbn [pm].
    - intros x E. inv E.
    - destruct (classify_pm p) as [i|raw| |name] eqn:Cp.
      + (* index *)
        destruct St as [W|[-> _]].
        * destruct n as [t s v|kvs|es]; try (cbn in W; discriminate W).
          -- rewrite (wfree_not_null _ W). intros x; discriminate.
          -- intros x; discriminate.
        * cbn [List.length]. destruct (Nat.eqb 0 i) eqn:E0; cbn [andb is_create].
          -- apply not_nothing_push with (f := fun e => Seq ([] ++ [e])). apply IH, fresh_ok_start'.
          -- destruct i; [discriminate|]. cbn. intros x; discriminate.
      + (* list selector *)
        destruct (split_index_name_value raw) as [[fld v]|]; [|intros x; discriminate].
        destruct St as [W|[-> _]].
        * destruct n as [t s v0|kvs|es]; try (cbn in W; discriminate W).
          -- rewrite (wfree_not_null _ W). intros x; discriminate.
          -- intros x; discriminate.
        * intros x. match goal with |- context [retry_loop ?vis ?ne ?cr ?f ?es] =>
            pose proof (retry_not_nothing vis ne f es) as R end.
          cbn [is_create] in *.
          match goal with |- (do r <- ?X; _) <> _ => destruct X as [[es1 h1]| | |] eqn:RR end; cbn; try discriminate.
          intros E. inv E. eapply R; eauto.
      + (* wildcard *)
        destruct St as [W|[-> Nw]].
        * destruct n as [t s v|kvs|es]; try (cbn in W; discriminate W).
          -- rewrite (wfree_not_null _ W). intros x; discriminate.
          -- intros x; discriminate.
        * cbn in Nw. rewrite Cp in Nw. discriminate.
      + (* field *)
        destruct (String.eqb name "") eqn:En.
        * destruct St as [W|[-> _]]; [|intros x; discriminate].
          destruct n as [t s v|kvs|es]; try (cbn in W; discriminate W); [|intros x; discriminate].
          rewrite (wfree_not_null _ W). cbn [negb andb].
          destruct (String.eqb v ""); [apply IH; left; auto|].
          cbn [is_create]. intros x.
          pose proof (IH _ (fresh_ok_start' rest (leaf_kind (Some k)))) as Hs.
          destruct (pmc fuel rest _) as [[y h]| | |]; cbn; try discriminate.
          intros E. inv E. destruct h; [eapply Hs; eauto|discriminate].
        * destruct St as [W|[-> _]]; [|intros x; discriminate].
          destruct n as [t s v|kvs|es]; try (cbn in W; discriminate W).
          -- rewrite (wfree_not_null _ W). intros x; discriminate.
          -- destruct (find_field name kvs) as [y|] eqn:F.
             ++ apply not_nothing_push with (f := fun e => Map (set_first name e kvs)).
                apply IH. left. eapply wfree_find; eauto.
             ++ cbn [is_create].
                apply not_nothing_push with (f := fun e => Map (kvs ++ [(name, e)])).
                apply IH, fresh_ok_start.
  Qed.

  Definition self_matching' := self_matching parse enc.

  (* totality with Create, for every path and every document *)
  Theorem pm_create_total_general : forall fuel path,
    self_matching' path -> forall n, pmc (S (S fuel)) path n <> Diverge.
  Proof.
    intros fuel. induction path as [|p rest IH]; intros Hm n; cbn [pm]; [discriminate|].
    assert (Hm' : self_matching' rest) by (intros q; intros; eapply Hm; eauto; right; auto).
    specialize (IH Hm').
    destruct (classify_pm p) as [i|raw| |name] eqn:Cp.
    - destruct n as [t s v|kvs|es].
      + destruct (is_null _); [|discriminate].
        destruct (Nat.eqb i 0 && is_create (Some k)); [|discriminate].
        match goal with |- (do r <- ?X; _) <> _ => pose proof (IH (empty_of (path_part_kind (hd "" rest) (leaf_kind (Some k))))) as I; destruct X as [[x h]| | |] end; cbn; try discriminate; auto.
      + cbn. discriminate.
      + destruct (Nat.eqb (List.length es) i && is_create (Some k)).
        * match goal with |- (do r <- ?X; _) <> _ => pose proof (IH (empty_of (path_part_kind (hd "" rest) (leaf_kind (Some k))))) as I; destruct X as [[x h]| | |] end; cbn; try discriminate; auto.
        * destruct (nth_error es i) as [e|]; [|discriminate].
          specialize (IH e). destruct (pmc _ rest e) as [[x h]| | |]; cbn; try discriminate; auto.
    - destruct (split_index_name_value raw) as [[fld v]|] eqn:Sp; [|discriminate].
      assert (Praw : p = raw).
      { unfold classify_pm in Cp. destruct (atoi p) as [[neg m]|];
          [destruct (neg && negb (m =? 0)%N); [|discriminate]|];
          destruct (is_list_index p); try (inv Cp; reflexivity);
          destruct (String.eqb p "*"); discriminate. }
      subst raw.
      match goal with |- context [retry_loop ?vis ?ne ?cr] =>
        assert (R : forall es, retry_loop vis ne cr (S (S fuel)) es <> Diverge)
      end.
      { cbn [is_create]. intros es0. cbn [retry_loop].
        match goal with |- context [visit_elems ?vis 0 es0] => set (visit := vis) end.
        assert (Hv : forall e, visit e <> Diverge).
        { intros e. subst visit. cbn -[elem_regex]. rewrite elem_regex_text.
          destruct (parse v) as [r|]; cbn; [|discriminate].
          destruct (String.eqb fld ""); [destruct (matches r (enc e)); discriminate|].
          destruct e as [t s v0|kvs|es1]; try discriminate.
          destruct (find_field fld kvs) as [x|]; [|discriminate].
          destruct (matches r (enc x)); [apply IH|discriminate]. }
        assert (Hn : forall x, visit (pm_new_elem fld v) <> Ok (x, [])).
        { intros x. subst visit. cbn -[elem_regex]. rewrite elem_regex_text.
          destruct (parse v) as [r|] eqn:Pv; cbn; [|discriminate].
          assert (Self : matches r (enc (Scalar TNone SPlain v)) = true) by (eapply Hm; eauto; left; auto).
          unfold pm_new_elem. destruct (String.eqb fld "") eqn:Ef.
          - rewrite Self. discriminate.
          - cbn [find_field]. rewrite String.eqb_refl, Self.
            apply create_not_nothing. left. reflexivity. }
        pose proof (visit_elems_total visit es0 0 (fun e _ => Hv e)) as T1.
        destruct (visit_elems visit 0 es0) as [[es1 h1]| | |]; cbn; try discriminate; [|congruence].
        destruct h1; [|discriminate].
        pose proof (visit_elems_total visit (es1 ++ [pm_new_elem fld v]) 0 (fun e _ => Hv e)) as T2.
        destruct (visit_elems visit 0 (es1 ++ [pm_new_elem fld v])) as [[es2 h2]| | |] eqn:V; cbn; try discriminate; [|congruence].
        destruct h2 as [|x t]; [|discriminate]. exfalso.
        clear -V Hn. revert V. generalize 0 as j. generalize es2.
        induction es1 as [|a t IHl]; intros l j V; cbn in V.
        - destruct (visit (pm_new_elem fld v)) as [[x h]| | |] eqn:Fx; cbn in V; try discriminate.
          inv V. destruct h; [eapply Hn; eauto|discriminate].
        - destruct (visit a) as [[a1 h1]| | |]; cbn in V; try discriminate.
          destruct (visit_elems visit (S j) (t ++ [pm_new_elem fld v])) as [[t1 h2]| | |] eqn:V2; cbn in V; try discriminate.
          inv V. destruct h2; [eapply IHl; eauto|]. destruct (map (push j) h1); discriminate. }
      destruct n as [t s v0|kvs|es].
      + destruct (is_null _); [|discriminate].
        specialize (R []). destruct (retry_loop _ _ _ _ []) as [[x h]| | |]; cbn; try discriminate; auto.
      + discriminate.
      + specialize (R es). destruct (retry_loop _ _ _ _ es) as [[x h]| | |]; cbn; try discriminate; auto.
    - destruct n as [t s v|kvs|es]; try (destruct (is_null _); discriminate); try discriminate.
      assert (V : visit_elems (pmc (S (S fuel)) rest) 0 es <> Diverge)
        by (apply visit_elems_total; intros; apply IH).
      destruct (visit_elems (pmc (S (S fuel)) rest) 0 es) as [[x h]| | |]; cbn; try discriminate; auto.
    - destruct (String.eqb name "").
      + destruct n as [t s v|kvs|es]; try discriminate.
        destruct (negb (is_null (Scalar t s v)) && String.eqb v ""); [apply IH|].
        cbn [is_create].
        match goal with |- (do r <- ?X; _) <> _ => pose proof (IH (empty_of (path_part_kind (hd "" rest) (leaf_kind (Some k))))) as I; destruct X as [[x h]| | |] end; cbn; try discriminate; auto.
      + destruct n as [t s v|kvs|es].
        * destruct (is_null _); [|discriminate]. cbn [is_create].
          match goal with |- (do r <- ?X; _) <> _ => pose proof (IH (quote11 nonstr (empty_of (path_part_kind (hd "" rest) (leaf_kind (Some k)))))) as I; destruct X as [[x h]| | |] end; cbn; try discriminate; auto.
        * destruct (find_field name kvs) as [x|].
          -- specialize (IH x). destruct (pmc _ rest x) as [[x1 h]| | |]; cbn; try discriminate; auto.
          -- cbn [is_create].
             match goal with |- (do r <- ?X; _) <> _ => pose proof (IH (quote11 nonstr (empty_of (path_part_kind (hd "" rest) (leaf_kind (Some k)))))) as I; destruct X as [[x1 h]| | |] end; cbn; try discriminate; auto.
        * discriminate.
  Qed.
End Create.
