(* PathMatcher WITH Create, every path shape.
   Invariant about freshly created nodes: started on a node without sequences and nulls (what
   Create makes: empty scalars, mappings of such, the element doSeq appends) or on a fresh empty
   sequence entered by an index / list selector, the matcher never answers "nothing found":
   it returns at least one node, or fails. *)
From KV Require Import Base.Regex Yaml.Match Yaml.MatchProofs.

Ltac inv H := inversion H; subst; clear H.

(* no sequence and no null anywhere *)
Fixpoint wfree (n : node) : bool :=
  match n with
  | Scalar t _ _ => negb (tag_eqb t TNull)
  | Map kvs => (fix go (l : list (string * node)) : bool :=
                  match l with [] => true | (_, x) :: t => wfree x && go t end) kvs
  | Seq _ => false
  end.

Lemma wfree_find name : forall kvs x, wfree (Map kvs) = true -> find_field name kvs = Some x -> wfree x = true.
Proof.
  induction kvs as [|[k v] t IH]; cbn; intros x W F; [discriminate|].
  apply andb_prop in W. destruct W as [W1 W2].
  destruct (String.eqb k name); [inv F; auto|]. apply IH; auto.
Qed.

Lemma wfree_not_null n : wfree n = true -> is_null n = false.
Proof. destruct n as [t s v| |]; cbn; auto. destruct t; cbn; auto; discriminate. Qed.

Definition not_wild (path : list string) : bool :=
  match path with
  | [] => true
  | p :: _ => match classify_pm p with PPWild => false | _ => true end
  end.

(* where Create-mode matching may start without ever answering "nothing" *)
Definition ok_start (path : list string) (n : node) : Prop :=
  wfree n = true \/ (n = Seq [] /\ not_wild path = true).

Lemma classify_star : classify_pm "*" = PPWild.
Proof. reflexivity. Qed.

Lemma is_list_index_not_wild p : is_list_index p = true -> classify_pm p <> PPWild.
Proof.
  unfold classify_pm. intros H. destruct (atoi p) as [[neg m]|].
  - destruct (neg && negb (m =? 0)%N); [rewrite H|]; discriminate.
  - rewrite H. discriminate.
Qed.

Lemma is_idx_number_not_wild p : is_idx_number p = true -> classify_pm p <> PPWild.
Proof.
  unfold is_idx_number, classify_pm. destruct (atoi p) as [[neg m]|]; [|discriminate].
  destruct (neg && negb (m =? 0)%N); cbn; [discriminate|discriminate].
Qed.

(* the node Create makes for a missing piece can start the rest of the path *)
Lemma fresh_ok_start nonstr rest leaf :
  ok_start rest (quote11 nonstr (empty_of (path_part_kind (hd "" rest) leaf))).
Proof.
  unfold ok_start, path_part_kind.
  destruct rest as [|p rest']; cbn [hd].
  - cbn. destruct leaf; cbn; auto; destruct (nonstr ""); cbn; auto.
  - destruct (is_list_index p) eqn:L.
    + right. split; auto. cbn. pose proof (is_list_index_not_wild p L).
      destruct (classify_pm p); auto; congruence.
    + destruct (is_idx_number p) eqn:I.
      * right. split; auto. cbn. pose proof (is_idx_number_not_wild p I).
        destruct (classify_pm p); auto; congruence.
      * destruct (String.eqb p "") eqn:E.
        -- apply String.eqb_eq in E; subst p. destruct leaf; cbn; auto; destruct (nonstr ""); cbn; auto.
        -- left. reflexivity.
Qed.

Lemma fresh_ok_start' rest leaf : ok_start rest (empty_of (path_part_kind (hd "" rest) leaf)).
Proof.
  pose proof (fresh_ok_start (fun _ => false) rest leaf) as H.
  destruct (path_part_kind (hd "" rest) leaf); cbn in *; auto.
Qed.

Lemma new_elem_wfree fld v : wfree (pm_new_elem fld v) = true.
Proof. unfold pm_new_elem. destruct (String.eqb fld ""); reflexivity. Qed.

(* "did not answer nothing" *)
Definition not_nothing {A} (r : res (A * list hit)) : Prop := forall x, r <> Ok (x, []).

Lemma not_nothing_push i r : not_nothing r ->
  forall f : node -> node, not_nothing (do x <- r; Ok (f (fst x), map (push i) (snd x))).
Proof.
  intros H f x. destruct r as [[y h]| | |]; cbn; try discriminate.
  intros E. inv E. destruct h; [apply (H y); auto|discriminate].
Qed.

Lemma retry_not_nothing visit new_elem : forall f app es,
  not_nothing (retry_loop visit new_elem true app f es).
Proof.
  induction f as [|f IH]; intros app es x; cbn; [discriminate|].
  destruct (visit_elems visit 0 es) as [[es1 h1]| | |]; cbn; try discriminate.
  destruct h1; [|intros E; inv E].
  destruct app; cbn; solve [discriminate | apply IH].
Qed.

Section Create.
  Variable parse : string -> option re.
  Variable enc : node -> string.
  Variable nonstr : string -> bool.
  Variable k : kind.

  Notation pmc := (pm parse enc nonstr (Some k)).

  (* the invariant *)
  Lemma create_not_nothing : forall fuel path n, ok_start path n -> not_nothing (pmc fuel path n).
  Proof.
    intros fuel. induction path as [|p rest IH]; intros n St; cbn [pm].
    - intros x E. inv E.
    - destruct (classify_pm p) as [i|raw| |name] eqn:Cp.
      + (* index *)
        destruct St as [W|[-> _]].
        * destruct n as [t s v|kvs|es]; try (cbn in W; discriminate W).
          -- rewrite (wfree_not_null _ W). intros x; discriminate.
          -- intros x; discriminate.
        * cbn [List.length]. destruct (Nat.eqb 0 i) eqn:E0; cbn [andb is_create].
          -- apply not_nothing_push with (f := fun e => Seq ([] ++ [e])). apply IH, fresh_ok_start'.
          -- destruct i; [discriminate|]. cbn. intros x; discriminate.
      + (* list selector *)
        destruct (split_index_name_value raw) as [[fld v]|]; [|intros x; discriminate].
        destruct St as [W|[-> _]].
        * destruct n as [t s v0|kvs|es]; try (cbn in W; discriminate W).
          -- rewrite (wfree_not_null _ W). intros x; discriminate.
          -- intros x; discriminate.
        * intros x. match goal with |- context [retry_loop ?vis ?ne ?cr ?app ?f ?es] =>
            pose proof (retry_not_nothing vis ne f app es) as R end.
          cbn [is_create] in *.
          match goal with |- (do r <- ?X; _) <> _ => destruct X as [[es1 h1]| | |] eqn:RR end; cbn; try discriminate.
          intros E. inv E. eapply R; eauto.
      + (* wildcard *)
        destruct St as [W|[-> Nw]].
        * destruct n as [t s v|kvs|es]; try (cbn in W; discriminate W).
          -- rewrite (wfree_not_null _ W). intros x; discriminate.
          -- intros x; discriminate.
        * cbn in Nw. rewrite Cp in Nw. discriminate.
      + (* field *)
        destruct (String.eqb name "") eqn:En.
        * destruct St as [W|[-> _]]; [|intros x; discriminate].
          destruct n as [t s v|kvs|es]; try (cbn in W; discriminate W); [|intros x; discriminate].
          rewrite (wfree_not_null _ W). cbn [negb andb].
          destruct (String.eqb v ""); [apply IH; left; auto|].
          cbn [is_create]. intros x.
          pose proof (IH _ (fresh_ok_start' rest (leaf_kind (Some k)))) as Hs.
          destruct (pmc fuel rest _) as [[y h]| | |]; cbn; try discriminate.
          intros E. inv E. destruct h; [eapply Hs; eauto|discriminate].
        * destruct St as [W|[-> _]]; [|intros x; discriminate].
          destruct n as [t s v|kvs|es]; try (cbn in W; discriminate W).
          -- rewrite (wfree_not_null _ W). intros x; discriminate.
          -- destruct (find_field name kvs) as [y|] eqn:F.
             ++ apply not_nothing_push with (f := fun e => Map (set_first name e kvs)).
                apply IH. left. eapply wfree_find; eauto.
             ++ cbn [is_create].
                apply not_nothing_push with (f := fun e => Map (kvs ++ [(name, e)])).
                apply IH, fresh_ok_start.
  Qed.

End Create.
