(* Proofs about KV.Yaml.Stream: the text-level round trip is the identity on streams of stable documents. *)
From KV Require Import Yaml.Split Yaml.SplitProofs Yaml.Annot Yaml.AnnotProofs Yaml.Stream Fs.PathProofs.
From Coq Require Import ZifyNat.
Local Open Scope list_scope.

Ltac inv H := inversion H; subst; clear H.

(* ---------- the scanner over a quiet text followed by more input ---------- *)

Lemma split_go_app d : forall rest acc m dr sr m',
  mode_ok m -> mode_after d m = Some m' ->
  exists acc', split_go (d ++ rest)%string acc m dr sr = split_go rest acc' m' dr sr /\
               consumed acc' m' = (consumed acc m ++ d)%string /\ mode_ok m'.
Proof.
  induction d as [|c d IH]; intros rest acc m dr sr m' Hm H.
  - cbn in H. inv H. exists acc. rewrite app_empty_r. auto.
  - cbn [append split_go mode_after] in *. destruct m as [|k|l].
    + destruct (Ascii.eqb c nl) eqn:E.
      * apply Ascii.eqb_eq in E; subst c.
        destruct (IH rest acc (MNl 0) dr sr m' ltac:(cbn; auto; lia) H) as (a' & E1 & E2 & E3).
        exists a'. repeat split; auto. rewrite E2. apply quiet_step.
        unfold consumed. cbn. rewrite app_empty_r. reflexivity.
      * destruct (IH rest (String c acc) MDoc dr sr m' ltac:(cbn; auto; lia) H) as (a' & E1 & E2 & E3).
        exists a'. repeat split; auto. rewrite E2. apply quiet_step.
        unfold consumed. rewrite str_rev_cons, !app_empty_r. reflexivity.
    + cbn in Hm. destruct (Ascii.eqb c dash) eqn:Ed.
      * apply Ascii.eqb_eq in Ed; subst c.
        destruct k as [|[|k']].
        -- destruct (IH rest acc (MNl 1) dr sr m' ltac:(cbn; auto; lia) H) as (a' & E1 & E2 & E3).
           exists a'. repeat split; auto. rewrite E2. apply quiet_step.
           unfold consumed. rewrite pending_snoc, app_assoc_s. reflexivity.
        -- destruct (IH rest acc (MNl 2) dr sr m' ltac:(cbn; auto; lia) H) as (a' & E1 & E2 & E3).
           exists a'. repeat split; auto. rewrite E2. apply quiet_step.
           unfold consumed. rewrite pending_snoc, app_assoc_s. reflexivity.
        -- assert (k' = 0) by lia. subst k'.
           destruct (IH rest acc (MSep "") dr sr m' ltac:(cbn; auto; lia) H) as (a' & E1 & E2 & E3).
           exists a'. repeat split; auto. rewrite E2. apply quiet_step.
           unfold consumed. cbn [str_rev str_rev_acc]. rewrite app_empty_r, pending_snoc, app_assoc_s. reflexivity.
      * destruct (Ascii.eqb c nl) eqn:E.
        -- apply Ascii.eqb_eq in E; subst c.
           destruct (IH rest (push_rev (pending k) acc) (MNl 0) dr sr m' ltac:(cbn; auto; lia) H) as (a' & E1 & E2 & E3).
           exists a'. repeat split; auto. rewrite E2. apply quiet_step.
           unfold consumed. rewrite push_rev_spec. cbn [pending dashes]. rewrite !app_assoc_s. reflexivity.
        -- destruct (IH rest (String c (push_rev (pending k) acc)) MDoc dr sr m' ltac:(cbn; auto; lia) H) as (a' & E1 & E2 & E3).
           exists a'. repeat split; auto. rewrite E2. apply quiet_step.
           unfold consumed. rewrite str_rev_cons, push_rev_spec, !app_empty_r, !app_assoc_s. reflexivity.
    + destruct (Ascii.eqb c nl) eqn:E; [discriminate|].
      destruct (IH rest acc (MSep (String c l)) dr sr m' ltac:(cbn; auto; lia) H) as (a' & E1 & E2 & E3).
      exists a'. repeat split; auto. rewrite E2. apply quiet_step.
      unfold consumed. rewrite str_rev_cons, !app_assoc_s. reflexivity.
Qed.

Definition nl_sep : string := String nl enc_sep.     (* "\n---\n" *)

(* after a text that does not end inside a candidate, "\n---\n" closes the document *)
Lemma split_go_sep rest acc m dr sr :
  (m = MDoc \/ exists k, m = MNl k) ->
  split_go (nl_sep ++ rest)%string acc m dr sr =
  split_go rest "" MDoc (consumed acc m :: dr) (sep_text "" :: sr).
Proof.
  intros [->|[k ->]]; unfold nl_sep, enc_sep, consumed.
  - cbn -[str_rev sep_text]. rewrite app_empty_r. reflexivity.
  - cbn -[str_rev sep_text push_rev pending]. rewrite push_rev_spec. reflexivity.
Qed.

(* ---------- splitting a stream written document by document ---------- *)

Definition add_nl (b : string) : string := (b ++ String nl "")%string.

Fixpoint chunk_shape (bs : list string) : list string :=
  match bs with
  | [] => []
  | [b] => [add_nl b]
  | b :: t => b :: chunk_shape t
  end.

Lemma restore_chunk_shape bs : restore_newlines (chunk_shape bs) = map add_nl bs.
Proof.
  induction bs as [|b t IH]; [reflexivity|].
  destruct t as [|b2 t']; [reflexivity|].
  change (chunk_shape (b :: b2 :: t')) with (b :: chunk_shape (b2 :: t')).
  destruct (chunk_shape (b2 :: t')) as [|x L] eqn:E.
  - destruct t'; discriminate.
  - change (restore_newlines (b :: x :: L)) with ((b ++ String nl "")%string :: restore_newlines (x :: L)).
    rewrite IH. reflexivity.
Qed.

Lemma plain_doc_mode b : plain_doc b = true ->
  exists m, mode_after b MDoc = Some m /\ (m = MDoc \/ exists k, m = MNl k) /\ mode_ok m.
Proof.
  unfold plain_doc. intros H. destruct (mode_after b MDoc) as [[|k|l]|] eqn:E; try discriminate.
  - exists MDoc. cbn. auto.
  - exists (MNl k). repeat split; eauto.
    (* k <= 2: the scanner never counts further *)
    assert (G : forall s m m', mode_ok m -> mode_after s m = Some m' -> mode_ok m').
    { clear. induction s as [|c s IH]; intros m m' Hm H; cbn [mode_after] in H; [inv H; auto|].
      destruct m as [|k|l].
      - destruct (Ascii.eqb c nl); (eapply IH; [|eassumption]); cbn; auto; lia.
      - cbn in Hm. destruct (Ascii.eqb c dash).
        + destruct k as [|[|k']]; (eapply IH; [|eassumption]); cbn; auto; lia.
        + destruct (Ascii.eqb c nl); (eapply IH; [|eassumption]); cbn; auto; lia.
      - destruct (Ascii.eqb c nl); [discriminate|]. (eapply IH; [|eassumption]); cbn; auto. }
    eapply (G b MDoc); eauto. cbn; auto.
Qed.

Lemma join_docs_cons2 d d2 t : join_docs (d :: d2 :: t) = (d ++ enc_sep ++ join_docs (d2 :: t))%string.
Proof. reflexivity. Qed.

Lemma split_go_stream bs : bs <> [] -> Forall (fun b => plain_doc b = true) bs ->
  forall dr sr,
    split_go (join_docs (map add_nl bs)) "" MDoc dr sr =
    Ok (rev dr ++ chunk_shape bs, rev sr ++ repeat (sep_text "") (List.length bs - 1)).
Proof.
  induction bs as [|b [|b2 t] IH]; intros Hne Hp dr sr; [congruence| |].
  - inv Hp. cbn [map join_docs chunk_shape List.length repeat Nat.sub].
    destruct (plain_doc_mode b H1) as (m & Hm & Hk & Hok).
    assert (Hq : mode_after (add_nl b) MDoc = Some (MNl 0)).
    { unfold add_nl. rewrite mode_after_app, Hm. destruct Hk as [->|[k ->]]; cbn; rewrite ?Ascii.eqb_refl; reflexivity. }
    rewrite (split_go_quiet _ "" MDoc dr sr _ I Hq). cbn [rev consumed str_rev str_rev_acc append].
    rewrite app_nil_r. reflexivity.
  - inv Hp. change (map add_nl (b :: b2 :: t)) with (add_nl b :: add_nl b2 :: map add_nl t).
    rewrite join_docs_cons2.
    replace (add_nl b ++ enc_sep ++ join_docs (add_nl b2 :: map add_nl t))%string
      with (b ++ (nl_sep ++ join_docs (map add_nl (b2 :: t))))%string
      by (unfold add_nl, nl_sep; rewrite !app_assoc_s; reflexivity).
    destruct (plain_doc_mode b H1) as (m & Hm & Hk & Hok).
    destruct (split_go_app b (nl_sep ++ join_docs (map add_nl (b2 :: t))) "" MDoc dr sr m I Hm) as (a' & E1 & E2 & _).
    rewrite E1, (split_go_sep _ a' m _ _ Hk), E2.
    cbn [consumed str_rev str_rev_acc append].
    rewrite IH by (auto; congruence). cbn [rev chunk_shape]. rewrite <- !app_assoc. cbn [app].
    destruct t; cbn [chunk_shape List.length repeat Nat.sub app]; rewrite ?Nat.sub_0_r; reflexivity.
Qed.

Lemma crlf_norm_no_cr s : no_cr s = true -> crlf_norm s = s.
Proof.
  induction s as [|c s IH]; cbn; auto. intros H. apply andb_true_iff in H as [Hc Hs].
  apply negb_true_iff in Hc. rewrite Hc, IH; auto.
Qed.

Lemma no_cr_app a b : no_cr (a ++ b)%string = no_cr a && no_cr b.
Proof. induction a; cbn; auto. rewrite IHa, andb_assoc. reflexivity. Qed.

Lemma no_cr_join ds : Forall (fun d => no_cr d = true) ds -> no_cr (join_docs ds) = true.
Proof.
  induction ds as [|d [|d2 t] IH]; intros H; auto.
  - inv H. auto.
  - inv H. rewrite join_docs_cons2, !no_cr_app, H2, IH by auto. reflexivity.
Qed.

(* the chunks the reader hands to the decoder are exactly the documents the writer wrote *)
Theorem reader_chunks_of_written ds :
  ds <> [] ->
  Forall (fun d => exists b, d = add_nl b /\ plain_doc b = true /\ no_cr d = true) ds ->
  reader_chunks (join_docs ds) = Ok ds.
Proof.
  intros Hne H.
  assert (Hb : exists bs, ds = map add_nl bs /\ Forall (fun b => plain_doc b = true) bs).
  { clear Hne. induction ds as [|d t IH]; [exists []; auto|]. inv H. destruct H2 as (b & -> & Hp & _).
    destruct (IH H3) as (bs & -> & Hbs). exists (b :: bs). auto. }
  destruct Hb as (bs & -> & Hbs).
  assert (Hcr : no_cr (join_docs (map add_nl bs)) = true).
  { apply no_cr_join. eapply Forall_impl; [|exact H]. intros d (b & _ & _ & Hc). auto. }
  unfold reader_chunks, split_documents, split_documents_full. rewrite (crlf_norm_no_cr _ Hcr).
  assert (Hbne : bs <> []) by (intros ->; auto).
  destruct (join_docs (map add_nl bs)) eqn:J.
  - exfalso. destruct bs as [|b [|b2 t]]; [congruence| |]; cbn in J.
    + unfold add_nl in J. destruct b; discriminate.
    + unfold add_nl in J. destruct b; discriminate.
  - rewrite <- J. rewrite (split_go_stream bs Hbne Hbs [] []). cbn [rev app].
    rewrite restore_chunk_shape. reflexivity.
Qed.

(* ---------- the round trip on streams of stable documents ---------- *)

Section RoundTrip.
  Variable nonstr : string -> bool.
  Variable dec : string -> res (option node).
  Variable enc : node -> string.

  Notation stable := (stable_doc dec enc).

  (* reading what the writer wrote gives the documents back, each with its index annotations *)
  Lemma read_chunks_written ns : forall i,
    Forall stable ns ->
    exists ns1, read_chunks nonstr dec i (map enc ns) = Ok ns1 /\
                Forall2 (fun n n1 => write_clear n1 = Ok n) ns ns1.
  Proof.
    induction ns as [|n t IH]; intros i H; [exists []; split; [reflexivity|constructor]|].
    inv H. destruct H2 as (Hw & Hs & Hd & _).
    pose proof (rt_node_is_cea nonstr i n Hw) as R. rewrite Hs in R. unfold rt_node in R.
    destruct (read_set nonstr i n) as [n1| | |] eqn:RS; try discriminate. cbn [bind] in R.
    destruct (IH (i + 1)%N H3) as (t1 & E & F).
    exists (n1 :: t1). cbn [map read_chunks]. rewrite Hd. cbn [bind]. rewrite RS. cbn [bind]. rewrite E. cbn [bind].
    split; [reflexivity|constructor; auto].
  Qed.

  Lemma write_docs_back ns ns1 :
    Forall2 (fun n n1 => write_clear n1 = Ok n) ns ns1 -> write_docs enc ns1 = Ok (map enc ns).
  Proof.
    induction 1 as [|n n1 t t1 H F IH]; [reflexivity|].
    cbn [write_docs map]. rewrite H. cbn [bind]. rewrite IH. reflexivity.
  Qed.

  (* reader -> writer is the identity, byte for byte, on a stream of stable documents *)
  Theorem rt_stream_stable ns :
    ns <> [] -> Forall stable ns ->
    rt_stream nonstr dec enc (join_docs (map enc ns)) = Ok (join_docs (map enc ns)).
  Proof.
    intros Hne H. unfold rt_stream, read_stream.
    rewrite reader_chunks_of_written.
    - cbn [bind]. destruct (read_chunks_written ns 0%N H) as (ns1 & E & F). rewrite E. cbn [bind].
      unfold write_stream. rewrite (write_docs_back _ _ F). reflexivity.
    - destruct ns; [congruence|discriminate].
    - apply Forall_forall. intros d Hd. apply in_map_iff in Hd as (n & <- & Hn).
      rewrite Forall_forall in H. destruct (H n Hn) as (_ & _ & _ & b & Eb & Hp & Hc).
      exists b. auto.
  Qed.

  (* … hence a second round trip changes nothing whenever the first one wrote stable documents:
     [out] is what the writer produced from nodes whose cleared forms [ns] are stable *)
  Theorem rt_stream_idempotent s ns0 ns out :
    read_stream nonstr dec s = Ok ns0 ->
    Forall2 (fun n0 n => write_clear n0 = Ok n) ns0 ns -> ns <> [] -> Forall stable ns ->
    rt_stream nonstr dec enc s = Ok out ->
    out = join_docs (map enc ns) /\ rt_stream nonstr dec enc out = Ok out.
  Proof.
    intros R F Hne Hs H. unfold rt_stream in H. rewrite R in H. cbn [bind] in H.
    unfold write_stream in H.
    assert (W : write_docs enc ns0 = Ok (map enc ns)).
    { clear - F. induction F as [|n0 n t0 t H F IH]; [reflexivity|].
      cbn [write_docs map]. rewrite H. cbn [bind]. rewrite IH. reflexivity. }
    rewrite W in H. cbn [bind] in H. inv H. split; [reflexivity|]. apply rt_stream_stable; auto.
  Qed.
End RoundTrip.
