(* The loop of walkMap ([walk_fields]) computed exactly: on a destination mapping with pairwise
   different keys the result is the destination's entries in their order, each walked key updated in
   place or dropped, followed by the new keys in the (sorted) order of the names. *)
From KV Require Import Yaml.Walk Yaml.WalkProofs Yaml.WalkFields.
Local Open Scope string_scope.
Local Open Scope list_scope.

Lemma str_in_iff k l : str_in k l = true <-> In k l.
Proof.
  induction l as [|x t IH]; cbn; [split; [discriminate|tauto]|].
  rewrite Bool.orb_true_iff, IH, String.eqb_eq. split; intros [H|H]; auto.
Qed.
Lemma str_in_false k l : str_in k l = false <-> ~ In k l.
Proof. rewrite <- str_in_iff. destruct (str_in k l); split; congruence. Qed.

Section Shape.
  Variable nonstr : string -> bool.

  Definition opt_entry (k : string) (o : option node) : list (string * node) :=
    match o with Some v => [(k, v)] | None => [] end.

  Definition upd_part (names : list string) (R : string -> option wres) (kvs : list (string * node)) :=
    flat_map (fun kv => if str_in (fst kv) names
                        then opt_entry (fst kv) (fval nonstr (R (fst kv)) (Some (snd kv)))
                        else [kv]) kvs.
  Definition new_part (names : list string) (R : string -> option wres) (kvs : list (string * node)) :=
    flat_map (fun k => if str_in k (keys kvs) then [] else opt_entry k (fval nonstr (R k) None)) names.
  Definition shape names R kvs := upd_part names R kvs ++ new_part names R kvs.

  (* one FieldSetter step, exactly *)
  Definition step (key : string) (fv : option node) (kvs : list (string * node)) :=
    match fv with
    | Some v' => if str_in key (keys kvs) then set_first key v' kvs else kvs ++ [(key, v')]
    | None => remove_first key kvs
    end.

  Lemma find_in_keys key kvs : str_in key (keys kvs) = match find_field key kvs with Some _ => true | None => false end.
  Proof.
    destruct (find_field key kvs) eqn:F.
    - apply str_in_iff. destruct (in_dec string_dec key (keys kvs)) as [|Hni]; auto.
      apply find_field_none_iff in Hni. congruence.
    - apply str_in_false. apply find_field_none_iff; auto.
  Qed.

  Lemma remove_first_absent key kvs : find_field key kvs = None -> remove_first key kvs = kvs.
  Proof.
    induction kvs as [|[k v] t IH]; cbn; auto. destruct (String.eqb k key); [discriminate|]. intros H; rewrite IH; auto.
  Qed.

  Lemma set_field_w_exact key r kvs :
    set_field_w nonstr key r (Map kvs) = Ok (Map (step key (fval nonstr r (find_field key kvs)) kvs)).
  Proof.
    unfold set_field_w, step, fval. rewrite find_in_keys.
    destruct r as [w|]; [|reflexivity].
    unfold set_field. 
    destruct (is_null (w_node w) && negb (w_keep w)) eqn:En.
    - destruct (w_inplace w); cbn [andb negb]; cbn; reflexivity.
    - destruct (find_field key kvs) as [old|] eqn:F.
      + destruct (w_inplace w); cbn [andb negb]; rewrite ?F; reflexivity.
      + destruct (w_inplace w); cbn [andb negb]; rewrite ?F; reflexivity.
  Qed.

  (* ---- list bookkeeping ---- *)
  Lemma flat_map_ext_in {A B} (f g : A -> list B) l :
    (forall x, In x l -> f x = g x) -> flat_map f l = flat_map g l.
  Proof. induction l as [|x t IH]; cbn; intros H; auto. rewrite H, IH; auto. Qed.

  Lemma in_keys kv kvs : In kv kvs -> In (fst kv) (keys kvs).
  Proof. intros H. unfold keys. apply in_map; auto. Qed.

  Lemma keys_app a b : keys (a ++ b) = keys a ++ keys b.
  Proof. unfold keys. apply map_app. Qed.

  Lemma upd_absent names R key kvs :
    ~ In key (keys kvs) -> upd_part (key :: names) R kvs = upd_part names R kvs.
  Proof.
    intros Hn. unfold upd_part. apply flat_map_ext_in. intros [k v] Hin. cbn [fst snd str_in].
    destruct (String.eqb k key) eqn:E; auto.
    apply String.eqb_eq in E. subst. exfalso. apply Hn. apply (in_keys (key, v)); auto.
  Qed.

  Lemma upd_set_first names R key v' kvs old :
    nodupk kvs -> ~ In key names -> find_field key kvs = Some old ->
    fval nonstr (R key) (Some old) = Some v' ->
    upd_part names R (set_first key v' kvs) = upd_part (key :: names) R kvs.
  Proof.
    unfold nodupk. intros Hnd Hn. revert old.
    induction kvs as [|[k v] t IH]; intros old F Hf; [discriminate|].
    cbn in F. cbn [set_first]. inv Hnd. destruct (String.eqb k key) eqn:E.
    - apply String.eqb_eq in E. subst. inv F.
      unfold upd_part. cbn [flat_map fst snd str_in]. rewrite String.eqb_refl. cbn [orb].
      apply str_in_false in Hn. rewrite Hn. rewrite Hf. cbn [opt_entry]. f_equal.
      symmetry. exact (upd_absent names R key t H1).
    - unfold upd_part in *. cbn [flat_map fst snd str_in]. rewrite E. cbn [orb]. f_equal.
      eapply IH; eauto.
  Qed.

  Lemma upd_remove_first names R key kvs old :
    nodupk kvs -> find_field key kvs = Some old ->
    fval nonstr (R key) (Some old) = None ->
    upd_part names R (remove_first key kvs) = upd_part (key :: names) R kvs.
  Proof.
    unfold nodupk. intros Hnd. revert old.
    induction kvs as [|[k v] t IH]; intros old F Hf; [discriminate|].
    cbn in F. cbn [remove_first]. inv Hnd. destruct (String.eqb k key) eqn:E.
    - apply String.eqb_eq in E. subst. inv F.
      unfold upd_part at 2. cbn [flat_map fst snd str_in]. rewrite String.eqb_refl. cbn [orb].
      rewrite Hf. cbn [opt_entry app]. symmetry. exact (upd_absent names R key t H1).
    - unfold upd_part in *. cbn [flat_map fst snd str_in]. rewrite E. cbn [orb]. f_equal.
      eapply IH; eauto.
  Qed.

  Lemma upd_app names R a b : upd_part names R (a ++ b) = upd_part names R a ++ upd_part names R b.
  Proof. unfold upd_part. apply flat_map_app. Qed.

  Lemma new_same_keys names R kvs kvs' :
    (forall k, In k names -> str_in k (keys kvs') = str_in k (keys kvs)) ->
    new_part names R kvs' = new_part names R kvs.
  Proof. intros H. unfold new_part. apply flat_map_ext_in. intros k Hk. rewrite H; auto. Qed.

  Lemma str_in_set_first k key v kvs : str_in k (keys (set_first key v kvs)) = str_in k (keys kvs).
  Proof. rewrite keys_set_first. reflexivity. Qed.

  Lemma str_in_remove_first k key kvs : k <> key ->
    str_in k (keys (remove_first key kvs)) = str_in k (keys kvs).
  Proof.
    intros Hne. rewrite !find_in_keys. rewrite find_field_remove_first_other; auto.
  Qed.

  Lemma str_in_app_other k key v kvs : k <> key ->
    str_in k (keys (kvs ++ [(key, v)])) = str_in k (keys kvs).
  Proof.
    intros Hne. rewrite !find_in_keys, find_field_app. destruct (find_field k kvs); auto.
    cbn. destruct (String.eqb key k) eqn:E; auto. apply String.eqb_eq in E. congruence.
  Qed.

  Lemma nodupk_step key fv kvs : nodupk kvs -> nodupk (step key fv kvs).
  Proof.
    intros H. unfold step. destruct fv as [v'|]; [|apply nodupk_remove_first; auto].
    destruct (str_in key (keys kvs)) eqn:E.
    - unfold nodupk. rewrite keys_set_first. auto.
    - apply nodupk_app_new; auto. apply str_in_false; auto.
  Qed.

  Lemma find_step_other k key fv kvs : k <> key -> find_field k (step key fv kvs) = find_field k kvs.
  Proof.
    intros Hne. unfold step. destruct fv as [v'|]; [|apply find_field_remove_first_other; auto].
    destruct (str_in key (keys kvs)).
    - apply find_field_set_first_other; auto.
    - rewrite find_field_app. destruct (find_field k kvs); auto. cbn.
      destruct (String.eqb key k) eqn:E; auto. apply String.eqb_eq in E; congruence.
  Qed.

  (* one step folds into the shape *)
  Lemma shape_step names R key kvs :
    nodupk kvs -> ~ In key names ->
    shape names R (step key (fval nonstr (R key) (find_field key kvs)) kvs) = shape (key :: names) R kvs.
  Proof.
    intros Hnd Hn. unfold shape, step.
    assert (Hnew : forall kvs', (forall k, In k names -> str_in k (keys kvs') = str_in k (keys kvs)) ->
              new_part names R kvs' = new_part names R kvs) by (intros; apply new_same_keys; auto).
    destruct (find_field key kvs) as [old|] eqn:F.
    - assert (Hk : str_in key (keys kvs) = true) by (rewrite find_in_keys, F; auto).
      unfold new_part at 2. cbn [flat_map]. rewrite Hk. cbn [app]. fold (new_part names R kvs).
      destruct (fval nonstr (R key) (Some old)) as [v'|] eqn:Hf.
      + try rewrite Hk. rewrite (upd_set_first names R key v' kvs old); auto. f_equal.
        apply Hnew. intros; apply str_in_set_first.
      + rewrite (upd_remove_first names R key kvs old); auto. f_equal.
        apply Hnew. intros k Hk'. apply str_in_remove_first. intros ->; contradiction.
    - assert (Hk : str_in key (keys kvs) = false) by (rewrite find_in_keys, F; auto).
      assert (Hnk : ~ In key (keys kvs)) by (apply str_in_false; auto).
      unfold new_part at 2. cbn [flat_map]. rewrite Hk. fold (new_part names R kvs).
      rewrite (upd_absent names R key kvs Hnk).
      destruct (fval nonstr (R key) None) as [v'|] eqn:Hf.
      + try rewrite Hk. rewrite upd_app. cbn [opt_entry]. rewrite <- app_assoc. f_equal.
        unfold upd_part at 1. cbn [flat_map fst snd]. apply str_in_false in Hn. rewrite Hn. cbn [app]. f_equal.
        apply Hnew. intros k Hk'. apply str_in_app_other. intros ->. apply str_in_false in Hn. contradiction.
      + rewrite remove_first_absent by auto. cbn [opt_entry app]. reflexivity.
  Qed.
End Shape.

Section ShapeWalk.
  Context {Sc : Type}.
  Variable sch : schema Sc.
  Variable nonstr : string -> bool.
  Variable rec : @rec_t Sc.
  Variable sc : option Sc.
  Variable alias : option nat.
  Variable srcs : list (option node).

  (* computing the loop from the walks of the keys *)
  Lemma walk_fields_shape names R : NoDup names ->
    forall kvs, nodupk kvs ->
      (forall k, In k names -> rec (child_schema sch sc k) alias (fvs alias srcs k (find_field k kvs)) = Ok (R k)) ->
      walk_fields sch nonstr rec sc alias srcs names (Map kvs) = Ok (Map (shape nonstr names R kvs)).
  Proof.
    induction 1 as [|key rest Hnin Hnd IH]; intros kvs Hk HR.
    - cbn. unfold shape, upd_part, new_part. cbn [flat_map]. rewrite app_nil_r.
      f_equal. f_equal. clear. induction kvs as [|kv t IHt]; cbn; auto. f_equal. apply IHt.
    - cbn [walk_fields]. rewrite fv_cur. cbn [dfield]. rewrite (HR key) by (left; auto). cbn [bind].
      rewrite set_field_w_exact. cbn [bind].
      rewrite IH.
      + rewrite shape_step; auto.
      + apply nodupk_step; auto.
      + intros k Hin. rewrite find_step_other by (intros ->; contradiction). apply HR. right; auto.
  Qed.

  (* and back: a successful loop is of that shape *)
  Lemma finite_choice (P : string -> option wres -> Prop) names :
    (forall k, In k names -> exists r, P k r) -> exists R, forall k, In k names -> P k (R k).
  Proof.
    induction names as [|x t IH]; intros H.
    - exists (fun _ => None). intros k [].
    - destruct (H x (or_introl eq_refl)) as [r Hr].
      destruct IH as [R HR]; [intros k Hk; apply H; right; auto|].
      exists (fun k => if string_dec k x then r else R k). intros k [->|Hk].
      + destruct (string_dec k k); congruence.
      + destruct (string_dec k x) as [->|]; auto.
  Qed.

  Lemma walk_fields_shape_inv names : NoDup names ->
    forall kvs d', nodupk kvs ->
      walk_fields sch nonstr rec sc alias srcs names (Map kvs) = Ok d' ->
      exists R, (forall k, In k names ->
                   rec (child_schema sch sc k) alias (fvs alias srcs k (find_field k kvs)) = Ok (R k)) /\
                d' = Map (shape nonstr names R kvs).
  Proof.
    intros Hnd kvs d' Hk H.
    destruct (walk_fields_map sch nonstr rec sc alias srcs names Hnd kvs d' Hk H) as [kvs' [-> [_ [_ Hin]]]].
    destruct (finite_choice (fun k r => rec (child_schema sch sc k) alias (fvs alias srcs k (find_field k kvs)) = Ok r) names)
      as [R HR].
    { intros k Hkn. destruct (Hin k Hkn) as [r [Hr _]]. eauto. }
    exists R. split; auto.
    rewrite (walk_fields_shape names R Hnd kvs Hk HR) in H. inv H. reflexivity.
  Qed.
End ShapeWalk.

(* a loop whose every key leaves its value as it is leaves the mapping as it is *)
Lemma shape_fix nonstr names R kvs :
  nodupk kvs ->
  (forall k, In k names -> fval nonstr (R k) (find_field k kvs) = find_field k kvs) ->
  shape nonstr names R kvs = kvs.
Proof.
  intros Hnd H. unfold shape.
  assert (Hn : new_part nonstr names R kvs = []).
  { unfold new_part. induction names as [|k t IH]; cbn; auto.
    rewrite IH by (intros; apply H; right; auto).
    destruct (str_in k (keys kvs)) eqn:E; auto.
    rewrite find_in_keys in E. specialize (H k (or_introl eq_refl)).
    destruct (find_field k kvs); [discriminate|]. rewrite H. reflexivity. }
  rewrite Hn, app_nil_r. clear Hn.
  unfold upd_part. unfold nodupk in Hnd.
  assert (Hall : forall kv, In kv kvs -> find_field (fst kv) kvs = Some (snd kv)).
  { clear H. induction kvs as [|[k v] t IH]; intros kv Hin; [destruct Hin|]. destruct Hin as [<-|Hin]; cbn.
    - rewrite String.eqb_refl. reflexivity.
    - inv Hnd. destruct (String.eqb k (fst kv)) eqn:E.
      + apply String.eqb_eq in E. subst. exfalso. apply H1. apply (in_map fst) in Hin. exact Hin.
      + apply IH; auto. }
  transitivity (flat_map (fun kv : string * node => [kv]) kvs).
  - apply flat_map_ext_in. intros [k v] Hin. cbn [fst snd].
    destruct (str_in k names) eqn:E; auto.
    apply str_in_iff in E. specialize (H k E). pose proof (Hall (k, v) Hin) as Hf. cbn [fst snd] in Hf.
    rewrite Hf in H. rewrite H. reflexivity.
  - clear. induction kvs; cbn; auto. f_equal; auto.
Qed.
