(* Reader bookkeeping annotations: kyaml/yaml/kfns.go (SetAnnotation, ClearAnnotation,
   ClearEmptyAnnotations), kio/byteio_reader.go (decode: index annotations), kio/byteio_writer.go
   (annotation clearing).  Definitions only; proofs are in Yaml/AnnotProofs.v.
   Built on the PathGetter/FieldSetter/FieldClearer model of Yaml/Fns.v. *)
From KV Require Export Yaml.Fns.

Definition index_key : string := "internal.config.kubernetes.io/index".
Definition legacy_index_key : string := "config.kubernetes.io/index".
Definition seqindent_key : string := "internal.config.kubernetes.io/seqindent".
Definition path_key : string := "internal.config.kubernetes.io/path".
Definition legacy_path_key : string := "config.kubernetes.io/path".
Definition id_key : string := "internal.config.kubernetes.io/id".
Definition legacy_id_key : string := "config.k8s.io/id".

(* len(value.Content) == 0 *)
Definition content_empty (v : node) : bool :=
  match v with
  | Scalar _ _ _ => true
  | Map [] => true
  | Seq [] => true
  | _ => false
  end.

(* remove the first field called [name] whose value has no content *)
Fixpoint remove_first_empty (name : string) (kvs : list (string * node)) : list (string * node) :=
  match kvs with
  | [] => []
  | (k, v) :: t =>
      if String.eqb k name && content_empty v then t else (k, v) :: remove_first_empty name t
  end.

(* FieldClearer{Name: name, IfEmpty: true} *)
Definition clear_field_if_empty (name : string) (n : node) : res node :=
  match n with
  | Map kvs => Ok (Map (remove_first_empty name kvs))
  | _ => if is_null n then Ok n else Err
  end.

Section Annot.
  Variable nonstr : string -> bool.

  (* yaml.ClearEmptyAnnotations *)
  Definition clear_empty_annotations (n : node) : res node :=
    do r <- walk None [PKey "metadata"]
              (fun m => do m' <- clear_field_if_empty "annotations" m; Ok (m', tt)) n;
    clear_field_if_empty "metadata" (fst r).

  (* NewStringRNode(v) with Style = SingleQuotedStyle *)
  Definition ann_value (v : string) : node := Scalar TStr SSingle v.

  (* yaml.SetAnnotation(k, v) *)
  Definition set_annotation (k v : string) (n : node) : res node :=
    do n1 <- clear_empty_annotations n;
    do r <- put nonstr [PKey "metadata"; PKey "annotations"] k (ann_value v) n1;
    Ok (fst r).

  (* yaml.ClearAnnotation(k) *)
  Definition clear_annotation (k : string) (n : node) : res node :=
    do r <- clear_at [PKey "metadata"; PKey "annotations"] k n; Ok (fst r).

  (* decimal text of an index *)
  Definition digit_char (d : N) : ascii := ascii_of_N (48 + d).
  Fixpoint dec_fuel (fuel : nat) (n : N) (acc : string) : string :=
    match fuel with
    | O => acc
    | S f =>
        let acc' := String (digit_char (N.modulo n 10)) acc in
        if (n <? 10)%N then acc' else dec_fuel f (N.div n 10) acc'
    end.
  Definition dec (n : N) : string := dec_fuel 40 n EmptyString.

  (* ByteReader.decode with default options on a document that carries none of the path/index/id
     annotations (so that CopyLegacyAnnotations does nothing): the keys are set in sorted order *)
  Definition read_set (index : N) (n : node) : res node :=
    do n1 <- set_annotation legacy_index_key (dec index) n;
    set_annotation index_key (dec index) n1.

  (* several annotations, in the given (sorted-key) order — the SetAnnotations loop of ByteReader.decode *)
  Fixpoint set_all (kvs : list (string * string)) (n : node) : res node :=
    match kvs with
    | [] => Ok n
    | (k, v) :: t => do n1 <- set_annotation k v n; set_all t n1
    end.

  (* several ClearAnnotation calls — ByteWriter.Write (reader keys, then w.ClearAnnotations) *)
  Fixpoint clear_all (ks : list string) (n : node) : res node :=
    match ks with
    | [] => Ok n
    | k :: t => do n1 <- clear_annotation k n; clear_all t n1
    end.

  (* LocalPackageReader: ByteReader.decode with SetAnnotations = {path, legacy path} — the four keys in
     sorted order *)
  Definition pkg_read_set (index : N) (path : string) (n : node) : res node :=
    set_all [(legacy_index_key, dec index); (legacy_path_key, path);
             (index_key, dec index); (path_key, path)] n.

  (* LocalPackageWriter -> ByteWriter with ClearAnnotations = [path, legacy path] *)
  Definition pkg_write_clear (n : node) : res node :=
    do n1 <- clear_all [index_key; legacy_index_key; seqindent_key; path_key; legacy_path_key] n;
    clear_empty_annotations n1.

  (* ByteWriter.Write with default options, per node, before encoding *)
  Definition write_clear (n : node) : res node :=
    do n1 <- clear_annotation index_key n;
    do n2 <- clear_annotation legacy_index_key n1;
    do n3 <- clear_annotation seqindent_key n2;
    clear_empty_annotations n3.
  (* reader then writer, at node level *)
  Definition rt_node (index : N) (n : node) : res node :=
    do n1 <- read_set index n; write_clear n1.
  Definition pkg_rt_node (index : N) (path : string) (n : node) : res node :=
    do n1 <- pkg_read_set index path n; pkg_write_clear n1.
End Annot.

(* ---- vocabulary of the theorems ---- *)

(* at most one field of that name *)
Definition single_key (name : string) (kvs : list (string * node)) : Prop :=
  find_field name (remove_first name kvs) = None.

Fixpoint keys_absent (ks : list string) (akvs : list (string * node)) : Prop :=
  match ks with
  | [] => True
  | k :: t => find_field k akvs = None /\ keys_absent t akvs
  end.

(* A resource as the reader/writer bookkeeping expects it: a mapping; `metadata`, if present, a mapping
   and unique; `annotations`, if present, a mapping, unique, and free of the keys [ks]. *)
Definition res_wf (ks : list string) (n : node) : Prop :=
  match n with
  | Map kvs =>
      match find_field "metadata" kvs with
      | None => True
      | Some (Map mk) =>
          single_key "metadata" kvs /\
          match find_field "annotations" mk with
          | None => True
          | Some (Map ak) => single_key "annotations" mk /\ keys_absent ks ak
          | Some _ => False
          end
      | Some _ => False
      end
  | _ => False
  end.

Definition reader_keys : list string := [index_key; legacy_index_key; seqindent_key].
Definition pkg_reader_keys : list string :=
  [index_key; legacy_index_key; seqindent_key; path_key; legacy_path_key].

