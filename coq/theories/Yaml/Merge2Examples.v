(* Witnesses (evaluated by vm_compute on the faithful model) of the places where the code as it is
   violates clauses of C04; each is confirmed on the implementation by the oracles of harness/c04laws.go
   and listed in findings.d/C04.txt. *)
From KV Require Import Yaml.Merge2 Corr.SchemaTable.
Local Open Scope list_scope.
Local Open Scope string_scope.

(* projection of the builtin schema for Pod: spec.containers is a merge list keyed by name *)
Definition pod_schema : sroots :=
  [("Pod", "v1",
    ST "" [] [("spec", ST "" [] [("containers", ST "merge" ["name"] [] [ST "" [] [] []])] [])] [])].

Definition kopts : wopts := mkOpts false true ["name"].
Definition kmerge (p t : node) : res (option node) :=
  merge2 (tree_schema pod_schema) kopts (fun _ => false) (Some p) (Some t).

Definition pod (spec : list (string * node)) : node :=
  Map [("apiVersion", Scalar TStr SPlain "v1"); ("kind", Scalar TStr SPlain "Pod"); ("spec", Map spec)].

(* ---- idempotence: a list-level directive is copied into the result once the list is gone ---- *)
Definition idem_target : node :=
  pod [("containers", Seq [Map [("name", Scalar TStr SPlain "a")]]); ("x", Scalar TInt SPlain "1")].
Definition idem_patch : node :=
  pod [("containers", Seq [Map [("$patch", Scalar TStr SPlain "delete")]])].

(* FIXED in /repo (fix: list-level directive on an absent list): the second application leaves the document as it is *)
Lemma list_directive_idempotent :
  exists r1, kmerge idem_patch idem_target = Ok (Some r1) /\ kmerge idem_patch r1 = Ok (Some r1) /\
             r1 = pod [("x", Scalar TInt SPlain "1")].
Proof. eexists. split; [vm_compute; reflexivity|]. split; vm_compute; reflexivity. Qed.

(* ---- "$patch: replace" on an element of a keyed list is a no-op in prepend mode ---- *)
Definition repl_target : node :=
  pod [("containers", Seq [Map [("name", Scalar TStr SPlain "c"); ("image", Scalar TStr SPlain "old");
                               ("args", Seq [Scalar TStr SPlain "p"])]])].
Definition repl_patch : node :=
  pod [("containers", Seq [Map [("name", Scalar TStr SPlain "c"); ("$patch", Scalar TStr SPlain "replace");
                               ("image", Scalar TStr SPlain "new")]])].

Lemma replace_on_element_ignored : kmerge repl_patch repl_target = Ok (Some repl_target).
Proof. vm_compute. reflexivity. Qed.

(* in append mode the same patch replaces the element *)
Lemma replace_on_element_append :
  merge2 (tree_schema pod_schema) (mkOpts false false ["name"]) (fun _ => false) (Some repl_patch) (Some repl_target)
  = Ok (Some (pod [("containers", Seq [Map [("name", Scalar TStr SPlain "c"); ("image", Scalar TStr SPlain "new")]])])).
Proof. vm_compute. reflexivity. Qed.

(* ---- a number written over a quoted string keeps the quotes: it is emitted as a string ---- *)
Definition quot_target : node := Map [("spec", Map [("beta", Scalar TStr SDouble "on")])].
Definition quot_patch : node := Map [("spec", Map [("beta", Scalar TFloat SPlain "0.5")])].

Lemma scalar_keeps_target_quoting :
  kmerge quot_patch quot_target = Ok (Some (Map [("spec", Map [("beta", Scalar TFloat SDouble "0.5")])])).
Proof. vm_compute. reflexivity. Qed.

(* ---- composite merge key: "$patch: delete" on a port written without protocol removes it, also when another element
        spells a protocol (was finding C04/reference/composite-key-delete-ignored-when-protocol-spelled-elsewhere) ---- *)
Definition svc_schema : sroots :=
  [("Service", "v1", ST "" [] [("spec", ST "" [] [("ports", ST "merge" ["port"; "protocol"] [] [ST "" [] [] []])] [])] [])].
Definition svc (ports : list node) : node :=
  Map [("apiVersion", Scalar TStr SPlain "v1"); ("kind", Scalar TStr SPlain "Service"); ("spec", Map [("ports", Seq ports)])].
Definition cd_port53 : node := Map [("port", Scalar TInt SPlain "53"); ("name", Scalar TStr SPlain "a")].
Definition cd_port80 : node := Map [("port", Scalar TInt SPlain "80"); ("protocol", Scalar TStr SPlain "TCP")].
Definition cd_t : node := svc [cd_port53; cd_port80].
Definition cd_p : node := svc [Map [("port", Scalar TInt SPlain "53"); ("$patch", Scalar TStr SPlain "delete")]].
Definition smerge (p t : node) : res (option node) :=
  merge2 (tree_schema svc_schema) kopts (fun _ => false) (Some p) (Some t).
Lemma composite_delete_works :
  smerge cd_p cd_t = Ok (Some (svc [cd_port80])) /\
  smerge cd_p (svc [cd_port53]) =
  Ok (Some (Map [("apiVersion", Scalar TStr SPlain "v1"); ("kind", Scalar TStr SPlain "Service");
                 ("spec", Map [("ports", Seq [])])])).
Proof. split; vm_compute; reflexivity. Qed.
