(* PathGetter (KV.Yaml.Fns.walk / lookup) and PathMatcher without Create (KV.Yaml.Match.pm, model of w-c10)
   agree on their common fragment: paths made of plain field names. Stated here so that the two models of
   kyaml path lookup cannot drift apart.
   Outside the fragment they differ by design of the Go code: PathMatcher does not trim or drop path parts,
   treats "-" as a field name, matches [k=v] by regular expression and returns an error for an index that is out
   of range (PathGetter: no match). *)
From KV Require Import Yaml.Fns Yaml.FnsProofs.
From KV Require Yaml.FnsSpec.
From KV Require Import Yaml.Match.

Ltac inv H := inversion H; subst; clear H.

(* p is read as the map key p itself by PathGetter (not blank, no surrounding blanks, not a number,
   not "-", "*" or a bracketed selector) *)
Definition plain_part (p : string) : bool :=
  match parse_path [p] with
  | [PKey k] => String.eqb k p
  | _ => false
  end.

Lemma plain_part_classify p : plain_part p = true -> parse_path [p] = [PKey p] /\ classify p = PKey p /\ p <> "".
Proof.
  unfold plain_part. intros H.
  assert (E : parse_path [p] = [PKey p]).
  { destruct (parse_path [p]) as [|[k| | | | | |] [|? ?]]; try discriminate.
    apply String.eqb_eq in H. now subst k. }
  split; [exact E|].
  unfold parse_path, clean_path in E. cbn [map filter] in E.
  destruct (String.eqb (trim_space p) "") eqn:T; cbn in E; [discriminate|].
  assert (Hc : classify (trim_space p) = PKey p) by (inversion E; reflexivity).
  assert (Ht : trim_space p = p).
  { unfold classify in Hc. destruct (atoi (trim_space p)) as [[neg m]|].
    - destruct (neg && negb (m =? 0)%N); discriminate.
    - destruct (String.eqb (trim_space p) "-"); [discriminate|].
      destruct (String.eqb (trim_space p) "*"); [discriminate|].
      destruct (is_list_index (trim_space p)).
      + destruct (split_index_name_value (trim_space p)) as [[? ?]|]; discriminate.
      + congruence. }
  rewrite Ht in Hc, T. split; [exact Hc|]. intros ->. discriminate.
Qed.

Lemma plain_part_classify_pm p : plain_part p = true -> classify_pm p = PPField p.
Proof.
  intros H. destruct (plain_part_classify _ H) as [_ [Hc _]].
  unfold classify in Hc. unfold classify_pm.
  destruct (atoi p) as [[neg m]|].
  - destruct (neg && negb (m =? 0)%N); discriminate.
  - destruct (String.eqb p "-"); [discriminate|].
    destruct (String.eqb p "*"); [discriminate|].
    destruct (is_list_index p); [|reflexivity].
    destruct (split_index_name_value p) as [[? ?]|]; discriminate.
Qed.

Lemma parse_path_cons p t : parse_path (p :: t) = (parse_path [p] ++ parse_path t)%list.
Proof.
  unfold parse_path, clean_path. cbn [map filter].
  destruct (negb (String.eqb (trim_space p) "")); reflexivity.
Qed.

Lemma parse_path_plain path : forallb plain_part path = true -> parse_path path = map PKey path.
Proof.
  induction path as [|p t IH]; [reflexivity|]. cbn [forallb]. intros H.
  apply andb_true_iff in H. destruct H as [Hp Ht].
  rewrite parse_path_cons, (proj1 (plain_part_classify _ Hp)), (IH Ht). reflexivity.
Qed.

Lemma nth_index_of_key name kvs x :
  find_field name kvs = Some x -> option_map snd (nth_error kvs (index_of_key name kvs)) = Some x.
Proof.
  unfold index_of_key. induction kvs as [|[k v] t IH]; cbn; intros H; [discriminate|].
  destruct (String.eqb k name) eqn:E; [exact H|].
  specialize (IH H).
  destruct (find_index (fun kv : string * node => String.eqb (fst kv) name) t) as [i|] eqn:F; cbn.
  - exact IH.
  - (* the key is in t, so an index exists *)
    exfalso. clear IH. induction t as [|[k' v'] t IHt]; cbn in *; [discriminate|].
    destruct (String.eqb k' name); [discriminate|].
    destruct (find_index (fun kv : string * node => String.eqb (fst kv) name) t); cbn in F; [discriminate|auto].
Qed.

Section Agree.
  Variable parse : string -> option re.
  Variable enc : node -> string.
  Variable nonstr : string -> bool.
  Variable fuel : nat.

  Notation pm0 := (pm parse enc nonstr None fuel).

  (* lookup path n = pm None path n, outcome by outcome; a match is reported by its address *)
  Lemma lookup_pm_agree path :
    forallb plain_part path = true ->
    forall n,
      match lookup (map PKey path) n with
      | Ok (Some x) => exists a, pm0 path n = Ok (n, [HAt a]) /\ Match.get_at a n = Some x
      | Ok None => pm0 path n = Ok (n, [])
      | Err => pm0 path n = Err
      | Panic => False
      | Diverge => False
      end.
  Proof.
    induction path as [|p rest IH]; intros Hp n.
    - cbn. exists []. auto.
    - cbn [forallb] in Hp. apply andb_true_iff in Hp. destruct Hp as [Hp Hrest].
      specialize (IH Hrest).
      destruct (plain_part_classify _ Hp) as [_ [_ Hne]].
      cbn [map pm]. rewrite (plain_part_classify_pm _ Hp).
      apply String.eqb_neq in Hne. rewrite Hne.
      destruct n as [t s v|kvs|es].
      + unfold lookup. destruct t; cbn; auto.
      + destruct (find_field p kvs) as [x|] eqn:F.
        * assert (C : FnsSpec.child (PKey p) (Map kvs) = Some x) by exact F.
          rewrite (lookup_found _ _ _ _ C). specialize (IH x).
          destruct (lookup (map PKey rest) x) as [[y|]| | |]; auto.
          -- destruct IH as [a [P G]]. rewrite P. cbn [bind fst snd map push].
             rewrite (set_first_same _ _ _ F).
             exists (index_of_key p kvs :: a). split; [reflexivity|].
             cbn [Match.get_at Match.child]. now rewrite (nth_index_of_key _ _ _ F).
          -- rewrite IH. cbn. now rewrite (set_first_same _ _ _ F).
          -- now rewrite IH.
        * unfold lookup. cbn. rewrite F. reflexivity.
      + unfold lookup. cbn. reflexivity.
  Qed.

  (* in particular: the two find the same node, or both find nothing, or both fail *)
  Lemma lookup_pm_found path n x :
    forallb plain_part path = true ->
    lookup (parse_path path) n = Ok (Some x) ->
    exists a, pm0 path n = Ok (n, [HAt a]) /\ Match.get_at a n = Some x.
  Proof.
    intros Hp L. rewrite (parse_path_plain _ Hp) in L.
    pose proof (lookup_pm_agree path Hp n) as A. now rewrite L in A.
  Qed.

  Lemma lookup_pm_absent path n :
    forallb plain_part path = true ->
    (lookup (parse_path path) n = Ok None <-> pm0 path n = Ok (n, [])).
  Proof.
    intros Hp. rewrite (parse_path_plain _ Hp).
    pose proof (lookup_pm_agree path Hp n) as A.
    destruct (lookup (map PKey path) n) as [[y|]| | |]; split; intros H; try discriminate; try tauto.
    - destruct A as [a [P _]]. rewrite P in H. discriminate.
    - rewrite A in H. discriminate.
  Qed.
End Agree.

Example ex_plain_parts : forallb plain_part ["spec"; "template"; "metadata"; "app.kubernetes.io/name"] = true.
Proof. reflexivity. Qed.

(* ---------- the two models of utils.PathSplitter agree (Yaml/FieldSpec.v for "/", Yaml/Match.v for any byte) ---------- *)
From KV Require Import Yaml.FieldSpec.

Lemma merge_escaped_agree cur rest : merge_escaped cur rest = merge_escaped_c "/" cur rest.
Proof.
  revert cur; induction rest as [|p rest IH]; intros cur; [reflexivity|].
  cbn [merge_escaped merge_escaped_c]. unfold ends_with_backslash.
  destruct (has_suffix "\" cur); [apply IH|now rewrite IH].
Qed.

Lemma path_splitter_agree path : path_splitter path = path_splitter_c "/"%char path.
Proof.
  unfold path_splitter, path_splitter_c.
  destruct (split_on "/" path) as [|h t]; [reflexivity|].
  destruct h; [destruct t|]; cbn; try reflexivity; apply merge_escaped_agree.
Qed.

(* several escaped delimiters inside one element are all glued back (regression for the seeded defect C14-e) *)
Example ex_path_splitter_multi_escape :
  path_splitter "metadata/annotations/example.com\/team\/owner" = ["metadata"; "annotations"; "example.com/team/owner"] /\
  path_splitter "/a\/b\/c\/d/e" = ["a/b/c/d"; "e"] /\
  smarter_path_splitter "."%char "metadata.annotations.[a.b.c/d]" = ["metadata"; "annotations"; "a.b.c/d"] /\
  smarter_path_splitter "."%char "spec.containers.[name=x.y.z].image" = ["spec"; "containers"; "[name=x.y.z]"; "image"].
Proof. repeat split. Qed.
