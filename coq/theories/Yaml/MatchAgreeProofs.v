(* PathGetter (KV.Yaml.Fns.walk / lookup) and PathMatcher without Create (KV.Yaml.Match.pm, model of w-c10)
   agree on their common fragment: paths made of plain field names. Stated here so that the two models of
   kyaml path lookup cannot drift apart.
   Outside the fragment they differ by design of the Go code: PathMatcher does not trim or drop path parts,
   treats "-" as a field name, matches [k=v] by regular expression and returns an error for an index that is out
   of range (PathGetter: no match). *)
From KV Require Import Yaml.Fns Yaml.FnsProofs.
From KV Require Yaml.FnsSpec.
From KV Require Import Yaml.Match.

Ltac inv H := inversion H; subst; clear H.

(* p is read as the map key p itself by PathGetter (not blank, no surrounding blanks, not a number,
   not "-", "*" or a bracketed selector) *)
Definition plain_part (p : string) : bool :=
  match parse_path [p] with
  | [PKey k] => String.eqb k p
  | _ => false
  end.

Lemma plain_part_classify p : plain_part p = true -> parse_path [p] = [PKey p] /\ classify p = PKey p /\ p <> "".
Proof.
  unfold plain_part. intros H.
  assert (E : parse_path [p] = [PKey p]).
  { destruct (parse_path [p]) as [|[k| | | | | |] [|? ?]]; try discriminate.
    apply String.eqb_eq in H. now subst k. }
  split; [exact E|].
  unfold parse_path, clean_path in E. cbn [map filter] in E.
  destruct (String.eqb (trim_space p) "") eqn:T; cbn in E; [discriminate|].
  assert (Hc : classify (trim_space p) = PKey p) by (inversion E; reflexivity).
  assert (Ht : trim_space p = p).
  { unfold classify in Hc. destruct (atoi (trim_space p)) as [[neg m]|].
    - destruct (neg && negb (m =? 0)%N); discriminate.
    - destruct (String.eqb (trim_space p) "-"); [discriminate|].
      destruct (String.eqb (trim_space p) "*"); [discriminate|].
      destruct (is_list_index (trim_space p)).
      + destruct (split_index_name_value (trim_space p)) as [[? ?]|]; discriminate.
      + congruence. }
  rewrite Ht in Hc, T. split; [exact Hc|]. intros ->. discriminate.
Qed.

Lemma plain_part_classify_pm p : plain_part p = true -> classify_pm p = PPField p.
Proof.
  intros H. destruct (plain_part_classify _ H) as [_ [Hc _]].
  unfold classify in Hc. unfold classify_pm.
  destruct (atoi p) as [[neg m]|].
  - destruct (neg && negb (m =? 0)%N); discriminate.
  - destruct (String.eqb p "-"); [discriminate|].
    destruct (String.eqb p "*"); [discriminate|].
    destruct (is_list_index p); [|reflexivity].
    destruct (split_index_name_value p) as [[? ?]|]; discriminate.
Qed.

Lemma parse_path_cons p t : parse_path (p :: t) = (parse_path [p] ++ parse_path t)%list.
Proof.
  unfold parse_path, clean_path. cbn [map filter].
  destruct (negb (String.eqb (trim_space p) "")); reflexivity.
Qed.

Lemma parse_path_plain path : forallb plain_part path = true -> parse_path path = map PKey path.
Proof.
  induction path as [|p t IH]; [reflexivity|]. cbn [forallb]. intros H.
  apply andb_true_iff in H. destruct H as [Hp Ht].
  rewrite parse_path_cons, (proj1 (plain_part_classify _ Hp)), (IH Ht). reflexivity.
Qed.

Lemma nth_index_of_key name kvs x :
  find_field name kvs = Some x -> option_map snd (nth_error kvs (index_of_key name kvs)) = Some x.
Proof.
  unfold index_of_key. induction kvs as [|[k v] t IH]; cbn; intros H; [discriminate|].
  destruct (String.eqb k name) eqn:E; [exact H|].
  specialize (IH H).
  destruct (find_index (fun kv : string * node => String.eqb (fst kv) name) t) as [i|] eqn:F; cbn.
  - exact IH.
  - (* the key is in t, so an index exists *)
    exfalso. clear IH. induction t as [|[k' v'] t IHt]; cbn in *; [discriminate|].
    destruct (String.eqb k' name); [discriminate|].
    destruct (find_index (fun kv : string * node => String.eqb (fst kv) name) t); cbn in F; [discriminate|auto].
Qed.

Section Agree.
  Variable parse : string -> option re.
  Variable enc : node -> string.
  Variable nonstr : string -> bool.
  Variable fuel : nat.

  Notation pm0 := (pm parse enc nonstr None fuel).

  (* lookup path n = pm None path n, outcome by outcome; a match is reported by its address *)
  Lemma lookup_pm_agree path :
    forallb plain_part path = true ->
    forall n,
      match lookup (map PKey path) n with
      | Ok (Some x) => exists a, pm0 path n = Ok (n, [HAt a]) /\ Match.get_at a n = Some x
      | Ok None => pm0 path n = Ok (n, [])
      | Err => pm0 path n = Err
      | Panic => False
      | Diverge => False
      end.
  Proof.
    induction path as [|p rest IH]; intros Hp n.
    - cbn. exists []. auto.
    - cbn [forallb] in Hp. apply andb_true_iff in Hp. destruct Hp as [Hp Hrest].
      specialize (IH Hrest).
      destruct (plain_part_classify _ Hp) as [_ [_ Hne]].
      cbn [map pm]. rewrite (plain_part_classify_pm _ Hp).
      apply String.eqb_neq in Hne. rewrite Hne.
      destruct n as [t s v|kvs|es].
      + unfold lookup. destruct t; cbn; auto.
      + destruct (find_field p kvs) as [x|] eqn:F.
        * assert (C : FnsSpec.child (PKey p) (Map kvs) = Some x) by exact F.
          rewrite (lookup_found _ _ _ _ C). specialize (IH x).
          destruct (lookup (map PKey rest) x) as [[y|]| | |]; auto.
          -- destruct IH as [a [P G]]. rewrite P. cbn [bind fst snd map push].
             rewrite (set_first_same _ _ _ F).
             exists (index_of_key p kvs :: a). split; [reflexivity|].
             cbn [Match.get_at Match.child]. now rewrite (nth_index_of_key _ _ _ F).
          -- rewrite IH. cbn. now rewrite (set_first_same _ _ _ F).
          -- now rewrite IH.
        * unfold lookup. cbn. rewrite F. reflexivity.
      + unfold lookup. cbn. reflexivity.
  Qed.

  (* in particular: the two find the same node, or both find nothing, or both fail *)
  Lemma lookup_pm_found path n x :
    forallb plain_part path = true ->
    lookup (parse_path path) n = Ok (Some x) ->
    exists a, pm0 path n = Ok (n, [HAt a]) /\ Match.get_at a n = Some x.
  Proof.
    intros Hp L. rewrite (parse_path_plain _ Hp) in L.
    pose proof (lookup_pm_agree path Hp n) as A. now rewrite L in A.
  Qed.

  Lemma lookup_pm_absent path n :
    forallb plain_part path = true ->
    (lookup (parse_path path) n = Ok None <-> pm0 path n = Ok (n, [])).
  Proof.
    intros Hp. rewrite (parse_path_plain _ Hp).
    pose proof (lookup_pm_agree path Hp n) as A.
    destruct (lookup (map PKey path) n) as [[y|]| | |]; split; intros H; try discriminate; try tauto.
    - destruct A as [a [P _]]. rewrite P in H. discriminate.
    - rewrite A in H. discriminate.
  Qed.
End Agree.

Example ex_plain_parts : forallb plain_part ["spec"; "template"; "metadata"; "app.kubernetes.io/name"] = true.
Proof. reflexivity. Qed.

(* ---------- the two models of utils.PathSplitter agree (Yaml/FieldSpec.v for "/", Yaml/Match.v for any byte) ---------- *)
From KV Require Import Yaml.FieldSpec.

Lemma merge_escaped_agree cur rest : merge_escaped cur rest = merge_escaped_c "/" cur rest.
Proof.
  revert cur; induction rest as [|p rest IH]; intros cur; [reflexivity|].
  cbn [merge_escaped merge_escaped_c]. unfold ends_with_backslash.
  destruct (has_suffix "\" cur); [apply IH|now rewrite IH].
Qed.

Lemma path_splitter_agree path : path_splitter path = path_splitter_c "/"%char path.
Proof.
  unfold path_splitter, path_splitter_c.
  destruct (split_on "/" path) as [|h t]; [reflexivity|].
  destruct h; [destruct t|]; cbn; try reflexivity; apply merge_escaped_agree.
Qed.

(* several escaped delimiters inside one element are all glued back (regression for the seeded defect C14-e) *)
Example ex_path_splitter_multi_escape :
  path_splitter "metadata/annotations/example.com\/team\/owner" = ["metadata"; "annotations"; "example.com/team/owner"] /\
  path_splitter "/a\/b\/c\/d/e" = ["a/b/c/d"; "e"] /\
  smarter_path_splitter "."%char "metadata.annotations.[a.b.c/d]" = ["metadata"; "annotations"; "a.b.c/d"] /\
  smarter_path_splitter "."%char "spec.containers.[name=x.y.z].image" = ["spec"; "containers"; "[name=x.y.z]"; "image"].
Proof. repeat split. Qed.

(* ====================================================================================================
   Beyond plain field names: indices and [k=v] selectors, with the exact differences between the two
   Go functions stated as lemmas.
   ==================================================================================================== *)
From Coq Require Import Lia.

(* ---------- parts both functions read the same way ---------- *)
(* an index: a non-negative number without surrounding blanks *)
Definition index_part (p : string) (i : nat) : Prop := trim_space p = p /\ classify p = PIdx i.
(* a selector [fld=v] on a field (fld non-empty) *)
Definition sel_part (p fld v : string) : Prop := trim_space p = p /\ classify p = PSel fld v /\ fld <> "".

Lemma parse_path_single p q : trim_space p = p -> classify p = q -> p <> "" -> parse_path [p] = [q].
Proof.
  intros Ht Hc Hn. unfold parse_path, clean_path. cbn [map filter]. rewrite Ht.
  apply String.eqb_neq in Hn. rewrite Hn. cbn. now rewrite Hc.
Qed.

Lemma index_part_spec p i : index_part p i -> parse_path [p] = [PIdx i] /\ classify_pm p = PPIdx i.
Proof.
  intros [Ht Hc]. split.
  - apply parse_path_single; auto. intros ->. discriminate.
  - unfold classify in Hc. unfold classify_pm. destruct (atoi p) as [[neg m]|].
    + destruct (neg && negb (m =? 0)%N); [discriminate|]. now inversion Hc.
    + destruct (String.eqb p "-"); [discriminate|]. destruct (String.eqb p "*"); [discriminate|].
      destruct (is_list_index p); [destruct (split_index_name_value p) as [[? ?]|]|]; discriminate.
Qed.

Lemma sel_part_spec p fld v :
  sel_part p fld v ->
  parse_path [p] = [PSel fld v] /\ classify_pm p = PPSel p /\ split_index_name_value p = Some (fld, v).
Proof.
  intros (Ht & Hc & _). split; [|split].
  - apply parse_path_single; auto. intros ->. discriminate.
  - unfold classify in Hc. unfold classify_pm. destruct (atoi p) as [[neg m]|].
    + destruct (neg && negb (m =? 0)%N); discriminate.
    + destruct (String.eqb p "-"); [discriminate|]. destruct (String.eqb p "*"); [discriminate|].
      destruct (is_list_index p); [reflexivity|discriminate].
  - unfold classify in Hc. destruct (atoi p) as [[neg m]|].
    + destruct (neg && negb (m =? 0)%N); discriminate.
    + destruct (String.eqb p "-"); [discriminate|]. destruct (String.eqb p "*"); [discriminate|].
      destruct (is_list_index p); [|discriminate].
      destruct (split_index_name_value p) as [[a b]|]; [|discriminate]. now inversion Hc.
Qed.

Section Agree2.
  Variable parse : string -> option re.
  Variable enc : node -> string.
  Variable nonstr : string -> bool.
  Variable fuel : nat.     (* pm runs with fuel S fuel: without Create one round of doSeq always suffices *)

  Notation pm1 := (pm parse enc nonstr None (S fuel)).

  (* what the three-way agreement says *)
  Definition agree (lk : res (option node)) (n : node) (r : res (node * list hit)) : Prop :=
    match lk with
    | Ok (Some x) => exists a, r = Ok (n, [HAt a]) /\ Match.get_at a n = Some x
    | Ok None => r = Ok (n, [])
    | Err => r = Err
    | _ => False
    end.

  (* ---------- indices ---------- *)
  (* an index in range: both go to the same element *)
  Lemma pm_index_step p i rest es e :
    index_part p i -> nth_error es i = Some e ->
    pm1 (p :: rest) (Seq es) = (do r <- pm1 rest e; Ok (Seq (replace_nth i (fst r) es), map (push i) (snd r))) /\
    lookup (PIdx i :: parse_path rest) (Seq es) = lookup (parse_path rest) e.
  Proof.
    intros Hp He. destruct (index_part_spec _ _ Hp) as [_ Hc]. split.
    - cbn [pm]. rewrite Hc. cbn [is_create andb]. rewrite andb_false_r, He. reflexivity.
    - apply lookup_found. exact He.
  Qed.

  (* DIFFERENCE 1: an index out of range is "no match" for PathGetter and an error for PathMatcher *)
  Lemma pm_index_out_of_range p i rest es :
    index_part p i -> nth_error es i = None ->
    pm1 (p :: rest) (Seq es) = Err /\ lookup (PIdx i :: parse_path rest) (Seq es) = Ok None.
  Proof.
    intros Hp He. destruct (index_part_spec _ _ Hp) as [_ Hc]. split.
    - cbn [pm]. rewrite Hc. cbn [is_create andb]. now rewrite andb_false_r, He.
    - unfold lookup. cbn. now rewrite He.
  Qed.

  (* DIFFERENCE 2: an index on a null node likewise *)
  Lemma pm_index_on_null p i rest s v :
    index_part p i ->
    pm1 (p :: rest) (Scalar TNull s v) = Err /\ lookup (PIdx i :: parse_path rest) (Scalar TNull s v) = Ok None.
  Proof.
    intros Hp. destruct (index_part_spec _ _ Hp) as [_ Hc]. split; [|reflexivity].
    cbn [pm]. rewrite Hc. cbn. now rewrite andb_false_r.
  Qed.

  (* ---------- selectors ---------- *)
  (* the regular expression of the selector finds a match in the encoded field exactly when the field's text
     equals v (true of a value without metacharacters against plain one-line scalars that do not contain it
     as a proper substring; PathMatcher itself searches, unanchored: Match.match_elem_not_exact_lemma) *)
  Definition sel_faithful (fld v : string) (es : list node) : Prop :=
    exists r, elem_regex parse v = Ok r /\
              forall kvs x, In (Map kvs) es -> find_field fld kvs = Some x ->
                            matches r (enc x) = String.eqb (node_value x) v.

  (* with a faithful expression PathMatcher visits exactly the elements the path selector [fld=v] answers to —
     ALL of them (DIFFERENCE 3: PathGetter takes the first) *)
  Lemma pm_selector_step p fld v rest es :
    sel_part p fld v -> sel_faithful fld v es ->
    pm1 (p :: rest) (Seq es) =
    (do r <- visit_elems (fun e => if sel_match fld v e then pm1 rest e else Ok (e, [])) 0 es;
     Ok (Seq (fst r), snd r)).
  Proof.
    intros Hp (r & Hr & Hf). destruct (sel_part_spec _ _ _ Hp) as (_ & Hc & Hs).
    destruct Hp as (_ & _ & Hfld). pose proof Hfld as Hfld'. apply String.eqb_neq in Hfld'.
    cbn [pm]. rewrite Hc, Hs. cbn [retry_loop is_create].
    match goal with |- context [visit_elems ?f 0 es] =>
      assert (E : forall l i, (forall e, In e l -> In e es) ->
                  visit_elems f i l = visit_elems (fun e => if sel_match fld v e then pm1 rest e else Ok (e, [])) i l)
    end.
    { induction l as [|e t IH]; intros i Hin; [reflexivity|]. cbn [visit_elems].
      rewrite (IH (S i)) by (intros x Hx; apply Hin; now right).
      match goal with |- bind ?a _ = bind ?b _ => assert (Eab : a = b); [|rewrite Eab; reflexivity] end.
      rewrite Hr. cbn [bind]. rewrite Hfld'. unfold sel_match. rewrite Hfld'.
      destruct e as [|kvs|]; try reflexivity.
      destruct (find_field fld kvs) as [x|] eqn:F; [|reflexivity].
      rewrite (Hf kvs x (Hin _ (or_introl eq_refl)) F). reflexivity. }
    rewrite (E es 0 (fun e H => H)).
    destruct (visit_elems _ 0 es) as [[es' hs]| | |]; cbn; try reflexivity.
    destruct hs; reflexivity.
  Qed.

  Fixpoint first_sat {A} (f : A -> bool) (l : list A) : option A :=
    match l with [] => None | x :: t => if f x then Some x else first_sat f t end.
  Fixpoint count_sat {A} (f : A -> bool) (l : list A) : nat :=
    match l with [] => 0 | x :: t => (if f x then 1 else 0) + count_sat f t end.

  Lemma child_sel_first fld v es : FnsSpec.child (PSel fld v) (Seq es) = first_sat (sel_match fld v) es.
  Proof.
    cbn. induction es as [|e t IH]; cbn; [reflexivity|].
    destruct (sel_match fld v e); [reflexivity|]. rewrite <- IH.
    destruct (find_index (sel_match fld v) t); reflexivity.
  Qed.

  Lemma lookup_selector_step fld v ps es :
    lookup (PSel fld v :: ps) (Seq es) =
    match first_sat (sel_match fld v) es with Some e => lookup ps e | None => Ok None end.
  Proof.
    rewrite <- child_sel_first. destruct (FnsSpec.child (PSel fld v) (Seq es)) as [e|] eqn:C.
    - now rewrite (lookup_found _ _ _ _ C).
    - unfold lookup. now rewrite (walk_missing_nocreate _ _ _ _ C).
  Qed.

  (* one pass of PathMatcher over a list in which at most one element answers to the selector *)
  Lemma visit_unique (sel : node -> bool) (g : node -> res (node * list hit)) :
    forall es i, count_sat sel es <= 1 ->
    match first_sat sel es with
    | None => visit_elems (fun e => if sel e then g e else Ok (e, [])) i es = Ok (es, [])
    | Some e => exists pre post,
        es = (pre ++ e :: post)%list /\
        visit_elems (fun e => if sel e then g e else Ok (e, [])) i es =
        (do r <- g e; Ok ((pre ++ fst r :: post)%list, map (push (i + List.length pre)) (snd r)))
    end.
  Proof.
    induction es as [|e t IH]; intros i Hc; [reflexivity|]. cbn [first_sat visit_elems count_sat] in *.
    destruct (sel e) eqn:Se.
    - (* e is the match; nothing in t matches *)
      assert (Ht : count_sat sel t = 0) by lia.
      assert (Hn : forall j, visit_elems (fun e => if sel e then g e else Ok (e, [])) j t = Ok (t, [])).
      { clear IH Hc. induction t as [|h t IHt]; intros j; [reflexivity|]. cbn in Ht |- *.
        destruct (sel h); [lia|]. cbn. rewrite (IHt Ht). reflexivity. }
      exists [], t. split; [reflexivity|]. rewrite Hn. cbn [app List.length]. rewrite Nat.add_0_r.
      destruct (g e) as [[y hs]| | |]; cbn; [|reflexivity..]. now rewrite app_nil_r.
    - specialize (IH (S i) ltac:(lia)). destruct (first_sat sel t) as [x|].
      + destruct IH as (pre & post & -> & V). exists (e :: pre), post. split; [reflexivity|].
        cbn [bind fst snd]. rewrite V.
        destruct (g x) as [[y hs]| | |]; cbn; [|reflexivity..].
        cbn [List.length]. replace (i + S (List.length pre)) with (S (i + List.length pre)) by lia. reflexivity.
      + cbn [bind]. rewrite IH. reflexivity.
  Qed.

  (* ---------- the agreement on paths of plain names, indices in range and faithful, unambiguous selectors ---------- *)
  Fixpoint comm (path : list string) (n : node) {struct path} : Prop :=
    match path with
    | [] => True
    | p :: rest =>
        (plain_part p = true /\
         match n with
         | Map kvs => match find_field p kvs with Some x => comm rest x | None => True end
         | _ => True
         end)
        \/ (exists i, index_part p i /\
            match n with
            | Seq es => match nth_error es i with Some e => comm rest e | None => False end
            | _ => is_null n = false
            end)
        \/ (exists fld v, sel_part p fld v /\
            match n with
            | Seq es => sel_faithful fld v es /\ count_sat (sel_match fld v) es <= 1 /\
                        forall e, first_sat (sel_match fld v) es = Some e -> comm rest e
            | _ => True
            end)
    end.

  Lemma nth_error_mid {A} (pre : list A) e post : nth_error (pre ++ e :: post) (List.length pre) = Some e.
  Proof. induction pre; cbn; auto. Qed.

  Theorem lookup_pm_agree2 path :
    forall n, comm path n -> agree (lookup (parse_path path) n) n (pm1 path n).
  Proof.
    induction path as [|p rest IH]; intros n C.
    - cbn. exists []. auto.
    - rewrite parse_path_cons. cbn [comm] in C. destruct C as [[Hp C]|[(i & Hp & C)|(fld & v & Hp & C)]].
      + (* plain field name *)
        destruct (plain_part_classify _ Hp) as [PP [_ Hne]]. rewrite PP. cbn [app].
        cbn [pm]. rewrite (plain_part_classify_pm _ Hp). apply String.eqb_neq in Hne. rewrite Hne.
        destruct n as [t s w|kvs|es].
        * unfold lookup. destruct t; cbn; auto.
        * destruct (find_field p kvs) as [x|] eqn:F.
          -- assert (Cx : FnsSpec.child (PKey p) (Map kvs) = Some x) by exact F.
             rewrite (lookup_found _ _ _ _ Cx). specialize (IH x C). unfold agree in *.
             destruct (lookup (parse_path rest) x) as [[y|]| | |]; auto.
             ++ destruct IH as [a [P G]]. rewrite P. cbn [bind fst snd map push].
                rewrite (set_first_same _ _ _ F). exists (index_of_key p kvs :: a). split; [reflexivity|].
                cbn [Match.get_at Match.child]. now rewrite (nth_index_of_key _ _ _ F).
             ++ rewrite IH. cbn. now rewrite (set_first_same _ _ _ F).
             ++ now rewrite IH.
          -- unfold lookup. cbn. rewrite F. reflexivity.
        * unfold lookup. cbn. reflexivity.
      + (* index *)
        destruct (index_part_spec _ _ Hp) as [PP Hc]. rewrite PP. cbn [app].
        destruct n as [t s w|kvs|es].
        * cbn in C. cbn [pm]. rewrite Hc. unfold lookup. destruct t; cbn in *; try discriminate; reflexivity.
        * cbn [pm]. rewrite Hc. reflexivity.
        * destruct (nth_error es i) as [e|] eqn:He; [|contradiction].
          destruct (pm_index_step p i rest es e Hp He) as [P L]. rewrite P, L.
          specialize (IH e C). unfold agree in *.
          destruct (lookup (parse_path rest) e) as [[y|]| | |]; auto.
          -- destruct IH as [a [Pe G]]. rewrite Pe. cbn [bind fst snd map push].
             rewrite (replace_nth_same _ _ _ He). exists (i :: a). split; [reflexivity|].
             cbn [Match.get_at Match.child]. now rewrite He.
          -- rewrite IH. cbn. now rewrite (replace_nth_same _ _ _ He).
          -- now rewrite IH.
      + (* selector *)
        destruct (sel_part_spec _ _ _ Hp) as (PP & Hc & Hs). rewrite PP. cbn [app].
        destruct n as [t s w|kvs|es].
        * cbn [pm]. rewrite Hc, Hs. unfold lookup. destruct t; cbn; reflexivity.
        * cbn [pm]. rewrite Hc, Hs. reflexivity.
        * destruct C as (Hf & Hu & Cr).
          rewrite (pm_selector_step p fld v rest es Hp Hf), lookup_selector_step.
          pose proof (visit_unique (sel_match fld v) (pm1 rest) es 0 Hu) as V.
          destruct (first_sat (sel_match fld v) es) as [e|] eqn:F.
          -- destruct V as (pre & post & -> & V). rewrite V. specialize (IH e (Cr e eq_refl)). unfold agree in *.
             destruct (lookup (parse_path rest) e) as [[y|]| | |]; auto.
             ++ destruct IH as [a [Pe G]]. rewrite Pe. cbn [bind fst snd map push Nat.add].
                exists (List.length pre :: a). split; [reflexivity|].
                cbn [Match.get_at Match.child]. now rewrite nth_error_mid.
             ++ rewrite IH. reflexivity.
             ++ now rewrite IH.
          -- rewrite V. reflexivity.
  Qed.

  (* DIFFERENCE 3, made precise: when several elements answer to the selector PathMatcher returns them all
     (here: the two hits of a final selector), PathGetter the first *)
  Lemma pm_selector_all_matches p fld v e1 e2 :
    sel_part p fld v -> sel_faithful fld v [e1; e2] ->
    sel_match fld v e1 = true -> sel_match fld v e2 = true ->
    pm1 [p] (Seq [e1; e2]) = Ok (Seq [e1; e2], [HAt [0]; HAt [1]]) /\
    lookup [PSel fld v] (Seq [e1; e2]) = Ok (Some e1).
  Proof.
    intros Hp Hf M1 M2. split.
    - rewrite (pm_selector_step p fld v [] _ Hp Hf). cbn. now rewrite M1, M2.
    - rewrite lookup_selector_step. cbn. now rewrite M1.
  Qed.
End Agree2.

(* DIFFERENCE 4: PathGetter trims path parts and drops empty ones, PathMatcher does not;
   DIFFERENCE 5: "-" is the last element for PathGetter and a field name for PathMatcher;
   DIFFERENCE 6: a primitive selector [=v] ends PathMatcher's walk (the rest of the path is ignored),
                 PathGetter walks on from the element (and fails on a scalar) *)
Section Differences.
  Let str (s : string) := Scalar TStr SPlain s.
  Let ns : string -> bool := fun _ => false.
  Let pmx := pm (parse_of [("x", Some (lit "x"))]) node_value ns None 1.

  Example diff_trim :
    lookup (parse_path [" a "; ""]) (Map [("a", str "v")]) = Ok (Some (str "v")) /\
    pmx [" a "] (Map [("a", str "v")]) = Ok (Map [("a", str "v")], []).
  Proof. split; reflexivity. Qed.

  Example diff_dash :
    lookup (parse_path ["-"]) (Map [("-", str "v")]) = Err /\
    pmx ["-"] (Map [("-", str "v")]) = Ok (Map [("-", str "v")], [HAt [0]]) /\
    lookup (parse_path ["l"; "-"]) (Map [("l", Seq [str "p"; str "q"])]) = Ok (Some (str "q")) /\
    pmx ["l"; "-"] (Map [("l", Seq [str "p"; str "q"])]) = Err.
  Proof. repeat split; reflexivity. Qed.

  Example diff_primitive_selector_ignores_rest :
    pmx ["[=x]"; "a"; "b"] (Seq [str "x"; str "y"]) = Ok (Seq [str "x"; str "y"], [HAt [0]]) /\
    lookup (parse_path ["[=x]"; "a"; "b"]) (Seq [str "x"; str "y"]) = Err.
  Proof. split; vm_compute; reflexivity. Qed.

  (* the selector agreement is not vacuous: a faithful expression, one match, a further field below it *)
  Example ex_comm :
    let d := Map [("l", Seq [Map [("name", str "x"); ("v", str "1")]; Map [("name", str "y")]])] in
    comm (parse_of [("x", Some (lit "x"))]) node_value ["l"; "[name=x]"; "v"] d /\
    lookup (parse_path ["l"; "[name=x]"; "v"]) d = Ok (Some (str "1")) /\
    pmx ["l"; "[name=x]"; "v"] d = Ok (d, [HAt [0; 0; 1]]).
  Proof.
    cbn zeta. split; [|split; vm_compute; reflexivity].
    left. split; [reflexivity|]. cbn.
    right; right. exists "name", "x". split; [repeat split; discriminate|].
    split.
    - exists (lit "x"). split; [reflexivity|]. intros kvs x [H|[H|[]]] F; inversion H; subst; cbn in F; inversion F; reflexivity.
    - split; [cbn; lia|]. intros e H. cbn in H. inversion H; subst.
      left. split; [reflexivity|]. exact I.
  Qed.
End Differences.
