(* Model of api/filters/fieldspec (Filter.filter / handleMap / handleSequence / isMatchGVK),
   api/filters/fsslice and kyaml/utils.PathSplitter. *)
From KV Require Export Yaml.Fns Yaml.FieldSpecTypes.

(* ---------- utils.PathSplitter(path, "/") ---------- *)
Definition ends_with_backslash (s : string) : bool := has_suffix "\" s.

(* fold the pieces of strings.Split, re-joining a piece that ends with a backslash with its successor *)
Fixpoint merge_escaped (cur : string) (rest : list string) : list string :=
  match rest with
  | [] => [cur]
  | p :: rest' =>
      if ends_with_backslash cur
      then merge_escaped (trim_suffix "\" cur ++ "/" ++ p) rest'
      else cur :: merge_escaped p rest'
  end.

Definition path_splitter (path : string) : list string :=
  let ps := split_on "/"%char path in
  let ps := match ps with
            | "" :: (_ :: _) as t => t
            | _ => ps
            end in
  match ps with
  | [] => [""]
  | h :: t => merge_escaped h t
  end.

(* isSequenceField *)
Definition is_sequence_field (name : string) : string * bool :=
  let shorter := trim_suffix "[]" name in
  (shorter, negb (String.eqb shorter name)).

(* ---------- object identity fields ---------- *)
Definition map_field_value (field : string) (obj : node) : option node :=
  match obj with Map kvs => find_field field kvs | _ => None end.

Definition obj_kind (obj : node) : string :=
  match map_field_value "kind" obj with Some v => node_value v | None => "" end.
Definition obj_api_version (obj : node) : string :=
  match map_field_value "apiVersion" obj with Some v => node_value v | None => "" end.

(* resid.ParseGroupVersion *)
Definition parse_group_version (av : string) : string * string :=
  match split_first "/"%char av with
  | Some (g, v) => (g, v)
  | None => ("", av)
  end.

Definition is_match_gvk (fs : fieldspec) (obj : node) : bool :=
  let (g, v) := parse_group_version (obj_api_version obj) in
  (String.eqb (fs_kind fs) "" || String.eqb (fs_kind fs) (obj_kind obj)) &&
  (String.eqb (fs_group fs) "" || String.eqb (fs_group fs) g) &&
  (String.eqb (fs_version fs) "" || String.eqb (fs_version fs) v).

(* the null-to-kind promotion of handleMap: Kind and Tag are overwritten, Value and Content stay *)
Definition promote (k : kind) (ctag : tag) (field : node) : node :=
  match field with
  | Scalar TNull s v =>
      match k with
      | KMap => Map []
      | KSeq => Seq []
      | KScalar => Scalar ctag s v
      end
  | _ => field
  end.

Section Filter.
  Variable create_kind : option kind.     (* Filter.CreateKind (None = 0) *)
  Variable create_tag : tag.              (* Filter.CreateTag *)
  Variable set_value : node -> res node.  (* Filter.SetValue, as a function on the node it is given *)

  Fixpoint fs_filter (create : bool) (path : list string) {struct path} : node -> res node :=
    match path with
    | [] => set_value
    | p :: rest =>
        fix go (obj : node) {struct obj} : res node :=
          if is_null obj then Ok obj else
          match obj with
          | Seq es =>
              do es' <- (fix goes (l : list node) : res (list node) :=
                           match l with
                           | [] => Ok []
                           | e :: t => do e' <- go e; do t' <- goes t; Ok (e' :: t')
                           end) es;
              Ok (Seq es')
          | Map _ =>
              let (field_name, is_seq) := is_sequence_field p in
              if String.eqb field_name "" then Err else
              let nocreate := negb create || match create_kind with None => true | Some _ => false end || is_seq in
              let cr : option kind :=
                if nocreate then None
                else match rest with
                     | [] => create_kind
                     | _ => Some KMap
                     end in
              let pk : option (kind * tag) :=      (* kind/tag used for the null promotion *)
                if nocreate then (if is_seq then Some (KSeq, TNone) else None)
                else match rest with
                     | [] => match create_kind with Some k => Some (k, create_tag) | None => None end
                     | _ => Some (KMap, TOther)
                     end in
              do r <- walk cr (parse_path [field_name])
                        (fun field =>
                           let field' := match pk with
                                         | Some (k, t) => promote k t field
                                         | None => field
                                         end in
                           do f' <- fs_filter create rest field'; Ok (f', tt)) obj;
              Ok (fst r)
          | Scalar _ _ _ => Err
          end
    end.

  (* fieldspec.Filter.Filter *)
  Definition fs_apply (fs : fieldspec) (obj : node) : res node :=
    if is_match_gvk fs obj
    then fs_filter (fs_create fs) (path_splitter (fs_path fs)) obj
    else Ok obj.

  (* fsslice.Filter.Filter *)
  Fixpoint fsslice_apply (l : list fieldspec) (obj : node) : res node :=
    match l with
    | [] => Ok obj
    | fs :: t => do obj' <- fs_apply fs obj; fsslice_apply t obj'
    end.
End Filter.
