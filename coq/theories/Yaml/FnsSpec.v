(* Specification vocabulary for the lens laws of KV.Yaml.Fns (definitions only; proofs in FnsProofs.v).
   Nothing here is part of the executable model: these are the notions the C14 theorems are stated with. *)
From KV Require Export Yaml.Fns.

(* ---------- one path part as a one-level lens: [child] reads, [plug] writes back ---------- *)

(* the node a single part selects without creating anything (None: absent, wrong kind, or failure) *)
Definition child (p : part) (n : node) : option node :=
  match p, n with
  | PKey name, Map kvs => find_field name kvs
  | PIdx i, Seq es => nth_error es i
  | PLast, Seq es => match es with [] => None | _ => nth_error es (List.length es - 1) end
  | PSel nm v, Seq es =>
      match find_index (sel_match nm v) es with
      | Some i => nth_error es i
      | None => None
      end
  | _, _ => None
  end.

(* [n] with the child selected by [p] replaced by [y] (only meaningful when [child p n] is [Some _]) *)
Definition plug (p : part) (n y : node) : node :=
  match p, n with
  | PKey name, Map kvs => Map (set_first name y kvs)
  | PIdx i, Seq es => Seq (replace_nth i y es)
  | PLast, Seq es => Seq (replace_nth (List.length es - 1) y es)
  | PSel nm v, Seq es =>
      match find_index (sel_match nm v) es with
      | Some i => Seq (replace_nth i y es)
      | None => n
      end
  | _, _ => n
  end.

(* ---------- (H2) no null node on the path ----------
   kyaml silently drops writes made through a !!null node (FieldSetter / ElementAppender append to the
   Content of a null scalar, which no reader ever looks at).  [no_null_path ps n]: neither [n] nor any node
   reached from it along the existing part of [ps] (including the node the whole path denotes) is null.
   The harness predicate nullOnPath14 is the negation of this. *)
Fixpoint no_null_path (ps : list part) (n : node) : bool :=
  negb (is_null n) &&
  match ps with
  | [] => true
  | p :: ps' => match child p n with Some x => no_null_path ps' x | None => true end
  end.

(* ---------- (H1) selector stability ----------
   A [nm=v] selector on the path must still select the same element after the write.  Only the last two
   positions of a path can break this: the continuation is applied to the selected element itself (path ends
   in [PSel nm v]) or to its field nm (path ends in [PSel nm v; PKey nm]). *)
Definition k_keeps_sel {A} (k : node -> res (node * A)) (nm v : string) : Prop :=
  forall x x' a, k x = Ok (x', a) -> sel_match nm v x = true -> sel_match nm v x' = true.

Definition k_keeps_value {A} (k : node -> res (node * A)) : Prop :=
  forall x x' a, k x = Ok (x', a) -> node_value x' = node_value x.

Definition stable_after {A} (nm v : string) (ps' : list part) (k : node -> res (node * A)) : Prop :=
  match ps' with
  | [] => k_keeps_sel k nm v
  | [PKey name] => name = nm -> nm <> "" -> k_keeps_value k
  | _ => True
  end.

Fixpoint stable {A} (ps : list part) (k : node -> res (node * A)) : Prop :=
  match ps with
  | [] => True
  | PSel nm v :: ps' => stable_after nm v ps' k /\ stable ps' k
  | _ :: ps' => stable ps' k
  end.

(* syntactic forms for the two write operations (mirrored by stable14 in harness/c14.go) *)
Fixpoint stable_put (ps : list part) (name : string) : bool :=
  match ps with
  | [] => true
  | [PSel nm _] => negb (String.eqb nm name)
  | _ :: ps' => stable_put ps' name
  end.

Fixpoint stable_put_scalar (ps : list part) : bool :=
  match ps with
  | [] => true
  | [PSel nm _] => negb (String.eqb nm "")
  | [PSel nm _; PKey name] => negb (String.eqb name nm) || String.eqb nm ""
  | _ :: ps' => stable_put_scalar ps'
  end.

(* ---------- sequencing of continuations (fusion law) ---------- *)
Definition kseq {A B} (k1 : node -> res (node * A)) (k2 : node -> res (node * B)) : node -> res (node * B) :=
  fun x => do r1 <- k1 x; k2 (fst r1).

(* ---------- divergence of two paths (frame law) ---------- *)
Inductive apart : part -> part -> Prop :=
| apart_key a b : a <> b -> apart (PKey a) (PKey b)
| apart_idx i j : i <> j -> apart (PIdx i) (PIdx j)
| apart_sel nm v w : v <> w -> apart (PSel nm v) (PSel nm w).

Inductive diverges : list part -> list part -> Prop :=
| div_here p q ps qs : apart p q -> diverges (p :: ps) (q :: qs)
| div_later p ps qs : diverges ps qs -> diverges (p :: ps) (p :: qs).

(* the same, but q may also agree with the whole of ps and then continue with a rest accepted by [ok_end]
   (used for writes whose continuation itself only touches part of the node at ps, e.g. one field) *)
Inductive diverges_end (ok_end : list part -> Prop) : list part -> list part -> Prop :=
| dve_end qs : ok_end qs -> diverges_end ok_end [] qs
| dve_here p q ps qs : apart p q -> diverges_end ok_end (p :: ps) (q :: qs)
| dve_later p ps qs : diverges_end ok_end ps qs -> diverges_end ok_end (p :: ps) (p :: qs).

(* q never reads the key field of a selector it has just passed ([nm=v] followed by nm): that field is
   the one thing a write *creates* outside its own path when it has to append the element [nm=v] *)
Fixpoint no_sel_key_read (qs : list part) : Prop :=
  match qs with
  | [] => True
  | PSel nm _ :: qs' =>
      match qs' with
      | PKey name :: _ => name <> nm
      | _ => True
      end /\ no_sel_key_read qs'
  | _ :: qs' => no_sel_key_read qs'
  end.

(* boolean versions, for examples and for the harness mirror *)
Definition part_eqb (p q : part) : bool :=
  match p, q with
  | PKey a, PKey b => String.eqb a b
  | PIdx i, PIdx j => Nat.eqb i j
  | PLast, PLast => true
  | PSel a v, PSel b w => String.eqb a b && String.eqb v w
  | PBadSel, PBadSel | PNeg, PNeg | PWild, PWild => true
  | _, _ => false
  end.

Definition apartb (p q : part) : bool :=
  match p, q with
  | PKey a, PKey b => negb (String.eqb a b)
  | PIdx i, PIdx j => negb (Nat.eqb i j)
  | PSel a v, PSel b w => String.eqb a b && negb (String.eqb v w)
  | _, _ => false
  end.

Fixpoint divergesb (ps qs : list part) : bool :=
  match ps, qs with
  | p :: ps', q :: qs' => apartb p q || (part_eqb p q && divergesb ps' qs')
  | _, _ => false
  end.

(* ---------- equality up to scalar styles (last-write-wins holds up to the style kept from the old value) ---------- *)
Fixpoint unstyle (n : node) : node :=
  match n with
  | Scalar t _ v => Scalar t SPlain v
  | Map kvs => Map (map (fun kv => (fst kv, unstyle (snd kv))) kvs)
  | Seq es => Seq (map unstyle es)
  end.
