(* Proofs about KV.Yaml.Annot (kept out of the model file): the reader's annotation bookkeeping followed
   by the writer's clearing is [clear_empty_annotations], at node level. *)
From KV Require Import Yaml.Annot Yaml.FnsProofs.
Local Open Scope list_scope.

Ltac inv H := inversion H; subst; clear H.

Notation MD := "metadata"%string.
Notation AN := "annotations"%string.

(* ---------- association lists ---------- *)

Lemma find_field_app name (l l' : list (string * node)) :
  find_field name (l ++ l') = match find_field name l with Some v => Some v | None => find_field name l' end.
Proof. induction l as [|[k v] l IH]; cbn; auto. destruct (String.eqb k name); auto. Qed.

Lemma remove_first_app_absent name (l l' : list (string * node)) :
  find_field name l = None -> remove_first name (l ++ l') = l ++ remove_first name l'.
Proof.
  induction l as [|[k v] l IH]; cbn; auto. destruct (String.eqb k name); [discriminate|].
  intros H. rewrite IH; auto.
Qed.

Lemma set_first_same name kvs x : find_field name kvs = Some x -> set_first name x kvs = kvs.
Proof.
  induction kvs as [|[k v] t IH]; cbn; intros H; [discriminate|].
  destruct (String.eqb k name) eqn:E; [inv H; reflexivity|rewrite IH; auto].
Qed.

Lemma rfe_absent name kvs : find_field name kvs = None -> remove_first_empty name kvs = kvs.
Proof.
  induction kvs as [|[k v] t IH]; cbn; intros H; [reflexivity|].
  destruct (String.eqb k name); [discriminate|]. cbn. rewrite IH; auto.
Qed.

(* the first field of that name decides, when it is the only one *)
Lemma rfe_found name kvs v :
  find_field name kvs = Some v -> single_key name kvs ->
  remove_first_empty name kvs = if content_empty v then remove_first name kvs else kvs.
Proof.
  unfold single_key. induction kvs as [|[k x] t IH]; cbn; intros H S; [discriminate|].
  destruct (String.eqb k name) eqn:E.
  - inv H. cbn. destruct (content_empty v); [reflexivity|]. rewrite rfe_absent; auto.
  - cbn in S. rewrite E in S. cbn. rewrite IH by auto. destruct (content_empty v); reflexivity.
Qed.

Lemma rfe_app_last name kvs v :
  find_field name kvs = None -> content_empty v = true ->
  remove_first_empty name (kvs ++ [(name, v)]) = kvs.
Proof.
  induction kvs as [|[k x] t IH]; cbn; intros H C.
  - rewrite String.eqb_refl, C. reflexivity.
  - destruct (String.eqb k name); [discriminate|]. cbn. rewrite IH; auto.
Qed.

Lemma remove_first_set_first name y kvs : remove_first name (set_first name y kvs) = remove_first name kvs.
Proof.
  induction kvs as [|[k x] t IH]; cbn; auto.
  destruct (String.eqb k name) eqn:E; cbn; rewrite E; [reflexivity|rewrite IH; reflexivity].
Qed.

Lemma single_key_set_first name y kvs : single_key name kvs -> single_key name (set_first name y kvs).
Proof. unfold single_key. rewrite remove_first_set_first. auto. Qed.

Lemma find_remove_first_single name kvs : single_key name kvs -> find_field name (remove_first name kvs) = None.
Proof. auto. Qed.

Lemma app_not_nil {A} (l : list A) x : l ++ [x] <> [].
Proof. destruct l; discriminate. Qed.

Lemma keys_absent_nil ks : keys_absent ks [].
Proof. induction ks; cbn; auto. Qed.

(* ---------- the three shapes of a settled resource ---------- *)

Inductive frame :=
| FA (kvs : list (string * node))                      (* no metadata *)
| FB (kvs mk : list (string * node))                   (* metadata = Map mk (non-empty), no annotations *)
| FC (kvs mk ak : list (string * node)).               (* metadata = Map mk, annotations = Map ak (non-empty) *)

Definition fwf (f : frame) : Prop :=
  match f with
  | FA kvs => find_field MD kvs = None
  | FB kvs mk => find_field MD kvs = Some (Map mk) /\ single_key MD kvs /\ find_field AN mk = None /\ mk <> []
  | FC kvs mk ak => find_field MD kvs = Some (Map mk) /\ single_key MD kvs /\
                    find_field AN mk = Some (Map ak) /\ single_key AN mk /\ ak <> []
  end.

Definition base (f : frame) : node :=
  match f with FA kvs => Map kvs | FB kvs _ => Map kvs | FC kvs _ _ => Map kvs end.

Definition base_ann (f : frame) : list (string * node) :=
  match f with FC _ _ ak => ak | _ => [] end.

(* the resource with its annotation mapping set to [l] *)
Definition node_of (f : frame) (l : list (string * node)) : node :=
  match f with
  | FA kvs => Map (kvs ++ [(MD, Map [(AN, Map l)])])
  | FB kvs mk => Map (set_first MD (Map (mk ++ [(AN, Map l)])) kvs)
  | FC kvs mk _ => Map (set_first MD (Map (set_first AN (Map l) mk)) kvs)
  end.

Section AnnotProofs.
  Variable nonstr : string -> bool.

  Lemma quote11_ann v : quote11 nonstr (ann_value v) = ann_value v.
  Proof. reflexivity. Qed.

  (* ---- clear_empty_annotations on the shapes ---- *)

  Lemma cea_base f : fwf f -> clear_empty_annotations (base f) = Ok (base f).
  Proof.
    destruct f as [kvs|kvs mk|kvs mk ak]; cbn [fwf base]; unfold clear_empty_annotations.
    - intros H. cbn [walk]. rewrite H. cbn [bind fst clear_field_if_empty]. rewrite rfe_absent; auto.
    - intros (H & S & Ha & Hne). cbn [walk]. rewrite H. cbn [walk bind fst snd clear_field_if_empty].
      rewrite (rfe_absent AN mk Ha). cbn [bind fst snd]. rewrite (set_first_same _ _ _ H).
      cbn [clear_field_if_empty]. rewrite (rfe_found _ _ _ H S). destruct mk; [congruence|reflexivity].
    - intros (H & S & Ha & Sa & Hne). cbn [walk]. rewrite H. cbn [walk bind fst snd clear_field_if_empty].
      rewrite (rfe_found _ _ _ Ha Sa). destruct ak as [|a ak']; [congruence|]. cbn [content_empty].
      cbn [bind fst snd]. rewrite (set_first_same _ _ _ H).
      cbn [clear_field_if_empty]. rewrite (rfe_found _ _ _ H S). destruct mk; [discriminate|reflexivity].
  Qed.

  (* ---- generic part: a resource whose metadata and annotations mappings exist ---- *)

  Definition full (K M l : list (string * node)) : Prop :=
    find_field MD K = Some (Map M) /\ single_key MD K /\
    find_field AN M = Some (Map l) /\ single_key AN M.

  Definition ann_set (K M l' : list (string * node)) : node :=
    Map (set_first MD (Map (set_first AN (Map l') M)) K).

  Lemma full_ann_set K M l l' :
    full K M l -> full (set_first MD (Map (set_first AN (Map l') M)) K) (set_first AN (Map l') M) l'.
  Proof.
    intros (H & S & Ha & Sa). repeat split.
    - eapply find_field_set_first_same; eauto.
    - apply single_key_set_first; auto.
    - eapply find_field_set_first_same; eauto.
    - apply single_key_set_first; auto.
  Qed.

  Lemma ann_set_ann_set K M l' l'' :
    ann_set (set_first MD (Map (set_first AN (Map l') M)) K) (set_first AN (Map l') M) l'' = ann_set K M l''.
  Proof. unfold ann_set. rewrite !set_first_set_first. reflexivity. Qed.

  Lemma ann_set_same K M l : full K M l -> ann_set K M l = Map K.
  Proof.
    intros (H & S & Ha & Sa). unfold ann_set. rewrite (set_first_same _ _ _ Ha), (set_first_same _ _ _ H). reflexivity.
  Qed.

  Lemma find_some_not_nil name (kvs : list (string * node)) x : find_field name kvs = Some x -> kvs <> [].
  Proof. destruct kvs; [discriminate|congruence]. Qed.

  Lemma cea_full K M l : full K M l -> l <> [] -> clear_empty_annotations (Map K) = Ok (Map K).
  Proof.
    intros (H & S & Ha & Sa) Hne. unfold clear_empty_annotations.
    cbn [walk]. rewrite H. cbn [walk bind fst snd clear_field_if_empty].
    rewrite (rfe_found _ _ _ Ha Sa). destruct l as [|a l']; [congruence|]. cbn [content_empty].
    cbn [bind fst snd]. rewrite (set_first_same _ _ _ H). cbn [clear_field_if_empty].
    rewrite (rfe_found _ _ _ H S). pose proof (find_some_not_nil _ _ _ Ha). destruct M; [congruence|reflexivity].
  Qed.

  Lemma put_full K M l k v :
    full K M l -> find_field k l = None ->
    put nonstr [PKey MD; PKey AN] k (ann_value v) (Map K) = Ok (ann_set K M (l ++ [(k, ann_value v)]), Some tt).
  Proof.
    intros (H & S & Ha & Sa) Hk. unfold put. cbn [walk]. rewrite H. cbn [walk]. rewrite Ha.
    cbn [walk]. unfold k_set_field, set_field. cbn [ann_value is_null negb andb]. rewrite Hk.
    cbn [bind fst snd quote11]. reflexivity.
  Qed.

  Lemma clear_full K M l k :
    full K M l ->
    clear_at [PKey MD; PKey AN] k (Map K) = Ok (ann_set K M (remove_first k l), Some tt).
  Proof.
    intros (H & S & Ha & Sa). unfold clear_at. cbn [walk]. rewrite H. cbn [walk]. rewrite Ha.
    cbn [walk]. unfold k_clear, clear_field. cbn [bind fst snd]. reflexivity.
  Qed.

  (* ---- frame-specific part ---- *)

  Lemma node_of_full f l : fwf f ->
    exists K M, node_of f l = Map K /\ full K M l /\ forall l', ann_set K M l' = node_of f l'.
  Proof.
    destruct f as [kvs|kvs mk|kvs mk ak]; cbn [fwf node_of].
    - intros H. exists (kvs ++ [(MD, Map [(AN, Map l)])]), [(AN, Map l)]. split; [reflexivity|]. split.
      + repeat split.
        * apply find_field_app_same; auto.
        * unfold single_key. rewrite remove_first_app_absent by auto. cbn. rewrite app_nil_r. auto.
      + intros l'. unfold ann_set. cbn [set_first String.eqb Ascii.eqb Bool.eqb].
        rewrite set_first_app_same by auto. reflexivity.
    - intros (H & S & Ha & Hne). exists (set_first MD (Map (mk ++ [(AN, Map l)])) kvs), (mk ++ [(AN, Map l)]).
      split; [reflexivity|]. split.
      + repeat split.
        * eapply find_field_set_first_same; eauto.
        * apply single_key_set_first; auto.
        * apply find_field_app_same; auto.
        * unfold single_key. rewrite remove_first_app_absent by auto. cbn. rewrite app_nil_r. auto.
      + intros l'. unfold ann_set. rewrite set_first_app_same by auto. rewrite set_first_set_first. reflexivity.
    - intros (H & S & Ha & Sa & Hne).
      exists (set_first MD (Map (set_first AN (Map l) mk)) kvs), (set_first AN (Map l) mk).
      split; [reflexivity|]. split.
      + eapply full_ann_set. repeat split; eauto.
      + intros l'. apply ann_set_ann_set.
  Qed.

  Lemma put_base f k v :
    fwf f -> find_field k (base_ann f) = None ->
    put nonstr [PKey MD; PKey AN] k (ann_value v) (base f) =
    Ok (node_of f (base_ann f ++ [(k, ann_value v)]), Some tt).
  Proof.
    destruct f as [kvs|kvs mk|kvs mk ak]; cbn [fwf base base_ann node_of].
    - intros H _. unfold put. cbn [walk]. rewrite H. cbn. reflexivity.
    - intros (H & S & Ha & Hne) _. unfold put. cbn [walk]. rewrite H. cbn [walk]. rewrite Ha. cbn. reflexivity.
    - intros (H & S & Ha & Sa & Hne) Hk.
      rewrite (put_full kvs mk ak k v); [reflexivity| |auto]. repeat split; auto.
  Qed.

  Lemma cea_node_of_base f : fwf f -> clear_empty_annotations (node_of f (base_ann f)) = Ok (base f).
  Proof.
    intros Hf. pose proof (cea_base f Hf) as Hb.
    destruct f as [kvs|kvs mk|kvs mk ak]; cbn [fwf base base_ann node_of] in *.
    - unfold clear_empty_annotations. cbn [walk]. rewrite (find_field_app_same MD _ kvs Hf).
      cbn [walk bind fst snd clear_field_if_empty remove_first_empty String.eqb Ascii.eqb Bool.eqb content_empty andb].
      rewrite set_first_app_same by auto. cbn [clear_field_if_empty]. rewrite rfe_app_last; auto.
    - destruct Hf as (H & S & Ha & Hne). unfold clear_empty_annotations. cbn [walk].
      rewrite (find_field_set_first_same MD _ kvs _ H).
      cbn [walk bind fst snd clear_field_if_empty]. rewrite rfe_app_last by auto.
      cbn [bind fst snd]. rewrite set_first_set_first, (set_first_same _ _ _ H).
      cbn [clear_field_if_empty]. rewrite (rfe_found _ _ _ H S). destruct mk; [congruence|reflexivity].
    - destruct Hf as (H & S & Ha & Sa & Hne).
      rewrite (set_first_same _ _ _ Ha), (set_first_same _ _ _ H). exact Hb.
  Qed.

  (* ---- single operations on the shapes ---- *)

  Lemma set_annotation_base f k v :
    fwf f -> find_field k (base_ann f) = None ->
    set_annotation nonstr k v (base f) = Ok (node_of f (base_ann f ++ [(k, ann_value v)])).
  Proof.
    intros Hf Hk. unfold set_annotation. rewrite (cea_base f Hf). cbn [bind].
    rewrite (put_base f k v Hf Hk). reflexivity.
  Qed.

  Lemma set_annotation_node f l k v :
    fwf f -> l <> [] -> find_field k l = None ->
    set_annotation nonstr k v (node_of f l) = Ok (node_of f (l ++ [(k, ann_value v)])).
  Proof.
    intros Hf Hne Hk. destruct (node_of_full f l Hf) as (K & M & E & Hfull & Hset).
    unfold set_annotation. rewrite E, (cea_full K M l Hfull Hne). cbn [bind].
    rewrite (put_full K M l k v Hfull Hk). cbn [bind fst]. rewrite Hset. reflexivity.
  Qed.

  Lemma clear_annotation_node f l k :
    fwf f -> clear_annotation k (node_of f l) = Ok (node_of f (remove_first k l)).
  Proof.
    intros Hf. destruct (node_of_full f l Hf) as (K & M & E & Hfull & Hset).
    unfold clear_annotation. rewrite E, (clear_full K M l k Hfull). cbn [bind fst]. rewrite Hset. reflexivity.
  Qed.

  Lemma set_annotation_via_cea k v n b :
    clear_empty_annotations n = Ok b -> clear_empty_annotations b = Ok b ->
    set_annotation nonstr k v n = set_annotation nonstr k v b.
  Proof. intros H1 H2. unfold set_annotation. rewrite H1, H2. reflexivity. Qed.

  (* ---- every well-formed resource settles into one of the shapes ---- *)

  Lemma cea_settled ks n :
    res_wf ks n ->
    exists f, fwf f /\ clear_empty_annotations n = Ok (base f) /\ keys_absent ks (base_ann f).
  Proof.
    destruct n as [t s v|kvs|es]; cbn [res_wf]; try contradiction.
    destruct (find_field MD kvs) as [[t s v|mk|es]|] eqn:H; try contradiction.
    - intros (S & Hann).
      destruct (find_field AN mk) as [[t s v|ak|es]|] eqn:Ha; try contradiction.
      + destruct Hann as (Sa & Hks).
        destruct ak as [|a ak'].
        * (* empty annotations: removed; metadata may become empty too *)
          unfold clear_empty_annotations. cbn [walk]. rewrite H. cbn [walk bind fst snd clear_field_if_empty].
          rewrite (rfe_found _ _ _ Ha Sa). cbn [content_empty bind fst snd clear_field_if_empty].
          assert (Hm : find_field MD (set_first MD (Map (remove_first AN mk)) kvs) = Some (Map (remove_first AN mk)))
            by (eapply find_field_set_first_same; eauto).
          rewrite (rfe_found _ _ _ Hm (single_key_set_first _ _ _ S)).
          assert (Ha1 : find_field AN (remove_first AN mk) = None) by exact Sa.
          destruct (remove_first AN mk) as [|e mk'].
          -- cbn [content_empty]. rewrite remove_first_set_first.
             exists (FA (remove_first MD kvs)). cbn [fwf base base_ann]. repeat split; auto.
          -- cbn [content_empty].
             exists (FB (set_first MD (Map (e :: mk')) kvs) (e :: mk')).
             cbn [fwf base base_ann].
             repeat split; auto using keys_absent_nil, single_key_set_first; discriminate.
        * exists (FC kvs mk (a :: ak')). cbn [fwf base base_ann].
          assert (Hf : fwf (FC kvs mk (a :: ak'))) by (cbn; repeat split; auto; discriminate).
          repeat split; auto; try discriminate. apply (cea_base _ Hf).
      + (* no annotations *)
        destruct mk as [|e mk'] eqn:Em.
        * unfold clear_empty_annotations. cbn [walk]. rewrite H. cbn [walk bind fst snd clear_field_if_empty remove_first_empty].
          rewrite (set_first_same _ _ _ H). cbn [clear_field_if_empty]. rewrite (rfe_found _ _ _ H S).
          cbn [content_empty]. exists (FA (remove_first MD kvs)). cbn [fwf base base_ann]. repeat split; auto.
          apply keys_absent_nil.
        * rewrite <- Em in *. exists (FB kvs mk).
          assert (Hf : fwf (FB kvs mk)) by (cbn; repeat split; auto; subst; discriminate).
          repeat split; auto; try (subst; discriminate). apply (cea_base _ Hf).
          apply keys_absent_nil.
    - intros _. exists (FA kvs). assert (Hf : fwf (FA kvs)) by exact H.
      repeat split; auto. apply (cea_base _ Hf). apply keys_absent_nil.
  Qed.

  Lemma fwf_res_wf ks f : fwf f -> keys_absent ks (base_ann f) -> res_wf ks (base f).
  Proof.
    destruct f as [kvs|kvs mk|kvs mk ak]; cbn [fwf base base_ann res_wf].
    - intros H _. rewrite H. exact I.
    - intros (H & S & Ha & Hne) _. rewrite H, Ha. auto.
    - intros (H & S & Ha & Sa & Hne) Hk. rewrite H, Ha. auto.
  Qed.

  (* ---- the round trips ---- *)

  Ltac absent_app Hk :=
    rewrite ?find_field_app; repeat (rewrite Hk || cbn [find_field String.eqb Ascii.eqb Bool.eqb]); reflexivity.

  Theorem rt_node_is_cea i n :
    res_wf reader_keys n -> rt_node nonstr i n = clear_empty_annotations n.
  Proof.
    intros Hw. destruct (cea_settled _ _ Hw) as (f & Hf & Hc & Hi & Hl & Hs & _).
    pose proof (cea_base f Hf) as Hb.
    unfold rt_node, read_set. rewrite (set_annotation_via_cea _ _ _ _ Hc Hb).
    rewrite (set_annotation_base f _ _ Hf Hl). cbn [bind].
    rewrite set_annotation_node; auto using app_not_nil; [|rewrite find_field_app, Hi; reflexivity].
    cbn [bind]. unfold write_clear.
    repeat (rewrite clear_annotation_node by auto; cbn [bind]).
    rewrite <- !app_assoc. cbn [app].
    repeat (rewrite remove_first_app_absent by auto;
            cbn [remove_first String.eqb Ascii.eqb Bool.eqb index_key legacy_index_key seqindent_key]).
    rewrite app_nil_r.
    rewrite cea_node_of_base by auto. symmetry. exact Hc.
  Qed.

  Theorem pkg_rt_node_is_cea i path n :
    res_wf pkg_reader_keys n -> pkg_rt_node nonstr i path n = clear_empty_annotations n.
  Proof.
    intros Hw. destruct (cea_settled _ _ Hw) as (f & Hf & Hc & Hi & Hl & Hs & Hp & Hlp & _).
    pose proof (cea_base f Hf) as Hb.
    unfold pkg_rt_node, pkg_read_set. cbn [set_all].
    rewrite (set_annotation_via_cea _ _ _ _ Hc Hb).
    rewrite (set_annotation_base f _ _ Hf Hl). cbn [bind].
    rewrite set_annotation_node; auto using app_not_nil; [|rewrite find_field_app, Hlp; reflexivity].
    cbn [bind].
    rewrite set_annotation_node; auto using app_not_nil; [|rewrite !find_field_app, Hi; reflexivity].
    cbn [bind].
    rewrite set_annotation_node; auto using app_not_nil; [|rewrite !find_field_app, Hp; reflexivity].
    cbn [bind]. unfold pkg_write_clear. cbn [clear_all].
    repeat (rewrite clear_annotation_node by auto; cbn [bind]).
    rewrite <- !app_assoc. cbn [app].
    repeat (rewrite remove_first_app_absent by auto;
            cbn [remove_first String.eqb Ascii.eqb Bool.eqb index_key legacy_index_key seqindent_key path_key legacy_path_key]).
    rewrite app_nil_r.
    rewrite cea_node_of_base by auto. symmetry. exact Hc.
  Qed.

  (* the settled form is again a well-formed resource, and settling it again changes nothing *)
  Lemma cea_idempotent ks n n1 :
    res_wf ks n -> clear_empty_annotations n = Ok n1 ->
    res_wf ks n1 /\ clear_empty_annotations n1 = Ok n1.
  Proof.
    intros Hw H. destruct (cea_settled _ _ Hw) as (f & Hf & Hc & Hk).
    rewrite Hc in H. inv H. split; [apply fwf_res_wf; auto|apply cea_base; auto].
  Qed.

  Lemma cea_total ks n : res_wf ks n -> exists n1, clear_empty_annotations n = Ok n1.
  Proof. intros Hw. destruct (cea_settled _ _ Hw) as (f & _ & Hc & _). eauto. Qed.

  (* reader then writer, twice = once (node level; the index may differ between the two trips) *)
  Theorem rt_node_idempotent i j n n1 :
    res_wf reader_keys n -> rt_node nonstr i n = Ok n1 -> rt_node nonstr j n1 = Ok n1.
  Proof.
    intros Hw H. rewrite rt_node_is_cea in H by auto.
    destruct (cea_idempotent _ _ _ Hw H) as [Hw1 H1]. rewrite rt_node_is_cea by auto. exact H1.
  Qed.

  Theorem pkg_rt_node_idempotent i j p q n n1 :
    res_wf pkg_reader_keys n -> pkg_rt_node nonstr i p n = Ok n1 -> pkg_rt_node nonstr j q n1 = Ok n1.
  Proof.
    intros Hw H. rewrite pkg_rt_node_is_cea in H by auto.
    destruct (cea_idempotent _ _ _ Hw H) as [Hw1 H1]. rewrite pkg_rt_node_is_cea by auto. exact H1.
  Qed.

  (* a resource without metadata, or with non-empty annotations, comes back exactly *)
  Corollary rt_node_identity_no_metadata i kvs :
    find_field MD kvs = None -> rt_node nonstr i (Map kvs) = Ok (Map kvs).
  Proof.
    intros H. rewrite rt_node_is_cea by (cbn; rewrite H; exact I).
    apply (cea_base (FA kvs)). exact H.
  Qed.
End AnnotProofs.

(* non-vacuity: concrete resources meeting the hypotheses *)
Module AnnotExamples.
  Definition ns (_ : string) := false.
  Definition r1 : node := Map [("kind", Scalar TStr SPlain "ConfigMap")].
  Definition r2 : node := Map [("kind", Scalar TStr SPlain "K");
                               ("metadata", Map [("name", Scalar TStr SPlain "a"); ("annotations", Map [("keep", Scalar TStr SPlain "me")])])].
  Definition r3 : node := Map [("metadata", Map [("annotations", Map [])])].
  Example wf1 : res_wf reader_keys r1. Proof. exact I. Qed.
  Example wf2 : res_wf reader_keys r2. Proof. cbn. repeat split. Qed.
  Example wf3 : res_wf reader_keys r3. Proof. cbn. repeat split. Qed.
  Example rt1 : rt_node ns 0 r1 = Ok r1. Proof. reflexivity. Qed.
  Example rt2 : rt_node ns 5 r2 = Ok r2. Proof. reflexivity. Qed.
  Example rt3 : rt_node ns 0 r3 = Ok (Map []). Proof. reflexivity. Qed.
  Example read2 : exists n, read_set ns 5 r2 = Ok n /\ n <> r2. Proof. eexists; split; [reflexivity|discriminate]. Qed.
End AnnotExamples.
