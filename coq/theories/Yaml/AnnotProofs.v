(* Proofs about KV.Yaml.Annot (kept out of the model file). *)
From KV Require Import Yaml.Annot.
Local Open Scope list_scope.

Ltac inv H := inversion H; subst; clear H.

Lemma find_field_app name (l l' : list (string * node)) :
  find_field name (l ++ l') = match find_field name l with Some v => Some v | None => find_field name l' end.
Proof.
  induction l as [|[k v] l IH]; cbn; auto. destruct (String.eqb k name); auto.
Qed.

Lemma remove_first_absent name (l : list (string * node)) :
  find_field name l = None -> remove_first name l = l.
Proof.
  induction l as [|[k v] l IH]; cbn; auto. destruct (String.eqb k name); [discriminate|].
  intros H. rewrite IH; auto.
Qed.

Lemma remove_first_app_absent name (l l' : list (string * node)) :
  find_field name l = None -> remove_first name (l ++ l') = l ++ remove_first name l'.
Proof.
  induction l as [|[k v] l IH]; cbn; auto. destruct (String.eqb k name); [discriminate|].
  intros H. rewrite IH; auto.
Qed.

Section AnnotProofs.
  Variable nonstr : string -> bool.

  (* the three reader keys are absent from an annotation map *)
  Definition no_reader_keys (akvs : list (string * node)) : Prop :=
    find_field index_key akvs = None /\ find_field legacy_index_key akvs = None /\
    find_field seqindent_key akvs = None.

  (* Core of the annotation round trip, on the annotation mapping itself: setting the two index
     annotations (as the reader does, legacy key first) and then clearing index, legacy index and
     seqindent (as the writer does) gives the mapping back, entries and order unchanged. *)
  Lemma annotation_map_roundtrip akvs v :
    no_reader_keys akvs ->
    (do m1 <- set_field nonstr legacy_index_key (Some (ann_value v)) false (Map akvs);
     do m2 <- set_field nonstr index_key (Some (ann_value v)) false m1;
     do m3 <- clear_field index_key m2;
     do m4 <- clear_field legacy_index_key m3;
     clear_field seqindent_key m4) = Ok (Map akvs).
  Proof.
    intros (Hi & Hl & Hs).
    unfold set_field. cbn [ann_value is_null negb andb]. rewrite Hl. cbn [bind quote11].
    rewrite find_field_app, Hi. cbn [find_field]. cbn [String.eqb Ascii.eqb Bool.eqb index_key legacy_index_key].
    cbn [bind clear_field quote11].
    rewrite <- app_assoc. rewrite remove_first_app_absent by auto.
    cbn [remove_first app String.eqb Ascii.eqb Bool.eqb index_key legacy_index_key].
    rewrite remove_first_app_absent by auto.
    cbn [remove_first app String.eqb Ascii.eqb Bool.eqb index_key legacy_index_key].
    rewrite app_nil_r. rewrite remove_first_absent by auto. reflexivity.
  Qed.
End AnnotProofs.
