(* YAML 1.1 resolution of a plain scalar as go-yaml v2 does it (sigs.k8s.io/yaml/goyaml.v2 resolve.go),
   for the fragment of texts that the YAML scanner certainly reads as ONE plain scalar.

   yaml.IsValueNonString(value) and compatibility.go's valueHasType(value, t) unmarshal the text as a
   whole YAML 1.1 document; on this fragment that is resolve("", value):
     1. the word table (booleans y/yes/true/on..., null ~/null, .inf/.nan);
     2. first byte a digit or a sign: (timestamp candidates are outside the fragment) underscores
        removed, strconv.ParseInt(_, 0, 64) syntax  ->  int ; else the float regexp
        sign? ( '.' digits+ | digits+ ( '.' digits0 )? ) ( [eE] sign? digits+ )?  ->  float ;
     3. first byte '.': strconv.ParseFloat syntax  ->  float ;
     4. anything else is a string.
   [resolve11 v = None] means "outside the fragment": the answer stays with the per-case oracle.
   Definitions only.  Tied to go-yaml by the correspondence (Corr/C20.v, field [scal] and KScalars). *)
From KV Require Import Base.Prelude.
Open Scope string_scope.

Inductive rtag := RStr | RBool | RInt | RFloat | RNull.

Definition rtag_eqb (a b : rtag) : bool :=
  match a, b with
  | RStr, RStr | RBool, RBool | RInt, RInt | RFloat, RFloat | RNull, RNull => true
  | _, _ => false
  end.

(* ---------- characters ---------- *)
Definition code (c : ascii) : N := N_of_ascii c.
Definition is_lower (c : ascii) : bool := (97 <=? code c)%N && (code c <=? 122)%N.
Definition is_upper (c : ascii) : bool := (65 <=? code c)%N && (code c <=? 90)%N.
Definition is_alpha (c : ascii) : bool := is_lower c || is_upper c.
Definition is_char (c : ascii) (s : string) : bool :=
  match s with String d EmptyString => Ascii.eqb c d | _ => false end.
Definition one_of (c : ascii) (s : string) : bool :=
  (fix go (s : string) : bool :=
     match s with EmptyString => false | String d r => Ascii.eqb c d || go r end) s.

Fixpoint all_chars (f : ascii -> bool) (s : string) : bool :=
  match s with EmptyString => true | String c r => f c && all_chars f r end.

(* ---------- the fragment ---------- *)

(* bytes that cannot end or split a plain scalar and carry no YAML meaning inside one; ":,=@%" only
   after the first byte (and ':' not as the last one: "a:" is a mapping key) *)
Definition safe_char (c : ascii) : bool := is_alpha c || is_digit c || one_of c "_./+-~:,=@%".

Definition first_ok (s : string) : bool :=
  match s with
  | EmptyString => false
  | String c r =>
      if is_alpha c || is_digit c || one_of c "_./+~" then true
      else if is_char c "-" then
        (* "-" alone or "- x" is a sequence entry; "--- " a document marker *)
        match r with
        | String d _ => is_alpha d || is_digit d || one_of d "._"
        | EmptyString => false
        end
      else false
  end.

(* four digits followed by '-': go-yaml tries to read a timestamp (time.Parse): not modelled *)
Definition ts_candidate (s : string) : bool :=
  match s with
  | String a (String b (String c (String d (String e _)))) =>
      is_digit a && is_digit b && is_digit c && is_digit d && is_char e "-"
  | _ => false
  end.

Fixpoint strip_us (s : string) : string :=
  match s with
  | EmptyString => EmptyString
  | String c r => if is_char c "_" then strip_us r else String c (strip_us r)
  end.

Definition in_fragment (s : string) : bool :=
  first_ok s && all_chars safe_char s && negb (has_suffix ":" s) && negb (has_prefix "..." s) &&
  negb (ts_candidate s) && (String.length s <=? 18)%nat.

(* ---------- the word table ---------- *)
Definition word_table : list (string * rtag) :=
  [("y", RBool); ("Y", RBool); ("yes", RBool); ("Yes", RBool); ("YES", RBool);
   ("true", RBool); ("True", RBool); ("TRUE", RBool); ("on", RBool); ("On", RBool); ("ON", RBool);
   ("n", RBool); ("N", RBool); ("no", RBool); ("No", RBool); ("NO", RBool);
   ("false", RBool); ("False", RBool); ("FALSE", RBool); ("off", RBool); ("Off", RBool); ("OFF", RBool);
   ("~", RNull); ("null", RNull); ("Null", RNull); ("NULL", RNull);
   (".nan", RFloat); (".NaN", RFloat); (".NAN", RFloat);
   (".inf", RFloat); (".Inf", RFloat); (".INF", RFloat);
   ("+.inf", RFloat); ("+.Inf", RFloat); ("+.INF", RFloat);
   ("-.inf", RFloat); ("-.Inf", RFloat); ("-.INF", RFloat)].

Fixpoint lookup_word (s : string) (l : list (string * rtag)) : option rtag :=
  match l with
  | [] => None
  | (w, t) :: r => if String.eqb s w then Some t else lookup_word s r
  end.

(* ---------- numbers ---------- *)
Definition drop_sign (s : string) : string :=
  match s with
  | String c r => if one_of c "+-" then r else s
  | EmptyString => s
  end.

Definition is_hex (c : ascii) : bool := is_digit c || one_of c "abcdefABCDEF".
Definition is_oct (c : ascii) : bool := one_of c "01234567".
Definition is_bin (c : ascii) : bool := one_of c "01".

Definition nonempty_all (f : ascii -> bool) (s : string) : bool :=
  match s with EmptyString => false | _ => all_chars f s end.

(* strconv.ParseInt(s, 0, 64) accepts s (range aside: the fragment is short enough): sign, then
   0x/0X hex, 0o/0O octal, 0b/0B binary, a leading 0 = octal, otherwise decimal *)
Definition int_syntax (s : string) : bool :=
  let u := drop_sign s in
  match u with
  | String z (String p r) =>
      if is_char z "0" then
        if one_of p "xX" then nonempty_all is_hex r
        else if one_of p "oO" then nonempty_all is_oct r
        else if one_of p "bB" then nonempty_all is_bin r
        else all_chars is_oct (String p r)
      else all_chars is_digit u
  | String z EmptyString => is_digit z
  | EmptyString => false
  end.

(* digits, returning the rest *)
Fixpoint skip_digits (s : string) : nat * string :=
  match s with
  | String c r => if is_digit c then let '(n, t) := skip_digits r in (S n, t) else (O, s)
  | EmptyString => (O, s)
  end.

(* ([eE][-+]?[0-9]+)?$ with at most two exponent digits (no float64 overflow inside the fragment);
   None = more digits: outside the fragment *)
Definition exp_tail (s : string) : option bool :=
  match s with
  | EmptyString => Some true
  | String c r =>
      if one_of c "eE" then
        let '(n, t) := skip_digits (drop_sign r) in
        match t with
        | EmptyString => if (n =? 0)%nat then Some false else if (n <=? 2)%nat then Some true else None
        | _ => Some false
        end
      else Some false
  end.

(* sign? ( '.' digits+ | digits+ ( '.' digits0 )? ) ( [eE] sign? digits+ )? *)
Definition float_syntax (s : string) : option bool :=
  let u := drop_sign s in
  match u with
  | String c r =>
      if is_char c "." then
        let '(n, t) := skip_digits r in
        if (n =? 0)%nat then Some false else exp_tail t
      else
        let '(n, t) := skip_digits u in
        if (n =? 0)%nat then Some false
        else match t with
             | String d t' => if is_char d "." then let '(_, t2) := skip_digits t' in exp_tail t2 else exp_tail t
             | EmptyString => Some true
             end
  | EmptyString => Some false
  end.

(* strconv's underscoreOK for a decimal float: every '_' stands between two digits *)
Fixpoint us_between_digits (prev_digit : bool) (s : string) : bool :=
  match s with
  | EmptyString => true
  | String c r =>
      if is_char c "_" then
        prev_digit && match r with String d _ => is_digit d | EmptyString => false end &&
        us_between_digits false r
      else us_between_digits (is_digit c) r
  end.

Definition resolve11 (v : string) : option rtag :=
  if negb (in_fragment v) then None
  else match lookup_word v word_table with
       | Some t => Some t
       | None =>
           match v with
           | EmptyString => None
           | String c _ =>
               if is_digit c || one_of c "+-" then
                 let plain := strip_us v in
                 if int_syntax plain then Some RInt
                 else match float_syntax plain with
                      | Some true => Some RFloat
                      | Some false => Some RStr
                      | None => None
                      end
               else if is_char c "." then
                 (* strconv.ParseFloat on the text itself (underscores only between digits) *)
                 if negb (us_between_digits false v) then Some RStr else
                 match float_syntax (strip_us v) with
                 | Some true => Some RFloat
                 | Some false => Some RStr
                 | None => None
                 end
               else Some RStr
           end
       end.

(* yaml.IsValueNonString / valueHasType on the fragment, the per-case oracle elsewhere.
   (IsValueNonString answers false for "" and for texts containing a newline before it parses.) *)
Definition has_newline (s : string) : bool := negb (all_chars (fun c => negb (code c =? 10)%N) s).

Definition nonstr_m (oracle : string -> bool) (v : string) : bool :=
  if String.eqb v "" || has_newline v then false
  else match resolve11 v with
       | Some r => negb (rtag_eqb r RStr)
       | None => oracle v
       end.

Definition rtag_has_type (r : rtag) (t : string) : bool :=
  match r with
  | RBool => String.eqb t "boolean"
  | RInt => String.eqb t "integer" || String.eqb t "number"
  | RFloat => String.eqb t "number"
  | _ => false
  end.

Definition hastype_m (oracle : string -> string -> bool) (v t : string) : bool :=
  match resolve11 v with
  | Some r => rtag_has_type r t
  | None => oracle v t
  end.
