(* Proofs about KV.Yaml.Anchor: the de-anchored document has no alias and no anchor. *)
From KV Require Import Yaml.Anchor.
Local Open Scope list_scope.

Ltac inv H := inversion H; subst; clear H.

(* ---------- induction principle for the nested inductive ---------- *)
Section AnodeInd.
  Variable P : anode -> Prop.
  Hypothesis Hs : forall a t s v, P (AScalar a t s v).
  Hypothesis Hm : forall a es, Forall (fun kv => P (snd kv)) es -> P (AMap a es).
  Hypothesis Hq : forall a es, Forall P es -> P (ASeq a es).
  Hypothesis Ha : forall x, P (AAlias x).

  Fixpoint anode_ind' (n : anode) : P n :=
    match n with
    | AScalar a t s v => Hs a t s v
    | AMap a es =>
        Hm a es ((fix go (l : list (string * anode)) : Forall (fun kv => P (snd kv)) l :=
                    match l with
                    | [] => Forall_nil _
                    | kv :: t => Forall_cons kv (anode_ind' (snd kv)) (go t)
                    end) es)
    | ASeq a es =>
        Hq a es ((fix go (l : list anode) : Forall P l :=
                    match l with
                    | [] => Forall_nil _
                    | e :: t => Forall_cons e (anode_ind' e) (go t)
                    end) es)
    | AAlias x => Ha x
    end.
End AnodeInd.

(* ---------- alias-freeness of lists ---------- *)

Definition view_free (v : aview) : Prop := Forall (fun kv => alias_free (snd kv) = true) v.

Lemma alias_free_map es : alias_free (AMap "" es) = true <-> view_free es.
Proof.
  unfold view_free. induction es as [|[k x] t IH]; cbn.
  - split; auto.
  - cbn in IH. rewrite andb_true_iff, IH. split.
    + intros [H1 H2]. constructor; auto.
    + intros H. inv H. auto.
Qed.

Lemma alias_free_seq es : alias_free (ASeq "" es) = true <-> Forall (fun x => alias_free x = true) es.
Proof.
  induction es as [|x t IH]; cbn.
  - split; auto.
  - cbn in IH. rewrite andb_true_iff, IH. split.
    + intros [H1 H2]. constructor; auto.
    + intros H. inv H. auto.
Qed.

Lemma set_entry_free k v es : alias_free v = true -> view_free es -> view_free (set_entry k v es).
Proof.
  unfold view_free. induction es as [|[k' x] t IH]; cbn; intros Hv H.
  - constructor; auto.
  - inv H. destruct (String.eqb k' k); constructor; auto.
Qed.

Lemma set_entries_free src : forall acc, view_free src -> view_free acc -> view_free (set_entries src acc).
Proof.
  unfold set_entries. induction src as [|[k v] t IH]; cbn; intros acc Hs Ha; auto.
  inv Hs. apply IH; auto. apply set_entry_free; auto.
Qed.

Lemma remove_first_key_free k es : view_free es -> view_free (remove_first_key k es).
Proof.
  unfold view_free. induction es as [|[k' x] t IH]; cbn; intros H; auto.
  inv H. destruct (String.eqb k' k); auto.
Qed.

Lemma merge_all_free own srcs : view_free own -> Forall view_free srcs -> view_free (merge_all own srcs).
Proof.
  intros Ho Hs. unfold merge_all. apply set_entries_free; auto.
  assert (G : forall acc, view_free acc -> view_free (fold_left (fun a s => set_entries s a) srcs acc)).
  { induction srcs as [|s t IH]; cbn; intros acc Ha; auto. inv Hs. apply IH; auto. apply set_entries_free; auto. }
  apply G; auto.
Qed.

(* ---------- environments hold alias-free expansions and views ---------- *)

Definition bind_ok (b : abind) : Prop :=
  match b with
  | BOpen => True
  | BDone e sv => alias_free e = true /\ match sv with Some v => view_free v | None => True end
  end.

Definition env_ok (env : aenv) : Prop := Forall (fun kb => bind_ok (snd kb)) env.

Definition dres_ok (r : dres) : Prop :=
  alias_free (d_exp r) = true /\
  match d_self r with Some v => view_free v | None => True end /\
  Forall (fun o => match o with Some v => view_free v | None => True end) (d_items r).

Lemma env_lookup_ok a env b : env_ok env -> env_lookup a env = Some b -> bind_ok b.
Proof.
  induction env as [|[k x] t IH]; cbn; intros H L; [discriminate|].
  inv H. destruct (String.eqb k a); [inv L; auto|auto].
Qed.

Lemma env_open_ok a env : env_ok env -> env_ok (env_open a env).
Proof. unfold env_open, env_ok. destruct (String.eqb a ""); intros H; auto; try (constructor; cbn; auto). Qed.

Lemma env_bind_ok a b env : bind_ok b -> env_ok env -> env_ok (env_bind a b env).
Proof. unfold env_bind, env_ok. destruct (String.eqb a ""); intros Hb H; auto; try (constructor; auto). Qed.

Lemma env_close_ok a b env : bind_ok b -> env_ok env -> env_ok (env_close a b env).
Proof.
  intros Hb. unfold env_ok. induction env as [|[k x] t IH]; cbn; intros H; auto.
  inv H. destruct x.
  - destruct (String.eqb k a); constructor; cbn; auto.
  - constructor; cbn; auto.
Qed.

Lemma all_some_ok l vs :
  Forall (fun o => match o with Some v => view_free v | None => True end) l ->
  all_some l = Some vs -> Forall view_free vs.
Proof.
  revert vs. induction l as [|[v|] t IH]; cbn; intros vs H E.
  - inv E. constructor.
  - inv H. destruct (all_some t) as [r|]; [|discriminate]. inv E. constructor; auto.
  - discriminate.
Qed.

Lemma merge_sources_ok raw r srcs : dres_ok r -> merge_sources raw r = Ok srcs -> Forall view_free srcs.
Proof.
  intros (He & Hs & Hi) H. unfold merge_sources in H. destruct raw.
  - discriminate.
  - destruct (d_self r) as [v|]; [|discriminate]. inv H. constructor; auto.
  - destruct (all_some (d_items r)) as [vs|] eqn:E; [|discriminate]. inv H.
    apply Forall_rev. eapply all_some_ok; eauto.
  - destruct (d_self r) as [v|]; [|discriminate]. inv H. constructor; auto.
Qed.

(* ---------- the main invariant ---------- *)

Theorem de_anchor_ok n : forall lax env r env',
  env_ok env -> de_anchor lax env n = Ok (r, env') -> dres_ok r /\ env_ok env'.
Proof.
  induction n as [a t s v|a es IH|a es IH|x] using anode_ind'; intros lax env r env' He H.
  - cbn in H. inv H. split; [repeat split; cbn; auto|].
    apply env_bind_ok; cbn; auto.
  - (* mapping *)
    cbn [de_anchor] in H.
    destruct (negb lax && Nat.ltb 1 (count_key merge_key es)); [discriminate|].
    match type of H with bind (?G es (env_open a env)) _ = _ => set (go := G) in * end.
    assert (HG : forall l env1 view mo env2,
               Forall (fun kv => forall lax env r env', env_ok env -> de_anchor lax env (snd kv) = Ok (r, env') -> dres_ok r /\ env_ok env') l ->
               env_ok env1 -> go l env1 = Ok (view, mo, env2) ->
               view_free view /\ env_ok env2 /\ match mo with Some (_, rm) => dres_ok rm | None => True end).
    { induction l as [|[k x] t IHl]; intros env1 view mo env2 Hl He1 Hg.
      - cbn in Hg. inv Hg. repeat split; auto. constructor.
      - cbn [go] in Hg. fold go in Hg. apply Forall_cons_iff in Hl as [Hx0 Ht0]. cbn [snd] in Hx0.
        destruct (de_anchor (negb lax && String.eqb k merge_key) env1 x) as [[rx ex]| | |] eqn:Dx; try discriminate. cbn [bind fst snd] in Hg.
        destruct (Hx0 _ _ _ _ He1 Dx) as [Hrx Hex].
        destruct (go t (if String.eqb k merge_key then env1 else ex)) as [[[vt mt] et]| | |] eqn:Gt; try discriminate.
        cbn [bind fst snd] in Hg. inv Hg.
        assert (Henv : env_ok (if String.eqb k merge_key then env1 else ex)) by (destruct (String.eqb k merge_key); auto).
        destruct (IHl _ _ _ _ Ht0 Henv Gt) as (Hv & He2 & Hm).
        repeat split; auto.
        + constructor; auto. destruct Hrx; auto.
        + destruct (String.eqb k merge_key); auto. }
    destruct (go es (env_open a env)) as [[[view mo] e1]| | |] eqn:G; try discriminate. cbn [bind fst snd] in H.
    destruct (HG _ _ _ _ _ IH (env_open_ok a env He) G) as (Hv & He1 & Hm).
    destruct (match mo with Some (raw, rm) => if lax then Ok [] else merge_sources raw rm | None => Ok [] end) as [srcs| | |] eqn:MS; try discriminate.
    cbn [bind] in H. inv H.
    assert (Hs : Forall view_free srcs).
    { destruct mo as [[raw rm]|]; [destruct lax; [inv MS; constructor|eapply merge_sources_ok; eauto]|inv MS; constructor]. }
    assert (Hexp : alias_free (AMap "" (merge_all (if lax then view else remove_first_key merge_key view) srcs)) = true).
    { apply alias_free_map. apply merge_all_free; auto. destruct lax; auto. apply remove_first_key_free; auto. }
    split; [repeat split; cbn [d_exp d_self d_items]; auto|].
    destruct (String.eqb a ""); auto. apply env_close_ok; cbn; auto.
  - (* sequence *)
    cbn [de_anchor] in H.
    match type of H with bind (?G es (env_open a env)) _ = _ => set (go := G) in * end.
    assert (HG : forall l env1 xs ivs env2,
               Forall (fun x => forall lax env r env', env_ok env -> de_anchor lax env x = Ok (r, env') -> dres_ok r /\ env_ok env') l ->
               env_ok env1 -> go l env1 = Ok (xs, ivs, env2) ->
               Forall (fun x => alias_free x = true) xs /\
               Forall (fun o => match o with Some v => view_free v | None => True end) ivs /\ env_ok env2).
    { induction l as [|x t IHl]; intros env1 xs ivs env2 Hl He1 Hg.
      - cbn in Hg. inv Hg. repeat split; auto.
      - cbn [go] in Hg. fold go in Hg. apply Forall_cons_iff in Hl as [Hx0 Ht0].
        destruct (de_anchor lax env1 x) as [[rx ex]| | |] eqn:Dx; try discriminate. cbn [bind fst snd] in Hg.
        destruct (Hx0 _ _ _ _ He1 Dx) as [(Hx1 & Hx2 & _) Hex].
        destruct (go t ex) as [[[xt it] et]| | |] eqn:Gt; try discriminate. cbn [bind fst snd] in Hg. inv Hg.
        destruct (IHl _ _ _ _ Ht0 Hex Gt) as (Ha1 & Ha2 & Ha3). repeat split; auto. }
    destruct (go es (env_open a env)) as [[[xs ivs] e1]| | |] eqn:G; try discriminate. cbn [bind fst snd] in H. inv H.
    destruct (HG _ _ _ _ _ IH (env_open_ok a env He) G) as (Hx & Hi & He1).
    assert (Hexp : alias_free (ASeq "" xs) = true) by (apply alias_free_seq; auto).
    split; [repeat split; cbn [d_exp d_self d_items]; auto|].
    destruct (String.eqb a ""); auto. apply env_close_ok; cbn; auto.
  - (* alias *)
    cbn in H. destruct (env_lookup x env) as [[|e sv]|] eqn:L; try discriminate. inv H.
    pose proof (env_lookup_ok _ _ _ He L) as [H1 H2]. split; auto. repeat split; cbn; auto.
Qed.

(* RNode.DeAnchor: whatever it returns has no alias and no anchor *)
Theorem deanchor_doc_alias_free n e : deanchor_doc n = Ok e -> alias_free e = true.
Proof.
  unfold deanchor_doc. destruct (de_anchor false [] n) as [[r env]| | |] eqn:D; try discriminate. intros H. inv H.
  destruct (de_anchor_ok n false [] r env (Forall_nil _) D) as [(H1 & _) _]. exact H1.
Qed.

Lemma alias_free_to_node e : alias_free e = true -> exists n, to_node e = Some n.
Proof.
  induction e as [a t s v|a es IH|a es IH|x] using anode_ind'; intros H.
  - eexists; reflexivity.
  - cbn in H. apply andb_true_iff in H as [_ H]. cbn [to_node].
    assert (G : exists r, (fix go (l : list (string * anode)) : option (list (string * node)) :=
                 match l with
                 | [] => Some []
                 | (k, x) :: t => match to_node x, go t with Some y, Some r => Some ((k, y) :: r) | _, _ => None end
                 end) es = Some r).
    { induction es as [|[k x] t IHt]; [eexists; reflexivity|]. inv IH. apply andb_true_iff in H as [Hx Ht].
      destruct (H2 Hx) as [y Ey]. destruct (IHt H3 Ht) as [r Er]. cbn in Ey. rewrite Ey, Er. eauto. }
    destruct G as [r Er]. rewrite Er. eexists; reflexivity.
  - cbn in H. apply andb_true_iff in H as [_ H]. cbn [to_node].
    assert (G : exists r, (fix go (l : list anode) : option (list node) :=
                 match l with
                 | [] => Some []
                 | x :: t => match to_node x, go t with Some y, Some r => Some (y :: r) | _, _ => None end
                 end) es = Some r).
    { induction es as [|x t IHt]; [eexists; reflexivity|]. inv IH. apply andb_true_iff in H as [Hx Ht].
      destruct (H2 Hx) as [y Ey]. destruct (IHt H3 Ht) as [r Er]. rewrite Ey, Er. eauto. }
    destruct G as [r Er]. rewrite Er. eexists; reflexivity.
  - discriminate.
Qed.

Theorem deanchor_total_on_ok n e : deanchor_doc n = Ok e -> exists x, deanchor n = Ok x.
Proof.
  intros H. unfold deanchor. rewrite H.
  destruct (alias_free_to_node e (deanchor_doc_alias_free n e H)) as [x E]. rewrite E. eauto.
Qed.

(* ---------- the merge key that survives: a witness ---------- *)

Definition sc (v : string) : anode := AScalar "" TStr SPlain v.

(* d: &d {x: 1} / n: &n {<<: *d, y: 2} / use: {<<: *n, z: 3} *)
Definition chained_merge : anode :=
  AMap "" [("d", AMap "d" [("x", sc "1")]);
           ("n", AMap "n" [("<<", AAlias "d"); ("y", sc "2")]);
           ("use", AMap "" [("<<", AAlias "n"); ("z", sc "3")])].

Lemma chained_merge_keeps_merge_key :
  exists e, deanchor_doc chained_merge = Ok e /\ alias_free e = true /\ merge_free e = false.
Proof. eexists. split; [vm_compute; reflexivity|]. split; vm_compute; reflexivity. Qed.

(* non-vacuity / examples *)
Example deanchor_nested :
  deanchor_doc (AMap "" [("a", AMap "a" [("x", AScalar "b" TStr SPlain "1")]); ("use", ASeq "" [AAlias "a"; AAlias "b"])]) =
  Ok (AMap "" [("a", AMap "" [("x", sc "1")]); ("use", ASeq "" [AMap "" [("x", sc "1")]; sc "1"])]).
Proof. vm_compute. reflexivity. Qed.

Example deanchor_self_reference : deanchor_doc (AMap "" [("data", AMap "x" [("b", AAlias "x")])]) = Err.
Proof. vm_compute. reflexivity. Qed.
