(* Proofs about KV.Yaml.Anchor: the de-anchored document has no alias and no anchor. *)
From KV Require Import Yaml.Anchor.
Local Open Scope list_scope.

Ltac inv H := inversion H; subst; clear H.

(* ---------- induction principle for the nested inductive ---------- *)
Section AnodeInd.
  Variable P : anode -> Prop.
  Hypothesis Hs : forall a t s v, P (AScalar a t s v).
  Hypothesis Hm : forall a es, Forall (fun kv => P (snd kv)) es -> P (AMap a es).
  Hypothesis Hq : forall a es, Forall P es -> P (ASeq a es).
  Hypothesis Ha : forall x, P (AAlias x).

  Fixpoint anode_ind' (n : anode) : P n :=
    match n with
    | AScalar a t s v => Hs a t s v
    | AMap a es =>
        Hm a es ((fix go (l : list (string * anode)) : Forall (fun kv => P (snd kv)) l :=
                    match l with
                    | [] => Forall_nil _
                    | kv :: t => Forall_cons kv (anode_ind' (snd kv)) (go t)
                    end) es)
    | ASeq a es =>
        Hq a es ((fix go (l : list anode) : Forall P l :=
                    match l with
                    | [] => Forall_nil _
                    | e :: t => Forall_cons e (anode_ind' e) (go t)
                    end) es)
    | AAlias x => Ha x
    end.
End AnodeInd.

(* ---------- alias-freeness of lists ---------- *)

Definition view_free (v : aview) : Prop := Forall (fun kv => alias_free (snd kv) = true) v.

Lemma alias_free_map es : alias_free (AMap "" es) = true <-> view_free es.
Proof.
  unfold view_free. induction es as [|[k x] t IH]; cbn.
  - split; auto.
  - cbn in IH. rewrite andb_true_iff, IH. split.
    + intros [H1 H2]. constructor; auto.
    + intros H. inv H. auto.
Qed.

Lemma alias_free_seq es : alias_free (ASeq "" es) = true <-> Forall (fun x => alias_free x = true) es.
Proof.
  induction es as [|x t IH]; cbn.
  - split; auto.
  - cbn in IH. rewrite andb_true_iff, IH. split.
    + intros [H1 H2]. constructor; auto.
    + intros H. inv H. auto.
Qed.

Lemma set_entry_free k v es : alias_free v = true -> view_free es -> view_free (set_entry k v es).
Proof.
  unfold view_free. induction es as [|[k' x] t IH]; cbn; intros Hv H.
  - constructor; auto.
  - inv H. destruct (String.eqb k' k); constructor; auto.
Qed.

Lemma find_entry_free k es v : view_free es -> find_entry k es = Some v -> alias_free v = true.
Proof.
  unfold view_free. induction es as [|[k' x] t IH]; cbn; intros H E; [discriminate|].
  inv H. destruct (String.eqb k' k); [inv E; auto|auto].
Qed.

Lemma first_value_free src kv : view_free src -> alias_free (snd kv) = true -> alias_free (first_value src kv) = true.
Proof.
  intros Hs Hk. unfold first_value. destruct (find_entry (fst kv) src) eqn:E; auto.
  eapply find_entry_free; eauto.
Qed.

Lemma set_entries_free src acc : view_free src -> view_free acc -> view_free (set_entries src acc).
Proof.
  intros Hs Ha. unfold set_entries.
  assert (G : forall l acc, view_free l -> view_free acc ->
              view_free (fold_left (fun a kv => set_entry (fst kv) (first_value src kv) a) l acc)).
  { induction l as [|kv t IH]; cbn; intros acc0 Hl Ha0; auto.
    inv Hl. apply IH; auto. apply set_entry_free; auto. apply first_value_free; auto. }
  apply G; auto.
Qed.

Lemma remove_first_key_free k es : view_free es -> view_free (remove_first_key k es).
Proof.
  unfold view_free. induction es as [|[k' x] t IH]; cbn; intros H; auto.
  inv H. destruct (String.eqb k' k); auto.
Qed.

Lemma merge_all_free own srcs : view_free own -> Forall view_free srcs -> view_free (merge_all own srcs).
Proof.
  intros Ho Hs. unfold merge_all. apply set_entries_free; auto.
  assert (G : forall acc, view_free acc -> view_free (fold_left (fun a s => set_entries s a) srcs acc)).
  { induction srcs as [|s t IH]; cbn; intros acc Ha; auto. inv Hs. apply IH; auto. apply set_entries_free; auto. }
  apply G; auto.
Qed.

(* ---------- environments hold alias-free expansions and views ---------- *)

Definition bind_ok (b : abind) : Prop :=
  match b with
  | BOpen => True
  | BDone e sv => alias_free e = true /\ match sv with Some v => view_free v | None => True end
  end.

Definition env_ok (env : aenv) : Prop := Forall (fun kb => bind_ok (snd kb)) env.

Definition dres_ok (r : dres) : Prop :=
  alias_free (d_exp r) = true /\
  match d_self r with Some v => view_free v | None => True end /\
  Forall (fun o => match o with Some v => view_free v | None => True end) (d_items r).

Lemma env_lookup_ok a env b : env_ok env -> env_lookup a env = Some b -> bind_ok b.
Proof.
  induction env as [|[k x] t IH]; cbn; intros H L; [discriminate|].
  inv H. destruct (String.eqb k a); [inv L; auto|auto].
Qed.

Lemma env_open_ok a env : env_ok env -> env_ok (env_open a env).
Proof. unfold env_open, env_ok. destruct (String.eqb a ""); intros H; auto; try (constructor; cbn; auto). Qed.

Lemma env_bind_ok a b env : bind_ok b -> env_ok env -> env_ok (env_bind a b env).
Proof. unfold env_bind, env_ok. destruct (String.eqb a ""); intros Hb H; auto; try (constructor; auto). Qed.

Lemma env_close_ok a b env : bind_ok b -> env_ok env -> env_ok (env_close a b env).
Proof.
  intros Hb. unfold env_ok. induction env as [|[k x] t IH]; cbn; intros H; auto.
  inv H. destruct x.
  - destruct (String.eqb k a); constructor; cbn; auto.
  - constructor; cbn; auto.
Qed.

Lemma all_some_ok l vs :
  Forall (fun o => match o with Some v => view_free v | None => True end) l ->
  all_some l = Some vs -> Forall view_free vs.
Proof.
  revert vs. induction l as [|[v|] t IH]; cbn; intros vs H E.
  - inv E. constructor.
  - inv H. destruct (all_some t) as [r|]; [|discriminate]. inv E. constructor; auto.
  - discriminate.
Qed.

Lemma merge_sources_ok raw r srcs : dres_ok r -> merge_sources raw r = Ok srcs -> Forall view_free srcs.
Proof.
  intros (He & Hs & Hi) H. unfold merge_sources in H. destruct raw.
  - discriminate.
  - destruct (d_self r) as [v|]; [|discriminate]. inv H. constructor; auto.
  - destruct (all_some (d_items r)) as [vs|] eqn:E; [|discriminate]. inv H.
    apply Forall_rev. eapply all_some_ok; eauto.
  - destruct (d_self r) as [v|]; [|discriminate]. inv H. constructor; auto.
Qed.

(* ---------- the main invariant ---------- *)

Theorem de_anchor_ok n : forall lax env r env',
  env_ok env -> de_anchor lax env n = Ok (r, env') -> dres_ok r /\ env_ok env'.
Proof.
  induction n as [a t s v|a es IH|a es IH|x] using anode_ind'; intros lax env r env' He H.
  - cbn in H. inv H. split; [repeat split; cbn; auto|].
    apply env_bind_ok; cbn; auto.
  - (* mapping *)
    cbn [de_anchor] in H.
    destruct (negb lax && Nat.ltb 1 (count_key merge_key es)); [discriminate|].
    match type of H with bind (?G es (env_open a env)) _ = _ => set (go := G) in * end.
    assert (HG : forall l env1 view mo env2,
               Forall (fun kv => forall lax env r env', env_ok env -> de_anchor lax env (snd kv) = Ok (r, env') -> dres_ok r /\ env_ok env') l ->
               env_ok env1 -> go l env1 = Ok (view, mo, env2) ->
               view_free view /\ env_ok env2 /\ match mo with Some (_, rm) => dres_ok rm | None => True end).
    { induction l as [|[k x] t IHl]; intros env1 view mo env2 Hl He1 Hg.
      - cbn in Hg. inv Hg. repeat split; auto. constructor.
      - cbn [go] in Hg. fold go in Hg. apply Forall_cons_iff in Hl as [Hx0 Ht0]. cbn [snd] in Hx0.
        destruct (de_anchor (negb lax && String.eqb k merge_key) env1 x) as [[rx ex]| | |] eqn:Dx; try discriminate. cbn [bind fst snd] in Hg.
        destruct (Hx0 _ _ _ _ He1 Dx) as [Hrx Hex].
        destruct (go t (if String.eqb k merge_key then env1 else ex)) as [[[vt mt] et]| | |] eqn:Gt; try discriminate.
        cbn [bind fst snd] in Hg. inv Hg.
        assert (Henv : env_ok (if String.eqb k merge_key then env1 else ex)) by (destruct (String.eqb k merge_key); auto).
        destruct (IHl _ _ _ _ Ht0 Henv Gt) as (Hv & He2 & Hm).
        repeat split; auto.
        + constructor; auto. destruct Hrx; auto.
        + destruct (String.eqb k merge_key); auto. }
    destruct (go es (env_open a env)) as [[[view mo] e1]| | |] eqn:G; try discriminate. cbn [bind fst snd] in H.
    destruct (HG _ _ _ _ _ IH (env_open_ok a env He) G) as (Hv & He1 & Hm).
    destruct (match mo with Some (raw, rm) => if lax then Ok [] else merge_sources raw rm | None => Ok [] end) as [srcs| | |] eqn:MS; try discriminate.
    cbn [bind] in H. inv H.
    assert (Hs : Forall view_free srcs).
    { destruct mo as [[raw rm]|]; [destruct lax; [inv MS; constructor|eapply merge_sources_ok; eauto]|inv MS; constructor]. }
    assert (Hexp : alias_free (AMap "" (merge_all (if lax then view else remove_first_key merge_key view) srcs)) = true).
    { apply alias_free_map. apply merge_all_free; auto. destruct lax; auto. apply remove_first_key_free; auto. }
    split; [repeat split; cbn [d_exp d_self d_items]; auto|].
    destruct (String.eqb a ""); auto. apply env_close_ok; cbn; auto.
  - (* sequence *)
    cbn [de_anchor] in H.
    match type of H with bind (?G es (env_open a env)) _ = _ => set (go := G) in * end.
    assert (HG : forall l env1 xs ivs env2,
               Forall (fun x => forall lax env r env', env_ok env -> de_anchor lax env x = Ok (r, env') -> dres_ok r /\ env_ok env') l ->
               env_ok env1 -> go l env1 = Ok (xs, ivs, env2) ->
               Forall (fun x => alias_free x = true) xs /\
               Forall (fun o => match o with Some v => view_free v | None => True end) ivs /\ env_ok env2).
    { induction l as [|x t IHl]; intros env1 xs ivs env2 Hl He1 Hg.
      - cbn in Hg. inv Hg. repeat split; auto.
      - cbn [go] in Hg. fold go in Hg. apply Forall_cons_iff in Hl as [Hx0 Ht0].
        destruct (de_anchor lax env1 x) as [[rx ex]| | |] eqn:Dx; try discriminate. cbn [bind fst snd] in Hg.
        destruct (Hx0 _ _ _ _ He1 Dx) as [(Hx1 & Hx2 & _) Hex].
        destruct (go t ex) as [[[xt it] et]| | |] eqn:Gt; try discriminate. cbn [bind fst snd] in Hg. inv Hg.
        destruct (IHl _ _ _ _ Ht0 Hex Gt) as (Ha1 & Ha2 & Ha3). repeat split; auto. }
    destruct (go es (env_open a env)) as [[[xs ivs] e1]| | |] eqn:G; try discriminate. cbn [bind fst snd] in H. inv H.
    destruct (HG _ _ _ _ _ IH (env_open_ok a env He) G) as (Hx & Hi & He1).
    assert (Hexp : alias_free (ASeq "" xs) = true) by (apply alias_free_seq; auto).
    split; [repeat split; cbn [d_exp d_self d_items]; auto|].
    destruct (String.eqb a ""); auto. apply env_close_ok; cbn; auto.
  - (* alias *)
    cbn in H. destruct (env_lookup x env) as [[|e sv]|] eqn:L; try discriminate. inv H.
    pose proof (env_lookup_ok _ _ _ He L) as [H1 H2]. split; auto. repeat split; cbn; auto.
Qed.

(* RNode.DeAnchor: whatever it returns has no alias and no anchor *)
Theorem deanchor_doc_alias_free n e : deanchor_doc n = Ok e -> alias_free e = true.
Proof.
  unfold deanchor_doc. destruct (de_anchor false [] n) as [[r env]| | |] eqn:D; try discriminate. intros H. inv H.
  destruct (de_anchor_ok n false [] r env (Forall_nil _) D) as [(H1 & _) _]. exact H1.
Qed.

Lemma alias_free_to_node e : alias_free e = true -> exists n, to_node e = Some n.
Proof.
  induction e as [a t s v|a es IH|a es IH|x] using anode_ind'; intros H.
  - eexists; reflexivity.
  - cbn in H. apply andb_true_iff in H as [_ H]. cbn [to_node].
    assert (G : exists r, (fix go (l : list (string * anode)) : option (list (string * node)) :=
                 match l with
                 | [] => Some []
                 | (k, x) :: t => match to_node x, go t with Some y, Some r => Some ((k, y) :: r) | _, _ => None end
                 end) es = Some r).
    { induction es as [|[k x] t IHt]; [eexists; reflexivity|]. inv IH. apply andb_true_iff in H as [Hx Ht].
      destruct (H2 Hx) as [y Ey]. destruct (IHt H3 Ht) as [r Er]. cbn in Ey. rewrite Ey, Er. eauto. }
    destruct G as [r Er]. rewrite Er. eexists; reflexivity.
  - cbn in H. apply andb_true_iff in H as [_ H]. cbn [to_node].
    assert (G : exists r, (fix go (l : list anode) : option (list node) :=
                 match l with
                 | [] => Some []
                 | x :: t => match to_node x, go t with Some y, Some r => Some (y :: r) | _, _ => None end
                 end) es = Some r).
    { induction es as [|x t IHt]; [eexists; reflexivity|]. inv IH. apply andb_true_iff in H as [Hx Ht].
      destruct (H2 Hx) as [y Ey]. destruct (IHt H3 Ht) as [r Er]. rewrite Ey, Er. eauto. }
    destruct G as [r Er]. rewrite Er. eexists; reflexivity.
  - discriminate.
Qed.

Theorem deanchor_total_on_ok n e : deanchor_doc n = Ok e -> exists x, deanchor n = Ok x.
Proof.
  intros H. unfold deanchor. rewrite H.
  destruct (alias_free_to_node e (deanchor_doc_alias_free n e H)) as [x E]. rewrite E. eauto.
Qed.

(* ---------- without merge keys, DeAnchor is the expansion ---------- *)

Definition erase_b (b : abind) : option anode := match b with BOpen => None | BDone e _ => Some e end.
Definition erase (env : aenv) : xenv := map (fun kb => (fst kb, erase_b (snd kb))) env.

Lemma erase_lookup a env : xlookup a (erase env) = option_map erase_b (env_lookup a env).
Proof. induction env as [|[k b] t IH]; cbn; auto. destruct (String.eqb k a); auto. Qed.

Lemma erase_open a env : erase (env_open a env) = if String.eqb a "" then erase env else (a, None) :: erase env.
Proof. unfold env_open. destruct (String.eqb a ""); reflexivity. Qed.

Lemma erase_bind a e sv env :
  erase (env_bind a (BDone e sv) env) = if String.eqb a "" then erase env else (a, Some e) :: erase env.
Proof. unfold env_bind. destruct (String.eqb a ""); reflexivity. Qed.

Lemma erase_close a e sv env : erase (env_close a (BDone e sv) env) = xclose a e (erase env).
Proof.
  unfold erase. induction env as [|[k [|e' sv']] t IH]; cbn; auto.
  - destruct (String.eqb k a); cbn; [reflexivity|rewrite IH; reflexivity].
  - rewrite IH. reflexivity.
Qed.

Lemma set_entry_same k v es : find_entry k es = Some v -> set_entry k v es = es.
Proof.
  induction es as [|[k' x] t IH]; cbn; intros H; [discriminate|].
  destruct (String.eqb k' k) eqn:E.
  - apply String.eqb_eq in E. subst. inv H. reflexivity.
  - rewrite IH; auto.
Qed.

Lemma in_find_entry kv es : In kv es -> find_entry (fst kv) es <> None.
Proof.
  induction es as [|[k' x] t IH]; cbn; intros H; [contradiction|].
  destruct (String.eqb k' (fst kv)) eqn:E; [discriminate|].
  destruct H as [H|H]; [subst; cbn in E; rewrite String.eqb_refl in E; discriminate|auto].
Qed.

(* mergeAll on a mapping without merge key changes nothing, duplicated keys included *)
Lemma set_entries_self v : set_entries v v = v.
Proof.
  unfold set_entries.
  assert (G : forall l, (forall kv, In kv l -> find_entry (fst kv) v <> None) ->
                        fold_left (fun a kv => set_entry (fst kv) (first_value v kv) a) l v = v).
  { induction l as [|kv t IH]; cbn; intros H; auto.
    rewrite set_entry_same; [apply IH; intros; apply H; auto|].
    unfold first_value. destruct (find_entry (fst kv) v) eqn:E; auto. exfalso. apply (H kv); auto. }
  apply G. intros kv H. apply in_find_entry; auto.
Qed.

Lemma remove_first_key_absent k es : count_key k es = 0 -> remove_first_key k es = es.
Proof.
  induction es as [|[k' x] t IH]; cbn; intros H; auto.
  destruct (String.eqb k' k); [discriminate|]. rewrite IH; auto.
Qed.

Definition plain_entry (kv : string * anode) : Prop :=
  String.eqb (fst kv) merge_key = false /\ merge_free (snd kv) = true.

Lemma merge_free_map a es : merge_free (AMap a es) = true <-> Forall plain_entry es.
Proof.
  induction es as [|[k x] t IH]; cbn.
  - split; auto.
  - cbn in IH. rewrite !andb_true_iff, IH, negb_true_iff. split.
    + intros [[H1 H2] H3]. constructor; auto. split; auto.
    + intros H. inv H. destruct H2. auto.
Qed.

Lemma merge_free_seq a es : merge_free (ASeq a es) = true <-> Forall (fun x => merge_free x = true) es.
Proof.
  induction es as [|x t IH]; cbn.
  - split; auto.
  - cbn in IH. rewrite andb_true_iff, IH. split.
    + intros [H1 H2]. constructor; auto.
    + intros H. inv H. auto.
Qed.

Lemma plain_count_key es : Forall plain_entry es -> count_key merge_key es = 0.
Proof.
  induction es as [|[k x] t IH]; cbn; intros H; auto.
  inv H. destruct H2 as [H2 _]. cbn in H2. rewrite H2. auto.
Qed.

Definition same_result (d : res (dres * aenv)) (x : option (anode * xenv)) : Prop :=
  match d with
  | Ok (r, env') => x = Some (d_exp r, erase env')
  | _ => x = None
  end.

Lemma de_anchor_expand n :
  merge_free n = true -> forall lax env, same_result (de_anchor lax env n) (expand (erase env) n).
Proof.
  induction n as [a t s v|a es IH|a es IH|x] using anode_ind'; intros MF lax env.
  - cbn. rewrite erase_bind. reflexivity.
  - (* mapping *)
    apply merge_free_map in MF.
    cbn [de_anchor expand]. rewrite (plain_count_key _ MF). cbn [Nat.ltb Nat.leb]. rewrite andb_false_r.
    match goal with |- same_result (bind (?G es _) _) _ => set (gd := G) end.
    match goal with |- same_result _ (match ?G es _ with _ => _ end) => set (gx := G) end.
    assert (HG : forall l env1,
               Forall (fun kv => merge_free (snd kv) = true -> forall lax env, same_result (de_anchor lax env (snd kv)) (expand (erase env) (snd kv))) l ->
               Forall plain_entry l ->
               match gd l env1 with
               | Ok (view, mo, env2) => gx l (erase env1) = Some (view, erase env2) /\ mo = None /\ count_key merge_key view = 0
               | _ => gx l (erase env1) = None
               end).
    { induction l as [|[k x] t IHl]; intros env1 Hl Hp.
      - cbn. auto.
      - apply Forall_cons_iff in Hl as [Hx Ht]. apply Forall_cons_iff in Hp as [[Hk Hm] Hpt]. cbn [fst snd] in *.
        cbn [gd gx]. fold gd. fold gx. rewrite Hk, andb_false_r.
        specialize (Hx Hm false env1). unfold same_result in Hx.
        destruct (de_anchor false env1 x) as [[rx ex]| | |]; cbn [bind fst snd]; rewrite Hx; auto.
        specialize (IHl ex Ht Hpt).
        destruct (gd t ex) as [[[vt mt] et]| | |]; cbn [bind fst snd].
        + destruct IHl as (E1 & E2 & E3). rewrite E1. repeat split; auto. cbn [count_key]. rewrite Hk. auto.
        + rewrite IHl. auto.
        + rewrite IHl. auto.
        + rewrite IHl. auto. }
    specialize (HG es (env_open a env) IH MF). rewrite erase_open in HG.
    destruct (gd es (env_open a env)) as [[[view mo] e1]| | |]; cbn [bind fst snd].
    + destruct HG as (E1 & E2 & E3). rewrite E1. subst mo. cbn [bind].
      assert (Hown : (if lax then view else remove_first_key merge_key view) = view)
        by (destruct lax; auto; apply remove_first_key_absent; auto).
      rewrite Hown. unfold merge_all. cbn [fold_left]. rewrite set_entries_self.
      unfold same_result. cbn [d_exp]. destruct (String.eqb a ""); [reflexivity|]. rewrite erase_close. reflexivity.
    + rewrite HG. reflexivity.
    + rewrite HG. reflexivity.
    + rewrite HG. reflexivity.
  - (* sequence *)
    apply merge_free_seq in MF.
    cbn [de_anchor expand].
    match goal with |- same_result (bind (?G es _) _) _ => set (gd := G) end.
    match goal with |- same_result _ (match ?G es _ with _ => _ end) => set (gx := G) end.
    assert (HG : forall l env1,
               Forall (fun x => merge_free x = true -> forall lax env, same_result (de_anchor lax env x) (expand (erase env) x)) l ->
               Forall (fun x => merge_free x = true) l ->
               match gd l env1 with
               | Ok (xs, ivs, env2) => gx l (erase env1) = Some (xs, erase env2)
               | _ => gx l (erase env1) = None
               end).
    { induction l as [|x t IHl]; intros env1 Hl Hp.
      - cbn. auto.
      - apply Forall_cons_iff in Hl as [Hx Ht]. apply Forall_cons_iff in Hp as [Hm Hpt].
        cbn [gd gx]. fold gd. fold gx.
        specialize (Hx Hm lax env1). unfold same_result in Hx.
        destruct (de_anchor lax env1 x) as [[rx ex]| | |]; cbn [bind fst snd]; rewrite Hx; auto.
        specialize (IHl ex Ht Hpt).
        destruct (gd t ex) as [[[xt it] et]| | |]; cbn [bind fst snd]; rewrite IHl; auto. }
    specialize (HG es (env_open a env) IH MF). rewrite erase_open in HG.
    destruct (gd es (env_open a env)) as [[[xs ivs] e1]| | |]; cbn [bind fst snd]; rewrite HG; try reflexivity.
    unfold same_result. cbn [d_exp]. destruct (String.eqb a ""); [reflexivity|]. rewrite erase_close. reflexivity.
  - (* alias *)
    cbn. rewrite erase_lookup. destruct (env_lookup x env) as [[|e sv]|]; cbn; reflexivity.
Qed.

(* "the de-anchored document equals the expansion", for documents without merge keys: DeAnchor succeeds
   exactly when the expansion exists (no alias to a node that contains it), and returns it *)
Theorem deanchor_equals_expansion n e :
  merge_free n = true -> (deanchor_doc n = Ok e <-> expand_doc n = Some e).
Proof.
  intros MF. pose proof (de_anchor_expand n MF false []) as H. unfold same_result in H. cbn [erase map] in H.
  unfold deanchor_doc, expand_doc.
  destruct (de_anchor false [] n) as [[r env']| | |]; rewrite H; cbn; split; intros E; inv E; reflexivity.
Qed.

(* the expansion of a document is alias-free (consequence, via the model) *)
Corollary expansion_alias_free n e : merge_free n = true -> expand_doc n = Some e -> alias_free e = true.
Proof. intros MF E. apply (deanchor_doc_alias_free n). apply deanchor_equals_expansion; auto. Qed.

(* ---------- merge keys: gone when no merge source has a merge key itself ---------- *)

Section EntryPred.
  Variable P : string * anode -> Prop.

  Lemma set_entry_P k v es : P (k, v) -> Forall P es -> Forall P (set_entry k v es).
  Proof.
    induction es as [|[k' x] t IH]; cbn; intros Hv H.
    - constructor; auto.
    - inv H. destruct (String.eqb k' k); constructor; auto.
  Qed.

  Lemma find_entry_P k es v : Forall P es -> find_entry k es = Some v -> P (k, v).
  Proof.
    induction es as [|[k' x] t IH]; cbn; intros H E; [discriminate|].
    inv H. destruct (String.eqb k' k) eqn:Ek.
    - apply String.eqb_eq in Ek. subst. inv E. auto.
    - auto.
  Qed.

  Lemma first_value_P src kv : Forall P src -> P kv -> P (fst kv, first_value src kv).
  Proof.
    intros Hs Hk. unfold first_value. destruct (find_entry (fst kv) src) eqn:E.
    - eapply find_entry_P; eauto.
    - destruct kv; auto.
  Qed.

  Lemma set_entries_P src acc : Forall P src -> Forall P acc -> Forall P (set_entries src acc).
  Proof.
    intros Hs Ha. unfold set_entries.
    assert (G : forall l acc, Forall P l -> Forall P acc ->
                Forall P (fold_left (fun a kv => set_entry (fst kv) (first_value src kv) a) l acc)).
    { induction l as [|kv t IH]; cbn; intros acc0 Hl Ha0; auto.
      inv Hl. apply IH; auto. apply set_entry_P; auto. apply first_value_P; auto. }
    apply G; auto.
  Qed.

  Lemma merge_all_P own srcs : Forall P own -> Forall (Forall P) srcs -> Forall P (merge_all own srcs).
  Proof.
    intros Ho Hs. unfold merge_all. apply set_entries_P; auto.
    assert (G : forall acc, Forall P acc -> Forall P (fold_left (fun a s => set_entries s a) srcs acc)).
    { induction srcs as [|s t IH]; cbn; intros acc Ha; auto. inv Hs. apply IH; auto. apply set_entries_P; auto. }
    apply G; auto.
  Qed.
End EntryPred.

Definition view_plain (v : aview) : Prop := Forall plain_entry v.
Definition oview_plain (o : option aview) : Prop := match o with Some v => view_plain v | None => True end.
Definition values_mf (v : aview) : Prop := Forall (fun kv => merge_free (snd kv) = true) v.

Definition bind_mf (b : abind) : Prop :=
  match b with
  | BOpen => True
  | BDone e sv => merge_free e = true /\ oview_plain sv
  end.
Definition env_mf (env : aenv) : Prop := Forall (fun kb => bind_mf (snd kb)) env.

(* a merge value's result ([lax]) must offer plain views; every expansion is merge-free *)
Definition dres_mf (lax : bool) (r : dres) : Prop :=
  merge_free (d_exp r) = true /\ (lax = true -> oview_plain (d_self r) /\ Forall oview_plain (d_items r)).

Lemma env_lookup_mf a env b : env_mf env -> env_lookup a env = Some b -> bind_mf b.
Proof.
  induction env as [|[k x] t IH]; cbn; intros H L; [discriminate|].
  inv H. destruct (String.eqb k a); [inv L; auto|auto].
Qed.

Lemma env_open_mf a env : env_mf env -> env_mf (env_open a env).
Proof. unfold env_open, env_mf. destruct (String.eqb a ""); intros H; auto; try (constructor; cbn; auto). Qed.

Lemma env_bind_mf a b env : bind_mf b -> env_mf env -> env_mf (env_bind a b env).
Proof. unfold env_bind, env_mf. destruct (String.eqb a ""); intros Hb H; auto; try (constructor; auto). Qed.

Lemma env_close_mf a b env : bind_mf b -> env_mf env -> env_mf (env_close a b env).
Proof.
  intros Hb. unfold env_mf. induction env as [|[k x] t IH]; cbn; intros H; auto.
  inv H. destruct x.
  - destruct (String.eqb k a); constructor; cbn; auto.
  - constructor; cbn; auto.
Qed.

Lemma all_some_mf l vs : Forall oview_plain l -> all_some l = Some vs -> Forall view_plain vs.
Proof.
  revert vs. induction l as [|[v|] t IH]; cbn; intros vs H E.
  - inv E. constructor.
  - inv H. destruct (all_some t) as [r|]; [|discriminate]. inv E. constructor; auto.
  - discriminate.
Qed.

Lemma merge_sources_mf raw r srcs : dres_mf true r -> merge_sources raw r = Ok srcs -> Forall view_plain srcs.
Proof.
  intros (_ & Hl) H. destruct (Hl eq_refl) as [Hs Hi]. unfold merge_sources in H. destruct raw.
  - discriminate.
  - destruct (d_self r) as [v|]; [|discriminate]. inv H. constructor; auto.
  - destruct (all_some (d_items r)) as [vs|] eqn:E; [|discriminate]. inv H.
    apply Forall_rev. eapply all_some_mf; eauto.
  - destruct (d_self r) as [v|]; [|discriminate]. inv H. constructor; auto.
Qed.

Lemma count_key_plain v : values_mf v -> count_key merge_key v = 0 -> view_plain v.
Proof.
  unfold values_mf, view_plain. induction v as [|[k x] t IH]; cbn; intros H C; [constructor|].
  inv H. destruct (String.eqb k merge_key) eqn:E; [discriminate|]. constructor; auto. split; auto.
Qed.

Lemma remove_merge_key_plain v : values_mf v -> count_key merge_key v <= 1 -> view_plain (remove_first_key merge_key v).
Proof.
  unfold values_mf. induction v as [|[k x] t IH]; cbn; intros H C; [constructor|].
  inv H. destruct (String.eqb k merge_key) eqn:E.
  - apply count_key_plain; auto. apply le_S_n in C. apply Nat.le_0_r in C. auto.
  - constructor; [split; auto|]. apply IH; auto.
Qed.

Lemma count_key_fst k (v l : aview) : map fst v = map fst l -> count_key k v = count_key k l.
Proof.
  revert l. induction v as [|[k1 x] t IH]; intros [|[k2 y] l]; cbn; intros H; try discriminate; auto.
  inv H. rewrite (IH l); auto.
Qed.

Theorem de_anchor_mf n : forall lax env r env',
  flat_merges lax n = true -> env_mf env -> de_anchor lax env n = Ok (r, env') -> dres_mf lax r /\ env_mf env'.
Proof.
  induction n as [a t s v|a es IH|a es IH|x] using anode_ind'; intros lax env r env' FM He H.
  - cbn in H. inv H. split; [split; cbn; auto|]. apply env_bind_mf; cbn; auto.
  - (* mapping *)
    cbn [flat_merges] in FM. apply andb_true_iff in FM as [FC FM].
    cbn [de_anchor] in H.
    destruct (negb lax && Nat.ltb 1 (count_key merge_key es)) eqn:DUP; [discriminate|].
    match type of H with bind (?G es (env_open a env)) _ = _ => set (go := G) in * end.
    match type of FM with ?G es = true => set (fgo := G) in * end.
    assert (HG : forall l env1 view mo env2,
               Forall (fun kv => forall lax env r env', flat_merges lax (snd kv) = true -> env_mf env ->
                                   de_anchor lax env (snd kv) = Ok (r, env') -> dres_mf lax r /\ env_mf env') l ->
               fgo l = true -> env_mf env1 -> go l env1 = Ok (view, mo, env2) ->
               values_mf view /\ map fst view = map fst l /\ env_mf env2 /\
               match mo with Some (_, rm) => dres_mf (negb lax) rm | None => True end).
    { induction l as [|[k x] t IHl]; intros env1 view mo env2 Hl Hf He1 Hg.
      - cbn in Hg. inv Hg. repeat split; auto. constructor.
      - cbn [go] in Hg. fold go in Hg. cbn [fgo] in Hf. fold fgo in Hf. apply andb_true_iff in Hf as [Hfx Hft].
        apply Forall_cons_iff in Hl as [Hx0 Ht0]. cbn [snd] in Hx0.
        destruct (de_anchor (negb lax && String.eqb k merge_key) env1 x) as [[rx ex]| | |] eqn:Dx; try discriminate. cbn [bind fst snd] in Hg.
        destruct (Hx0 _ _ _ _ Hfx He1 Dx) as [Hrx Hex].
        destruct (go t (if String.eqb k merge_key then env1 else ex)) as [[[vt mt] et]| | |] eqn:Gt; try discriminate.
        cbn [bind fst snd] in Hg. inv Hg.
        assert (Henv : env_mf (if String.eqb k merge_key then env1 else ex)) by (destruct (String.eqb k merge_key); auto).
        destruct (IHl _ _ _ _ Ht0 Hft Henv Gt) as (Hv & Hk & He2 & Hm).
        repeat split; auto.
        + constructor; auto. destruct Hrx; auto.
        + cbn. rewrite Hk. reflexivity.
        + destruct (String.eqb k merge_key); auto. rewrite andb_true_r in Hrx. auto. }
    destruct (go es (env_open a env)) as [[[view mo] e1]| | |] eqn:G; try discriminate. cbn [bind fst snd] in H.
    destruct (HG _ _ _ _ _ IH FM (env_open_mf a env He) G) as (Hv & Hk & He1 & Hm).
    destruct (match mo with Some (raw, rm) => if lax then Ok [] else merge_sources raw rm | None => Ok [] end) as [srcs| | |] eqn:MS; try discriminate.
    cbn [bind] in H. inv H.
    pose proof (count_key_fst merge_key _ _ Hk) as CK.
    assert (Hs : Forall view_plain srcs).
    { destruct mo as [[raw rm]|]; [destruct lax; [inv MS; constructor|eapply merge_sources_mf; eauto]|inv MS; constructor]. }
    assert (Hown : view_plain (if lax then view else remove_first_key merge_key view)).
    { destruct lax.
      - cbn in FC. apply Nat.eqb_eq in FC. apply count_key_plain; auto. rewrite CK; auto.
      - cbn [negb andb] in DUP. apply Nat.ltb_ge in DUP. apply remove_merge_key_plain; auto. rewrite CK; auto. }
    assert (Hexp : merge_free (AMap "" (merge_all (if lax then view else remove_first_key merge_key view) srcs)) = true).
    { apply merge_free_map. apply merge_all_P; auto. }
    assert (Hview : lax || negb (String.eqb a "") = true -> view_plain view).
    { intros E. rewrite E in FC. apply Nat.eqb_eq in FC. apply count_key_plain; auto. rewrite CK; auto. }
    split.
    + split; cbn [d_exp d_self d_items]; auto. intros ->. split; [apply Hview; reflexivity|constructor].
    + destruct (String.eqb a "") eqn:Ea; auto. apply env_close_mf; auto. cbn. split; auto.
      apply Hview. rewrite orb_true_r. reflexivity.
  - (* sequence *)
    cbn [flat_merges] in FM. cbn [de_anchor] in H.
    match type of H with bind (?G es (env_open a env)) _ = _ => set (go := G) in * end.
    match type of FM with ?G es = true => set (fgo := G) in * end.
    assert (HG : forall l env1 xs ivs env2,
               Forall (fun x => forall lax env r env', flat_merges lax x = true -> env_mf env ->
                                  de_anchor lax env x = Ok (r, env') -> dres_mf lax r /\ env_mf env') l ->
               fgo l = true -> env_mf env1 -> go l env1 = Ok (xs, ivs, env2) ->
               Forall (fun x => merge_free x = true) xs /\ (lax = true -> Forall oview_plain ivs) /\ env_mf env2).
    { induction l as [|x t IHl]; intros env1 xs ivs env2 Hl Hf He1 Hg.
      - cbn in Hg. inv Hg. repeat split; auto.
      - cbn [go] in Hg. fold go in Hg. cbn [fgo] in Hf. fold fgo in Hf. apply andb_true_iff in Hf as [Hfx Hft].
        apply Forall_cons_iff in Hl as [Hx0 Ht0].
        destruct (de_anchor lax env1 x) as [[rx ex]| | |] eqn:Dx; try discriminate. cbn [bind fst snd] in Hg.
        destruct (Hx0 _ _ _ _ Hfx He1 Dx) as [(Hx1 & Hx2) Hex].
        destruct (go t ex) as [[[xt it] et]| | |] eqn:Gt; try discriminate. cbn [bind fst snd] in Hg. inv Hg.
        destruct (IHl _ _ _ _ Ht0 Hft Hex Gt) as (Ha1 & Ha2 & Ha3). repeat split; auto.
        intros L. constructor; [apply Hx2; auto|auto]. }
    destruct (go es (env_open a env)) as [[[xs ivs] e1]| | |] eqn:G; try discriminate. cbn [bind fst snd] in H. inv H.
    destruct (HG _ _ _ _ _ IH FM (env_open_mf a env He) G) as (Hx & Hi & He1).
    assert (Hexp : merge_free (ASeq "" xs) = true) by (apply merge_free_seq; auto).
    split; [split; cbn [d_exp d_self d_items]; auto; intros L; split; cbn; auto|].
    destruct (String.eqb a ""); auto. apply env_close_mf; cbn; auto.
  - (* alias *)
    cbn in H. destruct (env_lookup x env) as [[|e sv]|] eqn:L; try discriminate. inv H.
    pose proof (env_lookup_mf _ _ _ He L) as [H1 H2]. split; auto. split; cbn; auto.
Qed.

(* the merge-key half of the law on its domain: with alias-freeness (deanchor_doc_alias_free) the output has
   no alias, no anchor and no merge key *)
Theorem deanchor_merge_free_flat n e :
  flat_merges false n = true -> deanchor_doc n = Ok e -> alias_free e = true /\ merge_free e = true.
Proof.
  intros FM H. split; [eapply deanchor_doc_alias_free; eauto|].
  unfold deanchor_doc in H. destruct (de_anchor false [] n) as [[r env]| | |] eqn:D; try discriminate. inv H.
  destruct (de_anchor_mf n false [] r env FM (Forall_nil _) D) as [(H1 & _) _]. exact H1.
Qed.

(* ---------- the merge key that survives: a witness ---------- *)

Definition sc (v : string) : anode := AScalar "" TStr SPlain v.

(* d: &d {x: 1} / n: &n {<<: *d, y: 2} / use: {<<: *n, z: 3} *)
Definition chained_merge : anode :=
  AMap "" [("d", AMap "d" [("x", sc "1")]);
           ("n", AMap "n" [("<<", AAlias "d"); ("y", sc "2")]);
           ("use", AMap "" [("<<", AAlias "n"); ("z", sc "3")])].

Lemma chained_merge_keeps_merge_key :
  exists e, deanchor_doc chained_merge = Ok e /\ alias_free e = true /\ merge_free e = false.
Proof. eexists. split; [vm_compute; reflexivity|]. split; vm_compute; reflexivity. Qed.

(* non-vacuity / examples *)
Example deanchor_nested :
  deanchor_doc (AMap "" [("a", AMap "a" [("x", AScalar "b" TStr SPlain "1")]); ("use", ASeq "" [AAlias "a"; AAlias "b"])]) =
  Ok (AMap "" [("a", AMap "" [("x", sc "1")]); ("use", ASeq "" [AMap "" [("x", sc "1")]; sc "1"])]).
Proof. vm_compute. reflexivity. Qed.

Example deanchor_self_reference : deanchor_doc (AMap "" [("data", AMap "x" [("b", AAlias "x")])]) = Err.
Proof. vm_compute. reflexivity. Qed.

Example expansion_example :
  expand_doc (AMap "" [("a", AMap "a" [("x", AScalar "b" TStr SPlain "1"); ("x", sc "2")]); ("use", ASeq "" [AAlias "a"; AAlias "b"])]) =
  Some (AMap "" [("a", AMap "" [("x", sc "1"); ("x", sc "2")]); ("use", ASeq "" [AMap "" [("x", sc "1"); ("x", sc "2")]; sc "1"])]).
Proof. vm_compute. reflexivity. Qed.

Example expansion_self_reference : expand_doc (AMap "" [("data", AMap "x" [("b", AAlias "x")])]) = None.
Proof. vm_compute. reflexivity. Qed.

(* the usual base / derived document is inside the domain, the merge goes through, nothing is left *)
Definition flat_doc : anode :=
  AMap "" [("base", AMap "b" [("x", sc "1"); ("y", sc "2")]);
           ("one", AMap "" [("<<", AAlias "b"); ("y", sc "own")]);
           ("two", AMap "" [("z", sc "0"); ("<<", ASeq "" [AAlias "b"; AMap "" [("w", sc "3")]])])].

Example flat_merge_example :
  flat_merges false flat_doc = true /\
  deanchor_doc flat_doc = Ok (AMap "" [("base", AMap "" [("x", sc "1"); ("y", sc "2")]);
                                      ("one", AMap "" [("y", sc "own"); ("x", sc "1")]);
                                      ("two", AMap "" [("z", sc "0"); ("w", sc "3"); ("x", sc "1"); ("y", sc "2")])]).
Proof. split; vm_compute; reflexivity. Qed.

Example chained_merge_not_flat : flat_merges false chained_merge = false.
Proof. vm_compute. reflexivity. Qed.
