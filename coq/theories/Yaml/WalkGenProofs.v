(* Obligations over the tables regenerated from /repo (Gen/WalkTables.v): they tie the constants the
   models and the witnesses use to the current source. A change of the source table makes the
   corresponding obligation fail on the next run. *)
From KV Require Import Yaml.Walk Yaml.Merge2 Yaml.Merge3 Yaml.Merge2Frame Yaml.Merge2Examples Yaml.Merge3Examples
     Yaml.Merge2Identity Gen.WalkTables.
Local Open Scope list_scope.
Local Open Scope string_scope.

(* the directive key of the model is the source's strategicMergePatchDirectiveKey *)
Lemma gen_smp_key_ok : gen_smp_key = smp_key.
Proof. reflexivity. Qed.

(* the model's reading of "$patch" values agrees with smpDirective.String() in iota order:
   "unknown" is not accepted, the other three are the three directives *)
Lemma gen_smp_directives_ok :
  map smp_of_value gen_smp_directives = [None; Some SmpReplace; Some SmpDelete; Some SmpMerge].
Proof. reflexivity. Qed.

(* Sources indexes: dest_of / origin_of / updated_of read positions 0 / 1 / 2 *)
Lemma gen_source_indexes_ok :
  gen_source_indexes = [("DestIndex", 0); ("OriginIndex", 1); ("UpdatedIndex", 2)] /\
  (forall d o u t, dest_of (d :: o :: u :: t) = d /\ origin_of (d :: o :: u :: t) = o /\ updated_of (d :: o :: u :: t) = u).
Proof. split; [reflexivity|]. intros; repeat split. Qed.

(* the option sets used by the theorems and witnesses carry the source's AssociativeSequenceKeys *)
Lemma gen_assoc_keys_ok :
  o_assoc_keys kustomize_opts = gen_assoc_keys /\ o_assoc_keys kopts = gen_assoc_keys /\
  o_assoc_keys iopts = gen_assoc_keys.
Proof. repeat split. Qed.

Definition row := (string * string * list string * string * list string)%type.
Definition row_keys (r : row) : list string := snd r.
Definition row_strategy (r : row) : string := snd (fst r).

(* every schema node with a patch strategy spells "merge", "merge,retainKeys" or "replace" *)
Lemma gen_strategies_ok :
  forallb (fun r : row => str_in (row_strategy r) ["merge"; "merge,retainKeys"; "replace"]) gen_merge_lists = true.
Proof. vm_compute. reflexivity. Qed.

(* the lists with more than one merge key (outside the single-key domain D of the C04 oracles and theorems)
   are exactly the port lists and topologySpreadConstraints *)
Lemma gen_multi_key_lists_ok :
  forallb (fun r : row =>
             Nat.leb (List.length (row_keys r)) 1 ||
             strs_eqb (row_keys r) ["containerPort"; "protocol"] ||
             strs_eqb (row_keys r) ["port"; "protocol"] ||
             strs_eqb (row_keys r) ["topologyKey"; "whenUnsatisfiable"]) gen_merge_lists = true.
Proof. vm_compute. reflexivity. Qed.

Definition row_eqb (a b : row) : bool :=
  let '(k, av, p, s, ks) := a in
  let '(k', av', p', s', ks') := b in
  String.eqb k k' && String.eqb av av' && strs_eqb p p' && String.eqb s s' && strs_eqb ks ks'.

(* the schema of the C04 witnesses (pod_schema) is the source's: Pod spec.containers merges by name *)
Lemma gen_pod_containers_ok :
  existsb (row_eqb ("Pod", "v1", ["spec"; "containers"], "merge", ["name"])) gen_merge_lists = true.
Proof. vm_compute. reflexivity. Qed.

(* metadata.finalizers is a primitive merge list (no key) for the workload kinds *)
Lemma gen_finalizers_primitive_ok :
  existsb (row_eqb ("Deployment", "apps/v1", ["metadata"; "finalizers"], "merge", [])) gen_merge_lists = true.
Proof. vm_compute. reflexivity. Qed.

(* the identity model reads the source's allow annotations and "enabled" value *)
Lemma gen_allow_keys_ok :
  gen_allow_name_key = allow_name_key /\ gen_allow_kind_key = allow_kind_key /\ gen_enabled = "enabled".
Proof. repeat split. Qed.
