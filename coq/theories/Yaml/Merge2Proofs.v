(* Proofs about the merge2 visitor (Yaml/Merge2.v). *)
From KV Require Import Yaml.Walk Yaml.WalkProofs Yaml.Merge2.
Local Open Scope list_scope.

Lemma depth_o_le_of_depth n x : depth x <= n -> depth_o (Some x) <= n.
Proof. auto. Qed.

Lemma determine_smp_le n patch d p' :
  depth_o patch <= n -> determine_smp patch = Ok (d, p') -> depth_o p' <= n.
Proof.
  intros Hp H. destruct patch as [[t s v|kvs|es]|]; unfold determine_smp in H; try discriminate.
  - destruct (find_field smp_key kvs) as [x|]; [|inv H; auto].
    destruct (smp_of_value (node_value x)); inv H. cbn [depth_o] in *.
    destruct n; [exfalso; eapply (depth_le_0 (Map kvs)); eauto|].
    apply map_depth_le. apply remove_first_le. apply map_depth_le; auto.
  - destruct (element_by_key smp_key es) as [[| kvs |]|]; try (inv H; auto; fail).
    destruct (Nat.ltb 1 (List.length kvs)); [inv H; auto|].
    destruct (find_field smp_key kvs) as [x|]; [|inv H; auto].
    destruct (smp_of_value (node_value x)); [|discriminate].
    destruct (element_set None [smp_key] [node_value x] es) as [es'| | |] eqn:E; cbn in H; inv H.
    cbn [depth_o] in *.
    destruct n; [exfalso; eapply (depth_le_0 (Seq es)); eauto|].
    apply seq_depth_le. eapply element_set_le; [apply seq_depth_le; eauto| |exact E].
    intros y Hy; discriminate.
  - inv H. auto.
Qed.

Lemma determine_smp_nd patch : determine_smp patch <> Diverge.
Proof.
  destruct patch as [[t s v|kvs|es]|]; unfold determine_smp; try discriminate.
  - destruct (find_field smp_key kvs) as [x|]; [|discriminate].
    destruct (smp_of_value (node_value x)); discriminate.
  - destruct (element_by_key smp_key es) as [[| kvs |]|]; try discriminate.
    destruct (Nat.ltb 1 (List.length kvs)); [discriminate|].
    destruct (find_field smp_key kvs) as [x|]; [|discriminate].
    destruct (smp_of_value (node_value x)); [|discriminate].
    apply bind_nd; [apply element_set_nd|discriminate].
Qed.

Lemma bounded_set_origin n o srcs : bounded n srcs -> depth_o o <= n -> bounded n (set_origin o srcs).
Proof.
  intros H Ho. unfold set_origin. destruct srcs as [|d [|o' t]]; auto.
  inv H. inv H3. repeat constructor; auto.
Qed.

Lemma bounded_origin n srcs : bounded n srcs -> depth_o (origin_of srcs) <= n.
Proof.
  intros H. unfold origin_of. destruct srcs as [|d [|o t]]; cbn; try lia.
  inv H. inv H3. auto.
Qed.

Lemma bounded_dest n srcs : bounded n srcs -> depth_o (dest_of srcs) <= n.
Proof.
  intros H. unfold dest_of. destruct srcs as [|d t]; cbn; try lia. inv H; auto.
Qed.

Lemma merger_ok : vis_ok merger.
Proof.
  constructor.
  - (* v_map *)
    intros n srcs vr Hb H. cbn in H. unfold m2_visit_map in H.
    pose proof (bounded_origin _ _ Hb) as Ho. pose proof (bounded_dest _ _ Hb) as Hd.
    destruct (o_null (dest_of srcs)) eqn:En.
    + destruct (determine_smp (origin_of srcs)) as [[ps o']| | |] eqn:Ed.
      * pose proof (determine_smp_le _ _ _ _ Ho Ed) as Ho'.
        assert (Hb' : bounded n (set_origin o' srcs)) by (apply bounded_set_origin; auto).
        destruct ps; try (inv H; cbn; split; [auto|intros; discriminate]; fail);
          destruct (origin_of srcs); try (inv H; cbn; split; [auto|intros; discriminate]; fail);
          destruct (dest_of srcs) as [[t s v| |]|]; try (inv H; cbn; split; [auto|intros; discriminate]; fail);
          destruct (negb (String.eqb v "")); inv H; cbn; split; auto; try (intros; discriminate);
          intros x k Hx; inv Hx; cbn in *; auto.
      * assert (Hb' : bounded n (set_origin (origin_of srcs) srcs)) by (apply bounded_set_origin; auto).
        destruct (origin_of srcs); try (inv H; cbn; split; [auto|intros; discriminate]; fail);
          destruct (dest_of srcs) as [[t s v| |]|]; try (inv H; cbn; split; [auto|intros; discriminate]; fail);
          destruct (negb (String.eqb v "")); inv H; cbn; split; auto; try (intros; discriminate);
          intros x k Hx; inv Hx; cbn in *; auto.
      * assert (Hb' : bounded n (set_origin (origin_of srcs) srcs)) by (apply bounded_set_origin; auto).
        destruct (origin_of srcs); try (inv H; cbn; split; [auto|intros; discriminate]; fail);
          destruct (dest_of srcs) as [[t s v| |]|]; try (inv H; cbn; split; [auto|intros; discriminate]; fail);
          destruct (negb (String.eqb v "")); inv H; cbn; split; auto; try (intros; discriminate);
          intros x k Hx; inv Hx; cbn in *; auto.
      * assert (Hb' : bounded n (set_origin (origin_of srcs) srcs)) by (apply bounded_set_origin; auto).
        destruct (origin_of srcs); try (inv H; cbn; split; [auto|intros; discriminate]; fail);
          destruct (dest_of srcs) as [[t s v| |]|]; try (inv H; cbn; split; [auto|intros; discriminate]; fail);
          destruct (negb (String.eqb v "")); inv H; cbn; split; auto; try (intros; discriminate);
          intros x k Hx; inv Hx; cbn in *; auto.
    + destruct (tagged_null (origin_of srcs)); [inv H; cbn; split; [auto|intros; discriminate]|].
      destruct (determine_smp (origin_of srcs)) as [[ps o']| | |] eqn:Ed; cbn in H; try discriminate.
      pose proof (determine_smp_le _ _ _ _ Ho Ed) as Ho'.
      assert (Hb' : bounded n (set_origin o' srcs)) by (apply bounded_set_origin; auto).
      destruct ps; inv H; cbn; split; auto; intros; discriminate.
  - (* v_list *)
    intros b m srcs vr Hb H. set (n := S m) in *. cbn in H. unfold m2_visit_list in H.
    pose proof (bounded_origin _ _ Hb) as Ho.
    destruct (negb b).
    + destruct (origin_of srcs); inv H; cbn; split; auto; intros; discriminate.
    + destruct (o_null (dest_of srcs)).
      { destruct (o_null (origin_of srcs)); [inv H; cbn; split; [auto|intros; discriminate]|].
        destruct (determine_smp (origin_of srcs)) as [[ps o']| | |] eqn:Ed.
        - pose proof (determine_smp_le _ _ _ _ Ho Ed) as Ho'.
          assert (Hb' : bounded n (set_origin o' srcs)) by (apply bounded_set_origin; auto).
          destruct ps; inv H; cbn; split; auto; intros; discriminate.
        - assert (Hb' : bounded n (set_origin (origin_of srcs) srcs)) by (apply bounded_set_origin; auto).
          inv H; cbn; split; auto; intros; discriminate.
        - assert (Hb' : bounded n (set_origin (origin_of srcs) srcs)) by (apply bounded_set_origin; auto).
          inv H; cbn; split; auto; intros; discriminate.
        - assert (Hb' : bounded n (set_origin (origin_of srcs) srcs)) by (apply bounded_set_origin; auto).
          inv H; cbn; split; auto; intros; discriminate. }
      destruct (tagged_null (origin_of srcs)); [inv H; cbn; split; [auto|intros; discriminate]|].
      destruct (determine_smp (origin_of srcs)) as [[ps o']| | |] eqn:Ed; cbn in H; try discriminate.
      pose proof (determine_smp_le _ _ _ _ Ho Ed) as Ho'.
      assert (Hb' : bounded n (set_origin o' srcs)) by (apply bounded_set_origin; auto).
      destruct ps; inv H; cbn; split; auto; intros; discriminate.
  - (* v_scalar *)
    intros n srcs r Hb H x k Hx. cbn in H. unfold m2_visit_scalar in H.
    destruct (origin_of srcs); inv H; discriminate.
  - intros srcs. cbn. unfold m2_visit_map.
    destruct (o_null (dest_of srcs)).
    + destruct (determine_smp (origin_of srcs)) as [[ps o']| | |];
        repeat match goal with
               | |- context [match ?x with _ => _ end] => destruct x; try discriminate
               | |- context [if ?x then _ else _] => destruct x; try discriminate
               end.
    + destruct (tagged_null (origin_of srcs)); [discriminate|].
      apply bind_nd; [apply determine_smp_nd|]. intros [[] o]; discriminate.
  - intros b srcs. cbn. unfold m2_visit_list.
    destruct (negb b); [destruct (origin_of srcs); discriminate|].
    destruct (o_null (dest_of srcs)).
    { destruct (o_null (origin_of srcs)); [discriminate|].
      destruct (determine_smp (origin_of srcs)) as [[[] o']| | |]; discriminate. }
    destruct (tagged_null (origin_of srcs)); [discriminate|].
    apply bind_nd; [apply determine_smp_nd|]. intros [[] o]; discriminate.
  - intros srcs. cbn. unfold m2_visit_scalar. destruct (origin_of srcs); discriminate.
Qed.

Section M2.
  Context {Sc : Type}.
  Variable sch : schema Sc.
  Variable opts : wopts.
  Variable nonstr : string -> bool.

  (* merge2.Merge never runs out of the canonical fuel, whatever the schema, options and documents *)
  Theorem merge2_no_diverge patch target : merge2 sch opts nonstr patch target <> Diverge.
  Proof. unfold merge2. apply walk_top_no_diverge. apply merger_ok. Qed.
End M2.
