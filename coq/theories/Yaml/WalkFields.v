(* The loop of walkMap over the sorted field names ([walk_fields]), characterised field by field:
   on a destination mapping with pairwise different keys, the value finally stored under a key is
   decided by the walk of that key alone, and keys that are not walked keep their value. *)
From KV Require Import Yaml.Walk Yaml.WalkProofs.
Local Open Scope list_scope.

Definition dfield (k : string) (d : node) : option node :=
  match d with Map kvs => find_field k kvs | _ => None end.

Lemma field_of_some k d : field_of k (Some d) = dfield k d.
Proof. destruct d; reflexivity. Qed.

Definition nodupk (kvs : list (string * node)) : Prop := NoDup (keys kvs).

(* ---------- association-list facts ---------- *)
Lemma find_field_none_iff k kvs : find_field k kvs = None <-> ~ In k (keys kvs).
Proof.
  induction kvs as [|[k' v] t IH]; cbn; [tauto|].
  destruct (String.eqb k' k) eqn:E.
  - apply String.eqb_eq in E. subst. split; [discriminate|]. intros H; exfalso; apply H; auto.
  - apply String.eqb_neq in E. rewrite IH. split; [intros H [H1|H1]; auto|intros H H1; apply H; auto].
Qed.

Lemma find_field_set_first_other k key v kvs :
  k <> key -> find_field k (set_first key v kvs) = find_field k kvs.
Proof.
  intros Hne. induction kvs as [|[k' x] t IH]; cbn; auto.
  destruct (String.eqb k' key) eqn:E; cbn.
  - apply String.eqb_eq in E; subst.
    destruct (String.eqb key k) eqn:E2; auto. apply String.eqb_eq in E2; congruence.
  - destruct (String.eqb k' k); auto.
Qed.

Lemma find_field_set_first_same key v kvs :
  In key (keys kvs) -> find_field key (set_first key v kvs) = Some v.
Proof.
  induction kvs as [|[k' x] t IH]; cbn; [tauto|].
  intros H. destruct (String.eqb k' key) eqn:E; cbn.
  - rewrite E. reflexivity.
  - rewrite E. apply IH. destruct H as [H|H]; auto. apply String.eqb_neq in E; congruence.
Qed.

Lemma find_field_remove_first_other k key kvs :
  k <> key -> find_field k (remove_first key kvs) = find_field k kvs.
Proof.
  intros Hne. induction kvs as [|[k' x] t IH]; cbn; auto.
  destruct (String.eqb k' key) eqn:E; cbn.
  - apply String.eqb_eq in E; subst.
    destruct (String.eqb key k) eqn:E2; auto. apply String.eqb_eq in E2; congruence.
  - destruct (String.eqb k' k); auto.
Qed.

Lemma find_field_remove_first_same key kvs :
  nodupk kvs -> find_field key (remove_first key kvs) = None.
Proof.
  unfold nodupk. induction kvs as [|[k' x] t IH]; cbn; auto.
  intros H. inv H. destruct (String.eqb k' key) eqn:E; cbn.
  - apply String.eqb_eq in E; subst. apply find_field_none_iff. auto.
  - rewrite E. auto.
Qed.

Lemma find_field_app k kvs l :
  find_field k (kvs ++ l) = match find_field k kvs with Some v => Some v | None => find_field k l end.
Proof.
  induction kvs as [|[k' x] t IH]; cbn; auto. destruct (String.eqb k' k); auto.
Qed.

Lemma keys_set_first key v kvs : keys (set_first key v kvs) = keys kvs.
Proof.
  induction kvs as [|[k' x] t IH]; cbn; auto. destruct (String.eqb k' key); cbn; [auto|f_equal; auto].
Qed.

Lemma keys_remove_first_incl key kvs k : In k (keys (remove_first key kvs)) -> In k (keys kvs).
Proof.
  induction kvs as [|[k' x] t IH]; cbn; auto. destruct (String.eqb k' key); cbn; [auto|intros [H|H]; auto].
Qed.

Lemma nodupk_remove_first key kvs : nodupk kvs -> nodupk (remove_first key kvs).
Proof.
  unfold nodupk. induction kvs as [|[k' x] t IH]; cbn; auto.
  intros H. inv H. destruct (String.eqb k' key); cbn; auto.
  constructor; auto. intros Hin. apply H2. eapply keys_remove_first_incl; eauto.
Qed.

Lemma nodupk_app_new key v kvs : nodupk kvs -> ~ In key (keys kvs) -> nodupk (kvs ++ [(key, v)]).
Proof.
  unfold nodupk. induction kvs as [|[k' x] t IH]; cbn; intros H Hn.
  - constructor; [intros []|constructor].
  - inv H. constructor.
    + unfold keys in *. rewrite map_app, in_app_iff. cbn. intros [Hi|[Hi|[]]]; auto.
    + apply IH; auto.
Qed.

(* ---------- what FieldSetter leaves under the key it was asked to set ---------- *)
Section Fields.
  Context {Sc : Type}.
  Variable sch : schema Sc.
  Variable nonstr : string -> bool.

  (* value stored under the key after set_field_w key r, given the value stored before *)
  Definition fval (r : option wres) (old : option node) : option node :=
    match r with
    | None => None
    | Some w =>
        if is_null (w_node w) && negb (w_keep w) then None
        else match old with
             | Some o => if w_inplace w then Some (quote11 nonstr (w_node w))
                         else Some (with_style (style_of o) (w_node w))
             | None => Some (quote11 nonstr (w_node w))
             end
    end.

  Lemma set_field_w_map key r kvs d' :
    nodupk kvs -> set_field_w nonstr key r (Map kvs) = Ok d' ->
    exists kvs', d' = Map kvs' /\ nodupk kvs' /\
                 find_field key kvs' = fval r (find_field key kvs) /\
                 (forall k, k <> key -> find_field k kvs' = find_field k kvs).
  Proof.
    intros Hnd H. unfold set_field_w in H.
    assert (Hclear : forall d', clear_field key (Map kvs) = Ok d' ->
              exists kvs', d' = Map kvs' /\ nodupk kvs' /\ find_field key kvs' = None /\
                           (forall k, k <> key -> find_field k kvs' = find_field k kvs)).
    { intros d1 E. cbn in E. inv E. eexists; split; [reflexivity|]. split; [apply nodupk_remove_first; auto|].
      split; [apply find_field_remove_first_same; auto|]. intros; apply find_field_remove_first_other; auto. }
    assert (Hset : forall v keep d', set_field nonstr key (Some v) keep (Map kvs) = Ok d' ->
              exists kvs', d' = Map kvs' /\ nodupk kvs' /\
                           find_field key kvs' = (if is_null v && negb keep then None
                                                  else match find_field key kvs with
                                                       | Some o => Some (with_style (style_of o) v)
                                                       | None => Some (quote11 nonstr v)
                                                       end) /\
                           (forall k, k <> key -> find_field k kvs' = find_field k kvs)).
    { intros v keep d1 E. unfold set_field in E.
      destruct (is_null v && negb keep); [apply Hclear; auto|].
      destruct (find_field key kvs) as [old|] eqn:F; inv E.
      - eexists; split; [reflexivity|]. split; [unfold nodupk; rewrite keys_set_first; auto|].
        split; [apply find_field_set_first_same|intros; apply find_field_set_first_other; auto].
        destruct (find_field_none_iff key kvs) as [_ Hx].
        destruct (in_dec string_dec key (keys kvs)); auto. rewrite Hx in F; auto; discriminate.
      - eexists; split; [reflexivity|].
        assert (Hn : ~ In key (keys kvs)) by (apply find_field_none_iff; auto).
        split; [apply nodupk_app_new; auto|].
        split.
        + rewrite find_field_app, F. cbn. rewrite String.eqb_refl. reflexivity.
        + intros k Hk. rewrite find_field_app. destruct (find_field k kvs); auto. cbn.
          destruct (String.eqb key k) eqn:E; auto. apply String.eqb_eq in E; congruence. }
    destruct r as [w|]; [|cbn [fval]; apply Hclear; auto].
    cbn [fval].
    destruct (w_inplace w) eqn:Ei; cbn [andb] in H.
    - destruct (is_null (w_node w) && negb (w_keep w)) eqn:En; cbn [negb] in H.
      + destruct (Hset _ _ _ H) as [kvs' [-> [H1 [H2 H3]]]]. rewrite En in H2.
        eexists; split; [reflexivity|]; auto.
      + destruct (find_field key kvs) as [old|] eqn:F.
        * inv H. eexists; split; [reflexivity|]. split; [unfold nodupk; rewrite keys_set_first; auto|].
          split; [apply find_field_set_first_same|intros; apply find_field_set_first_other; auto].
          destruct (find_field_none_iff key kvs) as [_ Hx].
          destruct (in_dec string_dec key (keys kvs)); auto. rewrite Hx in F; auto; discriminate.
        * destruct (Hset _ _ _ H) as [kvs' [-> [H1 [H2 H3]]]]. rewrite En in H2. try rewrite F in H2.
          eexists; split; [reflexivity|]; auto.
    - destruct (Hset _ _ _ H) as [kvs' [-> [H1 [H2 H3]]]].
      eexists; split; [reflexivity|]. split; auto.
  Qed.

  (* the sources of the walk of one field depend on dest only through dest's value for that field *)
  Definition fvs (alias : option nat) (srcs : list (option node)) (key : string) (dv : option node)
    : list (option node) :=
    let s := set_nth 0 dv (map (field_of key) srcs) in
    match alias with Some j => set_nth j dv s | None => s end.

  Lemma map_replace_nth {A B} (f : A -> B) i x l : map f (replace_nth i x l) = replace_nth i (f x) (map f l).
  Proof. revert i; induction l as [|h t IH]; intros [|i]; cbn; auto. f_equal; auto. Qed.

  Lemma fv_cur alias d srcs key :
    map (field_of key) (cur_srcs alias d srcs) = fvs alias srcs key (dfield key d).
  Proof.
    unfold cur_srcs, fvs, set_nth. destruct alias as [j|]; rewrite ?map_replace_nth, field_of_some; reflexivity.
  Qed.

  Variable rec : @rec_t Sc.
  Variable sc : option Sc.
  Variable alias : option nat.
  Variable srcs : list (option node).

  (* L0: the loop, key by key *)
  Lemma walk_fields_map names : NoDup names ->
    forall kvs d', nodupk kvs ->
      walk_fields sch nonstr rec sc alias srcs names (Map kvs) = Ok d' ->
      exists kvs', d' = Map kvs' /\ nodupk kvs' /\
        (forall k, ~ In k names -> find_field k kvs' = find_field k kvs) /\
        (forall k, In k names ->
           exists r, rec (child_schema sch sc k) alias (fvs alias srcs k (find_field k kvs)) = Ok r /\
                     find_field k kvs' = fval r (find_field k kvs)).
  Proof.
    induction 1 as [|key rest Hnin Hnd IH]; intros kvs d' Hk H; cbn in H.
    - inv H. eexists; split; [reflexivity|]. split; auto. split; [auto|intros k []].
    - rewrite fv_cur in H. cbn [dfield] in H.
      destruct (rec (child_schema sch sc key) alias (fvs alias srcs key (find_field key kvs))) as [r| | |] eqn:Er;
        cbn in H; try discriminate.
      destruct (set_field_w nonstr key r (Map kvs)) as [d1| | |] eqn:Es; cbn in H; try discriminate.
      destruct (set_field_w_map _ _ _ _ Hk Es) as [kvs1 [-> [Hk1 [Hsame Hother]]]].
      destruct (IH _ _ Hk1 H) as [kvs' [-> [Hk' [Hout Hin]]]].
      eexists; split; [reflexivity|]. split; auto. split.
      + intros k Hn. rewrite Hout by (intros Hi; apply Hn; right; auto).
        apply Hother. intros ->; apply Hn; left; auto.
      + intros k [->|Hi].
        * exists r. split; auto. rewrite Hout by auto. auto.
        * assert (Hne : k <> key) by (intros ->; contradiction).
          destruct (Hin k Hi) as [r' [Hr' Hf']]. rewrite (Hother k Hne) in Hr', Hf'. eauto.
  Qed.
End Fields.
