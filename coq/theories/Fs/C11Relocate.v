(* C11, relocation, over the model build from a file system (Fs/BuildLoad.v:
   model_build = NewLoader ; load_tree ; Pipeline.build).

   Two file systems [fs] and [fs'] hold "the same tree in two places": [phi] says where a directory of the
   tree lives after the move.  What that means is stated on the only two operations the loader uses
   (CleanedAbs and ReadFile), for the directories [D] of the tree and the references [P] its kustomization files
   contain (all relative and local):
     H_clean  CleanedAbs of (dir joined with a reference) gives the moved directory and the same file name,
     H_read   ReadFile of (dir joined with a file name of the tree) gives the same bytes,
     H_prefix the "is in or below" test between directories of the tree is unchanged by the move,
     H_empty  a joined path is empty in one place iff it is in the other.
   Then the loaded trees differ only in the names of their kustomization directories ([rename_dirs phi]) and
   in the roots of the read events, and the build - which never reads those names (PIPE_relocate) - is the same. *)
From KV Require Import Fs.BuildLoad Res.PipelineProofs.
Local Open Scope string_scope.

Section Reloc.
  Variable is_repo : string -> bool.
  Variable git_new : loader -> string -> res loader.
  Variable parse_kust : string -> res (pdirs * list string).
  Variable parse_docs : string -> res (list node).

  Variables fs fs' : fsops.
  Variable phi : string -> string.
  Variable D : string -> Prop.        (* the (confirmed) directories of the tree *)
  Variable P : string -> Prop.        (* the references written in its kustomization files *)
  Variable Fn : string -> Prop.       (* the file names CleanedAbs splits off (and the references themselves) *)

  Hypothesis P_kust : P kust_file.
  Hypothesis P_local : forall p, P p -> is_abs p = false /\ is_repo p = false.
  Hypothesis refs_in_P : forall b d ps, parse_kust b = Ok (d, ps) -> Forall P ps.

  Definition same_place (a : res (string * string)) (b : res (string * string)) : Prop :=
    match a, b with
    | Ok (d, f), Ok (d', f') => d' = phi d /\ f' = f /\ D d /\ Fn f
    | Err, Err | Panic, Panic | Diverge, Diverge => True
    | _, _ => False
    end.

  Hypothesis H_clean : forall r p, D r -> P p ->
    same_place (f_cleaned_abs fs (cd_join r p)) (f_cleaned_abs fs' (cd_join (phi r) p)).
  Hypothesis P_Fn : forall p, P p -> Fn p.
  Hypothesis H_read : forall d f, D d -> Fn f -> f_read_file fs' (cd_join (phi d) f) = f_read_file fs (cd_join d f).
  Hypothesis H_prefix : forall a b, D a -> D b -> cd_has_prefix (phi a) (phi b) = cd_has_prefix a b.
  Hypothesis H_empty : forall r p, D r -> P p ->
    String.eqb (cd_join (phi r) p) "" = String.eqb (cd_join r p) "".

  (* loaders at corresponding places *)
  Definition lrel (l l' : loader) : Prop :=
    l_root l' = phi (l_root l) /\ l_refs l' = map phi (l_refs l) /\ l_restr l' = l_restr l /\
    Forall D (l_stack l).

  Definition ev_rel (e e' : read_ev) : Prop :=
    ev_root e' = phi (ev_root e) /\ ev_ref e' = ev_ref e /\ ev_bytes e' = ev_bytes e.

  (* same outcome class; related values on success *)
  Definition rrel {A B} (R : A -> B -> Prop) (a : res A) (b : res B) : Prop :=
    match a, b with
    | Ok x, Ok y => R x y
    | Err, Err | Panic, Panic | Diverge, Diverge => True
    | _, _ => False
    end.

  Lemma lrel_root l l' : lrel l l' -> D (l_root l).
  Proof. intros (_ & _ & _ & F). inversion F; auto. Qed.

  Lemma load_ev_rel l l' p : lrel l l' -> P p -> rrel ev_rel (load_ev fs l p) (load_ev fs' l' p).
  Proof.
    intros L Pp. pose proof (lrel_root _ _ L) as Dr. destruct L as (R & _ & S & _).
    destruct (P_local p Pp) as [Ab _].
    unfold load_ev, restrict, load_path. rewrite Ab, S, R.
    destruct (l_restr l).
    - unfold restrict_root_only.
      pose proof (H_clean (l_root l) p Dr Pp) as C. unfold same_place in C.
      destruct (f_cleaned_abs fs (cd_join (l_root l) p)) as [[d f]| | |];
        destruct (f_cleaned_abs fs' (cd_join (phi (l_root l)) p)) as [[d' f']| | |]; try contradiction; cbn; auto.
      destruct C as (-> & -> & Dd & Ff).
      destruct (String.eqb f ""); cbn; auto.
      rewrite (H_prefix d (l_root l) Dd Dr).
      destruct (cd_has_prefix d (l_root l)); cbn; auto.
      rewrite (H_read d f Dd Ff).
      destruct (f_read_file fs (cd_join d f)); cbn; auto. repeat split; auto.
    - rewrite (H_read (l_root l) p Dr (P_Fn p Pp)).
      destruct (f_read_file fs (cd_join (l_root l) p)); cbn; auto. repeat split; auto.
  Qed.

  Lemma arg_higher_rel d stack : D d -> Forall D stack ->
    arg_equal_or_higher (phi d) (map phi stack) = arg_equal_or_higher d stack.
  Proof.
    intros Dd. induction 1 as [|r t Dr _ IH]; cbn; [reflexivity|].
    rewrite (H_prefix r d Dr Dd), IH. reflexivity.
  Qed.

  Lemma new_root_rel l l' p : lrel l l' -> P p ->
    rrel lrel (new_root is_repo git_new fs l p) (new_root is_repo git_new fs' l' p).
  Proof.
    intros L Pp. pose proof (lrel_root _ _ L) as Dr. destruct L as (R & Rf & S & F).
    destruct (P_local p Pp) as [Ab Rp].
    destruct l' as [r' rf' s']. cbn [l_root l_refs l_restr] in R, Rf, S. subst r' rf' s'.
    unfold new_root. rewrite Rp, Ab. destruct (String.eqb p ""); cbn [rrel]; auto.
    unfold confirm_dir. cbn [l_root l_restr]. rewrite (H_empty (l_root l) p Dr Pp).
    destruct (String.eqb (cd_join (l_root l) p) ""); cbn [rrel]; auto.
    pose proof (H_clean (l_root l) p Dr Pp) as C. unfold same_place in C.
    destruct (f_cleaned_abs fs (cd_join (l_root l) p)) as [[d f]| | |];
      destruct (f_cleaned_abs fs' (cd_join (phi (l_root l)) p)) as [[d' f']| | |]; try contradiction; cbn [rrel]; auto.
    destruct C as (-> & -> & Dd & _).
    destruct (String.eqb f ""); cbn [rrel]; auto.
    change (l_stack {| l_root := phi (l_root l); l_refs := map phi (l_refs l); l_restr := l_restr l |})
      with (map phi (l_stack l)).
    rewrite (arg_higher_rel d (l_stack l) Dd F).
    destruct (arg_equal_or_higher d (l_stack l)); cbn [rrel]; auto.
    repeat split; cbn; auto. constructor; auto.
  Qed.

  Definition tree_rel (a b : ptree * list read_ev) : Prop :=
    fst b = rename_dirs phi (fst a) /\ Forall2 ev_rel (snd a) (snd b).

  Lemma rrel_class {A B} (R : A -> B -> Prop) a b : rrel R a b -> class_of a = class_of b.
  Proof. destruct a; destruct b; cbn; intros; try contradiction; reflexivity. Qed.

  (* the loaded trees are the same up to the names of the directories *)
  Theorem load_tree_relocate fuel : forall l l', lrel l l' ->
    rrel tree_rel (load_tree is_repo git_new parse_kust parse_docs fuel fs l)
                  (load_tree is_repo git_new parse_kust parse_docs fuel fs' l').
  Proof.
    induction fuel as [|f IH]; intros l l' L; [exact I|].
    unfold load_tree in *. cbn [load_tree_gen].
    pose proof (load_ev_rel l l' kust_file L P_kust) as K.
    destruct (load_ev fs l kust_file) as [ke| | |]; destruct (load_ev fs' l' kust_file) as [ke'| | |];
      try contradiction; cbn [bind]; try exact I.
    destruct K as (Kr & Kf & Kb). rewrite Kb.
    destruct (parse_kust (ev_bytes ke)) as [[d ps]| | |] eqn:EP; cbn [bind]; try exact I.
    pose proof (refs_in_P _ _ _ EP) as Fp. cbn [snd fst].
    (* the resources: loop *)
    match goal with
    | |- rrel _ (bind ?A _) (bind ?B _) =>
        assert (G : rrel (fun x y => fst y = map (rename_dirs phi) (fst x) /\ Forall2 ev_rel (snd x) (snd y)) A B)
    end.
    { clear EP. induction Fp as [|p t Pp _ IHp]; [cbn; split; constructor|].
      pose proof (load_ev_rel l l' p L Pp) as E.
      destruct (load_ev fs l p) as [e| | |]; destruct (load_ev fs' l' p) as [e'| | |]; try contradiction; cbn [bind].
      - destruct E as (Er & Ef & Eb). rewrite Eb.
        destruct (parse_docs (ev_bytes e)) as [docs| | |]; cbn [bind]; try exact I.
        match goal with
        | |- rrel _ (bind ?A _) (bind ?B _) => destruct A as [ra| | |]; destruct B as [rb| | |]; try contradiction; cbn [bind]; try exact I
        end.
        destruct IHp as [I1 I2]. cbn [fst snd]. split; [rewrite I1; reflexivity|].
        constructor; [repeat split; auto|exact I2].
      - pose proof (new_root_rel l l' p L Pp) as N.
        destruct (new_root is_repo git_new fs l p) as [l2| | |];
          destruct (new_root is_repo git_new fs' l' p) as [l2'| | |]; try contradiction; cbn [bind]; try exact I.
        pose proof (IH l2 l2' N) as T.
        destruct (load_tree_gen ptree pdirs (list node) PFile PDir is_repo git_new parse_kust parse_docs f fs l2) as [[t1 e1]| | |];
          destruct (load_tree_gen ptree pdirs (list node) PFile PDir is_repo git_new parse_kust parse_docs f fs' l2') as [[t1' e1']| | |];
          try contradiction; cbn [bind]; try exact I.
        match goal with
        | |- rrel _ (bind ?A _) (bind ?B _) => destruct A as [ra| | |]; destruct B as [rb| | |]; try contradiction; cbn [bind]; try exact I
        end.
        destruct IHp as [I1 I2]. destruct T as [T1 T2]. cbn [fst snd] in *. split; [rewrite I1, T1; reflexivity|].
        apply Forall2_app; auto.
      - exact I.
      - exact I. }
    match goal with
    | |- rrel _ (bind ?A _) (bind ?B _) => destruct A as [ra| | |]; destruct B as [rb| | |]; try contradiction; cbn [bind]; try exact I
    end.
    destruct G as [G1 G2]. destruct L as (R & _). split; cbn [fst snd].
    - rewrite R, G1. reflexivity.
    - constructor; [repeat split; auto|exact G2].
  Qed.

  (* the targets of the two builds name the same place *)
  Variables target target' : string.
  Hypothesis T_repo : is_repo target = false /\ is_repo target' = false.
  Hypothesis T_empty : String.eqb target' "" = String.eqb target "".
  Hypothesis T_clean : same_place (f_cleaned_abs fs target) (f_cleaned_abs fs' target').

  Lemma new_loader_rel r :
    rrel lrel (new_loader is_repo git_new fs r target) (new_loader is_repo git_new fs' r target').
  Proof.
    unfold new_loader. destruct T_repo as [-> ->]. unfold confirm_dir. rewrite T_empty.
    destruct (String.eqb target ""); cbn; auto.
    unfold same_place in T_clean.
    destruct (f_cleaned_abs fs target) as [[d f]| | |]; destruct (f_cleaned_abs fs' target') as [[d' f']| | |];
      try contradiction; cbn; auto.
    destruct T_clean as (-> & -> & Dd & _). destruct (String.eqb f ""); cbn; auto.
    repeat split; cbn; auto. constructor; auto. constructor.
  Qed.

  (* C11_relocate_model_build *)
  Theorem model_build_relocate nonstr o fuel :
    rrel (fun a b => fst b = fst a /\ Forall2 ev_rel (snd a) (snd b))
         (model_build is_repo git_new parse_kust parse_docs nonstr o fuel fs target)
         (model_build is_repo git_new parse_kust parse_docs nonstr o fuel fs' target').
  Proof.
    unfold model_build.
    pose proof (new_loader_rel RootOnly) as N.
    destruct (new_loader is_repo git_new fs RootOnly target) as [l| | |];
      destruct (new_loader is_repo git_new fs' RootOnly target') as [l'| | |]; try contradiction; cbn [bind]; try exact I.
    pose proof (load_tree_relocate fuel l l' N) as T.
    destruct (load_tree is_repo git_new parse_kust parse_docs fuel fs l) as [[t e]| | |];
      destruct (load_tree is_repo git_new parse_kust parse_docs fuel fs' l') as [[t' e']| | |];
      try contradiction; cbn [bind]; try exact I.
    destruct T as [T1 T2]. cbn [fst snd] in *. rewrite T1, build_relocate.
    destruct (build nonstr o t); cbn; auto.
  Qed.

  (* in particular: same outcome class, and on success the same output documents *)
  Corollary model_build_relocate_out nonstr o fuel :
    match model_build is_repo git_new parse_kust parse_docs nonstr o fuel fs target,
          model_build is_repo git_new parse_kust parse_docs nonstr o fuel fs' target' with
    | Ok a, Ok b => fst b = fst a
    | Err, Err | Panic, Panic | Diverge, Diverge => True
    | _, _ => False
    end.
  Proof.
    pose proof (model_build_relocate nonstr o fuel) as H. unfold rrel in H.
    destruct (model_build is_repo git_new parse_kust parse_docs nonstr o fuel fs target);
      destruct (model_build is_repo git_new parse_kust parse_docs nonstr o fuel fs' target'); auto. tauto.
  Qed.
End Reloc.

(* ================= non-vacuity: a concrete tree in two places of an in-memory file system ================= *)

Definition ex_tree_dir (kust cm : string) : mnode :=
  MDir [("top", MDir [("kustomization.yaml", MFile "K1"); ("cm.yaml", MFile "F1")]);
        ("base", MDir [("kustomization.yaml", MFile "K2"); ("d.yaml", MFile "F2")])].

Definition ex_fs1 : mnode := MDir [("a", ex_tree_dir "" "")].
Definition ex_fs2 : mnode := MDir [("b", MDir [("x", ex_tree_dir "" "")]); ("unrelated", MFile "zzz")].

Definition ex_doc (kind name : string) : node :=
  Map [("apiVersion", str_node "v1"); ("kind", str_node kind); ("metadata", Map [("name", str_node name)])].

Definition ex_parse_kust (b : string) : res (pdirs * list string) :=
  if String.eqb b "K1" then Ok (mkPDirs "" "p-" "" [] [] [] [] [], ["cm.yaml"; "../base"])
  else if String.eqb b "K2" then Ok (mkPDirs "" "" "-s" [] [] [] [] [], ["d.yaml"])
  else Err.
Definition ex_parse_docs (b : string) : res (list node) :=
  if String.eqb b "F1" then Ok [ex_doc "ConfigMap" "cm"]
  else if String.eqb b "F2" then Ok [ex_doc "Service" "svc"]
  else Err.

Definition ex_phi (d : string) : string :=
  if String.eqb d "/a/top" then "/b/x/top" else if String.eqb d "/a/base" then "/b/x/base" else d.
Definition ex_D (d : string) : Prop := In d ["/a/top"; "/a/base"].
Definition ex_P (p : string) : Prop := In p ["kustomization.yaml"; "cm.yaml"; "../base"; "d.yaml"].
Definition ex_Fn (f : string) : Prop := In f [""; "kustomization.yaml"; "cm.yaml"; "../base"; "d.yaml"].

Definition ex_build (root : mnode) (target : string) :=
  model_build (fun _ => false) (fun _ _ => Err) ex_parse_kust ex_parse_docs (fun _ => false) PSortNone 5
              (mem_ops root) target.

(* the hypotheses of C11_relocate_model_build hold for this pair ... *)
Example ex_relocate_hyps :
  (forall p, ex_P p -> is_abs p = false /\ (fun _ : string => false) p = false) /\
  (forall b d ps, ex_parse_kust b = Ok (d, ps) -> Forall ex_P ps) /\
  (forall r p, ex_D r -> ex_P p ->
     same_place ex_phi ex_D ex_Fn (f_cleaned_abs (mem_ops ex_fs1) (cd_join r p))
                                  (f_cleaned_abs (mem_ops ex_fs2) (cd_join (ex_phi r) p))) /\
  (forall d f, ex_D d -> ex_Fn f ->
     f_read_file (mem_ops ex_fs2) (cd_join (ex_phi d) f) = f_read_file (mem_ops ex_fs1) (cd_join d f)) /\
  (forall a b, ex_D a -> ex_D b -> cd_has_prefix (ex_phi a) (ex_phi b) = cd_has_prefix a b) /\
  (forall r p, ex_D r -> ex_P p -> String.eqb (cd_join (ex_phi r) p) "" = String.eqb (cd_join r p) "") /\
  same_place ex_phi ex_D ex_Fn (f_cleaned_abs (mem_ops ex_fs1) "/a/top") (f_cleaned_abs (mem_ops ex_fs2) "/b/x/top").
Proof.
  unfold ex_D, ex_P, ex_Fn.
  split; [|split; [|split; [|split; [|split; [|split]]]]].
  - intros p [<-|[<-|[<-|[<-|[]]]]]; split; reflexivity.
  - intros b d ps H. unfold ex_parse_kust in H.
    destruct (String.eqb b "K1").
    { inversion H; subst. apply Forall_forall. intros x [<-|[<-|[]]]; cbn; auto 10. }
    destruct (String.eqb b "K2").
    { inversion H; subst. apply Forall_forall. intros x [<-|[]]; cbn; auto 10. }
    discriminate H.
  - intros r p [<-|[<-|[]]] [<-|[<-|[<-|[<-|[]]]]]; vm_compute; auto 20.
  - intros d f [<-|[<-|[]]] [<-|[<-|[<-|[<-|[<-|[]]]]]]; vm_compute; reflexivity.
  - intros a b [<-|[<-|[]]] [<-|[<-|[]]]; vm_compute; reflexivity.
  - intros r p [<-|[<-|[]]] [<-|[<-|[<-|[<-|[]]]]]; vm_compute; reflexivity.
  - vm_compute. auto 20.
Qed.

(* ... and the two builds give the same documents (names p-cm and p-svc-s), reading from different places *)
Example ex_relocate_builds :
  match ex_build ex_fs1 "/a/top", ex_build ex_fs2 "/b/x/top" with
  | Ok (out1, ev1), Ok (out2, ev2) =>
      out1 = out2 /\ map get_name out1 = ["p-cm"; "p-svc-s"] /\
      map ev_path ev1 = ["/a/top/kustomization.yaml"; "/a/top/cm.yaml"; "/a/base/kustomization.yaml"; "/a/base/d.yaml"] /\
      map ev_path ev2 = ["/b/x/top/kustomization.yaml"; "/b/x/top/cm.yaml"; "/b/x/base/kustomization.yaml"; "/b/x/base/d.yaml"]
  | _, _ => False
  end.
Proof. vm_compute. repeat split. Qed.
